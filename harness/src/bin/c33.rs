//! C33 -- schema changes keep catalog, storage and indexes consistent.
//!
//! A case is one history of DDL / DML statements (CREATE/DROP TABLE, CREATE/DROP INDEX, ALTER TABLE
//! ADD/DROP/CHANGE/MODIFY/ALTER COLUMN, ADD/DROP CONSTRAINT, RENAME TO, INSERT, DELETE, TRUNCATE) with
//! deliberate name reuse and case / quoting / schema-qualification variants, run through the real
//! parser and executors.  After every statement the harness reads all four registries off the
//! implementation (catalog tables, stored tables, catalog indexes, storage indexes with their entries)
//! plus `SELECT *` answers, and
//!   * evaluates the property's own oracle (`Agree`) directly on those observations, and
//!   * writes statement (as parsed), result code and observation into Coq shards where the model of
//!     Store/Catalog.v must reproduce every one of them.
use serde_json::json;
use std::collections::{BTreeMap, BTreeSet};
use vh::out::*;
use vh::rng::Rng;
use vh::sql::{exec, exec_stmt, parse, Outcome};
use vibesql_ast as ast;
use vibesql_catalog::TableSchema;
use vibesql_storage::database::IndexData;
use vibesql_storage::Database;
use vibesql_types::{DataType, SqlValue};

// ------------------------------------------------------------------------------------------------
// statements as the executors receive them (converted from the parser's AST)

#[derive(Clone, Debug, PartialEq)]
struct Col {
    name: String,
    nullable: bool,
    dflt: Option<i64>,
}

#[derive(Clone, Debug, PartialEq)]
enum Kdef {
    Pk(Vec<String>),
    Unique(Vec<String>),
    Check(Option<String>, String),
}

#[derive(Clone, Debug, PartialEq)]
enum Stmt {
    CreateTable { tn: String, cols: Vec<Col>, pk: Option<String> },
    DropTable { tn: String, ie: bool },
    CreateIndex { iname: String, tn: String, unique: bool, cols: Vec<String>, ine: bool },
    DropIndex { iname: String, ie: bool },
    AddColumn { tn: String, c: Col },
    DropColumn { tn: String, cn: String, ie: bool },
    ChangeColumn { tn: String, old: String, c: Col },
    ModifyColumn { tn: String, cn: String, nullable: bool, dflt: Option<i64> },
    SetDefault { tn: String, cn: String, d: i64 },
    DropDefault { tn: String, cn: String },
    SetNotNull { tn: String, cn: String },
    DropNotNull { tn: String, cn: String },
    AddConstraint { tn: String, k: Kdef },
    DropConstraint { tn: String, cname: String },
    RenameTable { tn: String, new: String },
    Insert { tn: String, rows: Vec<Vec<i64>> },
    Delete { tn: String, w: Option<(String, i64)> },
    Truncate { tn: String },
}

fn lit_int(e: &ast::Expression) -> Option<i64> {
    match e {
        ast::Expression::Literal(SqlValue::Integer(i)) => Some(*i),
        _ => None,
    }
}

fn col_of_def(d: &ast::ColumnDef, allow_pk: bool) -> Option<(Col, bool)> {
    if d.data_type != DataType::Integer {
        return None;
    }
    let mut nullable = d.nullable;
    let mut pk = false;
    for c in &d.constraints {
        match c.kind {
            ast::ColumnConstraintKind::NotNull => nullable = false,
            ast::ColumnConstraintKind::PrimaryKey if allow_pk => pk = true,
            _ => return None,
        }
    }
    let dflt = match &d.default_value {
        None => None,
        Some(e) => Some(lit_int(e)?),
    };
    Some((Col { name: d.name.clone(), nullable, dflt }, pk))
}

/// the column a CHECK expression `(c >= literal)` mentions
fn check_col(e: &ast::Expression) -> Option<String> {
    if let ast::Expression::BinaryOp { left, right, .. } = e {
        if let (ast::Expression::ColumnRef { table: None, column }, Some(_)) = (left.as_ref(), lit_int(right)) {
            return Some(column.clone());
        }
    }
    None
}

fn from_ast(s: &ast::Statement) -> Option<Stmt> {
    use ast::Statement as S;
    Some(match s {
        S::CreateTable(c) => {
            if !c.table_constraints.is_empty() {
                return None;
            }
            let mut cols = Vec::new();
            let mut pk = None;
            for d in &c.columns {
                let (col, is_pk) = col_of_def(d, true)?;
                if is_pk {
                    if pk.is_some() {
                        return None;
                    }
                    pk = Some(col.name.clone());
                }
                cols.push(col);
            }
            Stmt::CreateTable { tn: c.table_name.clone(), cols, pk }
        }
        S::DropTable(d) => Stmt::DropTable { tn: d.table_name.clone(), ie: d.if_exists },
        S::CreateIndex(c) => {
            let unique = match c.index_type {
                ast::IndexType::BTree { unique } => unique,
                _ => return None,
            };
            if c.columns.iter().any(|x| x.prefix_length.is_some()) {
                return None;
            }
            Stmt::CreateIndex {
                iname: c.index_name.clone(),
                tn: c.table_name.clone(),
                unique,
                cols: c.columns.iter().map(|x| x.column_name.clone()).collect(),
                ine: c.if_not_exists,
            }
        }
        S::DropIndex(d) => Stmt::DropIndex { iname: d.index_name.clone(), ie: d.if_exists },
        S::AlterTable(a) => match a {
            ast::AlterTableStmt::AddColumn(x) => Stmt::AddColumn { tn: x.table_name.clone(), c: col_of_def(&x.column_def, false)?.0 },
            ast::AlterTableStmt::DropColumn(x) => Stmt::DropColumn { tn: x.table_name.clone(), cn: x.column_name.clone(), ie: x.if_exists },
            ast::AlterTableStmt::ChangeColumn(x) => {
                Stmt::ChangeColumn { tn: x.table_name.clone(), old: x.old_column_name.clone(), c: col_of_def(&x.new_column_def, false)?.0 }
            }
            ast::AlterTableStmt::ModifyColumn(x) => {
                let c = col_of_def(&x.new_column_def, false)?.0;
                Stmt::ModifyColumn { tn: x.table_name.clone(), cn: x.column_name.clone(), nullable: c.nullable, dflt: c.dflt }
            }
            ast::AlterTableStmt::AlterColumn(x) => match x {
                ast::AlterColumnStmt::SetDefault { table_name, column_name, default } => {
                    Stmt::SetDefault { tn: table_name.clone(), cn: column_name.clone(), d: lit_int(default)? }
                }
                ast::AlterColumnStmt::DropDefault { table_name, column_name } => Stmt::DropDefault { tn: table_name.clone(), cn: column_name.clone() },
                ast::AlterColumnStmt::SetNotNull { table_name, column_name } => Stmt::SetNotNull { tn: table_name.clone(), cn: column_name.clone() },
                ast::AlterColumnStmt::DropNotNull { table_name, column_name } => Stmt::DropNotNull { tn: table_name.clone(), cn: column_name.clone() },
            },
            ast::AlterTableStmt::AddConstraint(x) => {
                let k = match &x.constraint.kind {
                    ast::TableConstraintKind::PrimaryKey { columns } => Kdef::Pk(columns.iter().map(|c| c.column_name.clone()).collect()),
                    ast::TableConstraintKind::Unique { columns } => Kdef::Unique(columns.iter().map(|c| c.column_name.clone()).collect()),
                    ast::TableConstraintKind::Check { expr } => Kdef::Check(x.constraint.name.clone(), check_col(expr)?),
                    _ => return None,
                };
                Stmt::AddConstraint { tn: x.table_name.clone(), k }
            }
            ast::AlterTableStmt::DropConstraint(x) => Stmt::DropConstraint { tn: x.table_name.clone(), cname: x.constraint_name.clone() },
            ast::AlterTableStmt::RenameTable(x) => Stmt::RenameTable { tn: x.table_name.clone(), new: x.new_table_name.clone() },
        },
        S::Insert(i) => {
            if !i.columns.is_empty() || i.conflict_clause.is_some() || i.on_duplicate_key_update.is_some() {
                return None;
            }
            let rows = match &i.source {
                ast::InsertSource::Values(v) => {
                    let mut rows = Vec::new();
                    for r in v {
                        let mut row = Vec::new();
                        for e in r {
                            row.push(lit_int(e)?);
                        }
                        rows.push(row);
                    }
                    rows
                }
                _ => return None,
            };
            Stmt::Insert { tn: i.table_name.clone(), rows }
        }
        S::Delete(d) => {
            let w = match &d.where_clause {
                None => None,
                Some(ast::WhereClause::Condition(ast::Expression::BinaryOp { left, op: ast::BinaryOperator::Equal, right })) => {
                    match (left.as_ref(), lit_int(right)) {
                        (ast::Expression::ColumnRef { table: None, column }, Some(v)) => Some((column.clone(), v)),
                        _ => return None,
                    }
                }
                _ => return None,
            };
            Stmt::Delete { tn: d.table_name.clone(), w }
        }
        S::TruncateTable(t) => {
            if t.table_names.len() != 1 || t.if_exists || matches!(t.cascade, Some(ast::TruncateCascadeOption::Cascade)) {
                return None;
            }
            Stmt::Truncate { tn: t.table_names[0].clone() }
        }
        _ => return None,
    })
}

// ------------------------------------------------------------------------------------------------
// Coq printing

fn q(s: &str) -> String {
    assert!(s.is_ascii() && !s.contains('"'), "harness: name outside the printable fragment: {:?}", s);
    format!("\"{}\"", s)
}
fn cn(s: &str) -> String {
    format!("(cs {})", q(s))
}
fn zs(v: &[i64]) -> String {
    format!("[{}]", v.iter().map(|x| if *x < 0 { format!("({})", x) } else { x.to_string() }).collect::<Vec<_>>().join(";"))
}
fn names(v: &[String]) -> String {
    format!("[{}]", v.iter().map(|x| cn(x)).collect::<Vec<_>>().join(";"))
}
fn strs(v: &[String]) -> String {
    format!("[{}]", v.iter().map(|x| q(x)).collect::<Vec<_>>().join(";"))
}
fn b(x: bool) -> &'static str {
    if x {
        "true"
    } else {
        "false"
    }
}
fn coq_col(c: &Col) -> String {
    format!("C {} {} {}", q(&c.name), b(c.nullable), c.dflt.map(|d| d.to_string()).unwrap_or("(-1)".into()))
}
fn oz(o: &Option<i64>) -> String {
    match o {
        Some(d) => format!("(Some {})", d),
        None => "None".into(),
    }
}

impl Stmt {
    fn coq(&self) -> String {
        match self {
            Stmt::CreateTable { tn, cols, pk } => format!(
                "CreateTable {} [{}] {}",
                cn(tn),
                cols.iter().map(coq_col).collect::<Vec<_>>().join(";"),
                pk.as_ref().map(|p| format!("(Some {})", cn(p))).unwrap_or("None".into())
            ),
            Stmt::DropTable { tn, ie } => format!("DropTable {} {}", cn(tn), b(*ie)),
            Stmt::CreateIndex { iname, tn, unique, cols, ine } => format!("CreateIndex {} {} {} {} {}", cn(iname), cn(tn), b(*unique), names(cols), b(*ine)),
            Stmt::DropIndex { iname, ie } => format!("DropIndex {} {}", cn(iname), b(*ie)),
            Stmt::AddColumn { tn, c } => format!("AddColumn {} ({})", cn(tn), coq_col(c)),
            Stmt::DropColumn { tn, cn: c, ie } => format!("DropColumn {} {} {}", cn(tn), cn(c), b(*ie)),
            Stmt::ChangeColumn { tn, old, c } => format!("ChangeColumn {} {} ({})", cn(tn), cn(old), coq_col(c)),
            Stmt::ModifyColumn { tn, cn: c, nullable, dflt } => format!("ModifyColumn {} {} {} {}", cn(tn), cn(c), b(*nullable), oz(dflt)),
            Stmt::SetDefault { tn, cn: c, d } => format!("SetDefault {} {} {}", cn(tn), cn(c), d),
            Stmt::DropDefault { tn, cn: c } => format!("DropDefault {} {}", cn(tn), cn(c)),
            Stmt::SetNotNull { tn, cn: c } => format!("SetNotNull {} {}", cn(tn), cn(c)),
            Stmt::DropNotNull { tn, cn: c } => format!("DropNotNull {} {}", cn(tn), cn(c)),
            Stmt::AddConstraint { tn, k } => format!(
                "AddConstraint {} ({})",
                cn(tn),
                match k {
                    Kdef::Pk(c) => format!("KPrimaryKey {}", names(c)),
                    Kdef::Unique(c) => format!("KUnique {}", names(c)),
                    Kdef::Check(n, c) => format!("KCheck {} {}", n.as_ref().map(|x| format!("(Some {})", cn(x))).unwrap_or("None".into()), cn(c)),
                }
            ),
            Stmt::DropConstraint { tn, cname } => format!("DropConstraint {} {}", cn(tn), cn(cname)),
            Stmt::RenameTable { tn, new } => format!("RenameTable {} {}", cn(tn), cn(new)),
            Stmt::Insert { tn, rows } => format!("Insert {} [{}]", cn(tn), rows.iter().map(|r| zs(r)).collect::<Vec<_>>().join(";")),
            Stmt::Delete { tn, w } => format!(
                "Delete {} {}",
                cn(tn),
                match w {
                    Some((c, v)) => format!("(Some ({}, {}))", cn(c), v),
                    None => "None".into(),
                }
            ),
            Stmt::Truncate { tn } => format!("Truncate {}", cn(tn)),
        }
    }
    fn kind(&self) -> &'static str {
        match self {
            Stmt::CreateTable { .. } => "create-table",
            Stmt::DropTable { .. } => "drop-table",
            Stmt::CreateIndex { .. } => "create-index",
            Stmt::DropIndex { .. } => "drop-index",
            Stmt::AddColumn { .. } => "alter-add-column",
            Stmt::DropColumn { .. } => "alter-drop-column",
            Stmt::ChangeColumn { .. } => "alter-change-column",
            Stmt::ModifyColumn { .. } => "alter-modify-column",
            Stmt::SetDefault { .. } => "alter-set-default",
            Stmt::DropDefault { .. } => "alter-drop-default",
            Stmt::SetNotNull { .. } => "alter-set-not-null",
            Stmt::DropNotNull { .. } => "alter-drop-not-null",
            Stmt::AddConstraint { k: Kdef::Check(..), .. } => "alter-add-check",
            Stmt::AddConstraint { k: Kdef::Pk(..), .. } => "alter-add-primary-key",
            Stmt::AddConstraint { .. } => "alter-add-unique",
            Stmt::DropConstraint { .. } => "alter-drop-constraint",
            Stmt::RenameTable { .. } => "alter-rename-table",
            Stmt::Insert { .. } => "insert",
            Stmt::Delete { .. } => "delete",
            Stmt::Truncate { .. } => "truncate",
        }
    }
    fn table(&self) -> Option<&str> {
        match self {
            Stmt::CreateTable { tn, .. } | Stmt::DropTable { tn, .. } | Stmt::CreateIndex { tn, .. } | Stmt::AddColumn { tn, .. }
            | Stmt::DropColumn { tn, .. } | Stmt::ChangeColumn { tn, .. } | Stmt::ModifyColumn { tn, .. } | Stmt::SetDefault { tn, .. }
            | Stmt::DropDefault { tn, .. } | Stmt::SetNotNull { tn, .. } | Stmt::DropNotNull { tn, .. } | Stmt::AddConstraint { tn, .. }
            | Stmt::DropConstraint { tn, .. } | Stmt::RenameTable { tn, .. } | Stmt::Insert { tn, .. } | Stmt::Delete { tn, .. }
            | Stmt::Truncate { tn } => Some(tn),
            Stmt::DropIndex { .. } => None,
        }
    }
}

// ------------------------------------------------------------------------------------------------
// observation of the implementation

const PROBES: [&str; 8] = ["A", "B", "C", "D", "E", "b", "a", "X"];

#[derive(Clone, Debug, PartialEq)]
struct OSchema {
    name: String,
    cols: Vec<Col>,
    pk: Option<Vec<String>>,
    uniques: Vec<Vec<String>>,
    checks: Vec<(String, String)>,
    probes: Vec<(String, i64)>,
}

#[derive(Clone, Debug, PartialEq)]
struct OIndex {
    key: String,
    name: String,
    table: String,
    unique: bool,
    cols: Vec<String>,
    data: Vec<(Vec<i64>, Vec<i64>)>,
}

#[derive(Clone, Debug, PartialEq)]
struct Obs {
    cat: Vec<OSchema>,
    tabs: Vec<(String, OSchema, Vec<Vec<i64>>)>,
    cidx: Vec<(String, String, Vec<String>, bool)>, // name, table, cols, unique
    sidx: Vec<OIndex>,
    sel: Vec<(String, Option<Vec<Vec<i64>>>)>,
}

fn val(v: &SqlValue) -> i64 {
    match v {
        SqlValue::Null => -1,
        SqlValue::Integer(i) => {
            assert!(*i >= 0, "harness: negative value stored");
            *i
        }
        SqlValue::Double(f) | SqlValue::Numeric(f) => {
            assert!(*f >= 0.0 && f.fract() == 0.0, "harness: unexpected index key {:?}", v);
            *f as i64
        }
        other => panic!("harness: value outside the fragment: {:?}", other),
    }
}

fn oschema(sc: &TableSchema) -> OSchema {
    OSchema {
        name: sc.name.clone(),
        cols: sc
            .columns
            .iter()
            .map(|c| Col {
                name: c.name.clone(),
                nullable: c.nullable,
                dflt: c.default_value.as_ref().map(|e| lit_int(e).expect("harness: default outside the fragment")),
            })
            .collect(),
        pk: sc.primary_key.clone(),
        uniques: sc.unique_constraints.clone(),
        checks: sc.check_constraints.iter().map(|(n, e)| (n.clone(), check_col(e).expect("harness: check outside the fragment"))).collect(),
        probes: PROBES.iter().map(|p| (p.to_string(), sc.get_column_index(p).map(|i| i as i64).unwrap_or(-1))).collect(),
    }
}

fn quoted(n: &str) -> String {
    match n.split_once('.') {
        Some((a, b)) => format!("\"{}\".\"{}\"", a, b),
        None => format!("\"{}\"", n),
    }
}

fn observe(db: &mut Database) -> Obs {
    let mut listed = db.catalog.list_tables();
    listed.sort();
    let cat: Vec<OSchema> = listed.iter().filter_map(|t| db.catalog.get_table(t).map(oschema)).collect();
    // a listed name that the catalog cannot resolve is itself recorded (as a schema-less entry)
    let mut cat = cat;
    for t in &listed {
        if db.catalog.get_table(t).is_none() {
            cat.push(OSchema { name: format!("?{}", t), cols: vec![], pk: None, uniques: vec![], checks: vec![], probes: vec![] });
        }
    }
    let mut keys: Vec<String> = db.tables.keys().cloned().collect();
    keys.sort();
    let tabs = keys
        .iter()
        .map(|k| {
            let t = &db.tables[k];
            (k.clone(), oschema(&t.schema), t.scan().iter().map(|r| r.values.iter().map(val).collect()).collect())
        })
        .collect();
    let mut cidx: Vec<(String, String, Vec<String>, bool)> = db
        .catalog
        .list_all_indexes()
        .iter()
        .map(|i| (i.name.clone(), i.table_name.clone(), i.columns.iter().map(|c| c.column_name.clone()).collect(), i.is_unique))
        .collect();
    cidx.sort();
    let mut si = db.list_indexes();
    si.sort();
    let sidx = si
        .iter()
        .map(|k| {
            let m = db.get_index(k).expect("harness: listed index has no metadata");
            let data = match db.get_index_data(k) {
                Some(IndexData::InMemory { data }) => data.iter().map(|(k, v)| (k.iter().map(val).collect(), v.iter().map(|x| *x as i64).collect())).collect(),
                Some(_) => panic!("harness: disk-backed index in the fragment"),
                None => vec![(vec![-7], vec![])], // metadata without data (only after a panic inside create_index)
            };
            OIndex { key: k.clone(), name: m.index_name.clone(), table: m.table_name.clone(), unique: m.unique, cols: m.columns.iter().map(|c| c.column_name.clone()).collect(), data }
        })
        .collect();
    // SELECT * probes: every listed name, every stored key without its schema prefix, and case variants
    let mut probe: BTreeSet<String> = BTreeSet::new();
    for t in &listed {
        probe.insert(t.clone());
        probe.insert(t.to_lowercase());
        probe.insert(t.to_uppercase());
    }
    for k in &keys {
        probe.insert(k.clone());
        if let Some((_, t)) = k.split_once('.') {
            probe.insert(t.to_string());
        }
    }
    let sel = probe
        .into_iter()
        .map(|n| {
            let o = exec(db, &format!("SELECT * FROM {}", quoted(&n)));
            let rows = match o {
                Outcome::Rows(r) => Some(r.iter().map(|row| row.iter().map(val).collect()).collect()),
                _ => None,
            };
            (n, rows)
        })
        .collect();
    Obs { cat, tabs, cidx, sidx, sel }
}

fn coq_oschema(s: &OSchema) -> String {
    format!(
        "(OS {} [{}] [{}] [{}] [{}] [{}])",
        q(&s.name),
        s.cols.iter().map(coq_col).collect::<Vec<_>>().join(";"),
        s.pk.as_ref().map(|p| strs(p)).unwrap_or_default(),
        s.uniques.iter().map(|u| strs(u)).collect::<Vec<_>>().join(";"),
        s.checks.iter().map(|(n, c)| format!("({},{})", q(n), q(c))).collect::<Vec<_>>().join(";"),
        s.probes.iter().map(|(n, i)| format!("({},{})", q(n), if *i < 0 { "(-1)".to_string() } else { i.to_string() })).collect::<Vec<_>>().join(";"),
    )
}

fn coq_rows(r: &[Vec<i64>]) -> String {
    format!("[{}]", r.iter().map(|x| zs(x)).collect::<Vec<_>>().join(";"))
}

fn coq_obs(o: &Obs) -> String {
    format!(
        "Full (mkobs [{}] [{}] [{}] [{}] [{}])",
        o.cat.iter().map(coq_oschema).collect::<Vec<_>>().join(";"),
        o.tabs.iter().map(|(k, s, r)| format!("OT {} {} {}", q(k), coq_oschema(s), coq_rows(r))).collect::<Vec<_>>().join(";"),
        o.cidx.iter().map(|(n, t, c, u)| format!("OC {} {} {} {}", q(n), q(t), strs(c), b(*u))).collect::<Vec<_>>().join(";"),
        o.sidx
            .iter()
            .map(|i| {
                format!(
                    "OI {} {} {} {} {} [{}]",
                    q(&i.key),
                    q(&i.name),
                    q(&i.table),
                    b(i.unique),
                    strs(&i.cols),
                    i.data.iter().map(|(k, v)| format!("({},{})", zs(k), zs(v))).collect::<Vec<_>>().join(";")
                )
            })
            .collect::<Vec<_>>()
            .join(";"),
        o.sel
            .iter()
            .map(|(n, r)| format!("OQ {} {}", q(n), match r {
                Some(rows) => format!("(Some {})", coq_rows(rows)),
                None => "None".into(),
            }))
            .collect::<Vec<_>>()
            .join(";"),
    )
}

// ------------------------------------------------------------------------------------------------
// the property's own oracle, evaluated on the implementation's registries (default mode)

/// components of `Agree`; value = description of the first offender
fn agree_components(db: &mut Database, o: &Obs) -> BTreeMap<&'static str, String> {
    let mut bad: BTreeMap<&'static str, String> = BTreeMap::new();
    let mut put = |k: &'static str, v: String| {
        bad.entry(k).or_insert(v);
    };
    // listed <-> stored
    let listed: BTreeSet<String> = o.cat.iter().map(|s| s.name.clone()).collect();
    let stored: BTreeSet<String> = o.tabs.iter().map(|(k, _, _)| k.strip_prefix("public.").unwrap_or(k).to_string()).collect();
    if listed != stored {
        put("listed-stored", format!("listed {:?} stored {:?}", listed, stored));
    }
    // schema copies equal; listed tables queryable with their declared columns
    for s in &o.cat {
        let real = db.catalog.get_table(&s.name).cloned();
        let key = format!("public.{}", s.name);
        if let (Some(csc), Some(tb)) = (real, db.tables.get(&key)) {
            if csc != tb.schema {
                let cc: Vec<&str> = csc.columns.iter().map(|c| c.name.as_str()).collect();
                let sc: Vec<&str> = tb.schema.columns.iter().map(|c| c.name.as_str()).collect();
                put("schema-copies", format!("table {}: catalog columns {:?}, stored columns {:?} (or attributes/constraints differ)", s.name, cc, sc));
            }
            for r in tb.scan() {
                if r.values.len() != tb.schema.columns.len() {
                    put("row-width", format!("table {}: row of width {} under {} stored columns", s.name, r.values.len(), tb.schema.columns.len()));
                }
            }
        }
        match exec(db, &format!("SELECT * FROM {}", quoted(&s.name))) {
            Outcome::Rows(rows) => {
                if rows.iter().any(|r| r.len() != s.cols.len()) {
                    put("queryable", format!("SELECT * FROM {} yields rows of a width other than the {} declared columns", s.name, s.cols.len()));
                }
            }
            other => put("queryable", format!("SELECT * FROM {} -> {}", s.name, other.tag())),
        }
        for c in &s.cols {
            let o2 = exec(db, &format!("SELECT \"{}\" FROM {}", c.name, quoted(&s.name)));
            if !o2.is_ok() {
                put("queryable", format!("SELECT {} FROM {} -> {}", c.name, s.name, o2.tag()));
            }
        }
    }
    // the two index registries describe the same indexes
    let cset: BTreeSet<(String, String, Vec<String>, bool)> = o.cidx.iter().map(|(n, t, c, u)| (n.to_uppercase(), t.clone(), c.clone(), *u)).collect();
    let sset: BTreeSet<(String, String, Vec<String>, bool)> = o.sidx.iter().map(|i| (i.key.clone(), i.table.clone(), i.cols.clone(), i.unique)).collect();
    if cset != sset || cset.len() != o.cidx.len() {
        put("index-registries", format!("catalog {:?} storage {:?}", o.cidx.iter().map(|x| format!("{}.{}", x.1, x.0)).collect::<Vec<_>>(), o.sidx.iter().map(|x| format!("{}.{}", x.table, x.name)).collect::<Vec<_>>()));
    }
    // every index's table is listed, its columns exist, its entries mirror the rows
    let mut idx_tabs: Vec<(String, String, Vec<String>)> = o.cidx.iter().map(|(n, t, c, _)| (n.clone(), t.clone(), c.clone())).collect();
    idx_tabs.extend(o.sidx.iter().map(|i| (i.name.clone(), i.table.clone(), i.cols.clone())));
    for (n, t, cols) in &idx_tabs {
        if !listed.contains(t) {
            put("index-table-listed", format!("index {} names table {} which is not listed", n, t));
            continue;
        }
        let csc = o.cat.iter().find(|s| &s.name == t);
        let ssc = o.tabs.iter().find(|(k, _, _)| k == &format!("public.{}", t)).map(|x| &x.1);
        for c in cols {
            if csc.map(|s| !s.cols.iter().any(|x| &x.name == c)).unwrap_or(false) || ssc.map(|s| !s.cols.iter().any(|x| &x.name == c)).unwrap_or(false) {
                put("index-columns-exist", format!("index {} on {} names column {} which the table does not have", n, t, c));
            }
        }
    }
    for i in &o.sidx {
        if let Some((_, ssc, rows)) = o.tabs.iter().find(|(k, _, _)| k == &format!("public.{}", i.table)) {
            let pos: Option<Vec<usize>> = i.cols.iter().map(|c| ssc.cols.iter().position(|x| &x.name == c)).collect();
            if let Some(pos) = pos {
                let mut want: BTreeMap<Vec<i64>, Vec<i64>> = BTreeMap::new();
                let mut ok = true;
                for (ri, r) in rows.iter().enumerate() {
                    if pos.iter().any(|p| *p >= r.len()) {
                        ok = false;
                        break;
                    }
                    want.entry(pos.iter().map(|p| r[*p]).collect()).or_default().push(ri as i64);
                }
                let have: BTreeMap<Vec<i64>, Vec<i64>> = i.data.iter().cloned().collect();
                if ok && want != have {
                    put("index-mirror", format!("index {} on {}: entries {:?}, rows demand {:?}", i.name, i.table, have, want));
                }
            }
        }
    }
    bad
}

/// point queries through the executor (which may use the index) agree with a filter of SELECT *
fn index_lookup_check(db: &mut Database, o: &Obs) -> Option<String> {
    for i in &o.sidx {
        if i.cols.len() != 1 {
            continue;
        }
        let t = &i.table;
        if !o.cat.iter().any(|s| &s.name == t) {
            continue;
        }
        let all = match exec(db, &format!("SELECT * FROM {}", quoted(t))) {
            Outcome::Rows(r) => r,
            _ => continue,
        };
        let ssc = match o.tabs.iter().find(|(k, _, _)| k == &format!("public.{}", t)) {
            Some(x) => &x.1,
            None => continue,
        };
        let p = match ssc.cols.iter().position(|x| x.name == i.cols[0]) {
            Some(p) => p,
            None => continue,
        };
        let vals: BTreeSet<i64> = all.iter().filter_map(|r| r.get(p)).map(val).filter(|v| *v >= 0).collect();
        for v in vals.iter().take(4) {
            let got = exec(db, &format!("SELECT * FROM {} WHERE \"{}\" = {}", quoted(t), i.cols[0], v));
            let want: Vec<Vec<SqlValue>> = all.iter().filter(|r| r.get(p).map(val) == Some(*v)).cloned().collect();
            match got {
                Outcome::Rows(g) => {
                    if vh::sql::canon_bag(&g) != vh::sql::canon_bag(&want) {
                        return Some(format!("SELECT * FROM {} WHERE {} = {} returns {:?}, the table holds {:?}", t, i.cols[0], v, vh::sql::canon_bag(&g), vh::sql::canon_bag(&want)));
                    }
                }
                Outcome::Panic(m) => return Some(format!("SELECT * FROM {} WHERE {} = {} panics: {}", t, i.cols[0], v, m)),
                _ => {}
            }
        }
    }
    None
}

fn is_plain(n: &str) -> bool {
    !n.contains('.')
}

/// narrow classifier: which known class (if any) explains that `comp` broke at this statement
fn classify(st: &Stmt, ok: bool, comp: &str, before: &Obs) -> &'static str {
    let tn = st.table().unwrap_or("");
    let exact_listed = before.cat.iter().any(|s| s.name == tn);
    let schema_comps = ["schema-copies", "queryable"];
    match st {
        Stmt::AddColumn { .. } if ok && schema_comps.contains(&comp) => "alter-add-column-catalog-not-updated",
        Stmt::DropColumn { .. } if ok && schema_comps.contains(&comp) => "alter-drop-column-catalog-not-updated",
        Stmt::DropColumn { .. } if ok && comp == "index-columns-exist" => "alter-drop-column-leaves-index",
        Stmt::ChangeColumn { .. } if ok && schema_comps.contains(&comp) => "alter-change-column-catalog-not-updated",
        Stmt::ChangeColumn { .. } if ok && comp == "index-columns-exist" => "alter-change-column-leaves-index",
        Stmt::ModifyColumn { .. } | Stmt::SetDefault { .. } | Stmt::DropDefault { .. } | Stmt::SetNotNull { .. } | Stmt::DropNotNull { .. }
            if ok && comp == "schema-copies" =>
        {
            "alter-column-attribute-catalog-not-updated"
        }
        Stmt::AddConstraint { k: Kdef::Check(..), .. } if ok && comp == "schema-copies" => "alter-add-check-catalog-not-updated",
        Stmt::AddConstraint { .. } | Stmt::DropConstraint { .. } if !ok && !exact_listed && comp == "schema-copies" => "alter-constraint-case-variant-table-name",
        Stmt::DropTable { tn, .. } if ok && !is_plain(tn) && (comp == "index-table-listed" || comp == "index-registries") => "drop-table-qualified-name-leaves-indexes",
        Stmt::RenameTable { .. } if comp == "index-table-listed" => "rename-table-leaves-indexes",
        Stmt::DropIndex { iname, .. } if ok && comp == "index-registries" && !before.cidx.iter().any(|c| &c.0 == iname) => "drop-index-case-variant-desync",
        Stmt::Truncate { tn } if ok && !is_plain(tn) && comp == "index-mirror" => "truncate-qualified-name-stale-index-entries",
        _ => "agree-broken",
    }
}

// ------------------------------------------------------------------------------------------------
// generator

struct Gen {
    r: Rng,
    fresh: i64,
    graveyard: Vec<i64>,
    ci_mode: bool,
    /// histories that stay outside every known class: `Agree` must hold after each statement
    clean: bool,
    creating: bool,
}

const TABLES: [&str; 3] = ["T0", "T1", "T2"];
const COLS: [&str; 5] = ["A", "B", "C", "D", "E"];
const INDEXES: [&str; 4] = ["IX0", "IX1", "IX2", "IX3"];

impl Gen {
    fn pick<'a>(&mut self, v: &'a [&'a str]) -> &'a str {
        v[self.r.below(v.len() as u64) as usize]
    }
    /// how a table name is written: plain, lower-case (same identifier after the lexer), delimited
    /// lower-case (a different identifier), schema-qualified with the real schema name, qualified
    /// with the folded schema name (no such schema in the default mode)
    fn table_text(&mut self, base: &str, allow_qualified: bool, variants: bool) -> String {
        let x = self.r.below(100);
        if self.clean && !self.creating {
            return if x < 85 { base.to_string() } else { base.to_lowercase() };
        }
        if !variants || x < 62 {
            base.to_string()
        } else if x < 70 {
            base.to_lowercase()
        } else if x < 80 {
            format!("\"{}\"", base.to_lowercase())
        } else if x < 84 {
            format!("\"{}\"", base)
        } else if allow_qualified {
            if x < 96 {
                format!("\"public\".{}", base)
            } else {
                format!("public.{}", base)
            }
        } else {
            base.to_string()
        }
    }
    fn index_text(&mut self, base: &str) -> String {
        let x = self.r.below(100);
        if x < 70 {
            base.to_string()
        } else if x < 78 {
            base.to_lowercase()
        } else if x < 92 {
            format!("\"{}\"", base.to_lowercase())
        } else {
            format!("\"{}\"", base)
        }
    }
    fn col_text(&mut self, base: &str) -> String {
        let x = self.r.below(100);
        if x < 88 {
            base.to_string()
        } else if x < 94 {
            base.to_lowercase()
        } else {
            format!("\"{}\"", base.to_lowercase())
        }
    }
    fn fresh(&mut self) -> i64 {
        self.fresh += 1;
        self.fresh
    }
}

/// listed tables (catalog), with the stored schema's columns where a stored table exists
fn live_tables(db: &Database) -> Vec<(String, Vec<String>, Vec<String>)> {
    let mut l = db.catalog.list_tables();
    l.sort();
    l.into_iter()
        .map(|t| {
            let cc = db.catalog.get_table(&t).map(|s| s.columns.iter().map(|c| c.name.clone()).collect()).unwrap_or_default();
            let sc = db.get_table(&t).map(|tb| tb.schema.columns.iter().map(|c| c.name.clone()).collect()).unwrap_or_default();
            (t, cc, sc)
        })
        .collect()
}

fn unconstrained(db: &Database, t: &str) -> bool {
    let c = db.catalog.get_table(t).map(|s| s.primary_key.is_none() && s.unique_constraints.is_empty()).unwrap_or(false);
    let s = db.get_table(t).map(|tb| tb.schema.primary_key.is_none() && tb.schema.unique_constraints.is_empty()).unwrap_or(false);
    c && s
}

/// delete/executor.rs extract_primary_key_lookup: single-column catalog primary key = the WHERE column
fn pk_fast_path(db: &Database, t: &str, col: &str) -> bool {
    match db.catalog.get_table(t) {
        Some(sc) => match (sc.get_primary_key_indices(), sc.get_column_index(col)) {
            (Some(pk), Some(ci)) => pk.len() == 1 && pk[0] == ci,
            _ => false,
        },
        None => false,
    }
}

/// is the stored table's PRIMARY KEY hash index what a rebuild from the current rows would give?
fn pk_hash_out_of_step(db: &Database, t: &str) -> bool {
    let tb = match db.get_table(t) {
        Some(tb) => tb,
        None => return false,
    };
    let have = match tb.primary_key_index() {
        Some(h) => h,
        None => return false,
    };
    let idxs = match tb.schema.get_primary_key_indices() {
        Some(i) => i,
        None => return true,
    };
    let mut want: std::collections::HashMap<Vec<SqlValue>, usize> = std::collections::HashMap::new();
    for (ri, r) in tb.scan().iter().enumerate() {
        if idxs.iter().any(|i| *i >= r.values.len()) {
            return true;
        }
        want.insert(idxs.iter().map(|i| r.values[*i].clone()).collect(), ri);
    }
    &want != have
}

fn as_ident(name: &str) -> String {
    // how to write an existing object's name so that the lexer gives it back unchanged
    if name.chars().all(|c| c.is_ascii_uppercase() || c.is_ascii_digit() || c == '_') {
        name.to_string()
    } else {
        format!("\"{}\"", name)
    }
}

fn gen_stmt(g: &mut Gen, db: &Database, pos: usize) -> String {
    let live = live_tables(db);
    let have = !live.is_empty();
    // target: mostly an existing table, written mostly the way it is listed
    let pick_live = |g: &mut Gen, live: &Vec<(String, Vec<String>, Vec<String>)>| -> (String, Vec<String>, Vec<String>) {
        live[g.r.below(live.len() as u64) as usize].clone()
    };
    let roll = if pos < 2 || !have { g.r.below(14) } else { g.r.below(100) };
    // clean histories: two thirds of the ALTER share goes to DML and index DDL
    let roll = if g.clean && roll >= 70 {
        match roll {
            70..=77 => 20, // INSERT
            78..=83 => 40, // CREATE INDEX
            84..=86 => 48, // DROP INDEX
            87..=89 => 60, // DELETE
            _ => roll,
        }
    } else {
        roll
    };
    let existing_or_base = |g: &mut Gen| -> (String, Vec<String>, Vec<String>) {
        if have && g.r.chance(9, 10) {
            pick_live(g, &live)
        } else {
            (g.pick(&TABLES).to_string(), vec![], vec![])
        }
    };
    match roll {
        // CREATE TABLE
        0..=13 => {
            let base = g.pick(&TABLES).to_string();
            g.creating = true;
            let name = g.table_text(&base, true, true);
            g.creating = false;
            let n = g.r.range(1, 3) as usize;
            let pk = if g.r.chance(1, 4) { Some(g.r.below(n as u64) as usize) } else { None };
            let mut cols = Vec::new();
            for i in 0..n {
                let mut c = format!("{} INTEGER", if i == 1 && g.r.chance(1, 12) { "\"b\"".to_string() } else { COLS[i].to_string() });
                if g.r.chance(1, 8) {
                    c += &format!(" DEFAULT {}", g.r.range(1, 9));
                }
                if Some(i) == pk {
                    c += " PRIMARY KEY";
                } else if g.r.chance(1, 8) {
                    c += " NOT NULL";
                }
                cols.push(c);
            }
            format!("CREATE TABLE {} ({})", name, cols.join(", "))
        }
        // INSERT
        14..=33 => {
            let (t, cc, _) = existing_or_base(g);
            let mut width = if cc.is_empty() { 2 } else { cc.len() };
            if g.r.chance(1, 12) {
                width = std::cmp::max(1, width as i64 + g.r.range(-1, 1)) as usize;
            }
            let nrows = if g.r.chance(1, 4) { g.r.range(2, 3) } else { 1 };
            let reuse_ok = unconstrained(db, &t) && !g.graveyard.is_empty();
            let mut rows = Vec::new();
            for _ in 0..nrows {
                let mut vals = Vec::new();
                for _ in 0..width {
                    let v = if reuse_ok && g.r.chance(1, 4) { g.graveyard[g.r.below(g.graveyard.len() as u64) as usize] } else { g.fresh() };
                    vals.push(v.to_string());
                }
                rows.push(format!("({})", vals.join(", ")));
            }
            // the lower-case spelling denotes the same table only for an all-upper-case name
            let plain_upper = t.chars().all(|c| c.is_ascii_uppercase() || c.is_ascii_digit());
            let name = if plain_upper && g.r.chance(1, 10) { t.to_lowercase() } else { as_ident(&t) };
            format!("INSERT INTO {} VALUES {}", name, rows.join(", "))
        }
        // CREATE INDEX
        34..=45 => {
            let (t, cc, sc) = existing_or_base(g);
            let pool: Vec<String> = if g.r.chance(1, 5) { sc.clone() } else { cc.clone() };
            let pool: Vec<String> = if pool.is_empty() || g.r.chance(1, 12) { COLS.iter().map(|s| s.to_string()).collect() } else { pool };
            let ncols = if g.r.chance(1, 6) && pool.len() > 1 { 2 } else { 1 };
            let mut cols = Vec::new();
            for _ in 0..ncols {
                let c = pool[g.r.below(pool.len() as u64) as usize].clone();
                let txt = if c.chars().all(|x| x.is_ascii_uppercase()) { g.col_text(&c) } else { format!("\"{}\"", c) };
                if !cols.contains(&txt) {
                    cols.push(txt);
                }
            }
            let base = g.pick(&INDEXES).to_string();
            let iname = g.index_text(&base);
            let tname = if is_plain(&t) && t.chars().all(|c| c.is_ascii_uppercase() || c.is_ascii_digit()) { g.table_text(&t, false, true) } else { as_ident(&t) };
            format!(
                "CREATE {}INDEX {}{} ON {} ({})",
                if g.r.chance(1, 4) { "UNIQUE " } else { "" },
                if g.r.chance(1, 10) { "IF NOT EXISTS " } else { "" },
                iname,
                tname,
                cols.join(", ")
            )
        }
        // DROP INDEX
        46..=51 => {
            let mut existing: Vec<String> = db.catalog.list_all_indexes().iter().map(|i| i.name.clone()).collect();
            existing.sort();
            let txt = if !existing.is_empty() && g.r.chance(4, 5) {
                let n = existing[g.r.below(existing.len() as u64) as usize].clone();
                match g.r.below(10) {
                    0 if !g.clean => format!("\"{}\"", n.to_lowercase()),
                    1 if !g.clean => n.to_uppercase(),
                    _ => as_ident(&n),
                }
            } else if g.clean {
                "NOPE".to_string()
            } else {
                let base = g.pick(&INDEXES).to_string();
                g.index_text(&base)
            };
            format!("DROP INDEX {}{}", if g.r.chance(1, 8) { "IF EXISTS " } else { "" }, txt)
        }
        // DROP TABLE
        52..=58 => {
            let (t, _, _) = existing_or_base(g);
            let name = if t.chars().all(|c| c.is_ascii_uppercase() || c.is_ascii_digit()) { g.table_text(&t, true, true) } else { as_ident(&t) };
            format!("DROP TABLE {}{}", if g.r.chance(1, 8) { "IF EXISTS " } else { "" }, name)
        }
        // DELETE
        59..=66 => {
            let (t, cc, _) = existing_or_base(g);
            let name = as_ident(&t);
            if g.r.chance(1, 4) {
                format!("DELETE FROM {}", name)
            } else {
                let pool: Vec<String> = if cc.is_empty() || g.r.chance(1, 10) { COLS.iter().map(|s| s.to_string()).collect() } else { cc.clone() };
                let c = pool[g.r.below(pool.len() as u64) as usize].clone();
                // an existing value of that column (by the stored position of the catalog's column), else any
                let mut v = g.r.range(100, std::cmp::max(101, g.fresh));
                if let Some(tb) = db.get_table(&t) {
                    let rows = tb.scan();
                    if !rows.is_empty() && g.r.chance(5, 6) {
                        let r = &rows[g.r.below(rows.len() as u64) as usize];
                        let ints: Vec<i64> = r.values.iter().filter_map(|x| if let SqlValue::Integer(i) = x { Some(*i) } else { None }).collect();
                        if !ints.is_empty() {
                            v = ints[g.r.below(ints.len() as u64) as usize];
                        }
                    }
                }
                // The model describes the stored table's PRIMARY KEY hash index (hidden state) by its content:
                // the last row carrying each key.  ADD/DROP/CHANGE COLUMN can leave the real hash index out
                // of step with the rows until the next rebuild; on such a table no primary-key point delete
                // is issued (stated assumption of the model, checked here on the real hash index).
                if pk_fast_path(db, &t, &c) && pk_hash_out_of_step(db, &t) {
                    return format!("DELETE FROM {}", name);
                }
                let ctext = if c.chars().all(|x| x.is_ascii_uppercase()) { c } else { format!("\"{}\"", c) };
                format!("DELETE FROM {} WHERE {} = {}", name, ctext, v)
            }
        }
        // TRUNCATE
        67..=69 => {
            let (t, _, _) = existing_or_base(g);
            let name = if t.chars().all(|c| c.is_ascii_uppercase() || c.is_ascii_digit()) { g.table_text(&t, true, true) } else { as_ident(&t) };
            format!("TRUNCATE TABLE {}", name)
        }
        // ALTER TABLE ...
        _ => {
            let (t, cc, sc) = existing_or_base(g);
            let variants = g.r.chance(1, 3);
            let tname = if t.chars().all(|c| c.is_ascii_uppercase() || c.is_ascii_digit()) { g.table_text(&t, false, variants) } else { as_ident(&t) };
            let any_col = |g: &mut Gen| -> String {
                let pool: Vec<String> = if g.r.chance(1, 2) { sc.clone() } else { cc.clone() };
                if pool.is_empty() || g.r.chance(1, 10) {
                    g.pick(&COLS).to_string()
                } else {
                    let c = pool[g.r.below(pool.len() as u64) as usize].clone();
                    if c.chars().all(|x| x.is_ascii_uppercase()) {
                        c
                    } else {
                        format!("\"{}\"", c)
                    }
                }
            };
            let new_col = |g: &mut Gen| -> String {
                let free: Vec<&str> = COLS.iter().filter(|c| !sc.iter().any(|x| x.eq_ignore_ascii_case(c))).cloned().collect();
                if free.is_empty() || g.r.chance(1, 8) {
                    g.pick(&COLS).to_string()
                } else {
                    free[g.r.below(free.len() as u64) as usize].to_string()
                }
            };
            let has_index = db.catalog.list_all_indexes().iter().any(|i| i.table_name == t) || db.list_indexes().iter().any(|k| db.get_index(k).map(|m| m.table_name == t).unwrap_or(false));
            let sub = if g.clean {
                match g.r.below(10) {
                    0..=3 => 21,
                    4..=5 => 23,
                    6..=7 => 26,
                    _ => if has_index { 21 } else { 29 },
                }
            } else {
                g.r.below(30)
            };
            let stored_checks: Vec<String> = db.get_table(&t).map(|tb| tb.schema.check_constraints.iter().map(|c| c.0.clone()).collect()).unwrap_or_default();
            match sub {
                0..=6 => {
                    let c = new_col(g);
                    let mut s = format!("ALTER TABLE {} ADD COLUMN {} INTEGER", tname, c);
                    if g.r.chance(1, 3) {
                        s += &format!(" DEFAULT {}", g.r.range(1, 9));
                    }
                    if g.r.chance(1, 6) {
                        s += " NOT NULL";
                    }
                    s
                }
                7..=12 => format!("ALTER TABLE {} DROP COLUMN {}{}", tname, if g.r.chance(1, 8) { "IF EXISTS " } else { "" }, any_col(g)),
                13..=15 => {
                    let old = any_col(g);
                    let new = new_col(g);
                    let mut s = format!("ALTER TABLE {} CHANGE COLUMN {} {} INTEGER", tname, old, new);
                    if g.r.chance(1, 5) {
                        s += &format!(" DEFAULT {}", g.r.range(1, 9));
                    }
                    s
                }
                16 => format!("ALTER TABLE {} MODIFY COLUMN {} INTEGER{}", tname, any_col(g), if g.r.chance(1, 2) { " DEFAULT 3" } else { "" }),
                17 => format!("ALTER TABLE {} ALTER COLUMN {} SET DEFAULT {}", tname, any_col(g), g.r.range(1, 9)),
                18 => format!("ALTER TABLE {} ALTER COLUMN {} DROP DEFAULT", tname, any_col(g)),
                19 => format!("ALTER TABLE {} ALTER COLUMN {} SET NOT NULL", tname, any_col(g)),
                20 => format!("ALTER TABLE {} ALTER COLUMN {} DROP NOT NULL", tname, any_col(g)),
                21..=22 => format!("ALTER TABLE {} ADD CONSTRAINT U{} UNIQUE ({})", tname, g.r.below(3), any_col(g)),
                23 => {
                    let a = any_col(g);
                    let b2 = any_col(g);
                    if a == b2 {
                        format!("ALTER TABLE {} ADD PRIMARY KEY ({})", tname, a)
                    } else {
                        format!("ALTER TABLE {} ADD PRIMARY KEY ({}, {})", tname, a, b2)
                    }
                }
                24..=25 => format!("ALTER TABLE {} ADD CONSTRAINT CK{} CHECK ({} >= 0)", tname, g.r.below(2), any_col(g)),
                26..=27 => {
                    let n = if !stored_checks.is_empty() && g.r.chance(3, 4) {
                        stored_checks[g.r.below(stored_checks.len() as u64) as usize].clone()
                    } else if g.r.chance(2, 3) {
                        format!("CK{}", g.r.below(2))
                    } else {
                        format!("U{}", g.r.below(3))
                    };
                    format!("ALTER TABLE {} DROP CONSTRAINT {}", tname, n)
                }
                _ => {
                    let base = g.pick(&TABLES).to_string();
                    let new = if g.r.chance(1, 8) { format!("\"{}\"", base.to_lowercase()) } else { base };
                    format!("ALTER TABLE {} RENAME TO {}", tname, new)
                }
            }
        }
    }
}

fn scripted_prefix(k: u64) -> Vec<String> {
    let v: &[&str] = match k {
        // RENAME after ADD COLUMN .. NOT NULL: the rows do not survive the re-insertion
        0 => &["CREATE TABLE T0 (A INTEGER)", "INSERT INTO T0 VALUES (11)", "INSERT INTO T0 VALUES (12)", "ALTER TABLE T0 ADD COLUMN C INTEGER NOT NULL", "ALTER TABLE T0 RENAME TO T1"],
        // DROP TABLE by qualified name leaves the (unique) index; the re-created table inherits its entries
        1 => &["CREATE TABLE T0 (A INTEGER, B INTEGER)", "INSERT INTO T0 VALUES (11, 21)", "CREATE UNIQUE INDEX IX0 ON T0 (B)", "DROP TABLE \"public\".T0", "CREATE TABLE T0 (A INTEGER, B INTEGER)", "INSERT INTO T0 VALUES (12, 21)", "INSERT INTO T0 VALUES (13, 22)"],
        // TRUNCATE by qualified name leaves the index entries
        2 => &["CREATE TABLE T1 (A INTEGER, B INTEGER)", "INSERT INTO T1 VALUES (11, 21), (12, 22)", "CREATE INDEX IX1 ON T1 (B)", "TRUNCATE TABLE \"public\".T1", "INSERT INTO T1 VALUES (13, 23)"],
        // CHANGE COLUMN leaves the old name in the column cache: DROP COLUMN IF EXISTS <old> drops the renamed column
        3 => &["CREATE TABLE T0 (A INTEGER, B INTEGER)", "INSERT INTO T0 VALUES (11, 21)", "ALTER TABLE T0 CHANGE COLUMN B C INTEGER", "ALTER TABLE T0 DROP COLUMN IF EXISTS B"],
        // twin tables "t1" / T1: the planner picks the other table's index
        4 => &["CREATE TABLE \"t1\" (A INTEGER)", "CREATE INDEX IX1 ON \"t1\" (A)", "CREATE TABLE T1 (A INTEGER, B INTEGER)", "INSERT INTO T1 VALUES (11, 21), (12, 22)", "CREATE INDEX IX3 ON T1 (A)"],
        // DROP INDEX by a case variant of the name
        5 => &["CREATE TABLE T2 (A INTEGER, B INTEGER)", "CREATE INDEX \"ix0\" ON T2 (B)", "DROP INDEX IX0", "CREATE INDEX \"ix0\" ON T2 (B)", "CREATE INDEX IX0 ON T2 (A)", "DROP INDEX \"ix0\""],
        // DROP COLUMN of an indexed column, then DML
        6 => &["CREATE TABLE T0 (A INTEGER, B INTEGER)", "INSERT INTO T0 VALUES (11, 21)", "INSERT INTO T0 VALUES (12, 22)", "CREATE INDEX IX2 ON T0 (B)", "ALTER TABLE T0 DROP COLUMN B", "DELETE FROM T0 WHERE A = 11"],
        // ... and INSERT after the catalog copy was refreshed by ADD CONSTRAINT
        7 => &["CREATE TABLE T0 (A INTEGER, B INTEGER)", "INSERT INTO T0 VALUES (11, 21)", "CREATE INDEX IX2 ON T0 (B)", "ALTER TABLE T0 DROP COLUMN B", "ALTER TABLE T0 ADD CONSTRAINT U1 UNIQUE (A)", "INSERT INTO T0 VALUES (12)"],
        // ALTER .. ADD CONSTRAINT through a case variant of the table name
        8 => &["CREATE TABLE T0 (A INTEGER, B INTEGER)", "ALTER TABLE \"t0\" ADD CONSTRAINT U1 UNIQUE (A)", "ALTER TABLE \"t0\" ADD PRIMARY KEY (B)"],
        // a UNIQUE index of the case twin "t0" (filled through RENAME) refuses a row for T0: INSERT's phase 5
        // finds indexes by upper-cased table name
        9 => &["CREATE TABLE T1 (A INTEGER, B INTEGER)", "INSERT INTO T1 VALUES (11, 21)", "ALTER TABLE T1 RENAME TO \"t0\"", "CREATE UNIQUE INDEX IX1 ON \"t0\" (B)", "CREATE TABLE T0 (A INTEGER, B INTEGER)", "INSERT INTO T0 VALUES (12, 21)", "INSERT INTO T0 VALUES (13, 22)"],
        // CREATE UNIQUE INDEX over duplicate keys is refused and leaves no catalog entry
        10 => &["CREATE TABLE T2 (A INTEGER, B INTEGER)", "INSERT INTO T2 VALUES (11, 21), (12, 21)", "CREATE UNIQUE INDEX IX2 ON T2 (B)", "CREATE UNIQUE INDEX IX2 ON T2 (A)", "DROP INDEX IX2", "CREATE UNIQUE INDEX IX2 ON T2 (B, A)"],
        // RENAME of an indexed table, then a new table under the old name
        _ => &["CREATE TABLE T0 (A INTEGER, B INTEGER)", "INSERT INTO T0 VALUES (11, 21)", "CREATE INDEX IX0 ON T0 (B)", "ALTER TABLE T0 RENAME TO T1", "CREATE TABLE T0 (A INTEGER, B INTEGER)", "INSERT INTO T0 VALUES (12, 22)"],
    };
    v.iter().map(|x| x.to_string()).collect()
}

// ------------------------------------------------------------------------------------------------

struct StepRec {
    sql: String,
    stmt: Stmt,
    code: i64,
    obs: Option<Obs>, // None = same as the previous observation
}

fn code_of(o: &Outcome) -> i64 {
    match o {
        Outcome::Count(n) => *n as i64,
        Outcome::Done | Outcome::Rows(_) => 0,
        Outcome::Err(..) => -1,
        Outcome::Panic(_) => -2,
    }
}

/// the statement names a column that no stored column carries (up to case) but that the stored schema's
/// column-index cache still resolves (left behind by an earlier CHANGE COLUMN)
fn stale_cache_hit(st: &Stmt, before: &Obs) -> bool {
    let (tn, cn) = match st {
        Stmt::DropColumn { tn, cn, .. } | Stmt::ModifyColumn { tn, cn, .. } | Stmt::SetDefault { tn, cn, .. } | Stmt::DropDefault { tn, cn }
        | Stmt::SetNotNull { tn, cn } | Stmt::DropNotNull { tn, cn } => (tn, cn),
        Stmt::ChangeColumn { tn, old, .. } => (tn, old),
        _ => return false,
    };
    before.tabs.iter().any(|(k, s, _)| {
        k.eq_ignore_ascii_case(&format!("public.{}", tn))
            && s.probes.iter().any(|(p, i)| p == cn && *i >= 0 && s.cols.get(*i as usize).map(|c| !c.name.eq_ignore_ascii_case(cn)).unwrap_or(true))
    })
}

fn retained_columns_unchanged(before: &Obs, after: &Obs, st: &Stmt, ok: bool) -> Option<String> {
    // ALTER TABLE touches only the named column: every stored column that exists (by name) before and
    // after keeps its values, the number of rows stays, other tables are untouched
    let (old_key, new_key) = match st {
        Stmt::RenameTable { tn, new } if !after.tabs.iter().any(|(k, _, _)| k == &format!("public.{}", tn)) => (format!("public.{}", tn), format!("public.{}", new)),
        other => {
            let t = other.table().unwrap_or("");
            (format!("public.{}", t), format!("public.{}", t))
        }
    };
    for (k, bs, brows) in &before.tabs {
        let target = if *k == old_key { &new_key } else { k };
        let (asc, arows) = match after.tabs.iter().find(|(k2, _, _)| k2 == target) {
            Some(x) => (&x.1, &x.2),
            None => {
                if *k == old_key && matches!(st, Stmt::RenameTable { .. }) {
                    return Some(format!("table {} vanished", k));
                }
                continue;
            }
        };
        if brows.len() != arows.len() {
            return Some(format!("table {} had {} rows, has {}", k, brows.len(), arows.len()));
        }
        if let Stmt::DropColumn { cn, .. } = st {
            if *k == old_key {
                for bc in &bs.cols {
                    if !bc.name.eq_ignore_ascii_case(cn) && !asc.cols.iter().any(|c| c.name == bc.name) {
                        return Some(format!("table {}: column {} vanished although DROP COLUMN named {}", k, bc.name, cn));
                    }
                }
            }
        }
        let renamed: Option<(&str, &str)> = match st {
            Stmt::ChangeColumn { old, c, .. } if ok && *k == old_key => Some((old.as_str(), c.name.as_str())),
            _ => None,
        };
        for (bi, bc) in bs.cols.iter().enumerate() {
            let target_name = match renamed {
                Some((o, n)) if bc.name == o => n,
                _ => bc.name.as_str(),
            };
            if bs.cols.iter().filter(|c| c.name == bc.name).count() != 1 {
                continue;
            }
            let hits: Vec<usize> = asc.cols.iter().enumerate().filter(|(_, c)| c.name == target_name).map(|(i, _)| i).collect();
            if hits.len() != 1 {
                continue;
            }
            let ai = hits[0];
            for (br, ar) in brows.iter().zip(arows.iter()) {
                if br.get(bi) != ar.get(ai) {
                    return Some(format!("table {} column {}: value {:?} became {:?}", k, bc.name, br.get(bi), ar.get(ai)));
                }
            }
        }
    }
    None
}

fn run_history(seed: u64, id: u64, thorough: bool, sum: &mut Summary, log: &mut CaseLog) -> (String, bool) {
    let mut r = Rng::new(seed, &format!("c33/{}", id));
    let ci_mode = r.chance(1, 8);
    let len = if thorough { r.range(12, 30) } else { r.range(10, 24) } as usize;
    let clean = !ci_mode && r.chance(2, 5) && id % 10 != 9;
    let mut g = Gen { r, fresh: 100, graveyard: Vec::new(), ci_mode, clean, creating: false };
    let mut db = Database::new();
    if ci_mode {
        db.catalog.set_case_sensitive_identifiers(false);
    }
    let mut steps: Vec<StepRec> = Vec::new();
    let mut prev = observe(&mut db);
    let mut broken: BTreeSet<&'static str> = BTreeSet::new();
    let mut any_broken_before = false;
    let mut findings: Vec<(String, String)> = Vec::new();
    let mut nontrivial = false;
    let mut pos = 0;
    // one history in ten starts with a scripted prefix that walks into one specific known class (so that
    // every class, and the model's path through it, is exercised in every run); it continues at random
    let mut script: Vec<String> = if id % 10 == 9 && !ci_mode { scripted_prefix((id / 10) % 12) } else { Vec::new() };
    script.reverse();
    while steps.len() < len && pos < len * 3 {
        pos += 1;
        let sql = match script.pop() {
            Some(s) => s,
            None => gen_stmt(&mut g, &db, steps.len()),
        };
        let parsed = match parse(&sql) {
            Ok(p) => p,
            Err(_) => {
                sum.count("gen:parse-error-skipped");
                continue;
            }
        };
        let stmt = match from_ast(&parsed) {
            Some(s) => s,
            None => {
                sum.count("gen:outside-fragment-skipped");
                continue;
            }
        };
        let out = exec_stmt(&mut db, &parsed);
        let code = code_of(&out);
        sum.evaluations += 1;
        sum.count(&format!("stmt:{}:{}", stmt.kind(), if code >= 0 { "ok" } else if code == -1 { "err" } else { "panic" }));
        if code >= 0 && !matches!(stmt, Stmt::CreateTable { .. }) {
            nontrivial = true;
        }
        let now = observe(&mut db);
        // values that may be reused later
        if let Stmt::Insert { rows, .. } = &stmt {
            if code >= 0 {
                for r in rows {
                    g.graveyard.extend(r.iter().cloned());
                }
            }
        }
        // ---- the property's own oracle (default mode only: the case-insensitive mode is not reachable
        // from the product, see design.d/C33.md) ----
        if !g.ci_mode {
            let ok = code >= 0;
            if code == -2 {
                let slug = if any_broken_before { "panic-after-schema-divergence" } else { "panic" };
                findings.push((slug.into(), format!("step {} `{}` panics: {}", steps.len(), sql, if let Outcome::Panic(m) = &out { m.clone() } else { String::new() })));
            } else {
                let bad = agree_components(&mut db, &now);
                for (comp, what) in &bad {
                    if !broken.contains(comp) {
                        let mut slug = classify(&stmt, ok, comp, &prev);
                        if slug == "agree-broken" && any_broken_before {
                            // Agree was already broken earlier in this history by one of the listed classes:
                            // what breaks next is a consequence (e.g. DML maintaining an index through the
                            // stale catalog copy of the schema)
                            slug = "follow-on-after-known-divergence";
                        }
                        findings.push((slug.into(), format!("step {} `{}` ({}): {} -- {}", steps.len(), sql, out.tag(), comp, what)));
                    }
                }
                broken = bad.keys().cloned().collect();
                if !broken.is_empty() {
                    any_broken_before = true;
                }
                if let Some(w) = index_lookup_check(&mut db, &now) {
                    // two listed tables whose names differ only in case, one of them indexed: the planner
                    // (list_indexes_for_table upper-cases both sides) may pick the other table's index
                    let twins = now.sidx.iter().any(|i| now.cat.iter().any(|s| s.name != i.table && s.name.eq_ignore_ascii_case(&i.table)));
                    let slug = if any_broken_before {
                        "index-lookup-after-divergence"
                    } else if twins {
                        "case-variant-twin-tables-share-indexes"
                    } else {
                        "index-lookup-wrong"
                    };
                    findings.push((slug.into(), format!("step {} `{}`: {}", steps.len(), sql, w)));
                }
                // ALTER keeps the data of the retained columns
                let is_alter = stmt.kind().starts_with("alter-");
                if is_alter {
                    if let Some(w) = retained_columns_unchanged(&prev, &now, &stmt, ok) {
                        let slug = match &stmt {
                            Stmt::RenameTable { .. } if !ok => "rename-table-not-null-rows-lost",
                            other if stale_cache_hit(other, &prev) => "alter-stale-column-cache-resolves-other-column",
                            _ => "retained-data-changed",
                        };
                        findings.push((slug.into(), format!("step {} `{}` ({}): {}", steps.len(), sql, out.tag(), w)));
                    }
                }
                // a dropped table leaves nothing behind; a created table starts empty and unindexed
                if ok {
                    match &stmt {
                        Stmt::DropTable { tn, .. } => {
                            let t = tn.rsplit('.').next().unwrap_or(tn);
                            let was = prev.cat.iter().any(|s| s.name == t);
                            let left = now.cidx.iter().any(|c| c.1 == t) || now.sidx.iter().any(|i| i.table == t) || now.tabs.iter().any(|(k, _, _)| k == &format!("public.{}", t));
                            if was && left && is_plain(tn) {
                                findings.push(("drop-leaves-something".into(), format!("step {} `{}`: objects of {} remain", steps.len(), sql, t)));
                            }
                        }
                        Stmt::CreateTable { tn, .. } => {
                            let t = tn.rsplit('.').next().unwrap_or(tn);
                            let rows = now.tabs.iter().find(|(k, _, _)| k == &format!("public.{}", t)).map(|x| x.2.len()).unwrap_or(0);
                            let idx = now.sidx.iter().any(|i| i.table == t && !i.data.is_empty()) && !any_broken_before;
                            if rows != 0 || idx {
                                findings.push(("recreate-not-empty".into(), format!("step {} `{}`: new table {} has {} rows / inherited index entries", steps.len(), sql, t, rows)));
                            }
                        }
                        _ => {}
                    }
                }
            }
        }
        let same = now == prev;
        steps.push(StepRec { sql, stmt, code, obs: if same { None } else { Some(now.clone()) } });
        prev = now;
        if code == -2 {
            break; // the state after a panic is unspecified: the history ends here
        }
    }
    // shard text
    let body: Vec<String> = steps
        .iter()
        .map(|s| format!("  ({}, {}, {})", s.stmt.coq(), if s.code < 0 { format!("({})", s.code) } else { s.code.to_string() }, s.obs.as_ref().map(coq_obs).unwrap_or("Same".into())))
        .collect();
    let text = format!("({}, {}, [\n{}])", id, b(!ci_mode), body.join(";\n"));
    let case = json!({
        "id": id,
        "mode": if ci_mode { "case-insensitive identifiers" } else { "default" },
        "statements": steps.iter().map(|s| json!({"sql": s.sql, "code": s.code})).collect::<Vec<_>>(),
    });
    log.log(id, case.clone());
    if nontrivial {
        sum.nontrivial(&steps.iter().map(|s| s.sql.clone()).collect::<Vec<_>>().join(";"));
    }
    sum.sample(case.clone());
    sum.count(if ci_mode { "mode:case-insensitive" } else { "mode:default" });
    sum.count(&format!("len:{:02}", steps.len() / 5 * 5));
    let had = !findings.is_empty();
    sum.count(if ci_mode { "profile:case-insensitive" } else if clean { "profile:clean" } else if id % 10 == 9 { "profile:scripted" } else { "profile:mixed" });
    if clean && had {
        sum.count("profile:clean-with-findings");
    }
    // one finding per class and history
    let mut seen = BTreeSet::new();
    for (slug, what) in findings {
        if seen.insert(slug.clone()) {
            sum.finding(&slug, id, what, case.clone());
        }
    }
    (text, had)
}

fn main() {
    let args = parse_args();
    quiet_panics();
    let mut sum = Summary::default();
    sum.nontrivial_rule = "a case is one DDL/DML history (10-30 statements over 3 table names, 4 index names and 5 column names, written with case / quoting / schema-qualification variants) with every statement's result code and the full observation of the four registries after every statement; distinct = distinct statement text of the whole history; non-trivial = at least one statement other than CREATE TABLE succeeded".into();
    let mut log = CaseLog::new(&args);
    let n_hist: u64 = if args.thorough { 2400 } else { 420 };
    let nshards: usize = if args.thorough { 64 } else { 16 };
    let mut shard_txt: Vec<Vec<String>> = vec![Vec::new(); nshards];
    let mut with_findings = 0u64;
    for id in 0..n_hist {
        if let Some(only) = &args.only {
            if !only.contains(&id) {
                continue;
            }
        }
        let (text, had) = run_history(args.seed, id, args.thorough, &mut sum, &mut log);
        if had {
            with_findings += 1;
        }
        shard_txt[(id as usize) % nshards].push(text);
        sum.model_cases += 1;
    }
    sum.count_n("histories-with-oracle-findings", with_findings);
    for (k, hs) in shard_txt.iter().enumerate() {
        if hs.is_empty() {
            continue;
        }
        let text = format!(
            "From Coq Require Import String List ZArith.\nFrom VibeSQL Require Import Store.Catalog Run.C33Run.\nImport ListNotations.\nOpen Scope Z_scope.\nOpen Scope string_scope.\nDefinition hs : list history := [\n{}\n].\nEval vm_compute in (c33_mismatches hs).\n",
            hs.join(";\n")
        );
        write_shard(&args, k, &text);
    }
    sum.write(&args);
}
