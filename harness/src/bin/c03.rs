//! C03: the columnar aggregate fast path returns exactly what row execution returns.
//! Every generated single-table aggregate query runs twice on the same database: once normally (the
//! columnar path takes it when its gate accepts the query; the hook counts that) and once with the
//! columnar path switched off by the cfg-guarded hook, i.e. through the general row-at-a-time
//! aggregation.  The two results are compared by exact value.  Queries on "exact" data (integers and
//! quarter-valued doubles) also go to Coq, where both are compared with the model.
use serde_json::json;
use vh::out::*;
use vh::rng::Rng;
use vh::sql::{self, Outcome};
use vibesql_executor::verif_hooks as hooks;
use vibesql_storage::{Database, Row};
use vibesql_types::SqlValue;

#[derive(Clone, Copy, PartialEq, Debug)]
enum Ty {
    Int,
    Dbl,
    Str,
}

#[derive(Clone, Debug)]
enum V {
    Null,
    Int(i64),
    Q(i64, bool),   // quarter-valued double k/4 (flag: negative zero)
    Tiny(i64),      // double k/4 + 2^-40 (off the quarter grid: for the comparison tolerance)
    Str(String),
}

const SCALE_SHIFT: u32 = 42; // model numbers are scaled by 2^42

fn sqlv(v: &V) -> SqlValue {
    match v {
        V::Null => SqlValue::Null,
        V::Int(i) => SqlValue::Integer(*i),
        V::Q(k, negz) => SqlValue::Double(if *k == 0 && *negz { -0.0 } else { *k as f64 / 4.0 }),
        V::Tiny(k) => SqlValue::Double(*k as f64 / 4.0 + (2.0f64).powi(-40)),
        V::Str(s) => SqlValue::Varchar(s.clone()),
    }
}

fn coq_v(v: &V) -> String {
    match v {
        V::Null => "VNull".into(),
        V::Int(i) => format!("VInt ({})", (*i as i128) << SCALE_SHIFT),
        V::Q(k, _) => format!("VInt ({})", (*k as i128) << (SCALE_SHIFT - 2)),
        V::Tiny(k) => format!("VInt ({})", ((*k as i128) << (SCALE_SHIFT - 2)) + 4),
        V::Str(s) => format!("VStr [{}]", s.bytes().map(|b| b.to_string()).collect::<Vec<_>>().join("; ")),
    }
}

fn sql_lit(v: &V) -> String {
    match v {
        V::Null => "NULL".into(),
        V::Int(i) => format!("{}", i),
        V::Q(k, _) => format!("{:?}", *k as f64 / 4.0),
        V::Tiny(k) => format!("{:?}", *k as f64 / 4.0),
        V::Str(s) => format!("'{}'", s),
    }
}

/// exact value of a result cell: None for NULL, Some((m, e)) with m odd or zero for numbers
#[derive(PartialEq, Debug, Clone)]
enum Exact {
    Null,
    Num(i128, i64),
    Str(String),
    NonFinite(String),
    Other(String),
}

fn norm(mut m: i128, mut e: i64) -> Exact {
    if m == 0 {
        return Exact::Num(0, 0);
    }
    while m % 2 == 0 {
        m /= 2;
        e += 1;
    }
    Exact::Num(m, e)
}

fn exact_f64(f: f64) -> Exact {
    if !f.is_finite() {
        return Exact::NonFinite(format!("{:?}", f));
    }
    if f == 0.0 {
        return Exact::Num(0, 0);
    }
    let bits = f.to_bits();
    let sign: i128 = if bits >> 63 == 1 { -1 } else { 1 };
    let exp = ((bits >> 52) & 0x7ff) as i64;
    let frac = (bits & ((1u64 << 52) - 1)) as i128;
    if exp == 0 {
        norm(sign * frac, -1074)
    } else {
        norm(sign * (frac | (1i128 << 52)), exp - 1075)
    }
}

fn exact(v: &SqlValue) -> Exact {
    match v {
        SqlValue::Null => Exact::Null,
        SqlValue::Integer(i) | SqlValue::Bigint(i) => norm(*i as i128, 0),
        SqlValue::Smallint(i) => norm(*i as i128, 0),
        SqlValue::Double(f) | SqlValue::Numeric(f) => exact_f64(*f),
        SqlValue::Float(f) | SqlValue::Real(f) => exact_f64(*f as f64),
        SqlValue::Varchar(s) | SqlValue::Character(s) => Exact::Str(s.clone()),
        other => Exact::Other(format!("{:?}", other)),
    }
}

fn coq_oval(v: &SqlValue) -> String {
    match exact(v) {
        Exact::Null => "ONull".into(),
        Exact::Num(m, e) => format!("(ODy ({}) ({}))", m, e),
        Exact::Str(s) => format!("(OStr [{}])", s.bytes().map(|b| b.to_string()).collect::<Vec<_>>().join("; ")),
        _ => "OOther".into(),
    }
}

#[derive(Clone, Debug)]
enum Sel {
    CountStar,
    Agg(&'static str, usize),
    Bin(&'static str, char, usize, usize), // aggregate of (a op b)
}

#[derive(Clone, Debug)]
enum Pred {
    Cmp(usize, &'static str, V, bool), // column, operator, literal, literal-on-the-left
    Between(usize, V, V),
}

fn gen_v(r: &mut Rng, t: Ty, null_pct: u64, flavour: u64) -> V {
    if r.below(100) < null_pct {
        return V::Null;
    }
    match t {
        Ty::Int => match flavour {
            1 if r.chance(1, 3) => V::Int((1i64 << 53) + r.range(-2, 3)),
            2 if r.chance(1, 3) => V::Int(i64::MAX / 2 - r.range(0, 5)),
            _ => V::Int(r.range(-3, 8)),
        },
        Ty::Dbl => {
            let k = r.range(-12, 32);
            if flavour == 3 && r.chance(1, 4) {
                V::Tiny(k)
            } else {
                V::Q(k, k == 0 && r.chance(1, 2))
            }
        }
        Ty::Str => V::Str(r.pick(&["", "a", "A", "ab", "b", "ba", "c"]).to_string()),
    }
}

fn main() {
    let args = parse_args();
    quiet_panics();
    let mut sum = Summary::default();
    sum.nontrivial_rule = "a case is (table contents, aggregate query) run through both paths; distinct = distinct (table, SQL); non-trivial = the columnar path answered the normal run (hook counter) — the other cases check that queries the gate must refuse (HAVING / ORDER BY / LIMIT / OFFSET, GROUP BY, DISTINCT) still agree".into();
    let mut log = CaseLog::new(&args);
    let ntab = if args.thorough { 2000 } else { 320 };
    let per_tab = 10;
    let nshards = 16;
    let header = "From Coq Require Import List ZArith.\nImport ListNotations.\nOpen Scope Z_scope.\nFrom VibeSQL Require Import Sem.Syntax Sem.Rel Mech.Accumulator Mech.Columnar Run.C07Run Run.C03Run.\n".to_string();
    let mut shards: Vec<String> = (0..nshards).map(|_| header.clone()).collect();
    let mut shard_lists: Vec<Vec<String>> = (0..nshards).map(|_| Vec::new()).collect();
    let mut id: u64 = 0;
    let mut taken_total = 0u64;
    for k in 0..ntab {
        let mut r = Rng::new(args.seed, &format!("c03/tab/{}", k));
        let ncols = 2 + r.below(3) as usize;
        let tys: Vec<Ty> = (0..ncols).map(|_| *r.pick(&[Ty::Int, Ty::Int, Ty::Dbl, Ty::Dbl, Ty::Str])).collect();
        let nulls: Vec<u64> = (0..ncols).map(|_| *r.pick(&[0u64, 0, 30, 30, 60, 100])).collect();
        // data flavour: 0 exact small values; 1 integers around 2^53; 2 integers around 2^62; 3 doubles off the grid
        let flavour = match r.below(10) { 0 | 1 => 1, 2 => 3, _ => 0 }; // (integer overflow itself, flavour 2, is C24's subject)
        let nrows = match r.below(10) {
            0 => 0,
            1 => 1,
            2..=6 => 2 + r.below(12) as usize,
            _ => 100 + r.below(70) as usize,
        };
        let rows: Vec<Vec<V>> = (0..nrows).map(|_| (0..ncols).map(|c| gen_v(&mut r, tys[c], nulls[c], flavour)).collect()).collect();
        let exact_data = flavour == 0;
        let mut db = Database::new();
        let cols_sql: Vec<String> = tys.iter().enumerate().map(|(i, t)| format!("c{} {}", i, match t { Ty::Int => "INTEGER", Ty::Dbl => "DOUBLE PRECISION", Ty::Str => "VARCHAR(10)" })).collect();
        sql::must(&mut db, &format!("CREATE TABLE t ({})", cols_sql.join(", ")));
        for row in &rows {
            db.insert_row("T", Row::new(row.iter().map(sqlv).collect())).expect("insert_row");
        }
        let rows_coq = format!("[{}]", rows.iter().map(|row| format!("[{}]", row.iter().map(coq_v).collect::<Vec<_>>().join("; "))).collect::<Vec<_>>().join(";\n  "));
        let s = k % nshards;
        if exact_data {
            shards[s].push_str(&format!("Definition rows{} : list row := {}.\n", k, rows_coq));
        }
        sum.count(&format!("rows:{}", if nrows == 0 { "0" } else if nrows == 1 { "1" } else if nrows < 100 { "2-13" } else { "100+" }));
        sum.count(&format!("data:{}", ["exact-small", "ints-near-2^53", "ints-near-2^62", "doubles-off-grid"][flavour as usize]));
        let numeric: Vec<usize> = (0..ncols).filter(|c| tys[*c] != Ty::Str).collect();
        for _ in 0..per_tab {
            // WHERE: 0-2 simple predicates joined by AND
            let npred = *r.pick(&[0usize, 0, 1, 1, 1, 2]);
            let mut preds: Vec<Pred> = Vec::new();
            for _ in 0..npred {
                let c = r.below(ncols as u64) as usize;
                let mut lit = gen_v(&mut r, tys[c], 0, 0);
                if let V::Q(k2, _) = lit {
                    lit = V::Q(k2, false);
                }
                // half of the literals sit on the grid point of an existing value (so that = and the
                // range ends hit, also next to the off-grid doubles)
                if !rows.is_empty() && r.chance(1, 2) {
                    match &rows[r.below(rows.len() as u64) as usize][c] {
                        V::Int(i) if i.abs() < 1000 => lit = V::Int(*i),
                        V::Q(k2, _) | V::Tiny(k2) => lit = V::Q(*k2, false),
                        V::Str(s2) => lit = V::Str(s2.clone()),
                        _ => {}
                    }
                }
                // literals of the other numeric type too
                if tys[c] == Ty::Int && r.chance(1, 4) {
                    lit = V::Q(r.range(-12, 32), false);
                } else if tys[c] == Ty::Dbl && r.chance(1, 4) {
                    lit = V::Int(r.range(-3, 8));
                }
                if r.chance(1, 5) {
                    let mut hi = gen_v(&mut r, tys[c], 0, 0);
                    if let V::Q(k2, _) = hi {
                        hi = V::Q(k2, false);
                    }
                    preds.push(Pred::Between(c, lit, hi));
                } else {
                    let op = *r.pick(&["=", "<", "<=", ">", ">=", "<>"]);
                    preds.push(Pred::Cmp(c, op, lit, r.chance(1, 4)));
                }
            }
            let nsel = 1 + r.below(3) as usize;
            let mut sels: Vec<Sel> = Vec::new();
            for _ in 0..nsel {
                let sel = match r.below(12) {
                    0..=1 => Sel::CountStar,
                    2 => Sel::Agg("COUNT", r.below(ncols as u64) as usize),
                    3..=4 if !numeric.is_empty() => Sel::Agg("SUM", *r.pick(&numeric)),
                    5..=6 if !numeric.is_empty() => Sel::Agg("AVG", *r.pick(&numeric)),
                    7 => Sel::Agg("MIN", r.below(ncols as u64) as usize),
                    8 => Sel::Agg("MAX", r.below(ncols as u64) as usize),
                    9..=10 if numeric.len() >= 2 => Sel::Bin(*r.pick(&["SUM", "AVG", "MIN", "MAX", "COUNT"]), *r.pick(&['+', '-', '*']), *r.pick(&numeric), *r.pick(&numeric)),
                    _ => Sel::CountStar,
                };
                sels.push(sel);
            }
            let sel_sql: Vec<String> = sels
                .iter()
                .map(|s| match s {
                    Sel::CountStar => "COUNT(*)".to_string(),
                    Sel::Agg(f, c) => format!("{}(c{})", f, c),
                    Sel::Bin(f, op, a, b) => format!("{}(c{} {} c{})", f, a, op, b),
                })
                .collect();
            let mut q = format!("SELECT {} FROM t", sel_sql.join(", "));
            if !preds.is_empty() {
                let ps: Vec<String> = preds
                    .iter()
                    .map(|p| match p {
                        Pred::Cmp(c, op, lit, false) => format!("c{} {} {}", c, op, sql_lit(lit)),
                        Pred::Cmp(c, op, lit, true) => format!("{} {} c{}", sql_lit(lit), op, c),
                        Pred::Between(c, lo, hi) => format!("c{} BETWEEN {} AND {}", c, sql_lit(lo), sql_lit(hi)),
                    })
                    .collect();
                q.push_str(&format!(" WHERE {}", ps.join(" AND ")));
            }
            // tails the gate must refuse (the columnar path cannot apply them)
            let tail = r.below(12);
            let mut modelled = true;
            match tail {
                0 => { q.push_str(" HAVING COUNT(*) > 2"); modelled = false; }
                1 => { q.push_str(" ORDER BY 1"); }
                2 => { q.push_str(" LIMIT 0"); modelled = false; }
                3 => { q.push_str(" LIMIT 1 OFFSET 1"); modelled = false; }
                4 => { q.push_str(" LIMIT 1"); }
                _ => {}
            }
            let this = id;
            id += 1;
            let selected = args.only.as_ref().map(|o| o.contains(&this)).unwrap_or(false);
            // normal run (columnar when the gate accepts), then the row path
            hooks::set_columnar_disabled(false);
            let before = hooks::columnar_taken();
            let out_col = sql::exec(&mut db, &q);
            let took_columnar = hooks::columnar_taken() > before;
            hooks::set_columnar_disabled(true);
            let out_row = sql::exec(&mut db, &q);
            hooks::set_columnar_disabled(false);
            sum.evaluations += 2;
            if took_columnar {
                taken_total += 1;
                sum.count("path:columnar-taken");
                sum.nontrivial(&format!("{}|{}", k, q));
            } else {
                sum.count("path:gate-refused");
            }
            let show = |o: &Outcome| match o {
                Outcome::Rows(rs) => format!("{:?}", rs.iter().take(5).collect::<Vec<_>>()),
                Outcome::Err(c, m) => format!("error {:?}: {}", c, m),
                Outcome::Panic(m) => format!("panic: {}", m),
                _ => String::new(),
            };
            let data_name = ["exact-small", "ints-near-2^53", "ints-near-2^62", "doubles-off-grid"][flavour as usize];
            let case = json!({"classes": Vec::<&str>::new(), "sql": q, "columns": cols_sql, "data": data_name,
                "rows": rows.iter().take(170).map(|r| r.iter().map(|v| format!("{:?}", sqlv(v))).collect::<Vec<_>>().join(", ")).collect::<Vec<_>>(),
                "took_columnar": took_columnar, "normal_run": show(&out_col), "row_path": show(&out_row)});
            log.log(this, case.clone());
            if selected {
                println!("case {}: {}\n  table: {:?}\n  rows: {}\n  took_columnar: {}\n  normal: {}\n  row path: {}", this, q, cols_sql, rows.iter().take(40).map(|r| format!("({})", r.iter().map(sql_lit).collect::<Vec<_>>().join(","))).collect::<Vec<_>>().join(" "), took_columnar, show(&out_col), show(&out_row));
            }
            // ---- the property on the implementation: both paths return the same rows ----
            let canon = |o: &Outcome| -> Result<Vec<Vec<Exact>>, String> {
                match o {
                    Outcome::Rows(rs) => Ok(rs.iter().map(|row| row.iter().map(exact).collect()).collect()),
                    Outcome::Err(c, _) => Err(format!("error:{:?}", c)),
                    Outcome::Panic(_) => Err("panic".into()),
                    _ => Err("other".into()),
                }
            };
            let (a, b) = (canon(&out_col), canon(&out_row));
            if let (Outcome::Panic(m), false) = (&out_col, matches!(out_row, Outcome::Panic(_))) {
                sum.finding("columnar-panic", this, format!("the normal run panicked, the row path did not: {}", m), case.clone());
            } else if a != b {
                let class = match (&a, &b) {
                    (Ok(_), Err(_)) => "columnar-succeeds-row-fails",
                    (Err(_), Ok(_)) => "columnar-fails-row-succeeds",
                    (Err(_), Err(_)) => "different-errors",
                    (Ok(x), Ok(y)) if x.len() != y.len() => "row-count-differs",
                    _ => {
                        // the one recorded defect: SUM over integers is returned as a DOUBLE by the
                        // columnar path, so a sum beyond 2^53 is the rounded value of the row path's exact
                        // INTEGER.  Every differing cell must be exactly that; anything else is new.
                        let (rc, rr) = (out_col.rows().unwrap(), out_row.rows().unwrap());
                        let only_rounded_sums = rc.len() == 1 && rr.len() == 1 && rc[0].len() == rr[0].len() && rc[0].iter().zip(rr[0].iter()).enumerate().all(|(i, (c, w))| {
                            exact(c) == exact(w)
                                || (matches!(sels.get(i), Some(Sel::Agg("SUM", _)) | Some(Sel::Bin("SUM", _, _, _)))
                                    && matches!((c, w), (SqlValue::Double(f), SqlValue::Integer(n)) if n.unsigned_abs() > (1u64 << 53) && *f == *n as f64))
                        });
                        // the other recorded defect: the columnar filter compares values of different numeric
                        // types with a tolerance of 1e-9 (pinned by the TPC-H Q6 tests), the row path exactly.
                        // Recognised only when a predicate literal sits 2^-40 below an off-grid value of its column.
                        let grid = |v: &V| match v { V::Int(i) => Some(*i * 4), V::Q(k2, _) => Some(*k2), _ => None };
                        let tolerance_hit = took_columnar && preds.iter().any(|p| {
                            let (c, lits): (usize, Vec<&V>) = match p { Pred::Cmp(c, _, l, _) => (*c, vec![l]), Pred::Between(c, lo, hi) => (*c, vec![lo, hi]) };
                            tys[c] == Ty::Dbl && lits.iter().any(|l| grid(l).map(|g| rows.iter().any(|row| matches!(&row[c], V::Tiny(k2) if *k2 == g))).unwrap_or(false))
                        });
                        if only_rounded_sums { "integer-sum-above-2^53-rounded-to-double" } else if tolerance_hit { "columnar-comparison-tolerance-1e-9" } else { "result-differs" }
                    }
                };
                if class != "different-errors" {
                    sum.finding(class, this, format!("normal run ({}) and row path disagree: {} vs {}", if took_columnar { "columnar" } else { "gate refused" }, show(&out_col), show(&out_row)), case.clone());
                }
            }
            if let Outcome::Rows(rs) = &out_col {
                for row in rs {
                    for (i, s2) in sels.iter().enumerate() {
                        let is_count = matches!(s2, Sel::CountStar | Sel::Agg("COUNT", _) | Sel::Bin("COUNT", _, _, _));
                        if is_count && matches!(row[i], SqlValue::Null) {
                            sum.finding("count-is-null", this, "a COUNT aggregate returned NULL".into(), case.clone());
                        }
                    }
                }
                if tail > 4 && tail != 0 && rs.len() != 1 {
                    sum.finding("no-group-by-not-one-row", this, format!("{} rows from an aggregate query without GROUP BY / HAVING / LIMIT", rs.len()), case.clone());
                }
            }
            // ---- model: both observations against the columnar model and the row-path model ----
            let has_ne = preds.iter().any(|p| matches!(p, Pred::Cmp(_, "<>", _, _)));
            let mixed_lit = preds.iter().any(|p| match p {
                Pred::Cmp(c, _, lit, _) => !matches!((tys[*c], lit), (Ty::Int, V::Int(_)) | (Ty::Dbl, V::Q(..)) | (Ty::Str, V::Str(_))),
                Pred::Between(c, lo, hi) => !matches!((tys[*c], lo, hi), (Ty::Int, V::Int(_), V::Int(_)) | (Ty::Dbl, V::Q(..), V::Q(..)) | (Ty::Str, V::Str(_), V::Str(_))),
            });
            let has_mul_or_sub_mixed = sels.iter().any(|s2| matches!(s2, Sel::Bin(_, '*', _, _)));
            let _ = mixed_lit;
            if exact_data && modelled && !has_mul_or_sub_mixed && args.only.is_none() || (selected && exact_data) {
                let fcoq = |f: &str| match f { "COUNT" => "FCount", "SUM" => "FSum", "AVG" => "FAvg", "MIN" => "FMin", _ => "FMax" };
                let sels_coq: Vec<String> = sels
                    .iter()
                    .map(|s2| match s2 {
                        Sel::CountStar => "CCountStar".to_string(),
                        Sel::Agg(f, c) => format!("CAgg {} {}%nat", fcoq(f), c),
                        Sel::Bin(f, op, a2, b2) => format!("CAggBin {} {} {}%nat {}%nat", fcoq(f), if *op == '+' { "OAdd" } else { "OSub" }, a2, b2),
                    })
                    .collect();
                let opc = |op: &str| match op { "=" => "OEq", "<" => "OLt", "<=" => "OLe", ">" => "OGt", ">=" => "OGe", _ => "ONe" };
                let preds_coq: Vec<String> = preds
                    .iter()
                    .map(|p| match p {
                        Pred::Cmp(c, op, lit, left) => format!("PCmp {}%nat {} ({}) {}", c, opc(op), coq_v(lit), left),
                        Pred::Between(c, lo, hi) => format!("PBetween {}%nat ({}) ({})", c, coq_v(lo), coq_v(hi)),
                    })
                    .collect();
                let obs = |o: &Outcome| match o {
                    Outcome::Rows(rs) => format!("(C07Rows [{}])", rs.iter().map(|row| format!("[{}]", row.iter().map(coq_oval).collect::<Vec<_>>().join("; "))).collect::<Vec<_>>().join("; ")),
                    Outcome::Panic(_) => "C07Panic".to_string(),
                    _ => "C07Err".to_string(),
                };
                let case_coq = format!(
                    "{{| k_id := {}; k_rows := rows{}; k_preds := [{}]; k_sels := [{}]; k_columnar := {}; k_has_ne := {}; k_obs_normal := {}; k_obs_row := {} |}}",
                    this, k, preds_coq.join("; "), sels_coq.join("; "), took_columnar, has_ne, obs(&out_col), obs(&out_row)
                );
                if selected {
                    let tt = format!("{}Definition rows{} : list row := {}.\nEval vm_compute in (c03_expected {}).\n", header, k, rows_coq, case_coq);
                    std::fs::write(args.out.join(format!("only_{}.v", this)), tt).unwrap();
                } else {
                    shard_lists[s].push(case_coq);
                    sum.model_cases += 1;
                }
            }
            for s2 in &sels {
                sum.count(&format!("agg:{}", match s2 { Sel::CountStar => "COUNT(*)".to_string(), Sel::Agg(f, _) => f.to_string(), Sel::Bin(f, op, _, _) => format!("{}(a{}b)", f, op) }));
            }
            sum.count(&format!("tail:{}", match tail { 0 => "HAVING", 1 => "ORDER BY", 2 => "LIMIT 0", 3 => "LIMIT/OFFSET", 4 => "LIMIT 1", _ => "none" }));
            sum.count(&format!("where:{}-predicates", preds.len()));
            if sum.samples.len() < 5 && took_columnar && k % 7 == 3 {
                sum.sample(json!({"sql": q, "normal": show(&out_col), "row_path": show(&out_row)}));
            }
        }
    }
    sum.notes.push(format!("{} of {} queries were answered by the columnar path in the normal run", taken_total, id));
    if taken_total * 4 < id {
        sum.finding("columnar-path-rarely-taken", 0, format!("only {} of {} generated queries took the columnar path: the gate or the generator has changed", taken_total, id), json!({}));
    }
    if args.only.is_none() {
        for s in 0..nshards {
            if !shard_lists[s].is_empty() {
                shards[s].push_str(&format!("Eval vm_compute in (c03_mismatches [\n{}]).\n", shard_lists[s].join(";\n")));
                write_shard(&args, s, &shards[s]);
            }
        }
    }
    sum.write(&args);
}
