//! C06: ternary-logic partitioning on the executor (metamorphic) + every derived query vs Sem.
use serde_json::json;
use std::collections::BTreeMap;
use vh::out::*;
use vh::qgen::*;
use vh::rng::Rng;
use vh::semrun::*;

fn and_opt(w: &Option<Expr>, x: Expr) -> Option<Expr> {
    Some(match w {
        Some(w) => Expr::Bin(BinOp::And, Box::new(w.clone()), Box::new(x)),
        None => x,
    })
}

fn bag(rows: &[Vec<Val>]) -> BTreeMap<String, i64> {
    let mut m = BTreeMap::new();
    for r in rows {
        *m.entry(format!("{:?}", r)).or_insert(0) += 1;
    }
    m
}

fn bag_add(a: &mut BTreeMap<String, i64>, b: &BTreeMap<String, i64>) {
    for (k, v) in b {
        *a.entry(k.clone()).or_insert(0) += v;
    }
}

fn main() {
    let args = parse_args();
    quiet_panics();
    let mut sum = Summary::default();
    sum.nontrivial_rule = "a case is (database, base query Q, predicate p, form) with form in {plain, distinct, count, sum/min/max, group-by, having, count-true}; distinct = distinct (db, SQL of Q, SQL of p, form); non-trivial = Q returns at least one row and p is not constant over Q's rows (at least two of the three parts non-empty)".into();
    let mut log = CaseLog::new(&args);
    let ndb = if args.thorough { 600 } else { 220 };
    let per_db = 10;
    let nshards = 16;
    let mut shards: Vec<String> = (0..nshards).map(|_| String::from(SHARD_HEADER)).collect();
    let mut shard_lists: Vec<Vec<String>> = (0..nshards).map(|_| Vec::new()).collect();
    let mut id: u64 = 0;
    for k in 0..ndb {
        let mut r = Rng::new(args.seed, &format!("c06/db/{}", k));
        // size strata (vectorized / parallel filter paths start at ~100 rows)
        let big = k % 8 == 7;
        let huge = k % 16 == 11;
        let dbdef = if huge { gen_db_sized(&mut r, 1, 100, 130) } else { gen_db(&mut r, 2, if big { 14 } else { 7 }) };
        let mut db = load_db(&dbdef);
        // every other database also has secondary indexes (results must not depend on them)
        let index_ddl = if k % 2 == 1 { add_random_indexes(&mut db, &dbdef, &mut r, "c06") } else { Vec::new() };
        if !index_ddl.is_empty() {
            sum.count("database:with-indexes");
        }
        let mut cases = Vec::new();
        for _ in 0..per_db {
            // base query: FROM (1-2 items, joins allowed), optional WHERE w, predicate p over the FROM row
            // (no subqueries over the 100+-row tables: a correlated subquery per joined row runs into the
            // executor's 300 s statement timeout)
            let cfg = GenCfg { setops: false, grouping: false, order: false, limit: false, distinct: false, subqueries: !huge, ..GenCfg::default() };
            let (from, tys, w, p, proj, ptys) = {
                let mut g = Gen { r: &mut r, db: &dbdef, cfg };
                let (from, tys) = g.from_list(&[], if huge { 0 } else { 1 }, if huge { 1 } else { 2 });
                let scopes = vec![tys.clone()];
                let w = if g.r.chance(1, 2) { Some(g.expr(Ty::Bool, &scopes, 1)) } else { None };
                let pd = 1 + g.r.below(2) as usize;
                // a third of the predicates have the shapes index range extraction looks for: a column against
                // constants taken from the data (comparison, [NOT] BETWEEN, [NOT] IN), possibly ANDed with another
                let p = if g.r.chance(1, 3) && !tys.is_empty() {
                    let mut simple = |g: &mut Gen| -> Expr {
                        let c = g.r.below(tys.len() as u64) as usize;
                        let col = Expr::Col(0, c);
                        let k = |g: &mut Gen| Expr::Const(gen_val(g.r, tys[c], 0));
                        match g.r.below(5) {
                            0..=1 => Expr::Bin(*g.r.pick(&[BinOp::Eq, BinOp::Lt, BinOp::Le, BinOp::Gt, BinOp::Ge, BinOp::Ne]), Box::new(col), Box::new(k(g))),
                            2..=3 => Expr::Between(Box::new(col), Box::new(k(g)), Box::new(k(g)), g.r.chance(1, 2)),
                            _ => Expr::InList(Box::new(col), (0..1 + g.r.below(3)).map(|_| k(g)).collect(), g.r.chance(1, 2)),
                        }
                    };
                    let a = simple(&mut g);
                    if g.r.chance(1, 3) { Expr::Bin(BinOp::And, Box::new(a), Box::new(simple(&mut g))) } else { a }
                } else {
                    g.expr(Ty::Bool, &scopes, pd)
                };
                let np = 1 + g.r.below(2) as usize;
                let mut proj = Vec::new();
                let mut ptys = Vec::new();
                for _ in 0..np {
                    let t = if g.r.chance(3, 4) { Ty::Int } else { Ty::Str };
                    proj.push(g.expr(t, &scopes, 1));
                    ptys.push(t);
                }
                (from, tys, w, p, proj, ptys)
            };
            let form = r.below(7);
            let base = Select { distinct: false, from: from.clone(), where_: w.clone(), grouping: None, having: None, proj: proj.clone(), order: vec![], limit: None, offset: None };
            // the derived selects: (label, select)
            let mk = |wh: Option<Expr>, s: &Select| {
                let mut t = s.clone();
                t.where_ = wh;
                t
            };
            let shaped: Select = match form {
                0 => base.clone(),
                1 => Select { distinct: true, ..base.clone() },
                2 => Select { grouping: Some((vec![], vec![(AggFn::CountStar, false, Expr::Const(Val::Int(1)))])), proj: vec![Expr::Col(0, 0)], ..base.clone() },
                3 => {
                    // SUM / MIN / MAX of an integer expression
                    let scopes = vec![tys.clone()];
                    let e = {
                        let mut g = Gen { r: &mut r, db: &dbdef, cfg: GenCfg { subqueries: false, ..GenCfg::default() } };
                        g.expr(Ty::Int, &scopes, 1)
                    };
                    Select { grouping: Some((vec![], vec![(AggFn::Sum, false, e.clone()), (AggFn::Min, false, e.clone()), (AggFn::Max, false, e.clone()), (AggFn::Count, false, e)])), proj: vec![Expr::Col(0, 0), Expr::Col(0, 1), Expr::Col(0, 2), Expr::Col(0, 3)], ..base.clone() }
                }
                4 | 5 => {
                    // GROUP BY key with COUNT(*)  (5: the partition predicate goes to HAVING)
                    let scopes = vec![tys.clone()];
                    let key = {
                        let mut g = Gen { r: &mut r, db: &dbdef, cfg: GenCfg { subqueries: false, ..GenCfg::default() } };
                        let t = if g.r.chance(2, 3) { Ty::Int } else { Ty::Str };
                        g.expr(t, &scopes, 0)
                    };
                    Select { grouping: Some((vec![key], vec![(AggFn::CountStar, false, Expr::Const(Val::Int(1)))])), proj: vec![Expr::Col(0, 0), Expr::Col(0, 1)], ..base.clone() }
                }
                _ => base.clone(),
            };
            let _ = ptys;
            // partition predicate: over the FROM row, except in the HAVING form (over the group row [key, count])
            let (q_all, q_t, q_f, q_n): (Select, Select, Select, Select) = if form == 5 {
                let hp = {
                    let mut g = Gen { r: &mut r, db: &dbdef, cfg: GenCfg { subqueries: false, ..GenCfg::default() } };
                    // a predicate on the count column (position 1 of the group row)
                    let c = g.r.below(4) as i64;
                    let op = *g.r.pick(&[BinOp::Eq, BinOp::Lt, BinOp::Ge, BinOp::Ne]);
                    Expr::Bin(op, Box::new(Expr::Col(0, 1)), Box::new(Expr::Const(if g.r.chance(1, 6) { Val::Null } else { Val::Int(c) })))
                };
                let mut a = shaped.clone();
                a.having = None;
                let mut t = shaped.clone();
                t.having = Some(hp.clone());
                let mut f = shaped.clone();
                f.having = Some(Expr::Not(Box::new(hp.clone())));
                let mut n = shaped.clone();
                n.having = Some(Expr::IsNull(Box::new(hp), false));
                (a, t, f, n)
            } else {
                (
                    shaped.clone(),
                    mk(and_opt(&w, p.clone()), &shaped),
                    mk(and_opt(&w, Expr::Not(Box::new(p.clone()))), &shaped),
                    mk(and_opt(&w, Expr::IsNull(Box::new(p.clone()), false)), &shaped),
                )
            };
            let mut queries: Vec<(&str, Query)> = vec![("all", Query::Select(q_all)), ("p", Query::Select(q_t)), ("not-p", Query::Select(q_f)), ("p-is-null", Query::Select(q_n))];
            if form == 6 {
                // count-true form: SELECT p FROM ... WHERE w
                let mut c = base.clone();
                c.proj = vec![p.clone()];
                queries.push(("select-p", Query::Select(c)));
            }
            let case_base = id;
            id += 8;
            if let Some(only) = &args.only {
                if !only.iter().any(|x| *x >= case_base && *x < case_base + 8) {
                    continue;
                }
            }
            let mut obs = Vec::new();
            let mut sqls = Vec::new();
            let cases_before = cases.len();
            let mut timed_out = false;
            for (j, (label, q)) in queries.iter().enumerate() {
                let sql_text = to_sql(q);
                let o = observe(&mut db, &sql_text);
                if is_timeout(&o) {
                    timed_out = true;
                    break;
                }
                sum.evaluations += 1;
                cases.push(format!("({}, {}, {})", case_base + j as u64, coq_query(q), coq_obs(&o)));
                sum.model_cases += 1;
                log.log(case_base + j as u64, json!({"classes": if has_selfjoin_3way(q) { vec!["selfjoin-3way"] } else { vec![] }, "part": label, "sql": sql_text, "tables": dbdef.tables.iter().map(|t| format!("{:?}", t.rows)).collect::<Vec<_>>(), "observed": obs_text(&o)}));
                if args.only.is_some() {
                    let t = format!("{}Definition d : db := {}.\nEval vm_compute in (sem_expected d {}).\n", SHARD_HEADER, coq_db(&dbdef), coq_query(q));
                    std::fs::write(args.out.join(format!("only_{}.v", case_base + j as u64)), t).unwrap();
                    println!("case {} [{}]: {}\n  observed: {}", case_base + j as u64, label, sql_text, obs_text(&o));
                }
                sqls.push(sql_text);
                obs.push(o);
            }
            if timed_out {
                // the executor's own 300 s statement timeout: no observation, the whole case is dropped
                sum.model_cases -= (cases.len() - cases_before) as u64;
                cases.truncate(cases_before);
                sum.count("skipped:query-timeout");
                continue;
            }
            let formname = ["plain", "distinct", "count", "sum-min-max", "group-by", "having", "count-true"][form as usize];
            sum.count(&format!("form:{}", formname));
            let case = json!({"form": formname, "sql": sqls, "create": create_sql(&dbdef), "tables": dbdef.tables.iter().map(|t| format!("{:?}", t.rows)).collect::<Vec<_>>(), "observed": obs.iter().map(obs_text).collect::<Vec<_>>()});
            // ---- the metamorphic relation on the implementation ----
            let rows: Vec<Option<&Vec<Vec<Val>>>> = obs.iter().map(|o| if let Obs::Rows(r) = o { Some(r) } else { None }).collect();
            for (j, o) in obs.iter().enumerate() {
                match o {
                    Obs::Panic(m) => sum.finding("panic", case_base + j as u64, format!("executor panicked: {}", m), case.clone()),
                    Obs::Alien(m) => sum.finding("alien-value", case_base + j as u64, format!("value outside the reference domain: {}", m), case.clone()),
                    _ => {}
                }
            }
            let all_err = obs.iter().take(4).all(|o| matches!(o, Obs::Err(_)));
            if rows.iter().take(4).all(|x| x.is_some()) {
                let (a, t, f, n) = (rows[0].unwrap(), rows[1].unwrap(), rows[2].unwrap(), rows[3].unwrap());
                let parts_nonempty = [t, f, n].iter().filter(|x| !x.is_empty()).count();
                let ok = match form {
                    0 | 6 => {
                        let mut u = bag(t);
                        bag_add(&mut u, &bag(f));
                        bag_add(&mut u, &bag(n));
                        u == bag(a)
                    }
                    1 => {
                        let mut u: std::collections::BTreeSet<String> = bag(t).into_keys().collect();
                        u.extend(bag(f).into_keys());
                        u.extend(bag(n).into_keys());
                        let each_once = [a, t, f, n].iter().all(|x| bag(x).values().all(|c| *c == 1));
                        each_once && u == bag(a).into_keys().collect()
                    }
                    2 => {
                        let c = |x: &Vec<Vec<Val>>| if let Some(Val::Int(i)) = x.get(0).and_then(|r| r.get(0)) { Some(*i) } else { None };
                        match (c(a), c(t), c(f), c(n)) {
                            (Some(a), Some(t), Some(f), Some(n)) => a == t + f + n,
                            _ => false,
                        }
                    }
                    3 => {
                        let get = |x: &Vec<Vec<Val>>, i: usize| x.get(0).and_then(|r| r.get(i)).cloned();
                        let int = |v: Option<Val>| match v {
                            Some(Val::Int(i)) => Some(Some(i)),
                            Some(Val::Null) => Some(None),
                            _ => None,
                        };
                        let comb = |xs: [Option<Option<i64>>; 3], f: fn(i64, i64) -> i64| -> Option<Option<i64>> {
                            let mut acc: Option<i64> = None;
                            for x in xs {
                                match x? {
                                    Some(v) => acc = Some(match acc { Some(a) => f(a, v), None => v }),
                                    None => {}
                                }
                            }
                            Some(acc)
                        };
                        let mut good = a.len() == 1 && t.len() == 1 && f.len() == 1 && n.len() == 1;
                        if good {
                            let fs: [fn(i64, i64) -> i64; 4] = [|x, y| x + y, |x, y| x.min(y), |x, y| x.max(y), |x, y| x + y];
                            for i in 0..4 {
                                let whole = int(get(a, i));
                                let parts = comb([int(get(t, i)), int(get(f, i)), int(get(n, i))], fs[i]);
                                // COUNT of nothing is 0, not NULL
                                let parts = if i == 3 { parts.map(|p| Some(p.unwrap_or(0))) } else { parts };
                                if whole.is_none() || whole != parts {
                                    good = false;
                                }
                            }
                        }
                        good
                    }
                    4 => {
                        // per key: count(all) = sum of counts of the parts; key sets: union
                        let tomap = |x: &Vec<Vec<Val>>| -> Option<BTreeMap<String, i64>> {
                            let mut m = BTreeMap::new();
                            for r in x {
                                let c = if let Some(Val::Int(i)) = r.get(1) { *i } else { return None };
                                if m.insert(format!("{:?}", r[0]), c).is_some() {
                                    return None; // a key twice: GROUP BY broke
                                }
                            }
                            Some(m)
                        };
                        match (tomap(a), tomap(t), tomap(f), tomap(n)) {
                            (Some(a), Some(t), Some(f), Some(n)) => {
                                let mut u = t.clone();
                                bag_add(&mut u, &f);
                                bag_add(&mut u, &n);
                                u == a
                            }
                            _ => false,
                        }
                    }
                    _ => {
                        // HAVING: groups partition
                        let mut u = bag(t);
                        bag_add(&mut u, &bag(f));
                        bag_add(&mut u, &bag(n));
                        u == bag(a)
                    }
                };
                if !ok {
                    sum.finding("partition-broken", case_base, format!("Q is not the disjoint union of Q&p, Q&NOT p, Q&(p IS NULL) in form {}", formname), case.clone());
                }
                if form == 6 {
                    if let Some(Some(sp)) = rows.get(4) {
                        let trues = sp.iter().filter(|r| r.get(0) == Some(&Val::Bool(true))).count();
                        if trues != t.len() {
                            sum.finding("count-true-mismatch", case_base, format!("WHERE p keeps {} rows but p is TRUE on {} rows in the select list", t.len(), trues), case.clone());
                        }
                    }
                }
                if !a.is_empty() && parts_nonempty >= 2 {
                    sum.nontrivial(&format!("{}|{}|{}", coq_db(&dbdef), sqls[0], sqls[1]));
                }
                sum.count(&format!("parts-nonempty:{}", parts_nonempty));
                if sum.samples.len() < 4 && parts_nonempty == 3 {
                    sum.sample(case.clone());
                }
            } else if !all_err {
                // some of the four succeed and some fail: the derived predicates are built from the same parts
                sum.count("mixed-ok-error");
                sum.finding("mixed-ok-error", case_base, "some of Q, Q&p, Q&NOT p, Q&(p IS NULL) fail while others succeed".into(), case.clone());
            } else {
                sum.count("all-error");
            }
        }
        if !cases.is_empty() && args.only.is_none() {
            let s = k % nshards;
            shards[s].push_str(&format!("Definition db{} : db := {}.\nDefinition cs{} : list (Z * query * obs) := [\n{}].\n", k, coq_db(&dbdef), k, cases.join(";\n")));
            shard_lists[s].push(format!("(db{}, cs{})", k, k));
        }
    }
    if args.only.is_none() {
        for s in 0..nshards {
            if !shard_lists[s].is_empty() {
                shards[s].push_str(&format!("Eval vm_compute in (sem_mismatches [{}]).\n", shard_lists[s].join("; ")));
                write_shard(&args, s, &shards[s]);
            }
        }
    }
    sum.write(&args);
}
