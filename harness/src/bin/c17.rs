//! C17 correspondence + property oracle: the disk-backed B+ tree (`vibesql_storage::btree::BTreeIndex`)
//! against an ordered multimap (`BTreeMap<i64, Vec<u64>>`) and against the Coq model (Store/BTree.v).
//!
//! Every case is an index (empty, or bulk-loaded from sorted entries) over a `PageManager` (one case in
//! eight on a real file through `NativeStorage` in a scratch directory, the others on an in-memory
//! `StorageBackend` because every page write of a native file is fsynced), with a key schema `[VARCHAR(n)]` chosen so that
//! `calculate_degree` gives 5..8, and a history of insert / delete / delete_specific / lookup /
//! multi_lookup / range_scan (all bound kinds) / re-open (`BTreeIndex::load`).  Observations: every
//! answer, `height()`, and after every mutation a dump of the pages reachable from the root (parsed here
//! from the raw page bytes with the crate's public `read_sql_value`), on which sortedness, uniform depth,
//! separator bounds and "next_leaf chain = leaves in order" are checked.
use serde_json::{json, Value};
use std::collections::BTreeMap;
use std::io::{Cursor, Read};
use std::panic::{catch_unwind, AssertUnwindSafe};
use std::sync::atomic::{AtomicU64, Ordering};
use std::sync::{Arc, Mutex};
use vh::out::*;
use vh::rng::Rng;
use vibesql_storage::btree::BTreeIndex;
use vibesql_storage::page::{PageManager, PAGE_SIZE};
use vibesql_storage::persistence::binary::value::read_sql_value;
use vibesql_storage::{NativeStorage, StorageBackend, StorageError, StorageFile};
use vibesql_types::{DataType, SqlValue};

type Key = Vec<SqlValue>;

/// In-memory page file (public `StorageBackend`/`StorageFile` traits): most cases run on it because
/// `PageManager::write_page` fsyncs every page on a `NativeStorage` file; one case in eight still uses
/// a real file.
struct MemFile(Vec<u8>);
impl StorageFile for MemFile {
    fn read_at(&mut self, offset: u64, buf: &mut [u8]) -> Result<usize, StorageError> {
        let off = offset as usize;
        if off >= self.0.len() {
            return Ok(0);
        }
        let n = std::cmp::min(buf.len(), self.0.len() - off);
        buf[..n].copy_from_slice(&self.0[off..off + n]);
        Ok(n)
    }
    fn write_at(&mut self, offset: u64, buf: &[u8]) -> Result<usize, StorageError> {
        let off = offset as usize;
        if self.0.len() < off + buf.len() {
            self.0.resize(off + buf.len(), 0);
        }
        self.0[off..off + buf.len()].copy_from_slice(buf);
        Ok(buf.len())
    }
    fn sync_all(&mut self) -> Result<(), StorageError> {
        Ok(())
    }
    fn sync_data(&mut self) -> Result<(), StorageError> {
        Ok(())
    }
    fn size(&self) -> Result<u64, StorageError> {
        Ok(self.0.len() as u64)
    }
}
struct MemStorage;
impl StorageBackend for MemStorage {
    fn create_file(&self, _path: &str) -> Result<Box<dyn StorageFile>, StorageError> {
        Ok(Box::new(MemFile(Vec::new())))
    }
    fn open_file(&self, _path: &str) -> Result<Box<dyn StorageFile>, StorageError> {
        Ok(Box::new(MemFile(Vec::new())))
    }
    fn delete_file(&self, _path: &str) -> Result<(), StorageError> {
        Ok(())
    }
    fn file_exists(&self, _path: &str) -> bool {
        false
    }
    fn file_size(&self, _path: &str) -> Result<u64, StorageError> {
        Ok(0)
    }
}

#[derive(Clone, Debug)]
enum Op {
    Insert(i64, u64),
    Delete(i64),
    DeleteOne(i64, u64),
    Lookup(i64),
    Multi(Vec<i64>),
    Range(Option<i64>, Option<i64>, bool, bool),
    Reload,
}

#[derive(Clone, Debug, PartialEq)]
enum Ans {
    Unit,
    Bool(bool),
    Rows(Vec<u64>),
    Err(String),
    Panic(String),
}

#[derive(Clone, Debug)]
enum DNode {
    Leaf { page: u64, entries: Vec<(i64, Vec<u64>)>, next: u64 },
    Node { page: u64, keys: Vec<i64>, children: Vec<DNode> },
}

struct Cfg {
    varl: usize,
    width: usize,
}
impl Cfg {
    fn key(&self, i: i64) -> Key {
        vec![SqlValue::Varchar(format!("k{:0w$}", i, w = self.width))]
    }
    fn ksz(&self) -> i64 {
        (2 + 1 + 4 + 1 + self.width) as i64
    }
    fn schema(&self) -> Vec<DataType> {
        vec![DataType::Varchar { max_length: Some(self.varl) }]
    }
}

fn unkey(k: &Key) -> Option<i64> {
    if k.len() != 1 {
        return None;
    }
    match &k[0] {
        SqlValue::Varchar(s) if s.starts_with('k') => s[1..].parse().ok(),
        _ => None,
    }
}

fn read_varint(c: &mut Cursor<&[u8]>) -> Option<u64> {
    let mut v = 0u64;
    let mut shift = 0;
    loop {
        let mut b = [0u8; 1];
        c.read_exact(&mut b).ok()?;
        v |= ((b[0] & 0x7f) as u64) << shift;
        if b[0] & 0x80 == 0 {
            return Some(v);
        }
        shift += 7;
        if shift >= 64 {
            return None;
        }
    }
}
fn read_u16(c: &mut Cursor<&[u8]>) -> Option<u16> {
    let mut b = [0u8; 2];
    c.read_exact(&mut b).ok()?;
    Some(u16::from_le_bytes(b))
}
fn read_u64(c: &mut Cursor<&[u8]>) -> Option<u64> {
    let mut b = [0u8; 8];
    c.read_exact(&mut b).ok()?;
    Some(u64::from_le_bytes(b))
}
fn read_key(c: &mut Cursor<&[u8]>) -> Option<i64> {
    let n = read_u16(c)? as usize;
    let mut k = Vec::new();
    for _ in 0..n {
        k.push(read_sql_value(c).ok()?);
    }
    unkey(&k)
}

/// Parse the page graph below `page` (raw bytes; format of btree/serialize.rs).
fn dump(pm: &PageManager, page: u64, depth: usize, budget: &mut usize) -> Result<DNode, String> {
    if depth > 12 || *budget == 0 {
        return Err("page graph too deep / too large (cycle?)".into());
    }
    *budget -= 1;
    let p = pm.read_page(page).map_err(|e| format!("read_page {}: {:?}", page, e))?;
    let data: &[u8] = &p.data[..];
    if data.len() != PAGE_SIZE {
        return Err("short page".into());
    }
    let mut c = Cursor::new(data);
    let mut ty = [0u8; 1];
    c.read_exact(&mut ty).map_err(|e| e.to_string())?;
    match ty[0] {
        2 => {
            let n = read_u16(&mut c).ok_or("leaf header")? as usize;
            let mut entries = Vec::new();
            for _ in 0..n {
                let k = read_key(&mut c).ok_or(format!("leaf {}: bad key", page))?;
                let m = read_varint(&mut c).ok_or("varint")? as usize;
                let mut rs = Vec::with_capacity(m);
                for _ in 0..m {
                    rs.push(read_u64(&mut c).ok_or("row id")?);
                }
                entries.push((k, rs));
            }
            let next = read_u64(&mut c).ok_or("next_leaf")?;
            Ok(DNode::Leaf { page, entries, next })
        }
        1 => {
            let n = read_u16(&mut c).ok_or("internal header")? as usize;
            let mut keys = Vec::new();
            for _ in 0..n {
                keys.push(read_key(&mut c).ok_or(format!("internal {}: bad key", page))?);
            }
            let mut children = Vec::new();
            for _ in 0..=n {
                let ch = read_u64(&mut c).ok_or("child id")?;
                children.push(dump(pm, ch, depth + 1, budget)?);
            }
            Ok(DNode::Node { page, keys, children })
        }
        t => Err(format!("page {} has type byte {}", page, t)),
    }
}

fn coq_z(i: i64) -> String {
    if i < 0 {
        format!("({})", i)
    } else {
        i.to_string()
    }
}
fn coq_list<T, F: Fn(&T) -> String>(xs: &[T], f: F) -> String {
    format!("[{}]", xs.iter().map(f).collect::<Vec<_>>().join(";"))
}
fn coq_node(n: &DNode) -> String {
    match n {
        DNode::Leaf { entries, .. } => format!(
            "Leaf {}",
            coq_list(entries, |(k, rs)| format!("({},{})", coq_z(*k), coq_list(rs, |r| r.to_string())))
        ),
        DNode::Node { keys, children, .. } => format!(
            "Node {} {}",
            coq_list(keys, |k| coq_z(*k)),
            coq_list(children, |c| format!("({})", coq_node(c)))
        ),
    }
}
fn coq_opt(o: &Option<i64>) -> String {
    match o {
        None => "None".into(),
        Some(k) => format!("(Some {})", coq_z(*k)),
    }
}
fn coq_op(o: &Op) -> String {
    match o {
        Op::Insert(k, r) => format!("OInsert {} {}", coq_z(*k), r),
        Op::Delete(k) => format!("ODelete {}", coq_z(*k)),
        Op::DeleteOne(k, r) => format!("ODeleteOne {} {}", coq_z(*k), r),
        Op::Lookup(k) => format!("OLookup {}", coq_z(*k)),
        Op::Multi(ks) => format!("OMulti {}", coq_list(ks, |k| coq_z(*k))),
        Op::Range(s, e, is, ie) => format!("ORange {} {} {} {}", coq_opt(s), coq_opt(e), is, ie),
        Op::Reload => "OReload".into(),
    }
}
fn coq_ans(a: &Ans) -> String {
    match a {
        Ans::Unit => "AUnit".into(),
        Ans::Bool(b) => format!("ABool {}", b),
        Ans::Rows(rs) => format!("ARows {}", coq_list(rs, |r| r.to_string())),
        Ans::Err(_) => "AErr PageOverflow".into(),
        Ans::Panic(_) => "AErr Panic".into(),
    }
}

// ---------- structure oracle on a dump ----------
fn leaves<'a>(n: &'a DNode, depth: usize, out: &mut Vec<(&'a DNode, usize)>) {
    match n {
        DNode::Leaf { .. } => out.push((n, depth)),
        DNode::Node { children, .. } => {
            for c in children {
                leaves(c, depth + 1, out)
            }
        }
    }
}
fn min_key(n: &DNode) -> Option<i64> {
    match n {
        DNode::Leaf { entries, .. } => entries.first().map(|e| e.0),
        DNode::Node { children, .. } => children.iter().filter_map(min_key).next(),
    }
}
fn max_key(n: &DNode) -> Option<i64> {
    match n {
        DNode::Leaf { entries, .. } => entries.last().map(|e| e.0),
        DNode::Node { children, .. } => children.iter().rev().filter_map(max_key).next(),
    }
}
fn has_single_child_internal(n: &DNode) -> bool {
    match n {
        DNode::Leaf { .. } => false,
        DNode::Node { children, .. } => children.len() < 2 || children.iter().any(has_single_child_internal),
    }
}
/// separator bounds: keys of child i < keys[i] <= keys of child i+1
fn separators_ok(n: &DNode) -> bool {
    match n {
        DNode::Leaf { .. } => true,
        DNode::Node { keys, children, .. } => {
            if children.len() != keys.len() + 1 {
                return false;
            }
            for (i, k) in keys.iter().enumerate() {
                if let Some(m) = max_key(&children[i]) {
                    if m >= *k {
                        return false;
                    }
                }
                if let Some(m) = min_key(&children[i + 1]) {
                    if m < *k {
                        return false;
                    }
                }
            }
            keys.windows(2).all(|w| w[0] < w[1]) && children.iter().all(separators_ok)
        }
    }
}
struct Shape {
    n_leaves: usize,
    n_internal: usize,
}
fn count(n: &DNode, s: &mut Shape) {
    match n {
        DNode::Leaf { .. } => s.n_leaves += 1,
        DNode::Node { children, .. } => {
            s.n_internal += 1;
            for c in children {
                count(c, s)
            }
        }
    }
}
/// the property's structural part: returns the list of violated items
fn structure_violations(root: &DNode, height: usize, expected: &BTreeMap<i64, Vec<u64>>) -> Vec<String> {
    let mut v = Vec::new();
    let mut ls = Vec::new();
    leaves(root, 1, &mut ls);
    if ls.iter().any(|(_, d)| *d != height) {
        v.push(format!("leaf depths {:?} != height {}", ls.iter().map(|x| x.1).collect::<Vec<_>>(), height));
    }
    let mut all: Vec<(i64, Vec<u64>)> = Vec::new();
    for (l, _) in &ls {
        if let DNode::Leaf { entries, .. } = l {
            all.extend(entries.iter().cloned());
        }
    }
    if !all.windows(2).all(|w| w[0].0 < w[1].0) {
        v.push("keys not strictly sorted across the leaves".into());
    }
    if all.iter().any(|e| e.1.is_empty()) {
        v.push("entry with empty row-id list".into());
    }
    let exp: Vec<(i64, Vec<u64>)> = expected.iter().map(|(k, r)| (*k, r.clone())).collect();
    if all != exp {
        v.push("leaf contents differ from the ordered multimap".into());
    }
    // chain = leaves in order
    for i in 0..ls.len() {
        if let DNode::Leaf { next, page, .. } = ls[i].0 {
            let want = if i + 1 < ls.len() {
                match ls[i + 1].0 {
                    DNode::Leaf { page, .. } => *page,
                    _ => 0,
                }
            } else {
                0
            };
            if *next != want {
                v.push(format!("leaf chain: page {} has next_leaf {} but the next leaf in order is {}", page, next, want));
                break;
            }
        }
    }
    if !separators_ok(root) {
        v.push("separator bounds violated".into());
    }
    v
}


// ---------- narrow classifier for the page-overflow class ----------
fn varint_len(mut n: usize) -> usize {
    let mut l = 1;
    while n >= 128 {
        n >>= 7;
        l += 1;
    }
    l
}
fn leaf_bytes(entries: &[(i64, Vec<u64>)], ksz: i64) -> usize {
    3 + entries.iter().map(|(_, rs)| ksz as usize + varint_len(rs.len()) + 8 * rs.len()).sum::<usize>() + 8
}
/// index (in tree order) of the leaf that find_leaf_path reaches for `k`
fn route(n: &DNode, k: i64, base: usize) -> usize {
    match n {
        DNode::Leaf { .. } => base,
        DNode::Node { keys, children, .. } => {
            let i = keys.iter().filter(|x| **x <= k).count().min(children.len().saturating_sub(1));
            let mut b = base;
            for c in &children[..i] {
                let mut v = Vec::new();
                leaves(c, 0, &mut v);
                b += v.len();
            }
            route(&children[i], k, b)
        }
    }
}
/// does some leaf that bulk_load would build (consecutive groups of max(3d/4,1) keys) exceed a page?
fn bulk_overflows(m: &BTreeMap<i64, Vec<u64>>, deg: usize, ksz: i64) -> bool {
    let cap = std::cmp::max(deg * 3 / 4, 1);
    let all: Vec<(i64, Vec<u64>)> = m.iter().map(|(k, v)| (*k, v.clone())).collect();
    all.chunks(cap).any(|c| leaf_bytes(c, ksz) > PAGE_SIZE)
}
/// would the operation make a leaf (or the merge of two adjacent leaves) larger than a page?
fn explains_overflow(d: &DNode, op: &Op, ksz: i64) -> bool {
    let mut ls = Vec::new();
    leaves(d, 0, &mut ls);
    let ent = |i: usize| -> Vec<(i64, Vec<u64>)> {
        match ls.get(i).map(|x| x.0) {
            Some(DNode::Leaf { entries, .. }) => entries.clone(),
            _ => Vec::new(),
        }
    };
    match op {
        Op::Insert(k, r) => {
            let mut e = ent(route(d, *k, 0));
            match e.iter_mut().find(|x| x.0 == *k) {
                Some(x) => x.1.push(*r),
                None => e.push((*k, vec![*r])),
            }
            leaf_bytes(&e, ksz) > PAGE_SIZE
        }
        Op::Delete(k) | Op::DeleteOne(k, _) => {
            let i = route(d, *k, 0);
            let mut e = ent(i);
            match op {
                Op::Delete(_) => e.retain(|x| x.0 != *k),
                Op::DeleteOne(_, r) => {
                    for x in e.iter_mut() {
                        if x.0 == *k {
                            if let Some(p) = x.1.iter().position(|y| y == r) {
                                x.1.remove(p);
                            }
                        }
                    }
                    e.retain(|x| !x.1.is_empty());
                }
                _ => {}
            }
            let with = |j: usize| -> bool {
                let mut m = ent(j);
                m.extend(e.clone());
                leaf_bytes(&m, ksz) > PAGE_SIZE
            };
            (i > 0 && with(i - 1)) || with(i + 1)
        }
        _ => false,
    }
}

// ---------- running one case ----------
struct CaseOut {
    idx: u64,
    coq: String,
    case_json: Value,
    findings: Vec<(String, String)>, // (class, what)
    counters: Vec<String>,
    evals: u64,
    nontrivial: bool,
    canonical: String,
}

fn panic_msg(e: Box<dyn std::any::Any + Send>) -> String {
    if let Some(s) = e.downcast_ref::<String>() {
        s.clone()
    } else if let Some(s) = e.downcast_ref::<&str>() {
        s.to_string()
    } else {
        "panic".into()
    }
}

fn oracle_range(m: &BTreeMap<i64, Vec<u64>>, s: &Option<i64>, e: &Option<i64>, is: bool, ie: bool) -> Vec<u64> {
    let mut out = Vec::new();
    for (k, rs) in m {
        let ok_s = match s {
            None => true,
            Some(st) => *k > *st || (*k == *st && is),
        };
        let ok_e = match e {
            None => true,
            Some(en) => *k < *en || (*k == *en && ie),
        };
        if ok_s && ok_e {
            out.extend(rs.iter().copied());
        }
    }
    out
}

fn oracle_step(m: &mut BTreeMap<i64, Vec<u64>>, op: &Op) -> Ans {
    match op {
        Op::Insert(k, r) => {
            m.entry(*k).or_default().push(*r);
            Ans::Unit
        }
        Op::Delete(k) => Ans::Bool(m.remove(k).is_some()),
        Op::DeleteOne(k, r) => {
            let mut found = false;
            let mut empty = false;
            if let Some(rs) = m.get_mut(k) {
                if let Some(p) = rs.iter().position(|x| x == r) {
                    rs.remove(p);
                    found = true;
                    empty = rs.is_empty();
                }
            }
            if empty {
                m.remove(k);
            }
            Ans::Bool(found)
        }
        Op::Lookup(k) => Ans::Rows(m.get(k).cloned().unwrap_or_default()),
        Op::Multi(ks) => Ans::Rows(ks.iter().flat_map(|k| m.get(k).cloned().unwrap_or_default()).collect()),
        Op::Range(s, e, is, ie) => Ans::Rows(oracle_range(m, s, e, *is, *ie)),
        Op::Reload => Ans::Unit,
    }
}

fn impl_step(idx: &mut BTreeIndex, pm: &Arc<PageManager>, cfg: &Cfg, op: &Op) -> Ans {
    let r = catch_unwind(AssertUnwindSafe(|| -> Result<Ans, String> {
        let e = |x: vibesql_storage::StorageError| format!("{:?}", x);
        Ok(match op {
            Op::Insert(k, r) => {
                idx.insert(cfg.key(*k), *r as usize).map_err(e)?;
                Ans::Unit
            }
            Op::Delete(k) => Ans::Bool(idx.delete(&cfg.key(*k)).map_err(e)?),
            Op::DeleteOne(k, r) => Ans::Bool(idx.delete_specific(&cfg.key(*k), *r as usize).map_err(e)?),
            Op::Lookup(k) => Ans::Rows(idx.lookup(&cfg.key(*k)).map_err(e)?.into_iter().map(|x| x as u64).collect()),
            Op::Multi(ks) => {
                let keys: Vec<Key> = ks.iter().map(|k| cfg.key(*k)).collect();
                Ans::Rows(idx.multi_lookup(&keys).map_err(e)?.into_iter().map(|x| x as u64).collect())
            }
            Op::Range(s, en, is, ie) => {
                let sk = s.map(|k| cfg.key(k));
                let ek = en.map(|k| cfg.key(k));
                Ans::Rows(idx.range_scan(sk.as_ref(), ek.as_ref(), *is, *ie).map_err(e)?.into_iter().map(|x| x as u64).collect())
            }
            Op::Reload => {
                *idx = BTreeIndex::load(pm.clone()).map_err(e)?;
                Ans::Unit
            }
        })
    }));
    match r {
        Ok(Ok(a)) => a,
        Ok(Err(e)) => Ans::Err(e),
        Err(p) => Ans::Panic(panic_msg(p)),
    }
}

struct Probes {
    sep_fixed: bool,
    guard: bool,
}

const DEGREES: [(usize, usize); 9] = [(250, 5), (199, 5), (166, 5), (165, 6), (141, 6), (140, 7), (123, 7), (122, 8), (109, 8)];

fn gen_range(r: &mut Rng, universe: i64) -> Op {
    let pick = |r: &mut Rng| -> Option<i64> {
        if r.chance(1, 5) {
            None
        } else {
            Some(r.range(-1, universe + 1))
        }
    };
    let s = pick(r);
    let e = if r.chance(1, 8) { s } else { pick(r) };
    Op::Range(s, e, r.chance(1, 2), r.chance(1, 2))
}

/// case generator: (init entries or None, ops, kind)
fn gen_case(r: &mut Rng, deg: usize, thorough: bool) -> (Option<Vec<(i64, u64)>>, Vec<Op>, &'static str) {
    let cap = std::cmp::max(deg * 3 / 4, 1) as i64;
    let icap = std::cmp::max(deg * 3 / 4, 2) as i64;
    let kind_roll = r.below(100);
    let mut next_row: u64 = 1000;
    let mut ops: Vec<Op> = Vec::new();
    let mut shadow: BTreeMap<i64, Vec<u64>> = BTreeMap::new();
    let nops = if thorough { r.range(60, 140) } else { r.range(40, 90) } as usize;
    // --- initial contents ---
    let mk_entries = |r: &mut Rng, n: i64, stride: i64, dup: u64, next_row: &mut u64| -> Vec<(i64, u64)> {
        let mut v = Vec::new();
        for i in 0..n {
            let k = i * stride + if stride > 1 { r.range(0, stride - 1) } else { 0 };
            let m = 1 + if dup > 0 { r.below(dup + 1) } else { 0 };
            for _ in 0..m {
                v.push((k, *next_row));
                *next_row += 1;
            }
        }
        v
    };
    let (init, kind): (Option<Vec<(i64, u64)>>, &'static str) = if kind_roll < 24 {
        (None, "empty-random")
    } else if kind_roll < 30 {
        (None, "empty-big-drain")
    } else if kind_roll < 38 {
        (None, "empty-sequential")
    } else if kind_roll < 45 {
        (None, "empty-dups")
    } else if kind_roll < 48 {
        (None, "empty-overflow")
    } else if kind_roll < 66 {
        let n = r.range(0, cap * icap);
        let (st, du) = (r.range(1, 3), r.below(3));
        (Some(mk_entries(r, n, st, du, &mut next_row)), "bulk-small")
    } else if kind_roll < 84 {
        let extra = r.range(0, 3 * cap * icap);
        let n = r.range(cap * icap + 1, cap * icap * icap + extra);
        let (st, du) = (r.range(1, 2), r.below(2));
        (Some(mk_entries(r, n, st, du, &mut next_row)), "bulk-tall")
    } else if kind_roll < 94 {
        // the last internal node of the first internal level gets a single child
        let q = r.range(1, icap);
        let n = cap * icap * q + r.range(1, cap);
        let (st, du) = (r.range(1, 2), r.below(2));
        (Some(mk_entries(r, n, st, du, &mut next_row)), "bulk-single-child")
    } else if kind_roll < 97 {
        let n = r.range(2, 6);
        let mut v = mk_entries(r, n, 2, 40, &mut next_row);
        if r.chance(1, 3) {
            // one key too heavy for a page
            let k = v[0].0;
            let extra: Vec<(i64, u64)> = (0..520).map(|j| (k, 50_000 + j as u64)).collect();
            v.extend(extra);
            v.sort_by_key(|e| e.0);
        }
        (Some(v), "bulk-dups")
    } else {
        // unsorted input is outside bulk_load's contract but must not be modelled wrongly: keep sorted, empty
        (Some(Vec::new()), "bulk-empty")
    };
    if let Some(es) = &init {
        for (k, rr) in es {
            shadow.entry(*k).or_default().push(*rr);
        }
    }
    let universe: i64 = match kind {
        "empty-dups" | "bulk-dups" => r.range(3, 8),
        "empty-overflow" => 3,
        _ => {
            let base = shadow.keys().next_back().copied().unwrap_or(0);
            std::cmp::max(base + 3, *r.pick(&[10i64, 24, 40, 90]))
        }
    };
    // --- operations ---
    let read_op = |r: &mut Rng, shadow: &BTreeMap<i64, Vec<u64>>| -> Op {
        match r.below(10) {
            0..=3 => Op::Lookup(r.range(-1, universe + 1)),
            4 => Op::Multi((0..r.range(0, 5)).map(|_| r.range(-1, universe + 1)).collect()),
            5 => {
                // every key present plus a neighbour
                let ks: Vec<i64> = shadow.keys().copied().take(12).collect();
                Op::Multi(ks)
            }
            _ => gen_range(r, universe),
        }
    };
    let apply = |op: &Op, shadow: &mut BTreeMap<i64, Vec<u64>>| {
        oracle_step(shadow, op);
    };
    match kind {
        "empty-sequential" => {
            let n = r.range(12, 45);
            let asc = r.chance(1, 2);
            for i in 0..n {
                let k = if asc { i } else { n - 1 - i };
                ops.push(Op::Insert(k, next_row));
                next_row += 1;
                if r.chance(1, 6) {
                    ops.push(read_op(r, &shadow));
                }
            }
            for o in &ops {
                apply(o, &mut shadow);
            }
            ops.push(Op::Range(None, None, true, true));
            if r.chance(1, 3) {
                ops.push(Op::Reload);
            }
            let asc_del = r.chance(1, 2);
            for i in 0..n {
                let k = if asc_del { i } else { n - 1 - i };
                let o = Op::Delete(k);
                apply(&o, &mut shadow);
                ops.push(o);
                if r.chance(1, 5) {
                    ops.push(read_op(r, &shadow));
                }
            }
            ops.push(Op::Range(None, None, true, true));
            ops.push(Op::Insert(3, next_row));
        }
        "empty-big-drain" => {
            // a tall tree, then every key deleted in random order: borrows and merges at every level,
            // several root collapses
            let n = r.range(50, 110);
            let mut order: Vec<i64> = (0..n).collect();
            for i in (1..order.len()).rev() {
                let j = r.below(i as u64 + 1) as usize;
                order.swap(i, j);
            }
            for k in &order {
                let o = Op::Insert(*k, next_row);
                next_row += 1;
                apply(&o, &mut shadow);
                ops.push(o);
                if r.chance(1, 4) {
                    let o2 = Op::Insert(*k, next_row);
                    next_row += 1;
                    apply(&o2, &mut shadow);
                    ops.push(o2);
                }
            }
            ops.push(Op::Range(None, None, true, true));
            for i in (1..order.len()).rev() {
                let j = r.below(i as u64 + 1) as usize;
                order.swap(i, j);
            }
            for k in &order {
                let o = if r.chance(1, 4) {
                    match shadow.get(k) {
                        Some(rs) => Op::DeleteOne(*k, *r.pick(rs)),
                        None => Op::Delete(*k),
                    }
                } else {
                    Op::Delete(*k)
                };
                apply(&o, &mut shadow);
                ops.push(o);
                if r.chance(1, 8) {
                    ops.push(read_op(r, &shadow));
                }
                if r.chance(1, 40) {
                    ops.push(Op::Reload);
                }
            }
            ops.push(Op::Range(None, None, true, true));
            ops.push(Op::Insert(5, next_row));
            ops.push(Op::Lookup(5));
        }
        "empty-overflow" => {
            let k = 1;
            ops.push(Op::Insert(0, next_row));
            ops.push(Op::Insert(2, next_row + 1));
            next_row += 2;
            for _ in 0..r.range(505, 515) {
                ops.push(Op::Insert(k, next_row));
                next_row += 1;
            }
            ops.push(Op::Lookup(0));
        }
        _ => {
            // phases: grow, mixed, shrink, mixed
            for i in 0..nops {
                let phase = (i * 4) / nops;
                let (pi, pd) = match phase {
                    0 => (70, 8),
                    1 => (35, 30),
                    2 => (8, 70),
                    _ => (35, 35),
                };
                let (pi, pd) = if kind == "bulk-single-child" && i < 12 { (0, 85) } else { (pi, pd) };
                let roll = r.below(100);
                let op = if roll < pi {
                    let k = r.range(0, universe);
                    let o = Op::Insert(k, next_row);
                    next_row += 1;
                    if (kind == "empty-dups" || kind == "bulk-dups") && r.chance(1, 2) {
                        // a burst of duplicates
                        for _ in 0..r.range(1, 12) {
                            let oo = Op::Insert(k, next_row);
                            next_row += 1;
                            apply(&oo, &mut shadow);
                            ops.push(oo);
                        }
                    }
                    o
                } else if roll < pi + pd {
                    let existing: Vec<i64> = shadow.keys().copied().collect();
                    let k = if !existing.is_empty() && r.chance(5, 6) {
                        if kind == "bulk-single-child" && i < 12 {
                            *existing.last().unwrap()
                        } else {
                            *r.pick(&existing)
                        }
                    } else {
                        r.range(-1, universe + 1)
                    };
                    if r.chance(1, 3) {
                        let rr = match shadow.get(&k) {
                            Some(rs) if r.chance(4, 5) => *r.pick(rs),
                            _ => r.range(0, 2000) as u64,
                        };
                        Op::DeleteOne(k, rr)
                    } else {
                        Op::Delete(k)
                    }
                } else if roll < pi + pd + 4 {
                    Op::Reload
                } else {
                    read_op(r, &shadow)
                };
                apply(&op, &mut shadow);
                ops.push(op);
            }
            ops.push(Op::Range(None, None, true, true));
            let ks: Vec<i64> = shadow.keys().copied().take(40).collect();
            ops.push(Op::Multi(ks));
        }
    }
    if kind == "bulk-tall" || kind == "bulk-single-child" {
        // look every loaded key up first: this is where the bulk_load separators matter
        let mut pre: Vec<Op> = Vec::new();
        if let Some(es) = &init {
            let mut ks: Vec<i64> = es.iter().map(|e| e.0).collect();
            ks.dedup();
            let step = std::cmp::max(1, ks.len() / 40);
            let sample: Vec<i64> = ks.iter().copied().step_by(step).collect();
            pre.push(Op::Multi(sample.clone()));
            for k in sample.iter().take(10) {
                pre.push(Op::Range(Some(*k), Some(*k + 2), true, false));
            }
            pre.push(Op::Range(None, None, true, true));
        }
        pre.extend(ops);
        ops = pre;
    }
    (init, ops, kind)
}

fn run_case(idx: u64, seed: u64, thorough: bool, native: &Arc<NativeStorage>, probes: &Probes) -> CaseOut {
    let on_disk = idx % 8 == 0;
    let storage: Arc<dyn StorageBackend> = if on_disk { native.clone() } else { Arc::new(MemStorage) };
    let storage = &storage;
    let mut r = Rng::new(seed, &format!("c17/case/{}", idx));
    let (varl, deg_expected) = *r.pick(&DEGREES);
    let cfg = Cfg { varl, width: *r.pick(&[5usize, 5, 9, 30]) };
    let (init, ops, kind) = gen_case(&mut r, deg_expected, thorough);
    let base = idx * 10;
    let mut out = CaseOut {
        idx,
        coq: String::new(),
        case_json: Value::Null,
        findings: Vec::new(),
        counters: vec![format!("init_{}", kind), if on_disk { "storage_native_file".to_string() } else { "storage_memory_file".to_string() }],
        evals: 0,
        nontrivial: false,
        canonical: String::new(),
    };
    let fname = format!("c{}.db", idx);
    let pm = Arc::new(PageManager::new(&fname, storage.clone()).expect("page manager"));
    let mut oracle: BTreeMap<i64, Vec<u64>> = BTreeMap::new();
    // --- construction ---
    let built = catch_unwind(AssertUnwindSafe(|| match &init {
        None => BTreeIndex::new(pm.clone(), cfg.schema()),
        Some(es) => {
            let entries: Vec<(Key, usize)> = es.iter().map(|(k, rr)| (cfg.key(*k), *rr as usize)).collect();
            BTreeIndex::bulk_load(entries, cfg.schema(), pm.clone())
        }
    }));
    if let Some(es) = &init {
        for (k, rr) in es {
            oracle.entry(*k).or_default().push(*rr);
        }
    }
    let (init_obs, mut index): (Ans, Option<BTreeIndex>) = match built {
        Ok(Ok(i)) => (Ans::Unit, Some(i)),
        Ok(Err(e)) => (Ans::Err(format!("{:?}", e)), None),
        Err(p) => (Ans::Panic(panic_msg(p)), None),
    };
    out.evals += 1;
    let mut obs: Vec<Ans> = Vec::new();
    let mut final_dump: Option<(DNode, usize)> = None;
    let mut degree = deg_expected;
    let mut tainted_sep = false; // the tree built by bulk_load already violates the separator bounds
    let mut first_divergence: Option<(String, String)> = None;
    let mut heights: Vec<usize> = Vec::new();
    let mut any_nonempty_read = false;
    match (&init_obs, index.as_mut()) {
        (Ans::Unit, Some(ix)) => {
            degree = ix.degree();
            if degree != deg_expected {
                out.findings.push(("degree-mismatch".into(), format!("VARCHAR({}) gives degree {} (expected {})", varl, degree, deg_expected)));
            }
            heights.push(ix.height());
            let mut budget = 4000usize;
            let mut prev_shape = Shape { n_leaves: 0, n_internal: 0 };
            match dump(&pm, ix.root_page_id(), 1, &mut budget) {
                Ok(d0) => {
                    count(&d0, &mut prev_shape);
                    if init.is_some() {
                        let viol = structure_violations(&d0, ix.height(), &oracle);
                        if !viol.is_empty() {
                            let only_sep = viol.iter().all(|v| v.starts_with("separator bounds"));
                            if only_sep && ix.height() >= 3 {
                                tainted_sep = true;
                                out.findings.push((
                                    "bulk-load-separator".into(),
                                    format!("bulk_load of {} keys (degree {}, height {}): a separator is larger than the minimum key of its right subtree", oracle.len(), degree, ix.height()),
                                ));
                            } else {
                                out.findings.push(("bulk-load-structure".into(), format!("after bulk_load: {}", viol.join("; "))));
                            }
                        }
                        if has_single_child_internal(&d0) {
                            out.counters.push("bulk_single_child_internal".into());
                        }
                    }
                    final_dump = Some((d0, ix.height()));
                }
                Err(e) => out.findings.push(("dump-failed".into(), format!("after construction: {}", e))),
            }
            // --- the history ---
            for (oi, op) in ops.iter().enumerate() {
                let single_child_before = final_dump.as_ref().map(|d| has_single_child_internal(&d.0)).unwrap_or(false);
                let a = impl_step(ix, &pm, &cfg, op);
                let want = oracle_step(&mut oracle, op);
                out.evals += 1;
                out.counters.push(
                    match op {
                        Op::Insert(..) => "op_insert",
                        Op::Delete(..) => "op_delete",
                        Op::DeleteOne(..) => "op_delete_specific",
                        Op::Lookup(..) => "op_lookup",
                        Op::Multi(..) => "op_multi_lookup",
                        Op::Range(s, e, ..) => match (s, e) {
                            (None, None) => "op_range_full",
                            (Some(_), None) => "op_range_from",
                            (None, Some(_)) => "op_range_to",
                            _ => "op_range_between",
                        },
                        Op::Reload => "op_reload",
                    }
                    .to_string(),
                );
                if let Ans::Rows(rs) = &a {
                    if !rs.is_empty() {
                        any_nonempty_read = true;
                    }
                }
                obs.push(a.clone());
                let diverged = a != want;
                let fatal = matches!(a, Ans::Err(_) | Ans::Panic(_));
                if diverged && fatal && first_divergence.is_some() {
                    // an error or panic is reported even when an earlier wrong answer was already recorded
                    out.findings.push(first_divergence.take().unwrap());
                }
                if diverged && first_divergence.is_none() {
                    let class = match &a {
                        Ans::Err(_) => {
                            if final_dump.as_ref().map(|d| explains_overflow(&d.0, op, cfg.ksz())).unwrap_or(false) {
                                "rowid-list-page-overflow"
                            } else {
                                "unexpected-error"
                            }
                        }
                        Ans::Panic(_) => {
                            if matches!(op, Op::Delete(..) | Op::DeleteOne(..)) && init.is_some() && single_child_before {
                                "bulk-load-single-child-delete-panic"
                            } else {
                                "panic"
                            }
                        }
                        _ => {
                            if tainted_sep {
                                "bulk-load-separator"
                            } else {
                                "result-mismatch"
                            }
                        }
                    };
                    first_divergence = Some((class.into(), format!("op #{} {:?}: index answered {:?}, ordered multimap {:?}", oi, op, short(&a), short(&want))));
                }
                if matches!(a, Ans::Err(_) | Ans::Panic(_)) {
                    final_dump = None;
                    out.counters.push(if matches!(a, Ans::Err(_)) { "ended_by_error" } else if single_child_before { "ended_by_panic_single_child_parent" } else { "ended_by_panic_other" }.into());
                    break;
                }
                // structure after every mutation
                if matches!(op, Op::Insert(..) | Op::Delete(..) | Op::DeleteOne(..) | Op::Reload) {
                    let h = ix.height();
                    if *heights.last().unwrap() != h {
                        out.counters.push(if h > *heights.last().unwrap() { "event_root_split" } else { "event_root_collapse" }.into());
                    }
                    heights.push(h);
                    let mut budget = 4000usize;
                    match dump(&pm, ix.root_page_id(), 1, &mut budget) {
                        Ok(dn) => {
                            let mut sh = Shape { n_leaves: 0, n_internal: 0 };
                            count(&dn, &mut sh);
                            if sh.n_leaves > prev_shape.n_leaves {
                                out.counters.push("event_leaf_split".into());
                            }
                            if sh.n_leaves < prev_shape.n_leaves {
                                out.counters.push("event_leaf_merge".into());
                            }
                            if sh.n_internal < prev_shape.n_internal && h == heights[heights.len() - 2] {
                                out.counters.push("event_internal_merge".into());
                            }
                            if matches!(op, Op::Delete(..) | Op::DeleteOne(..)) && sh.n_leaves == prev_shape.n_leaves && a == Ans::Bool(true) {
                                if let Some((prev, _)) = &final_dump {
                                    if separator_set(prev) != separator_set(&dn) {
                                        out.counters.push("event_borrow".into());
                                    }
                                }
                            }
                            prev_shape = sh;
                            if first_divergence.is_none() && !tainted_sep {
                                let viol = structure_violations(&dn, h, &oracle);
                                if !viol.is_empty() {
                                    first_divergence = Some(("structure-violation".into(), format!("after op #{} {:?}: {}", oi, op, viol.join("; "))));
                                }
                            }
                            final_dump = Some((dn, h));
                        }
                        Err(e) => {
                            if first_divergence.is_none() {
                                first_divergence = Some((if tainted_sep { "bulk-load-separator" } else { "dump-failed" }.into(), format!("after op #{} {:?}: {}", oi, op, e)));
                            }
                            final_dump = None;
                        }
                    }
                }
            }
        }
        (a, _) => {
            // construction failed
            let class = match a {
                Ans::Err(_) if bulk_overflows(&oracle, deg_expected, cfg.ksz()) => "rowid-list-page-overflow",
                Ans::Err(_) => "unexpected-error",
                _ => "panic",
            };
            first_divergence = Some((class.into(), format!("bulk_load of {} entries answered {:?}", init.as_ref().map(|e| e.len()).unwrap_or(0), short(a))));
        }
    }
    if let Some(fd) = first_divergence {
        out.findings.push(fd);
    }
    drop(index);
    let _ = storage.delete_file(&fname);
    let hmax = heights.iter().copied().max().unwrap_or(0);
    let hmin = heights.iter().copied().min().unwrap_or(0);
    out.counters.push(format!("degree_{}", degree));
    out.counters.push(format!("max_height_{}", hmax));
    out.nontrivial = (hmax != hmin || hmax >= 2) && any_nonempty_read;
    // --- Coq case ---
    let init_list = init.clone().unwrap_or_default();
    let dump_txt = match &final_dump {
        Some((d, h)) => format!("(Some (mkTree ({}) {}%nat))", coq_node(d), h),
        None => "None".into(),
    };
    out.coq = format!(
        "(mkCase {} {}%nat {} {} {} {} {} {} ({}) {} {} {})",
        base,
        degree,
        varl,
        cfg.ksz(),
        init.is_some(),
        probes.sep_fixed,
        probes.guard,
        coq_list(&init_list, |(k, rr)| format!("({},{})", coq_z(*k), rr)),
        coq_ans(&init_obs),
        coq_list(&ops[..], |o| format!("({})", coq_op(o))),
        coq_list(&obs[..], |a| format!("({})", coq_ans(a))),
        dump_txt
    );
    out.canonical = format!("{}|{}|{:?}|{:?}", varl, cfg.width, init, ops);
    out.case_json = json!({
        "case": idx, "kind": kind, "varchar": varl, "degree": degree, "key_width": cfg.width,
        "bulk_load": init.as_ref().map(|e| format!("{:?}", e)),
        "ops": ops.iter().map(|o| format!("{:?}", o)).collect::<Vec<_>>(),
        "answers": obs.iter().map(|a| format!("{:?}", short(a))).collect::<Vec<_>>(),
        "heights": heights,
    });
    out
}

fn separator_set(n: &DNode) -> Vec<i64> {
    match n {
        DNode::Leaf { .. } => vec![],
        DNode::Node { keys, children, .. } => {
            let mut v = keys.clone();
            for c in children {
                v.extend(separator_set(c));
            }
            v
        }
    }
}

fn short(a: &Ans) -> Ans {
    match a {
        Ans::Rows(r) if r.len() > 24 => {
            let mut v = r[..24].to_vec();
            v.push(u64::MAX);
            Ans::Rows(v)
        }
        Ans::Err(e) => Ans::Err(e.chars().take(120).collect()),
        x => x.clone(),
    }
}

fn storage_delete(storage: &Arc<NativeStorage>, name: &str) -> Result<(), ()> {
    storage.delete_file(name).map_err(|_| ())
}

fn probe(storage: &Arc<NativeStorage>) -> Probes {
    let cfg = Cfg { varl: 250, width: 5 };
    // separator rule: 30 keys at degree 5 -> height 4; key 9 is missed by the code as written
    let pm = Arc::new(PageManager::new("probe_a.db", storage.clone()).expect("pm"));
    let es: Vec<(Key, usize)> = (0..30).map(|i| (cfg.key(i), i as usize)).collect();
    let sep_fixed = match BTreeIndex::bulk_load(es, cfg.schema(), pm) {
        Ok(ix) => (0..30).all(|i| ix.lookup(&cfg.key(i)).map(|v| v == vec![i as usize]).unwrap_or(false)),
        Err(_) => false,
    };
    // single-child guard: 10 keys -> last internal node has one leaf; deleting key 9 panics as written
    let pm = Arc::new(PageManager::new("probe_b.db", storage.clone()).expect("pm"));
    let es: Vec<(Key, usize)> = (0..10).map(|i| (cfg.key(i), i as usize)).collect();
    let guard = match BTreeIndex::bulk_load(es, cfg.schema(), pm) {
        Ok(mut ix) => catch_unwind(AssertUnwindSafe(|| ix.delete(&cfg.key(9)))).is_ok(),
        Err(_) => false,
    };
    let _ = storage_delete(storage, "probe_a.db");
    let _ = storage_delete(storage, "probe_b.db");
    Probes { sep_fixed, guard }
}

fn main() {
    let args = parse_args();
    quiet_panics();
    let mut sum = Summary::default();
    sum.nontrivial_rule = "a case is one index (empty or bulk-loaded) with a history of 40-300 operations; distinct = distinct (schema, initial entries, history); non-trivial = the tree had height >= 2 at some point (a split, or a bulk-loaded multi-level tree) and at least one lookup/scan returned rows".into();
    let mut log = CaseLog::new(&args);
    let tmp = args.out.join("c17tmp");
    let _ = std::fs::remove_dir_all(&tmp);
    let storage = Arc::new(NativeStorage::new(&tmp).expect("scratch storage"));
    let probes = probe(&storage);
    sum.notes.push(format!("probes: bulk_load separator rule repaired = {}, single-child rebalance guard present = {}", probes.sep_fixed, probes.guard));
    let ncases: u64 = args.extra.get("cases").and_then(|v| v.parse().ok()).unwrap_or(if args.thorough { 5000 } else { 1500 });
    let nshards: u64 = if args.thorough { 48 } else { 16 };
    let wanted: Vec<u64> = match &args.only {
        Some(ids) => {
            let mut v: Vec<u64> = ids.iter().map(|i| i / 10).collect();
            v.sort();
            v.dedup();
            v
        }
        None => (0..ncases).collect(),
    };
    // run the cases on a few threads (each case has its own file and its own random stream); the
    // workers are detached so that a case that never returns (e.g. a cycle in the leaf chain) can be
    // reported instead of hanging the check
    let nthreads = 8usize;
    let chunks: Vec<Vec<u64>> = (0..nthreads).map(|t| wanted.iter().copied().filter(|i| (*i as usize) % nthreads == t).collect()).collect();
    let probes = Arc::new(probes);
    let done: Arc<Mutex<Vec<CaseOut>>> = Arc::new(Mutex::new(Vec::new()));
    let state: Arc<Vec<(AtomicU64, AtomicU64)>> = Arc::new((0..nthreads).map(|_| (AtomicU64::new(0), AtomicU64::new(0))).collect());
    let finished = Arc::new(AtomicU64::new(0));
    let t0 = std::time::Instant::now();
    for (t, ch) in chunks.into_iter().enumerate() {
        let (storage, probes, done, state, finished) = (storage.clone(), probes.clone(), done.clone(), state.clone(), finished.clone());
        let (seed, thorough) = (args.seed, args.thorough);
        std::thread::spawn(move || {
            for i in ch {
                state[t].1.store(t0.elapsed().as_millis() as u64, Ordering::SeqCst);
                state[t].0.store(i + 1, Ordering::SeqCst);
                let c = run_case(i, seed, thorough, &storage, &probes);
                state[t].0.store(0, Ordering::SeqCst);
                done.lock().unwrap().push(c);
            }
            finished.fetch_add(1, Ordering::SeqCst);
        });
    }
    let limit_ms: u64 = 90_000;
    let mut hung: Vec<u64> = Vec::new();
    while finished.load(Ordering::SeqCst) < nthreads as u64 {
        std::thread::sleep(std::time::Duration::from_millis(100));
        let now = t0.elapsed().as_millis() as u64;
        for st in state.iter() {
            let cur = st.0.load(Ordering::SeqCst);
            if cur != 0 && now.saturating_sub(st.1.load(Ordering::SeqCst)) > limit_ms {
                hung.push(cur - 1);
            }
        }
        if !hung.is_empty() {
            break;
        }
    }
    let mut results: Vec<CaseOut> = std::mem::take(&mut *done.lock().unwrap());
    for i in &hung {
        sum.finding("operation-does-not-terminate", i * 10, format!("case {} did not finish within {} s (an operation of the index loops; replay with --only {})", i, limit_ms / 1000, i * 10), json!({"case": i}));
    }
    results.sort_by_key(|c| c.idx);
    let per_shard = (ncases + nshards - 1) / nshards;
    let mut shard_txt: BTreeMap<u64, Vec<String>> = BTreeMap::new();
    for c in &results {
        sum.evaluations += c.evals;
        for k in &c.counters {
            sum.count(k);
        }
        if c.nontrivial {
            sum.nontrivial(&c.canonical);
        }
        for (class, what) in &c.findings {
            sum.finding(class, c.idx * 10, what.clone(), c.case_json.clone());
        }
        if c.idx < 3 {
            sum.sample(c.case_json.clone());
        }
        log.log(c.idx * 10, c.case_json.clone());
        for k in 1..4 {
            log.log(c.idx * 10 + k, json!({"see": c.idx * 10}));
        }
        shard_txt.entry(c.idx / per_shard).or_default().push(c.coq.clone());
        sum.model_cases += 1;
    }
    if args.only.is_none() {
        for (k, cases) in &shard_txt {
            let mut s = String::new();
            s.push_str("From Coq Require Import List ZArith.\nImport ListNotations.\nFrom VibeSQL Require Import Store.BTree Run.C17Run.\nOpen Scope Z_scope.\n");
            s.push_str("Definition cases : list c17case := [\n");
            s.push_str(&cases.join(";\n"));
            s.push_str("].\nEval vm_compute in (c17_mismatches cases).\n");
            write_shard(&args, *k as usize, &s);
        }
    }
    sum.write(&args);
    if !hung.is_empty() {
        // worker threads are still inside the index: leave without joining them
        std::process::exit(0);
    }
    let _ = std::fs::remove_dir_all(&tmp);
}
