//! C11 correspondence + property oracle: failed DML statements leave the database unchanged; successful multi-row
//! statements apply all of their rows.
//!
//! Fault-position enumeration: for a k-row INSERT (VALUES, SELECT through the bulk-transfer path, SELECT through
//! the normal path), UPDATE or DELETE the failing row is planted at EVERY position 0..k-1, for each failure kind
//! (duplicate key against the table / inside the batch, NULL into NOT NULL, type error, failing CHECK, FK miss,
//! missing column, trigger that raises BEFORE / AFTER the row or the statement, NO ACTION hit behind cascades,
//! storage-level type mismatch in UPDATE).  Full snapshot (rows in storage order, primary-key index, index-driven
//! point lookups, catalog listing) before and after; any difference after an error is a finding.
#[path = "../c11_c34.rs"]
mod dm;
use dm::*;
use serde_json::json;
use vh::out::*;
use vh::rng::Rng;
use vh::sql::Outcome;

#[derive(Clone, Debug, PartialEq)]
enum Fault {
    None,
    DupTable,
    DupBatch,
    NotNull,
    TypeErr,
    Check,
    FkMiss,
    MissingCol,
    ColCount,
    WhereErr,
    RowTrig(Timing, u64, bool), // timing, failing-statement kind, audit statement in front of it
    StmtTrig(Timing, u64),
    WhenErr(Timing),
    NoActionHit,
    ApplyType,
}

struct Scenario {
    case: Case,
    kind: &'static str, // insert-values | insert-select-bulk | insert-select | update | delete
    fault: Fault,
    k: usize,
    pos: usize,
    has_audit: bool,
}

fn shuffled(r: &mut Rng, mut v: Vec<i64>) -> Vec<i64> {
    for i in (1..v.len()).rev() {
        let j = r.below(i as u64 + 1) as usize;
        v.swap(i, j);
    }
    v
}

fn t0_row(r: &mut Rng, key: i64, with_fk: bool) -> Vec<Expr> {
    vec![
        lit(key),
        lit(r.range(0, 9)),
        if r.chance(1, 5) { null() } else { lit(r.range(0, 60)) },
        if with_fk && r.chance(2, 3) { lit(r.range(1, 4)) } else { null() },
    ]
}

fn base_setup(r: &mut Rng, keys0: &[i64], with_fk: bool) -> Vec<Stmt> {
    let mut s = vec![
        Stmt::Insert { t: 1, cols_ok: true, rows: (1..=4).map(|i| vec![lit(i), lit(i * 11)]).collect() },
        Stmt::Insert { t: ONCE, cols_ok: true, rows: vec![vec![lit(7)]] },
    ];
    for k in keys0 {
        s.push(Stmt::Insert { t: 0, cols_ok: true, rows: vec![t0_row(r, *k, with_fk)] });
    }
    s
}

/// triggers that only record (audit) and do not fail
fn audit_trigs(r: &mut Rng, next_id: &mut i64, ev: Ev, table: usize) -> Vec<Trig> {
    let mut v = Vec::new();
    for (timing, gran) in [(Timing::Before, Gran::Stmt), (Timing::Before, Gran::Row), (Timing::After, Gran::Row), (Timing::After, Gran::Stmt)] {
        if r.chance(1, 2) {
            let id = *next_id;
            *next_id += 1;
            v.push(Trig { id, table, timing, event: ev.clone(), gran, when: None, enabled: true, body: vec![audit_body(id, &ev, gran)] });
        }
    }
    v
}

fn gen(r: &mut Rng, idx: u64) -> Scenario {
    let fam = idx % 10;
    let with_fk = r.chance(1, 2);
    let acts = [Act::NoAction, Act::Cascade, Act::SetNull];
    let mut a2 = (*r.pick(&acts), *r.pick(&acts));
    let mut a3 = (*r.pick(&acts), *r.pick(&acts));
    let n0 = r.range(0, 5) as usize;
    let keys0: Vec<i64> = shuffled(r, vec![10, 20, 30, 40, 50, 60])[..n0].to_vec();
    let mut next_id: i64 = 1;
    // fault-position enumeration: within a family the case index enumerates fault kind x (row count k, position) with
    // k = 1..5 and the failing row at EVERY position 0..k-1 (15 pairs); a quick run goes through the whole product
    const KP: [(usize, usize); 15] =
        [(1, 0), (2, 0), (2, 1), (3, 0), (3, 1), (3, 2), (4, 0), (4, 1), (4, 2), (4, 3), (5, 0), (5, 1), (5, 2), (5, 3), (5, 4)];
    let n_faults: u64 = match fam {
        0..=3 => 14,
        4 | 5 => 7,
        6 | 7 => 14,
        _ => 8,
    };
    let (k, pos) = KP[(((idx / 10) / n_faults) % 15) as usize];
    match fam {
        // ---------------------------------------------------------------- INSERT ... VALUES
        0 | 1 | 2 | 3 => {
            let tabs = tables(with_fk, a2, a3, true);
            let mut setup = base_setup(r, &keys0, with_fk);
            let new_keys: Vec<i64> = shuffled(r, vec![11, 12, 13, 14, 15, 16, 17])[..k].to_vec();
            let mut rows: Vec<Vec<Expr>> = new_keys.iter().map(|key| t0_row(r, *key, with_fk)).collect();
            let mut trigs: Vec<Trig> = Vec::new();
            // path selection: no trigger (batch path for k > 1), audit triggers, unrelated / disabled trigger
            let path = r.below(4);
            let mut has_audit = false;
            if path == 1 {
                trigs = audit_trigs(r, &mut next_id, Ev::Insert, 0);
                has_audit = !trigs.is_empty();
            } else if path == 2 {
                let id = next_id;
                next_id += 1;
                trigs.push(Trig { id, table: 0, timing: Timing::After, event: Ev::Update(None), gran: Gran::Row, when: None, enabled: true, body: vec![audit_body(id, &Ev::Update(None), Gran::Row)] });
            } else if path == 3 {
                let id = next_id;
                next_id += 1;
                trigs.push(Trig { id, table: 0, timing: Timing::After, event: Ev::Insert, gran: Gran::Row, when: None, enabled: false, body: vec![audit_body(id, &Ev::Insert, Gran::Row)] });
            }
            let faults = [
                Fault::None, Fault::DupTable, Fault::DupBatch, Fault::NotNull, Fault::TypeErr, Fault::Check, Fault::FkMiss, Fault::MissingCol,
                Fault::ColCount, Fault::RowTrig(Timing::Before, r.below(4), r.chance(1, 3)), Fault::RowTrig(Timing::After, r.below(4), r.chance(1, 3)),
                Fault::StmtTrig(Timing::Before, r.below(4)), Fault::StmtTrig(Timing::After, r.below(4)), Fault::WhenErr(Timing::After),
            ];
            assert!(faults.len() as u64 == n_faults, "harness: fault table size");
            let mut fault = faults[((idx / 10) % faults.len() as u64) as usize].clone();
            let mut cols_ok = true;
            match &fault {
                Fault::DupTable => {
                    if keys0.is_empty() {
                        fault = Fault::NotNull;
                        rows[pos][1] = null();
                    } else {
                        rows[pos][0] = lit(*r.pick(&keys0));
                    }
                }
                Fault::DupBatch => {
                    if pos == 0 {
                        fault = Fault::Check;
                        rows[pos][2] = lit(100 + r.range(0, 5));
                    } else {
                        let q = r.below(pos as u64) as usize;
                        rows[pos][0] = rows[q][0].clone();
                    }
                }
                Fault::NotNull => rows[pos][1] = null(),
                Fault::TypeErr => {
                    let c = r.below(4) as usize;
                    rows[pos][c] = Expr::Lit(Cell::Str);
                }
                Fault::Check => rows[pos][2] = lit(100 + r.range(0, 5)),
                Fault::FkMiss => {
                    if with_fk {
                        rows[pos][3] = lit(9);
                    } else {
                        fault = Fault::Check;
                        rows[pos][2] = lit(100);
                    }
                }
                Fault::MissingCol => cols_ok = false,
                Fault::ColCount => {
                    rows[pos].pop();
                }
                Fault::RowTrig(tm, fk, with_audit) => {
                    let id = next_id;
                    next_id += 1;
                    let mut body = Vec::new();
                    if *with_audit {
                        body.push(audit_body(id, &Ev::Insert, Gran::Row));
                    }
                    body.extend(failing_stmt(*fk));
                    trigs.push(Trig { id, table: 0, timing: *tm, event: Ev::Insert, gran: Gran::Row, when: Some(eqc(Expr::New(0), new_keys[pos])), enabled: true, body });
                }
                Fault::StmtTrig(tm, fk) => {
                    let id = next_id;
                    next_id += 1;
                    trigs.push(Trig { id, table: 0, timing: *tm, event: Ev::Insert, gran: Gran::Stmt, when: None, enabled: true, body: failing_stmt(*fk) });
                }
                Fault::WhenErr(tm) => {
                    let id = next_id;
                    next_id += 1;
                    // OLD is not available in an INSERT trigger: the WHEN condition fails to evaluate for row `pos`
                    let when = Cond::And(Box::new(eqc(Expr::New(0), new_keys[pos])), Box::new(eqc(Expr::Old(0), 1)));
                    trigs.push(Trig { id, table: 0, timing: *tm, event: Ev::Insert, gran: Gran::Row, when: Some(when), enabled: true, body: vec![audit_body(id, &Ev::Insert, Gran::Row)] });
                }
                _ => {}
            }
            if r.chance(1, 2) {
                let n = trigs.len();
                if n > 1 {
                    let i = r.below(n as u64) as usize;
                    let j = r.below(n as u64) as usize;
                    trigs.swap(i, j);
                }
            }
            let _ = &mut setup;
            Scenario { case: Case { tabs, setup, trigs, stmt: Stmt::Insert { t: 0, cols_ok, rows } }, kind: "insert-values", fault, k, pos, has_audit }
        }
        // ---------------------------------------------------------------- INSERT ... SELECT
        4 | 5 => {
            let tabs = tables(with_fk, a2, a3, true);
            let mut setup = base_setup(r, &keys0, with_fk);
            let bulk = r.chance(2, 3);
            let (src, star) = if bulk { (SRC_OK, true) } else if r.chance(1, 2) { (SRC_NULLABLE, true) } else { (SRC_OK, false) };
            let mut src_keys: Vec<i64> = shuffled(r, vec![11, 12, 13, 14, 15, 16, 17])[..k].to_vec();
            if r.chance(1, 2) {
                src_keys.sort();
            }
            let mut rows: Vec<Vec<Expr>> = src_keys.iter().map(|key| t0_row(r, *key, with_fk)).collect();
            for row in rows.iter_mut() {
                if row[1] == null() {
                    row[1] = lit(1);
                }
            }
            let faults = [Fault::None, Fault::DupTable, Fault::Check, Fault::FkMiss, Fault::NotNull, Fault::RowTrig(Timing::After, r.below(4), r.chance(1, 3)), Fault::RowTrig(Timing::Before, r.below(4), false)];
            assert!(faults.len() as u64 == n_faults, "harness: fault table size");
            let mut fault = faults[((idx / 10) % faults.len() as u64) as usize].clone();
            let mut trigs: Vec<Trig> = Vec::new();
            let mut has_audit = false;
            if r.chance(1, 2) {
                trigs = audit_trigs(r, &mut next_id, Ev::Insert, 0);
                has_audit = !trigs.is_empty();
            }
            match &fault {
                Fault::DupTable => {
                    if keys0.is_empty() {
                        fault = Fault::Check;
                        rows[pos][2] = lit(100);
                    } else {
                        rows[pos][0] = lit(*r.pick(&keys0));
                    }
                }
                Fault::Check => rows[pos][2] = lit(100 + r.range(0, 5)),
                Fault::FkMiss => {
                    if with_fk {
                        rows[pos][3] = lit(9);
                    } else {
                        fault = Fault::Check;
                        rows[pos][2] = lit(100);
                    }
                }
                Fault::NotNull => {
                    if src == SRC_NULLABLE {
                        rows[pos][1] = null();
                    } else {
                        fault = Fault::Check;
                        rows[pos][2] = lit(100);
                    }
                }
                Fault::RowTrig(tm, fk, with_audit) => {
                    let id = next_id;
                    next_id += 1;
                    let mut body = Vec::new();
                    if *with_audit {
                        body.push(audit_body(id, &Ev::Insert, Gran::Row));
                    }
                    body.extend(failing_stmt(*fk));
                    let key = match &rows[pos][0] {
                        Expr::Lit(Cell::Int(i)) => *i,
                        _ => 0,
                    };
                    trigs.push(Trig { id, table: 0, timing: *tm, event: Ev::Insert, gran: Gran::Row, when: Some(eqc(Expr::New(0), key)), enabled: true, body });
                }
                _ => {}
            }
            let src_rows_keys: Vec<Expr> = rows.iter().map(|r| r[0].clone()).collect();
            for row in rows {
                setup.push(Stmt::Insert { t: src, cols_ok: true, rows: vec![row] });
            }
            // the bulk-transfer path is only taken when the destination table has no INSERT trigger (any timing,
            // granularity, enabled or not)
            let bulk = bulk && !trigs.iter().any(|t| t.table == 0 && matches!(t.event, Ev::Insert));
            let kind = if bulk { "insert-select-bulk" } else { "insert-select" };
            // the normal path inserts the SELECT's result, which the executor sorts (implicit ordering): the planted
            // row's position is its rank among the source keys
            let pos = if bulk {
                pos
            } else {
                let key_of = |e: &Expr| if let Expr::Lit(Cell::Int(i)) = e { *i } else { 0 };
                let kp = key_of(&src_rows_keys[pos]);
                src_rows_keys.iter().filter(|e| key_of(e) < kp).count()
            };
            Scenario { case: Case { tabs, setup, trigs, stmt: Stmt::InsertSel { t: 0, src, star } }, kind, fault, k, pos, has_audit }
        }
        // ---------------------------------------------------------------- UPDATE
        6 | 7 => {
            let faults = [
                Fault::None, Fault::NotNull, Fault::Check, Fault::DupTable, Fault::FkMiss, Fault::ApplyType, Fault::MissingCol, Fault::WhereErr,
                Fault::RowTrig(Timing::Before, r.below(4), r.chance(1, 3)), Fault::RowTrig(Timing::After, r.below(4), r.chance(1, 3)),
                Fault::StmtTrig(Timing::Before, r.below(4)), Fault::StmtTrig(Timing::After, r.below(4)), Fault::NoActionHit, Fault::WhenErr(Timing::Before),
            ];
            assert!(faults.len() as u64 == n_faults, "harness: fault table size");
            let mut fault = faults[((idx / 10) % faults.len() as u64) as usize].clone();
            if fault == Fault::NoActionHit {
                a2 = (Act::Cascade, if r.chance(1, 2) { Act::Cascade } else { Act::SetNull });
                a3 = (Act::NoAction, Act::NoAction);
            }
            let tabs = tables(with_fk, a2, a3, true);
            // the k affected rows are those with key >= 30 (k of them), others stay
            let all = [10i64, 20, 30, 40, 50, 60, 70];
            let extra = r.range(0, 2) as usize;
            let keys: Vec<i64> = shuffled(r, all[..(k + extra).min(7)].to_vec());
            let mut sorted = keys.clone();
            sorted.sort();
            let lo = sorted[sorted.len() - k];
            let affected: Vec<i64> = keys.iter().cloned().filter(|x| *x >= lo).collect(); // in storage order
            let key_p = affected[pos];
            let mut setup = base_setup(r, &keys, with_fk);
            let mut trigs: Vec<Trig> = Vec::new();
            let mut has_audit = false;
            if r.chance(1, 2) {
                trigs = audit_trigs(r, &mut next_id, Ev::Update(None), 0);
                has_audit = !trigs.is_empty();
            }
            // children
            for (i, key) in keys.iter().enumerate() {
                if r.chance(1, 3) && fault != Fault::NoActionHit {
                    setup.push(Stmt::Insert { t: 2, cols_ok: true, rows: vec![vec![lit(100 + i as i64), lit(*key)]] });
                }
            }
            let w = Some(Cond::Cmp(Op::Ge, Expr::Col(0), lit(lo)));
            let case_of = |then: Expr, els: Expr| Expr::Case(Box::new(eqc(Expr::Col(0), key_p)), Box::new(then), Box::new(els));
            let mut asg: Vec<(usize, Expr)> = vec![(2, Expr::Add(Box::new(Expr::Col(1)), r.range(1, 5)))];
            let mut wq = w.clone();
            match &fault {
                Fault::NotNull => asg = vec![(1, case_of(null(), Expr::Add(Box::new(Expr::Col(1)), 1)))],
                Fault::Check => asg = vec![(2, case_of(lit(100), lit(5)))],
                Fault::DupTable => {
                    let other = keys.iter().cloned().find(|x| *x != key_p);
                    match other {
                        Some(o) => asg = vec![(0, case_of(lit(o), Expr::Col(0)))],
                        None => {
                            fault = Fault::Check;
                            asg = vec![(2, case_of(lit(100), lit(5)))];
                        }
                    }
                }
                Fault::FkMiss => {
                    if with_fk {
                        asg = vec![(3, case_of(lit(9), lit(2)))];
                    } else {
                        fault = Fault::Check;
                        asg = vec![(2, case_of(lit(100), lit(5)))];
                    }
                }
                Fault::ApplyType => asg = vec![(1, case_of(Expr::Lit(Cell::Str), Expr::Add(Box::new(Expr::Col(1)), 7)))],
                Fault::MissingCol => asg = vec![(2, lit(1)), (77, lit(1))],
                Fault::WhereErr => {
                    wq = if r.chance(1, 2) { Some(Cond::And(Box::new(w.clone().unwrap()), Box::new(eqc(Expr::Col(77), 1)))) } else { Some(Cond::Val(Expr::Lit(Cell::Str))) }
                }
                Fault::RowTrig(tm, fk, with_audit) => {
                    let id = next_id;
                    next_id += 1;
                    let mut body = Vec::new();
                    if *with_audit {
                        body.push(audit_body(id, &Ev::Update(None), Gran::Row));
                    }
                    body.extend(failing_stmt(*fk));
                    trigs.push(Trig { id, table: 0, timing: *tm, event: Ev::Update(None), gran: Gran::Row, when: Some(eqc(Expr::Old(0), key_p)), enabled: true, body });
                }
                Fault::StmtTrig(tm, fk) => {
                    let id = next_id;
                    next_id += 1;
                    trigs.push(Trig { id, table: 0, timing: *tm, event: Ev::Update(None), gran: Gran::Stmt, when: None, enabled: true, body: failing_stmt(*fk) });
                }
                Fault::WhenErr(tm) => {
                    let id = next_id;
                    next_id += 1;
                    let when = Cond::And(Box::new(eqc(Expr::Old(0), key_p)), Box::new(eqc(Expr::New(77), 1)));
                    trigs.push(Trig { id, table: 0, timing: *tm, event: Ev::Update(None), gran: Gran::Row, when: Some(when), enabled: true, body: vec![audit_body(id, &Ev::Update(None), Gran::Row)] });
                }
                Fault::NoActionHit => {
                    // rewrite the primary key of every affected row: children in T2 follow (CASCADE / SET NULL),
                    // the child in T3 of row `pos` blocks (NO ACTION)
                    asg = vec![(0, Expr::Add(Box::new(Expr::Col(0)), 100))];
                    for (i, key) in affected.iter().enumerate() {
                        if i != pos && r.chance(2, 3) {
                            setup.push(Stmt::Insert { t: 2, cols_ok: true, rows: vec![vec![lit(200 + i as i64), lit(*key)]] });
                        }
                    }
                    setup.push(Stmt::Insert { t: 3, cols_ok: true, rows: vec![vec![lit(300), lit(key_p)]] });
                }
                _ => {}
            }
            if fault == Fault::None && r.chance(1, 3) {
                asg = vec![(0, Expr::Add(Box::new(Expr::Col(0)), 100)), (1, lit(3))];
            }
            Scenario { case: Case { tabs, setup, trigs, stmt: Stmt::Update { t: 0, asg, w: wq } }, kind: "update", fault, k, pos, has_audit }
        }
        // ---------------------------------------------------------------- DELETE
        _ => {
            let faults = [
                Fault::None, Fault::RowTrig(Timing::Before, r.below(4), r.chance(1, 3)), Fault::RowTrig(Timing::After, r.below(4), r.chance(1, 3)),
                Fault::StmtTrig(Timing::Before, r.below(4)), Fault::StmtTrig(Timing::After, r.below(4)), Fault::NoActionHit, Fault::WhenErr(Timing::After), Fault::WhereErr,
            ];
            assert!(faults.len() as u64 == n_faults, "harness: fault table size");
            let fault = faults[((idx / 10) % faults.len() as u64) as usize].clone();
            if fault == Fault::NoActionHit {
                a2 = (if r.chance(1, 2) { Act::Cascade } else { Act::SetNull }, Act::NoAction);
                a3 = (Act::NoAction, Act::NoAction);
            }
            let tabs = tables(with_fk, a2, a3, true);
            let all = [10i64, 20, 30, 40, 50, 60, 70];
            let extra = r.range(0, 2) as usize;
            let keys: Vec<i64> = shuffled(r, all[..(k + extra).min(7)].to_vec());
            let mut sorted = keys.clone();
            sorted.sort();
            let lo = sorted[sorted.len() - k];
            let affected: Vec<i64> = keys.iter().cloned().filter(|x| *x >= lo).collect();
            let key_p = affected[pos];
            let mut setup = base_setup(r, &keys, with_fk);
            let mut trigs: Vec<Trig> = Vec::new();
            let mut has_audit = false;
            if r.chance(1, 2) {
                trigs = audit_trigs(r, &mut next_id, Ev::Delete, 0);
                has_audit = !trigs.is_empty();
            }
            let mut w = Some(Cond::Cmp(Op::Ge, Expr::Col(0), lit(lo)));
            if extra == 0 && r.chance(1, 3) {
                w = None; // DELETE FROM T0: truncate fast path unless triggers / references exist
            }
            match &fault {
                Fault::RowTrig(tm, fk, with_audit) => {
                    let id = next_id;
                    next_id += 1;
                    let mut body = Vec::new();
                    if *with_audit {
                        body.push(audit_body(id, &Ev::Delete, Gran::Row));
                    }
                    body.extend(failing_stmt(*fk));
                    trigs.push(Trig { id, table: 0, timing: *tm, event: Ev::Delete, gran: Gran::Row, when: Some(eqc(Expr::Old(0), key_p)), enabled: true, body });
                }
                Fault::StmtTrig(tm, fk) => {
                    let id = next_id;
                    next_id += 1;
                    trigs.push(Trig { id, table: 0, timing: *tm, event: Ev::Delete, gran: Gran::Stmt, when: None, enabled: true, body: failing_stmt(*fk) });
                }
                Fault::WhenErr(tm) => {
                    let id = next_id;
                    next_id += 1;
                    let when = Cond::And(Box::new(eqc(Expr::Old(0), key_p)), Box::new(eqc(Expr::New(0), 1)));
                    trigs.push(Trig { id, table: 0, timing: *tm, event: Ev::Delete, gran: Gran::Row, when: Some(when), enabled: true, body: vec![audit_body(id, &Ev::Delete, Gran::Row)] });
                }
                Fault::NoActionHit => {
                    for (i, key) in affected.iter().enumerate() {
                        if i != pos && r.chance(2, 3) {
                            setup.push(Stmt::Insert { t: 2, cols_ok: true, rows: vec![vec![lit(200 + i as i64), lit(*key)]] });
                        }
                    }
                    if r.chance(1, 3) {
                        // the same parent row has a cascading child and a blocking child
                        setup.push(Stmt::Insert { t: 2, cols_ok: true, rows: vec![vec![lit(250), lit(key_p)]] });
                    }
                    setup.push(Stmt::Insert { t: 3, cols_ok: true, rows: vec![vec![lit(300), lit(key_p)]] });
                }
                Fault::WhereErr => {
                    w = if r.chance(1, 2) { Some(Cond::And(Box::new(Cond::Cmp(Op::Ge, Expr::Col(0), lit(lo))), Box::new(eqc(Expr::Col(77), 1)))) } else { Some(Cond::Val(Expr::Lit(Cell::Str))) }
                }
                _ => {
                    for (i, key) in keys.iter().enumerate() {
                        if r.chance(1, 3) && (a2.0 != Act::NoAction) {
                            setup.push(Stmt::Insert { t: 2, cols_ok: true, rows: vec![vec![lit(100 + i as i64), lit(*key)]] });
                        }
                    }
                }
            }
            Scenario { case: Case { tabs, setup, trigs, stmt: Stmt::Delete { t: 0, w } }, kind: "delete", fault, k, pos, has_audit }
        }
    }
}

/// tables whose rows differ between two observations
fn changed_tables(a: &[(usize, Vec<Row>)], b: &[(usize, Vec<Row>)]) -> Vec<usize> {
    let mut v: Vec<usize> = a.iter().filter(|(t, rows)| rows_of(b, *t) != rows.as_slice()).map(|(t, _)| *t).collect();
    v.sort();
    v
}

/// narrow classification of "the state changed although the statement returned an error"
fn classify(sc: &Scenario, changed: &[usize]) -> &'static str {
    let only_side = !changed.is_empty() && changed.iter().all(|t| *t == AUD || *t == ONCE || *t == AUD2);
    let trig_written = |t: &usize| *t == AUD || *t == ONCE || *t == AUD2;
    let has_body = sc.case.trigs.iter().any(|t| !t.body.is_empty());
    if only_side && has_body {
        // only tables written by trigger bodies differ: an earlier trigger (or an earlier statement of the failing body) had an effect
        return "trigger-side-effects-survive-failure";
    }
    let subject_only = changed.iter().all(|t| *t == 0 || trig_written(t));
    match (sc.kind, &sc.fault) {
        ("insert-values", Fault::RowTrig(_, _, _)) | ("insert-select", Fault::RowTrig(_, _, _)) | ("insert-values", Fault::WhenErr(_)) if sc.pos >= 1 && subject_only => {
            "insert-row-trigger-failure-keeps-earlier-rows"
        }
        ("insert-select-bulk", Fault::DupTable) | ("insert-select-bulk", Fault::Check) | ("insert-select-bulk", Fault::FkMiss) if sc.pos >= 1 && changed == [0] => {
            "insert-select-bulk-transfer-partial"
        }
        (_, Fault::StmtTrig(Timing::After, _)) if subject_only || sc.kind == "delete" || sc.kind == "update" => "after-statement-trigger-failure-keeps-change",
        ("update", Fault::RowTrig(Timing::After, _, _)) | ("update", Fault::WhenErr(Timing::After)) => "update-after-row-trigger-failure-keeps-change",
        ("delete", Fault::RowTrig(Timing::After, _, _)) | ("delete", Fault::WhenErr(Timing::After)) => "delete-after-row-trigger-failure-keeps-change",
        ("update", Fault::ApplyType) if sc.pos >= 1 && subject_only => "update-type-mismatch-keeps-earlier-rows",
        ("update", Fault::NoActionHit) | ("delete", Fault::NoActionHit) if changed.iter().all(|t| *t == 2 || trig_written(t)) => "fk-no-action-after-referential-actions",
        _ => "state-changed-after-error",
    }
}

fn main() {
    let args = parse_args();
    quiet_panics();
    let mut sum = Summary::default();
    sum.nontrivial_rule = "a case is (tables, set-up rows, triggers, one DML statement) with the implementation's result and every table before/after; distinct = distinct printed case; non-trivial = the statement addresses at least one row and either carries a planted fault or affects two or more rows".into();
    let mut log = CaseLog::new(&args);
    let n_cases: u64 = if args.thorough { 24000 } else { 2400 };
    let per_shard = 150;
    let mut shard_text: Vec<String> = Vec::new();
    let mut shard_k = 0usize;
    let mut known_model_ids: Vec<u64> = Vec::new();
    for id in 0..n_cases {
        if let Some(only) = &args.only {
            if !only.contains(&id) {
                continue;
            }
        }
        let mut r = Rng::new(args.seed, &format!("c11/{}", id));
        let mut sc = gen(&mut r, id);
        let keep = r.chance(1, 2);
        prune_case(&mut sc.case, keep);
        let ran = run_case(&sc.case);
        sum.evaluations += 1;
        let cj = || {
            let mut j = case_json(&sc.case);
            j["kind"] = json!(sc.kind);
            j["fault"] = json!(format!("{:?}", sc.fault));
            j["rows"] = json!(sc.k);
            j["position"] = json!(sc.pos);
            j
        };
        if let Some(e) = &ran.setup_failed {
            sum.finding("harness-setup-failed", id, e.clone(), cj());
            continue;
        }
        let code = res_code(&ran.res);
        sum.count(&format!("kind:{}", sc.kind));
        sum.count(&format!("fault:{}", format!("{:?}", sc.fault).split('(').next().unwrap()));
        sum.count(&format!("rows:{}", sc.k));
        sum.count(&format!("position:{}of{}", sc.pos, sc.k));
        sum.count(if code >= 0 { "result:ok" } else if code == -1 { "result:err" } else { "result:panic" });
        if sc.fault != Fault::None || sc.k >= 2 {
            sum.nontrivial(&format!("{}", cj()));
        }
        log.log(id, cj());
        if id < 6 {
            sum.sample(json!({"case": cj(), "result": ran.res.tag(), "before": ran.snap0["tables"][0], "after": ran.snap1["tables"][0]}));
        }
        // ---------------- the property's own oracle ----------------
        let changed = changed_tables(&ran.obs0, &ran.obs1);
        match &ran.res {
            Outcome::Err(_, msg) => {
                if ran.snap0 != ran.snap1 {
                    let class = classify(&sc, &changed);
                    sum.finding(
                        class,
                        id,
                        format!("{} returned Err ({}) but the database changed: tables {:?} differ (fault {:?} at row {} of {})", sc.kind, &msg[..msg.len().min(80)], changed, sc.fault, sc.pos, sc.k),
                        json!({"case": cj(), "before": ran.snap0, "after": ran.snap1}),
                    );
                    sum.count(&format!("finding:{}", class));
                }
            }
            Outcome::Panic(m) => sum.finding("dml-panic", id, format!("panic: {}", m), cj()),
            Outcome::Count(n) => {
                // ok_multirow_all_applied, evaluated with the harness's own evaluator on the state before
                if let Some(exp) = expected_subject_rows(&sc, &ran) {
                    let got = rows_of(&ran.obs1, 0);
                    if exp.0 != got || exp.1 != *n {
                        sum.finding(
                            "ok-statement-not-fully-applied",
                            id,
                            format!("{} returned Ok({}) but T0 is {:?}, expected {:?} (count {})", sc.kind, n, got, exp.0, exp.1),
                            cj(),
                        );
                    }
                }
                if sc.fault != Fault::None && !matches!(sc.fault, Fault::WhereErr) {
                    sum.count(&format!("planted-fault-did-not-fail:{}:{}", sc.kind, format!("{:?}", sc.fault).split('(').next().unwrap()));
                }
            }
            _ => sum.finding("unexpected-outcome", id, ran.res.tag(), cj()),
        }
        // ---------------- Coq case ----------------
        if args.only.is_none() {
            shard_text.push(case_coq(id, &sc.case, &ran, None));
            sum.model_cases += 1;
            if shard_text.len() == per_shard {
                flush(&args, &mut shard_k, &mut shard_text);
            }
        }
    }
    if args.only.is_none() && !shard_text.is_empty() {
        flush(&args, &mut shard_k, &mut shard_text);
    }
    let _ = &mut known_model_ids;
    sum.write(&args);
}

fn flush(args: &Args, k: &mut usize, cases: &mut Vec<String>) {
    let mut s = String::new();
    s.push_str("From Coq Require Import List ZArith.\nImport ListNotations.\nFrom VibeSQL Require Import Store.Trigger Store.Atomic Store.AtomicObs Run.C11Run.\n");
    s.push_str("Definition cases : list tcase := [\n");
    s.push_str(&cases.join(";\n"));
    s.push_str("].\nEval vm_compute in (c11_mismatches cases).\n");
    write_shard(args, *k, &s);
    *k += 1;
    cases.clear();
}

/// what T0 must contain after a successful statement (None when the oracle does not apply: triggers that write T0,
/// statements the reference evaluator cannot evaluate)
fn expected_subject_rows(sc: &Scenario, ran: &Ran) -> Option<(Vec<Row>, usize)> {
    let before: Vec<Row> = rows_of(&ran.obs0, 0).to_vec();
    match &sc.case.stmt {
        Stmt::Insert { t: 0, rows, .. } => {
            let mut out = before;
            for es in rows {
                let en = Env { cur: None, old: None, new: None };
                out.push(es.iter().map(|e| eval_expr(&en, e)).collect::<Option<Vec<_>>>()?);
            }
            Some((out, rows.len()))
        }
        Stmt::InsertSel { t: 0, src, .. } => {
            // the order in which a SELECT without ORDER BY delivers its rows is not part of the property
            let mut s = rows_of(&ran.obs0, *src).to_vec();
            let n = s.len();
            s.sort();
            let mut got_tail = rows_of(&ran.obs1, 0).to_vec();
            let mut out = before.clone();
            if got_tail.len() >= before.len() && got_tail[..before.len()] == before[..] {
                let mut tail = got_tail.split_off(before.len());
                tail.sort();
                if tail == s {
                    return Some((rows_of(&ran.obs1, 0).to_vec(), n));
                }
            }
            out.extend(s);
            Some((out, n))
        }
        Stmt::Update { t: 0, asg, w } => {
            let mut out = Vec::new();
            let mut n = 0;
            for row in &before {
                let en = Env { cur: Some(row), old: None, new: None };
                let sel = match w {
                    None => true,
                    Some(c) => where_selects(&en, c)?,
                };
                if sel {
                    let mut new = row.clone();
                    for (c, e) in asg {
                        *new.get_mut(*c)? = eval_expr(&en, e)?;
                    }
                    out.push(new);
                    n += 1;
                } else {
                    out.push(row.clone());
                }
            }
            Some((out, n))
        }
        Stmt::Delete { t: 0, w } => {
            let mut out = Vec::new();
            let mut n = 0;
            for row in &before {
                let en = Env { cur: Some(row), old: None, new: None };
                let sel = match w {
                    None => true,
                    Some(c) => where_selects(&en, c) == Some(true),
                };
                if sel {
                    n += 1;
                } else {
                    out.push(row.clone());
                }
            }
            Some((out, n))
        }
        _ => None,
    }
}
