//! C09: INSERT / UPDATE / DELETE act on exactly the rows their WHERE clause selects.
use serde_json::json;
use std::collections::BTreeMap;
use vh::out::*;
use vh::qgen::*;
use vh::rng::Rng;
use vh::semrun::*;
use vh::sql::{self, Outcome};
use vibesql_storage::{Database, Row};

fn bag(rows: &[Vec<Val>]) -> BTreeMap<String, i64> {
    let mut m = BTreeMap::new();
    for r in rows {
        *m.entry(format!("{:?}", r)).or_insert(0) += 1;
    }
    m
}

fn table_rows(db: &mut Database, t: usize) -> Option<Vec<Vec<Val>>> {
    match observe(db, &format!("SELECT * FROM tab{}", t)) {
        Obs::Rows(r) => Some(r),
        _ => None,
    }
}

/// Load a DbDef; table 0 optionally gets a PRIMARY KEY on c0 (when its c0 values are unique and
/// non-NULL) so that the primary-key lookup shortcut of DELETE / UPDATE is exercised.
fn load_with_pk(d: &DbDef, pk: bool) -> Database {
    let mut db = Database::new();
    for (i, t) in d.tables.iter().enumerate() {
        let cols: Vec<String> = t.cols.iter().enumerate().map(|(j, c)| format!("c{} {}{}", j, ty_sql(*c), if pk && i == 0 && j == 0 { " PRIMARY KEY" } else { "" })).collect();
        sql::must(&mut db, &format!("CREATE TABLE tab{} ({})", i, cols.join(", ")));
        for r in &t.rows {
            db.insert_row(&format!("TAB{}", i), Row::new(r.iter().map(to_sqlvalue).collect())).expect("insert_row");
        }
    }
    db
}

fn coq_opt_expr(e: &Option<Expr>) -> String {
    match e {
        None => "None".into(),
        Some(x) => format!("(Some {})", coq_expr(x)),
    }
}

fn main() {
    let args = parse_args();
    quiet_panics();
    let mut sum = Summary::default();
    sum.nontrivial_rule = "a case is (database, statement) with statement in {DELETE [WHERE p], UPDATE SET .. [WHERE p], INSERT VALUES}; distinct = distinct (db, SQL text); non-trivial = the statement affects at least one row and (for UPDATE/DELETE with WHERE) leaves at least one row unaffected".into();
    let mut log = CaseLog::new(&args);
    let ndb = if args.thorough { 2500 } else { 420 };
    let per_db = 6;
    let nshards = 16;
    let header = SHARD_HEADER.replace("Run.SemRun.", "Mech.Dml Run.SemRun Run.C09Run.");
    let mut shards: Vec<String> = (0..nshards).map(|_| header.clone()).collect();
    let mut shard_lists: Vec<Vec<String>> = (0..nshards).map(|_| Vec::new()).collect();
    let mut id: u64 = 0;
    let mut block = 0usize;
    for k in 0..ndb {
        let mut r = Rng::new(args.seed, &format!("c09/db/{}", k));
        let big = k % 10 == 9;
        let mut dbdef = if big { gen_db_sized(&mut r, 1, 100, 120) } else { gen_db(&mut r, 2, 8) };
        // primary key on tab0.c0 when possible: make c0 unique and non-NULL in half of the databases
        let want_pk = r.chance(1, 2);
        if want_pk {
            let mut seen = std::collections::HashSet::new();
            dbdef.tables[0].rows.retain(|row| matches!(row[0], Val::Int(_)) && seen.insert(format!("{:?}", row[0])));
        }
        for _ in 0..per_db {
            let t = if r.chance(2, 3) { 0 } else { r.below(dbdef.tables.len() as u64) as usize };
            let cols = dbdef.tables[t].cols.clone();
            let pk = want_pk;
            let mut db = load_with_pk(&dbdef, pk);
            let scopes = vec![cols.clone()];
            let cfg = GenCfg { subqueries: !big, setops: false, grouping: false, order: false, limit: false, distinct: false, joins: false, max_from: 1, ..GenCfg::default() };
            // WHERE clause shapes: PK equality (either operand order), general predicates, none
            let where_: Option<Expr> = {
                let mut g = Gen { r: &mut r, db: &dbdef, cfg: cfg.clone() };
                match g.r.below(8) {
                    0 => None,
                    1..=2 => {
                        // pk = literal (the shortcut), with a literal that exists or not
                        let lit = if !dbdef.tables[t].rows.is_empty() && g.r.chance(2, 3) {
                            let i = g.r.below(dbdef.tables[t].rows.len() as u64) as usize;
                            dbdef.tables[t].rows[i][0].clone()
                        } else {
                            gen_val(g.r, cols[0], 10)
                        };
                        let (a, b) = (Expr::Col(0, 0), Expr::Const(lit));
                        Some(if g.r.chance(1, 3) { Expr::Bin(BinOp::Eq, Box::new(b), Box::new(a)) } else { Expr::Bin(BinOp::Eq, Box::new(a), Box::new(b)) })
                    }
                    _ => {
                        let d = 1 + g.r.below(2) as usize;
                        Some(g.expr(Ty::Bool, &scopes, d))
                    }
                }
            };
            // predicates outside the reference subset (literals of other numeric types, non-boolean truth
            // values, string/number comparisons): only the property's own oracle (DML vs SELECT on the
            // pre-state) applies to them
            let exotic: Option<String> = if r.chance(1, 6) && cols[0] == Ty::Int {
                let lit = if !dbdef.tables[t].rows.is_empty() { match &dbdef.tables[t].rows[r.below(dbdef.tables[t].rows.len() as u64) as usize][0] { Val::Int(i) => *i, _ => 5 } } else { 5 };
                let c = format!("tab{}.c0", t);
                Some(match r.below(12) {
                    0 => format!("{} = {}.0", c, lit.abs()),
                    1 => format!("{}.0 = {}", lit.abs(), c),
                    2 => format!("{} = {}.5", c, lit.abs()),
                    3 => format!("{}", c),
                    4 => format!("{} - {}", c, lit.abs()),
                    5 => format!("{} IN ({}, {}.0)", c, lit.abs() + 1, lit.abs()),
                    6 => format!("{} BETWEEN {}.5 AND {}", c, lit.abs() - 1, lit.abs() + 2),
                    7 => format!("{} = {} AND {} >= 0.5", c, lit.abs(), c),
                    8 => format!("{} = {} OR {} = {}", c, lit.abs(), c, lit.abs() + 2),
                    9 => format!("{} = CAST({} AS BIGINT)", c, lit.abs()),
                    10 => format!("NOT ({} = {})", c, lit.abs()),
                    _ => format!("{} = {} AND {} = {}", c, lit.abs(), c, lit.abs() + 1),
                })
            } else { None };
            let kind = if exotic.is_some() { r.below(4) } else { r.below(5) };
            let (stmt_sql, stmt_coq, kindname): (String, String, &str) = {
                let mut p = SqlPrinter::new();
                let col_texts: Vec<String> = (0..cols.len()).map(|i| format!("tab{}.c{}", t, i)).collect();
                let sc = vec![col_texts];
                let w_sql = match &exotic { Some(x) => format!(" WHERE {}", x), None => where_.as_ref().map(|w| format!(" WHERE {}", p.expr(w, &sc))).unwrap_or_default() };
                match kind {
                    0..=1 => (format!("DELETE FROM tab{}{}", t, w_sql), format!("(DDelete {})", coq_opt_expr(&where_)), "delete"),
                    2..=3 => {
                        // SET 1-2 columns (never the PK column when a PK exists on it: that is C10's subject)
                        let mut g = Gen { r: &mut r, db: &dbdef, cfg: GenCfg { subqueries: false, ..cfg.clone() } };
                        let cand: Vec<usize> = (0..cols.len()).filter(|i| !(pk && t == 0 && *i == 0)).collect();
                        if cand.is_empty() {
                            (format!("DELETE FROM tab{}{}", t, w_sql), format!("(DDelete {})", coq_opt_expr(&where_)), "delete")
                        } else {
                            let n = 1 + g.r.below(cand.len().min(2) as u64) as usize;
                            let mut cs = cand.clone();
                            for i in 0..n {
                                let j = i + g.r.below((cs.len() - i) as u64) as usize;
                                cs.swap(i, j);
                            }
                            let sets: Vec<(usize, Expr)> = cs[..n].iter().map(|c| (*c, g.expr(cols[*c], &scopes, 1))).collect();
                            let set_sql: Vec<String> = sets.iter().map(|(c, e)| format!("c{} = {}", c, p.expr(e, &sc))).collect();
                            (
                                format!("UPDATE tab{} SET {}{}", t, set_sql.join(", "), w_sql),
                                format!("(DUpdate [{}] {})", sets.iter().map(|(c, e)| format!("({}%nat, {})", c, coq_expr(e))).collect::<Vec<_>>().join("; "), coq_opt_expr(&where_)),
                                "update",
                            )
                        }
                    }
                    _ => {
                        // INSERT of 1-3 rows of non-negative literals / NULLs
                        let n = 1 + r.below(3) as usize;
                        // (constraint violations are C10's subject: keys inserted into a PRIMARY KEY column are fresh)
                        let rows: Vec<Vec<Val>> = (0..n)
                            .map(|ri| cols.iter().enumerate().map(|(ci, c)| if pk && t == 0 && ci == 0 { Val::Int(1000 + (id as i64) * 4 + ri as i64) } else { match gen_val(&mut r, *c, 15) { Val::Int(i) if i < 0 => Val::Int(-i + 200), other => other } }).collect())
                            .collect();
                        (
                            format!("INSERT INTO tab{} VALUES {}", t, rows.iter().map(|row| format!("({})", row.iter().map(sql_lit).collect::<Vec<_>>().join(", "))).collect::<Vec<_>>().join(", ")),
                            format!("(DInsert [{}])", rows.iter().map(|row| format!("[{}]", row.iter().map(|v| format!("(EConst {})", coq_val(v))).collect::<Vec<_>>().join("; "))).collect::<Vec<_>>().join("; ")),
                            "insert",
                        )
                    }
                }
            };
            let this = id;
            id += 1;
            let selected_case = args.only.as_ref().map(|o| o.contains(&this)).unwrap_or(false);
            sum.count(&format!("stmt:{}", kindname));
            // pre-state, SELECT on the pre-state, statement, post-state
            let pre = table_rows(&mut db, t).unwrap_or_default();
            let sel_sql = {
                let mut p = SqlPrinter::new();
                let sc = vec![(0..cols.len()).map(|i| format!("tab{}.c{}", t, i)).collect::<Vec<_>>()];
                format!("SELECT * FROM tab{}{}", t, match &exotic { Some(x) => format!(" WHERE {}", x), None => where_.as_ref().map(|w| format!(" WHERE {}", p.expr(w, &sc))).unwrap_or_default() })
            };
            let selected = observe(&mut db, &sel_sql);
            let others_pre: Vec<Option<Vec<Vec<Val>>>> = (0..dbdef.tables.len()).map(|i| if i == t { None } else { table_rows(&mut db, i) }).collect();
            let out = sql::exec(&mut db, &stmt_sql);
            sum.evaluations += 1;
            let post = table_rows(&mut db, t);
            let others_post: Vec<Option<Vec<Vec<Val>>>> = (0..dbdef.tables.len()).map(|i| if i == t { None } else { table_rows(&mut db, i) }).collect();
            let case = json!({"classes": Vec::<&str>::new(), "create_pk": pk, "sql": stmt_sql, "select": sel_sql, "table": t, "pre": format!("{:?}", pre), "selected": obs_text(&selected), "outcome": out.tag(), "post": format!("{:?}", post)});
            log.log(this, case.clone());
            let obs_coq = match (&out, &post) {
                (Outcome::Count(n), Some(p)) => format!("(DObs {} {})", coq_rows(p), n),
                (Outcome::Err(..), _) => "DObsErr".to_string(),
                _ => "DObsPanic".to_string(),
            };
            if selected_case {
                let tt = format!("{}Definition d : db := {}.\nEval vm_compute in (c09_expected d {} {}).\n", header, coq_db(&dbdef), t, stmt_coq);
                std::fs::write(args.out.join(format!("only_{}.v", this)), tt).unwrap();
                println!("case {}: {}\n  pre: {:?}\n  outcome: {:?}\n  post: {:?}", this, stmt_sql, pre, out.tag(), post);
            }
            // the model sees the whole pre-state database (subqueries may read other tables)
            if exotic.is_some() { sum.count("where:outside-reference-subset"); }
            let s = block % nshards;
            if exotic.is_none() {
            shards[s].push_str(&format!("Definition db{b} : db := {}.\nDefinition cs{b} : list (Z * nat * dml * dml_obs) := [({}, {}%nat, {}, {})].\n", coq_db(&dbdef), this, t, stmt_coq, obs_coq, b = block));
            shard_lists[s].push(format!("(db{b}, cs{b})", b = block));
            block += 1;
            sum.model_cases += 1;
            }
            // ---- the property on the implementation ----
            if let Outcome::Panic(m) = &out {
                sum.finding("panic", this, format!("statement panicked: {}", m), case.clone());
            }
            if others_pre != others_post {
                sum.finding("other-table-changed", this, "a table other than the target changed".into(), case.clone());
            }
            match (&out, &post, &selected) {
                (Outcome::Count(n), Some(p), Obs::Rows(sel)) if kindname == "delete" => {
                    let mut expect = bag(&pre);
                    for (k2, c) in bag(sel) {
                        *expect.entry(k2).or_insert(0) -= c;
                    }
                    expect.retain(|_, c| *c != 0);
                    if bag(p) != expect || *n != sel.len() {
                        sum.finding("delete-not-exact", this, format!("DELETE removed {} rows (reported {}) but SELECT with the same WHERE returns {} rows, or the remaining rows differ", pre.len() as i64 - p.len() as i64, n, sel.len()), case.clone());
                    }
                    if !sel.is_empty() && sel.len() < pre.len() {
                        sum.nontrivial(&format!("{}|{}", coq_db(&dbdef), stmt_sql));
                    }
                }
                (Outcome::Count(n), Some(p), Obs::Rows(sel)) if kindname == "update" => {
                    // rows not selected are unchanged; the number of rows is unchanged; count = |selected|
                    let mut untouched = bag(&pre);
                    for (k2, c) in bag(sel) {
                        *untouched.entry(k2).or_insert(0) -= c;
                    }
                    untouched.retain(|_, c| *c != 0);
                    let pb = bag(p);
                    let untouched_ok = untouched.iter().all(|(k2, c)| pb.get(k2).map(|x| x >= c).unwrap_or(false));
                    if p.len() != pre.len() || *n != sel.len() || !untouched_ok {
                        sum.finding("update-not-exact", this, format!("UPDATE reported {} rows, SELECT with the same WHERE returns {}; row count {} -> {}; unselected rows preserved: {}", n, sel.len(), pre.len(), p.len(), untouched_ok), case.clone());
                    }
                    if !sel.is_empty() && sel.len() < pre.len() {
                        sum.nontrivial(&format!("{}|{}", coq_db(&dbdef), stmt_sql));
                    }
                }
                (Outcome::Count(n), Some(p), _) if kindname == "insert" => {
                    if p.len() != pre.len() + *n {
                        sum.finding("insert-not-exact", this, format!("INSERT reported {} rows but the table grew from {} to {}", n, pre.len(), p.len()), case.clone());
                    }
                    sum.nontrivial(&format!("{}|{}", coq_db(&dbdef), stmt_sql));
                }
                (Outcome::Err(..), Some(p), _) => {
                    sum.count("outcome:error");
                    if bag(p) != bag(&pre) {
                        sum.finding("failed-statement-changed-table", this, "the statement returned an error but the table changed".into(), case.clone());
                    }
                }
                (Outcome::Count(_), _, Obs::Err(m)) => {
                    sum.finding("dml-succeeds-select-fails", this, format!("the statement succeeds but SELECT with the same WHERE fails: {}", m), case.clone());
                }
                _ => {}
            }
            if sum.samples.len() < 5 && matches!(out, Outcome::Count(n) if n > 0) {
                sum.sample(case.clone());
            }
            // carry the new state forward half of the time (histories of DML)
            if r.chance(1, 2) {
                if let (Outcome::Count(_), Some(p)) = (&out, &post) {
                    dbdef.tables[t].rows = p.clone();
                }
            }
        }
    }
    // ---- PRIMARY KEY columns of other types (outside the reference subset; the property's own oracle only):
    // the key shortcut probes a hash map by representation, so literals that need a coercion to reach the
    // stored form (0.1 against REAL, 'ab' against CHAR(5), 2.0 against SMALLINT ...) must select what SELECT selects
    let ntyped = if args.thorough { 600 } else { 90 };
    for k in 0..ntyped {
        let mut r = Rng::new(args.seed, &format!("c09/typed/{}", k));
        let (ty, vals, lits): (&str, Vec<&str>, Vec<&str>) = match k % 7 {
            0 => ("REAL", vec!["0.1", "0.5", "1.5", "2.25", "3.0"], vec!["0.1", "0.5", "1.5", "3", "3.0", "2.25", "0.25"]),
            1 => ("FLOAT", vec!["0.1", "0.7", "2.0"], vec!["0.1", "0.7", "2", "2.0", "0.3"]),
            2 => ("CHAR(5)", vec!["'ab'", "'abc'", "'x'"], vec!["'ab'", "'ab   '", "'abc'", "'x'", "'zz'", "'abc  '"]),
            3 => ("SMALLINT", vec!["1", "2", "3", "300"], vec!["1", "2.0", "300", "70000", "3"]),
            4 => ("BIGINT", vec!["1", "2", "5000000000"], vec!["1", "5000000000", "2.0", "7"]),
            5 => ("DOUBLE PRECISION", vec!["0.1", "1.5", "2.0"], vec!["0.1", "1.5", "2", "2.0", "0.30000000000000004"]),
            _ => ("VARCHAR(10)", vec!["'a'", "'A'", "'b '"], vec!["'a'", "'A'", "'b'", "'b '", "'c'"]),
        };
        let mut db = Database::new();
        sql::must(&mut db, &format!("CREATE TABLE tk (k {} PRIMARY KEY, v INTEGER)", ty));
        for (i, v) in vals.iter().enumerate() {
            sql::must(&mut db, &format!("INSERT INTO tk VALUES ({}, {})", v, i));
        }
        sum.count(&format!("typed-key:{}", ty));
        for _ in 0..5 {
            let lit = *r.pick(&lits);
            let pred = if r.chance(1, 4) { format!("{} = k", lit) } else { format!("k = {}", lit) };
            let del = r.chance(1, 2);
            let stmt = if del { format!("DELETE FROM tk WHERE {}", pred) } else { format!("UPDATE tk SET v = v + 10 WHERE {}", pred) };
            let this = id;
            id += 1;
            let pre = sql::exec(&mut db, "SELECT * FROM tk");
            let sel = sql::exec(&mut db, &format!("SELECT * FROM tk WHERE {}", pred));
            let out = sql::exec(&mut db, &stmt);
            let post = sql::exec(&mut db, "SELECT * FROM tk");
            sum.evaluations += 1;
            let case = json!({"classes": Vec::<&str>::new(), "create": format!("CREATE TABLE tk (k {} PRIMARY KEY, v INTEGER)", ty), "values": vals, "sql": stmt, "select": format!("SELECT * FROM tk WHERE {}", pred),
                "pre": format!("{:?}", pre.rows().map(|x| sql::canon_bag(x))), "selected": format!("{:?}", sel.rows().map(|x| sql::canon_bag(x))), "outcome": out.tag(), "post": format!("{:?}", post.rows().map(|x| sql::canon_bag(x)))});
            log.log(this, case.clone());
            match (pre.rows(), sel.rows(), &out, post.rows()) {
                (Some(pre_r), Some(sel_r), Outcome::Count(n), Some(post_r)) => {
                    let ok = if del {
                        let mut want = sql::canon_bag(pre_r);
                        for s2 in sql::canon_bag(sel_r) {
                            if let Some(p2) = want.iter().position(|x| *x == s2) {
                                want.remove(p2);
                            }
                        }
                        let mut got = sql::canon_bag(post_r);
                        want.sort();
                        got.sort();
                        *n == sel_r.len() && want == got
                    } else {
                        *n == sel_r.len() && post_r.len() == pre_r.len()
                    };
                    if !ok {
                        sum.finding(if del { "delete-not-exact" } else { "update-not-exact" }, this, format!("{} on a {} key reports {} rows while SELECT with the same WHERE returns {}", if del { "DELETE" } else { "UPDATE" }, ty, n, sel_r.len()), case.clone());
                    }
                    if !sel_r.is_empty() {
                        sum.nontrivial(&format!("typed|{}|{}", ty, stmt));
                    }
                }
                (_, Some(_), Outcome::Err(..), _) | (_, None, Outcome::Count(_), _) => {
                    sum.finding("dml-succeeds-select-fails", this, format!("statement and SELECT with the same WHERE differ in success: {} -> {}", stmt, out.tag()), case.clone());
                }
                (_, _, Outcome::Panic(m), _) => sum.finding("panic", this, format!("statement panicked: {}", m), case.clone()),
                _ => {}
            }
        }
    }
    // scripted: a WHERE clause that cannot be evaluated.  SELECT reports the error; DELETE keeps every
    // row and reports success (pinned by the repository's own test test_delete_column_not_found)
    {
        let mut db = Database::new();
        sql::must(&mut db, "CREATE TABLE s0 (c0 INTEGER, c1 INTEGER)");
        sql::must(&mut db, "INSERT INTO s0 VALUES (1, 2), (3, 4)");
        let sel = observe(&mut db, "SELECT * FROM s0 WHERE c0 = 'x'");
        let del = sql::exec(&mut db, "DELETE FROM s0 WHERE c0 = 'x'");
        sum.evaluations += 1;
        if let (Obs::Err(m), Outcome::Count(n)) = (&sel, &del) {
            sum.finding("delete-swallows-where-errors", 1_000_000, format!("DELETE FROM s0 WHERE c0 = 'x' reports {} rows deleted and succeeds, while SELECT with the same WHERE fails: {}", n, m), json!({"sql": "DELETE FROM s0 WHERE c0 = 'x'"}));
        }
    }
    if args.only.is_none() {
        for s in 0..nshards {
            if !shard_lists[s].is_empty() {
                shards[s].push_str(&format!("Eval vm_compute in (c09_mismatches [{}]).\n", shard_lists[s].join("; ")));
                write_shard(&args, s, &shards[s]);
            }
        }
    }
    sum.write(&args);
}
