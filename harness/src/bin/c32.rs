//! C32: a query over views / CTEs must equal the query with the definitions inlined as derived
//! tables, before and after DML on the base tables; all forms are compared with the reference
//! semantics of the expanded query.
use serde_json::json;
use std::collections::BTreeMap;
use vh::out::*;
use vh::qgen::*;
use vh::rng::Rng;
use vh::semrun::*;
use vh::sql;
use vibesql_storage::Row;

fn bag(rows: &[Vec<Val>]) -> BTreeMap<String, i64> {
    let mut m = BTreeMap::new();
    for r in rows {
        *m.entry(format!("{:?}", r)).or_insert(0) += 1;
    }
    m
}

/// Replace view references by their (already inlined) definitions.
fn inline_from(f: &From, defs: &[Query]) -> From {
    match f {
        From::View(i, w) => From::Sub(Box::new(defs[*i].clone()), *w),
        From::Table(..) => f.clone(),
        From::Sub(q, w) => From::Sub(Box::new(inline_query(q, defs)), *w),
        From::Join(k, l, r, on) => From::Join(*k, Box::new(inline_from(l, defs)), Box::new(inline_from(r, defs)), on.clone()),
    }
}
fn inline_query(q: &Query, defs: &[Query]) -> Query {
    match q {
        Query::SetOp(op, all, l, r) => Query::SetOp(*op, *all, Box::new(inline_query(l, defs)), Box::new(inline_query(r, defs))),
        Query::Select(s) => {
            let mut t = s.clone();
            t.from = s.from.iter().map(|f| inline_from(f, defs)).collect();
            Query::Select(t)
        }
    }
}

fn main() {
    let args = parse_args();
    quiet_panics();
    let mut sum = Summary::default();
    sum.nontrivial_rule = "a case is (database, 1-2 view/CTE definitions, referencing query, DML step); distinct = distinct (db, definitions, SQL of the query); non-trivial = the view returns at least one row and the referencing query's result is non-empty".into();
    let mut log = CaseLog::new(&args);
    let ndb = if args.thorough { 1800 } else { 300 };
    let per_db = 4;
    let nshards = 16;
    let header = SHARD_HEADER.replace("Run.SemRun.", "Sem.Views Run.SemRun Run.C32Run.");
    let mut shards: Vec<String> = (0..nshards).map(|_| header.clone()).collect();
    let mut shard_lists: Vec<Vec<String>> = (0..nshards).map(|_| Vec::new()).collect();
    let mut id: u64 = 0;
    let nocfg = GenCfg { subqueries: false, setops: false, grouping: false, order: false, limit: false, distinct: false, ..GenCfg::default() };
    let mut block = 0usize;
    for k in 0..ndb {
        let mut r = Rng::new(args.seed, &format!("c32/db/{}", k));
        let mut dbdef = gen_db(&mut r, 2, 8);
        for case_no in 0..per_db {
            // ---- definitions ----
            let ndefs = 1 + r.below(2) as usize;
            let mut defs: Vec<Query> = Vec::new();
            let mut def_tys: Vec<Vec<Ty>> = Vec::new();
            for di in 0..ndefs {
                let mut from = Vec::new();
                let mut tys = Vec::new();
                if di == 1 && r.chance(1, 2) {
                    from.push(From::View(0, def_tys[0].len()));
                    tys.extend(def_tys[0].clone());
                } else {
                    let t = r.below(dbdef.tables.len() as u64) as usize;
                    tys.extend(dbdef.tables[t].cols.clone());
                    from.push(From::Table(t, dbdef.tables[t].cols.len()));
                }
                if r.chance(1, 4) {
                    let t = r.below(dbdef.tables.len() as u64) as usize;
                    tys.extend(dbdef.tables[t].cols.clone());
                    from.push(From::Table(t, dbdef.tables[t].cols.len()));
                }
                let scopes = vec![tys.clone()];
                let kind = r.below(6);
                let mut g = Gen { r: &mut r, db: &dbdef, cfg: nocfg.clone() };
                let where_ = match kind {
                    0 => None,
                    5 => Some(Expr::Bin(BinOp::Eq, Box::new(Expr::Const(Val::Int(1))), Box::new(Expr::Const(Val::Int(2))))), // empty view
                    _ => Some(g.expr(Ty::Bool, &scopes, 1)),
                };
                let (sel, otys) = if kind == 3 {
                    // aggregate view: key, COUNT(*), SUM
                    let kt = if g.r.chance(2, 3) { Ty::Int } else { Ty::Str };
                    let key = g.expr(kt, &scopes, 0);
                    let arg = g.expr(Ty::Int, &scopes, 0);
                    (
                        Select { distinct: false, from, where_, grouping: Some((vec![key], vec![(AggFn::CountStar, false, Expr::Const(Val::Int(1))), (AggFn::Sum, false, arg)])), having: None, proj: vec![Expr::Col(0, 0), Expr::Col(0, 1), Expr::Col(0, 2)], order: vec![], limit: None, offset: None },
                        vec![kt, Ty::Int, Ty::Int],
                    )
                } else {
                    let np = 1 + g.r.below(3) as usize;
                    let mut proj = Vec::new();
                    let mut ot = Vec::new();
                    for _ in 0..np {
                        let t = if g.r.chance(3, 4) { Ty::Int } else { Ty::Str };
                        // expression columns and NULL-producing columns (first row may be all NULL)
                        let pd = if g.r.chance(1, 3) { 1 } else { 0 };
                        proj.push(g.expr(t, &scopes, pd));
                        ot.push(t);
                    }
                    (Select { distinct: kind == 4, from, where_, grouping: None, having: None, proj, order: vec![], limit: None, offset: None }, ot)
                };
                defs.push(Query::Select(sel));
                def_tys.push(otys);
            }
            // ---- referencing query ----
            let mut from = Vec::new();
            let mut tys = Vec::new();
            let vi = r.below(ndefs as u64) as usize;
            from.push(From::View(vi, def_tys[vi].len()));
            tys.extend(def_tys[vi].clone());
            match r.below(4) {
                0 => {
                    let t = r.below(dbdef.tables.len() as u64) as usize;
                    tys.extend(dbdef.tables[t].cols.clone());
                    from.push(From::Table(t, dbdef.tables[t].cols.len()));
                }
                1 if ndefs > 1 => {
                    let vj = r.below(ndefs as u64) as usize;
                    tys.extend(def_tys[vj].clone());
                    from.push(From::View(vj, def_tys[vj].len()));
                }
                _ => {}
            }
            let scopes = vec![tys.clone()];
            let q = {
                let mut g = Gen { r: &mut r, db: &dbdef, cfg: nocfg.clone() };
                let where_ = if g.r.chance(2, 3) { Some(g.expr(Ty::Bool, &scopes, 1)) } else { None };
                if g.r.chance(1, 4) {
                    let arg = g.expr(Ty::Int, &scopes, 0);
                    Query::Select(Select { distinct: false, from, where_, grouping: Some((vec![], vec![(AggFn::CountStar, false, Expr::Const(Val::Int(1))), (AggFn::Sum, false, arg.clone()), (AggFn::Min, false, arg)])), having: None, proj: vec![Expr::Col(0, 0), Expr::Col(0, 1), Expr::Col(0, 2)], order: vec![], limit: None, offset: None })
                } else {
                    let np = 1 + g.r.below(3) as usize;
                    let proj: Vec<Expr> = (0..np).map(|_| { let t = if g.r.chance(3, 4) { Ty::Int } else { Ty::Str }; g.expr(t, &scopes, 1) }).collect();
                    let order: Vec<(usize, bool)> = if g.r.chance(1, 3) { vec![(0, g.r.chance(1, 2))] } else { vec![] };
                    Query::Select(Select { distinct: g.r.chance(1, 6), from, where_, grouping: None, having: None, proj, order, limit: None, offset: None })
                }
            };
            // inlined definitions (definition 1 may mention view 0)
            let mut inl: Vec<Query> = Vec::new();
            for d in &defs {
                let x = inline_query(d, &inl);
                inl.push(x);
            }
            let q_inl = inline_query(&q, &inl);
            let view_sql: Vec<String> = defs.iter().enumerate().map(|(i, d)| format!("CREATE VIEW v{} AS {}", i, to_sql_named(d))).collect();
            let with_sql = format!("WITH {} {}", defs.iter().enumerate().map(|(i, d)| format!("v{} AS ({})", i, to_sql_named(d))).collect::<Vec<_>>().join(", "), to_sql(&q));
            let q_sql = to_sql(&q);
            let inl_sql = to_sql(&q_inl);
            let case_base = id;
            id += 8;
            if let Some(only) = &args.only {
                if !only.iter().any(|x| *x >= case_base && *x < case_base + 8) {
                    continue;
                }
            }
            let mut cases = Vec::new();
            let mut snapshots: Vec<String> = Vec::new();
            // phase 0: current data; phase 1: after DML on the base tables (the view must follow)
            let mut all_obs: Vec<(String, Obs)> = Vec::new();
            let mut phase_dbs: Vec<DbDef> = Vec::new();
            let mut db = load_db(&dbdef);
            let mut views_ok = true;
            for v in &view_sql {
                if !sql::exec(&mut db, v).is_ok() {
                    views_ok = false;
                }
            }
            sum.count(if views_ok { "create-view:ok" } else { "create-view:error" });
            for phase in 0..2 {
                if phase == 1 {
                    // DML through the storage API and SQL: insert a row, delete some, update some
                    let t = r.below(dbdef.tables.len() as u64) as usize;
                    let cols = dbdef.tables[t].cols.clone();
                    let newrow: Vec<Val> = cols.iter().map(|c| gen_val(&mut r, *c, 15)).collect();
                    db.insert_row(&format!("TAB{}", t), Row::new(newrow.iter().map(to_sqlvalue).collect())).expect("insert_row");
                    dbdef.tables[t].rows.push(newrow);
                    if r.chance(1, 2) && !dbdef.tables[t].rows.is_empty() {
                        // delete the rows equal to the first row's first column value
                        if let Val::Int(v) = dbdef.tables[t].rows[0][0].clone() {
                            let stmt = format!("DELETE FROM tab{} WHERE c0 = {}", t, if v < 0 { format!("(0 - {})", -v) } else { v.to_string() });
                            if sql::exec(&mut db, &stmt).is_ok() {
                                dbdef.tables[t].rows.retain(|row| row[0] != Val::Int(v));
                            }
                        }
                    }
                }
                phase_dbs.push(dbdef.clone());
                snapshots.push(format!("{:?}", dbdef.tables.iter().map(|t| &t.rows).collect::<Vec<_>>()));
                let forms: Vec<(&str, String, &Query, bool)> = vec![("view", q_sql.clone(), &q, views_ok), ("cte", with_sql.clone(), &q, true), ("inlined", inl_sql.clone(), &q_inl, true)];
                for (j, (label, text, qq, run)) in forms.iter().enumerate() {
                    if !*run {
                        continue;
                    }
                    let o = observe(&mut db, text);
                    sum.evaluations += 1;
                    let cid = case_base + (phase * 4 + j) as u64;
                    cases.push((phase, format!("({}, {}, {})", cid, coq_query(qq), coq_obs(&o))));
                    sum.model_cases += 1;
                    log.log(cid, json!({"classes": Vec::<&str>::new(), "form": label, "phase": phase, "views": view_sql, "sql": text, "tables": snapshots[phase], "observed": obs_text(&o)}));
                    if args.only.is_some() {
                        let t = format!("{}Definition d : db := {}.\nEval vm_compute in (c32_expected d {} {}).\n", header, coq_db(&phase_dbs[phase]), format!("[{}]", defs.iter().map(coq_query).collect::<Vec<_>>().join("; ")), coq_query(qq));
                        std::fs::write(args.out.join(format!("only_{}.v", cid)), t).unwrap();
                        println!("case {} [{} phase {}]: {}\n  views: {:?}\n  observed: {}", cid, label, phase, text, view_sql, obs_text(&o));
                    }
                    all_obs.push((format!("{}@{}", label, phase), o));
                }
            }
            let case = json!({"views": view_sql, "query": q_sql, "with_form": with_sql, "inlined_form": inl_sql, "create": create_sql(&dbdef), "tables_by_phase": snapshots, "observed": all_obs.iter().map(|(l, o)| format!("{}: {}", l, obs_text(o))).collect::<Vec<_>>()});
            // ---- oracle: within a phase all forms agree ----
            for phase in 0..2 {
                let of: Vec<&(String, Obs)> = all_obs.iter().filter(|(l, _)| l.ends_with(&format!("@{}", phase))).collect();
                for (l, o) in &of {
                    if let Obs::Panic(m) = o {
                        sum.finding("panic", case_base, format!("{} panicked: {}", l, m), case.clone());
                    }
                }
                let rows: Vec<Option<&Vec<Vec<Val>>>> = of.iter().map(|(_, o)| if let Obs::Rows(r) = o { Some(r) } else { None }).collect();
                if rows.iter().all(|x| x.is_some()) && !rows.is_empty() {
                    let b0 = bag(rows[rows.len() - 1].unwrap()); // the inlined form is the reference
                    for (i, rr) in rows.iter().enumerate() {
                        if bag(rr.unwrap()) != b0 {
                            sum.finding("view-differs-from-inlined", case_base, format!("phase {}: the {} form returns a different bag than the inlined derived-table form", phase, of[i].0), case.clone());
                        }
                    }
                    if phase == 0 && !rows[0].unwrap().is_empty() {
                        sum.nontrivial(&format!("{}|{:?}|{}", coq_db(&phase_dbs[0]), view_sql, q_sql));
                    }
                } else if rows.iter().any(|x| x.is_some()) {
                    sum.finding("view-differs-from-inlined", case_base, format!("phase {}: one of the view / CTE / inlined forms fails while another succeeds", phase), case.clone());
                } else {
                    sum.count("all-forms-error");
                }
            }
            if sum.samples.len() < 4 {
                sum.sample(case.clone());
            }
            let _ = case_no;
            if args.only.is_none() {
                for phase in 0..2 {
                    let cs: Vec<String> = cases.iter().filter(|(p, _)| *p == phase).map(|(_, c)| c.clone()).collect();
                    if cs.is_empty() {
                        continue;
                    }
                    let s = block % nshards;
                    shards[s].push_str(&format!(
                        "Definition db{b} : db := {}.\nDefinition df{b} : list query := [{}].\nDefinition cs{b} : list (Z * query * obs) := [\n{}].\n",
                        coq_db(&phase_dbs[phase]),
                        defs.iter().map(coq_query).collect::<Vec<_>>().join("; "),
                        cs.join(";\n"),
                        b = block
                    ));
                    shard_lists[s].push(format!("(db{b}, df{b}, cs{b})", b = block));
                    block += 1;
                }
            }
        }
    }
    if args.only.is_none() {
        for s in 0..nshards {
            if !shard_lists[s].is_empty() {
                shards[s].push_str(&format!("Eval vm_compute in (c32_mismatches [{}]).\n", shard_lists[s].join("; ")));
                write_shard(&args, s, &shards[s]);
            }
        }
    }
    sum.write(&args);
}
