//! C31 — CLI import/export transfers data faithfully and safely.
//!
//! The CLI is a binary crate; its modules are compiled into this harness with `#[path]`:
//! `data_io.rs` (DataIO::{export,import}_{csv,json}), `commands.rs` (MetaCommand::parse),
//! `executor/mod.rs` + `copy_handler.rs` + `validation.rs` (SqlExecutor::{execute, handle_copy},
//! validate_*).  `formatter.rs` needs the prettytable crate and is replaced by the one enum that
//! `commands.rs` refers to.  `\copy` is only reachable from the interactive REPL (script mode sends
//! every line to the SQL parser), so the real binary cannot be driven from files; the harness calls
//! `MetaCommand::parse` + `SqlExecutor::handle_copy`, i.e. exactly what `Repl::handle_meta_command` does.
//!
//! Families (case id = family * 1_000_000 + index * 10 + sub):
//!   1 csv import   2 json import   3 export of a real table   4 DataIO writers on a hand-made QueryResult
//!   5 `\copy` line parsing   6 RFC 4180 oracle vs specification   (7 = statements of 1/2/4 re-read by the parser)
#![allow(dead_code)]
#[path = "/repo/crates/vibesql-cli/src/commands.rs"]
mod commands;
#[path = "/repo/crates/vibesql-cli/src/data_io.rs"]
mod data_io;
#[path = "/repo/crates/vibesql-cli/src/executor/mod.rs"]
mod executor;
mod formatter {
    #[derive(Debug, Clone, Copy)]
    pub enum OutputFormat {
        Table,
        Json,
        Csv,
        Markdown,
        Html,
    }
}

use commands::{CopyDirection, CopyFormat, MetaCommand};
use data_io::DataIO;
use executor::{validation, QueryResult, SqlExecutor};
use serde_json::json;
use std::path::PathBuf;
use vh::out::{parse_args, quiet_panics, write_shard, CaseLog, Summary};
use vh::rng::Rng;
use vibesql_storage::Database;

// ------------------------------------------------------------------------------------------------
// Coq printing

fn coq_str(s: &str) -> String {
    if s.is_empty() {
        return "[]".into();
    }
    if s.chars().all(|c| (' '..='~').contains(&c)) {
        format!("(cs \"{}\"%string)", s.replace('"', "\"\""))
    } else {
        let v: Vec<String> = s.chars().map(|c| (c as u32).to_string()).collect();
        format!("[{}]", v.join(";"))
    }
}
fn coq_list<T>(xs: &[T], f: impl Fn(&T) -> String) -> String {
    let v: Vec<String> = xs.iter().map(f).collect();
    format!("[{}]", v.join("; "))
}
fn coq_strs(xs: &[String]) -> String {
    coq_list(xs, |s| coq_str(s))
}
fn coq_rows(xs: &[Vec<String>]) -> String {
    coq_list(xs, |r| coq_strs(r))
}
fn coq_opt<T>(x: &Option<T>, f: impl Fn(&T) -> String) -> String {
    match x {
        None => "None".into(),
        Some(v) => format!("(Some {})", f(v)),
    }
}
fn coq_bool(b: bool) -> &'static str {
    if b {
        "true"
    } else {
        "false"
    }
}
fn coq_orows(rows: &[Vec<Option<String>>]) -> String {
    coq_list(rows, |r| coq_list(r, |c| coq_opt(c, |s| coq_str(s))))
}

// ------------------------------------------------------------------------------------------------
// values

#[derive(Clone, Debug, PartialEq, Eq, PartialOrd, Ord)]
enum Cell {
    Int(i64),
    Text(String),
    Null,
    Bool(bool),
    Other(String),
}
impl Cell {
    fn coq(&self) -> String {
        match self {
            Cell::Int(i) => format!("(CInt ({}))", i),
            Cell::Text(s) => format!("(CText {})", coq_str(s)),
            Cell::Null => "CNull".into(),
            Cell::Bool(b) => format!("(CBool {})", coq_bool(*b)),
            Cell::Other(s) => format!("(CText {})", coq_str(s)), // never emitted (setup check)
        }
    }
    fn sql(&self) -> String {
        match self {
            Cell::Int(i) => i.to_string(),
            Cell::Text(s) => format!("'{}'", s.replace('\'', "''")),
            Cell::Null => "NULL".into(),
            Cell::Bool(b) => if *b { "TRUE".into() } else { "FALSE".into() },
            Cell::Other(s) => s.clone(),
        }
    }
    fn js(&self) -> serde_json::Value {
        match self {
            Cell::Int(i) => json!(i),
            Cell::Text(s) => json!(s),
            Cell::Null => json!(null),
            Cell::Bool(b) => json!(b),
            Cell::Other(s) => json!({ "other": s }),
        }
    }
}

/// inverse of `<str as Debug>::fmt` (whatever the printable tables say)
fn unescape_debug(s: &str) -> Option<String> {
    let mut out = String::new();
    let mut it = s.chars();
    while let Some(c) = it.next() {
        if c != '\\' {
            out.push(c);
            continue;
        }
        match it.next()? {
            't' => out.push('\t'),
            'r' => out.push('\r'),
            'n' => out.push('\n'),
            '0' => out.push('\0'),
            '\\' => out.push('\\'),
            '"' => out.push('"'),
            '\'' => out.push('\''),
            'u' => {
                if it.next()? != '{' {
                    return None;
                }
                let mut h = String::new();
                loop {
                    let d = it.next()?;
                    if d == '}' {
                        break;
                    }
                    h.push(d);
                }
                out.push(char::from_u32(u32::from_str_radix(&h, 16).ok()?)?);
            }
            _ => return None,
        }
    }
    Some(out)
}

/// a cell as `SqlExecutor::execute` hands it out (`format!("{:?}", value)`)
fn parse_debug_cell(s: &str) -> Cell {
    if s == "Null" {
        return Cell::Null;
    }
    if let Some(r) = s.strip_prefix("Integer(").and_then(|r| r.strip_suffix(')')) {
        if let Ok(i) = r.parse::<i64>() {
            return Cell::Int(i);
        }
    }
    if let Some(r) = s.strip_prefix("Varchar(\"").and_then(|r| r.strip_suffix("\")")) {
        if let Some(t) = unescape_debug(r) {
            return Cell::Text(t);
        }
    }
    if s == "Boolean(true)" {
        return Cell::Bool(true);
    }
    if s == "Boolean(false)" {
        return Cell::Bool(false);
    }
    Cell::Other(s.to_string())
}

// ------------------------------------------------------------------------------------------------
// session: a SqlExecutor (the CLI's) and a mirror Database for calling validation::* directly

#[derive(Clone, Copy, PartialEq, Eq, Debug)]
enum Ty {
    Text,
    Int,
    Bool,
}
impl Ty {
    fn sql(self) -> &'static str {
        match self {
            Ty::Text => "VARCHAR(400)",
            Ty::Int => "INTEGER",
            Ty::Bool => "BOOLEAN",
        }
    }
}

struct Sess {
    ex: SqlExecutor,
    db: Database,
    dir: PathBuf,
}
impl Sess {
    fn new(dir: &PathBuf) -> Sess {
        Sess { ex: SqlExecutor::new(None).expect("harness: SqlExecutor::new"), db: Database::new(), dir: dir.clone() }
    }
    fn both(&mut self, sql: &str) {
        if let Err(e) = self.ex.execute(sql) {
            panic!("harness: set-up statement failed: {} => {}", sql, e);
        }
        vh::sql::must(&mut self.db, sql);
    }
    fn create(&mut self, table: &str, cols: &[(String, Ty)]) {
        let plain = |n: &str| n.chars().all(|c| c.is_ascii_alphanumeric() || c == '_');
        let c: Vec<String> = cols.iter().map(|(n, t)| if plain(n) { format!("{} {}", n, t.sql()) } else { format!("\"{}\" {}", n, t.sql()) }).collect();
        self.both(&format!("CREATE TABLE {} ({})", table, c.join(", ")));
    }
    fn sql(&mut self, sql: &str) -> Result<QueryResult, String> {
        self.ex.execute(sql).map_err(|e| e.to_string())
    }
    fn rows(&mut self, table: &str) -> Vec<Vec<Cell>> {
        match self.ex.execute(&format!("SELECT * FROM {}", table)) {
            Ok(r) => r.rows.iter().map(|row| row.iter().map(|c| parse_debug_cell(c)).collect()).collect(),
            Err(e) => vec![vec![Cell::Other(format!("SELECT failed: {}", e))]],
        }
    }
    /// the catalog's column names of a table (None: no such table)
    fn schema(&self, table: &str) -> Option<Vec<String>> {
        self.db.get_table(table).map(|t| t.schema.columns.iter().map(|c| c.name.clone()).collect())
    }
    /// CREATE lines of the SQL dump = the schema as the CLI would save it
    fn schema_lines(&mut self) -> Vec<String> {
        let p = self.dir.join("dump.sql");
        let ps = p.to_str().unwrap().to_string();
        if self.ex.save_database(&ps).is_err() {
            return vec!["<dump failed>".into()];
        }
        let t = std::fs::read_to_string(&p).unwrap_or_default();
        t.lines().filter(|l| l.starts_with("CREATE ")).map(|l| l.to_string()).collect()
    }
    /// what Repl::handle_meta_command does with a `\copy` line
    fn copy(&mut self, line: &str) -> Result<(), String> {
        match MetaCommand::parse(line) {
            Some(MetaCommand::Copy { table, file_path, direction, format }) => {
                self.ex.handle_copy(&table, &file_path, direction, format).map_err(|e| e.to_string())
            }
            _ => Err("harness: not a copy command".into()),
        }
    }
}

const OTHER_ROW: (i64, &str) = (7, "secret");
fn setup_other(s: &mut Sess) {
    s.both("CREATE TABLE other (x INTEGER, y VARCHAR(50))");
    s.both("INSERT INTO other VALUES (7, 'secret')");
}
fn other_intact(s: &mut Sess) -> bool {
    s.rows("other") == vec![vec![Cell::Int(OTHER_ROW.0), Cell::Text(OTHER_ROW.1.into())]]
}

// ------------------------------------------------------------------------------------------------
// RFC 4180 oracle (Rust twin of CsvSpec.rfc_write / rfc_read; tied to the Coq definitions by family 6)

fn rfc_field(f: &str) -> String {
    if f.contains(',') || f.contains('"') || f.contains('\n') || f.contains('\r') {
        format!("\"{}\"", f.replace('"', "\"\""))
    } else {
        f.to_string()
    }
}
fn rfc_write(rows: &[Vec<String>], eol: &str) -> String {
    let mut out = String::new();
    for r in rows {
        let fs: Vec<String> = r.iter().map(|f| rfc_field(f)).collect();
        out.push_str(&fs.join(","));
        out.push_str(eol);
    }
    out
}
fn rfc_read(s: &str) -> Option<Vec<Vec<String>>> {
    #[derive(PartialEq, Clone, Copy)]
    enum St {
        RS,
        FS,
        UQ,
        QT,
        QQ,
    }
    let cs: Vec<char> = s.chars().collect();
    let (mut st, mut f, mut row, mut acc) = (St::RS, String::new(), Vec::<String>::new(), Vec::<Vec<String>>::new());
    let mut i = 0;
    while i < cs.len() {
        let c = cs[i];
        i += 1;
        if st == St::QT {
            if c == '"' {
                st = St::QQ;
            } else {
                f.push(c);
            }
            continue;
        }
        match c {
            '"' => match st {
                St::QQ => {
                    f.push('"');
                    st = St::QT;
                }
                St::UQ => return None,
                _ => {
                    f.clear();
                    st = St::QT;
                }
            },
            ',' => {
                row.push(std::mem::take(&mut f));
                st = St::FS;
            }
            '\n' => {
                row.push(std::mem::take(&mut f));
                acc.push(std::mem::take(&mut row));
                st = St::RS;
            }
            '\r' => {
                if i < cs.len() && cs[i] == '\n' {
                    i += 1;
                    row.push(std::mem::take(&mut f));
                    acc.push(std::mem::take(&mut row));
                    st = St::RS;
                } else {
                    return None;
                }
            }
            _ => {
                if st == St::QQ {
                    return None;
                }
                f.push(c);
                st = St::UQ;
            }
        }
    }
    match st {
        St::RS => {}
        St::QT => return None,
        _ => {
            row.push(f);
            acc.push(row);
        }
    }
    Some(acc)
}

fn is_rust_ws(c: char) -> bool {
    c.is_whitespace()
}

// ------------------------------------------------------------------------------------------------
// generators

const NAMES: &[&str] = &["a", "b", "c", "id", "nm", "val", "col_1", "X9", "Qty", "z_"];
const SAFE_FRAGS: &[&str] = &["a", "b", "x", "y", "Z", "0", "1", "42", "foo", "bar", "Alice", "q r", "-", "_", ".", "é", "日本", "😀"];
const HOT_FRAGS: &[&str] = &[
    ",", ",", "\"", "\"\"", "'", "''", ";", "--", "\n", "\r\n", "\r", " ", "  ", "\t", "\u{a0}", "\u{3000}", "\u{85}", "NULL", "null",
    "Null", ")", "(", "\\", "x'); DROP TABLE other; --", "' OR '1'='1", "/*", "*/", "\u{1}", "\u{0}", "\u{7f}", "=", "\u{2028}",
];
/// characters outside the model's `debug_domain` (Rust's Debug escaping of them is table driven)
fn debug_domain(c: char) -> bool {
    let u = c as u32;
    u < 128 || (161..=172).contains(&u) || (174..=255).contains(&u) || (19968..=40959).contains(&u) || (128512..=128591).contains(&u)
}

/// hot: per-mille probability of a "hot" fragment
fn gen_text(r: &mut Rng, hot: u64, maxfrags: u64) -> String {
    let n = r.below(maxfrags + 1);
    let mut s = String::new();
    for _ in 0..n {
        if r.chance(hot, 1000) {
            s.push_str(*r.pick(HOT_FRAGS));
        } else {
            s.push_str(*r.pick(SAFE_FRAGS));
        }
    }
    s
}
/// a field for a column of the given type (typed columns mostly get text of that type)
fn typed_field(r: &mut Rng, ty: Ty, hot: u64) -> String {
    match ty {
        Ty::Int if r.chance(9, 10) => r.pick(&["0", "7", "42", "2147483648", "-5", "9223372036854775807"]).to_string(),
        Ty::Bool if r.chance(9, 10) => r.pick(&["true", "false", "TRUE"]).to_string(),
        _ => gen_text(r, hot, 3),
    }
}
fn gen_schema(r: &mut Rng, typed_pm: u64) -> Vec<(String, Ty)> {
    let n = 1 + r.below(4) as usize;
    let mut names: Vec<&str> = NAMES.to_vec();
    let mut out = Vec::new();
    let typed = r.chance(typed_pm, 1000);
    for _ in 0..n {
        let i = r.below(names.len() as u64) as usize;
        let nm = names.remove(i);
        let ty = if typed && r.chance(1, 2) { if r.chance(3, 4) { Ty::Int } else { Ty::Bool } } else { Ty::Text };
        out.push((nm.to_string(), ty));
    }
    out
}
fn vary_case(r: &mut Rng, s: &str) -> String {
    match r.below(4) {
        0 => s.to_uppercase(),
        1 => s.to_lowercase(),
        2 => s.chars().enumerate().map(|(i, c)| if i % 2 == 0 { c.to_ascii_uppercase() } else { c.to_ascii_lowercase() }).collect(),
        _ => s.to_string(),
    }
}

// ------------------------------------------------------------------------------------------------
// the real statements re-read by the real parser (family 7)

fn parser_view(table: &str, stmt: &str) -> Option<(Vec<String>, Vec<Option<String>>)> {
    use vibesql_ast::{Expression, InsertSource, Statement};
    use vibesql_types::SqlValue;
    let st = std::panic::catch_unwind(|| vibesql_parser::Parser::parse_sql(stmt)).ok()?.ok()?;
    if let Statement::Insert(ins) = st {
        if !ins.table_name.eq_ignore_ascii_case(table) || ins.conflict_clause.is_some() || ins.on_duplicate_key_update.is_some() {
            return None;
        }
        if let InsertSource::Values(rows) = &ins.source {
            if rows.len() != 1 {
                return None;
            }
            let mut vals = Vec::new();
            for e in &rows[0] {
                match e {
                    Expression::Literal(SqlValue::Varchar(s)) | Expression::Literal(SqlValue::Character(s)) => vals.push(Some(s.clone())),
                    Expression::Literal(SqlValue::Null) => vals.push(None),
                    _ => return None,
                }
            }
            return Some((ins.columns.clone(), vals));
        }
    }
    None
}
fn coq_parser_view(v: &Option<(Vec<String>, Vec<Option<String>>)>) -> String {
    coq_opt(v, |(c, l)| {
        format!(
            "({}, {})",
            coq_strs(c),
            coq_list(l, |x| match x {
                Some(s) => format!("LStr {}", coq_str(s)),
                None => "LNull".into(),
            })
        )
    })
}

// ------------------------------------------------------------------------------------------------
// output collection

struct Ctx {
    args: vh::out::Args,
    sum: Summary,
    log: CaseLog,
    cases: Vec<String>,
    dir: PathBuf,
}
impl Ctx {
    fn wanted(&self, id: u64) -> bool {
        match &self.args.only {
            None => true,
            Some(v) => v.iter().any(|x| *x / 10 == id / 10),
        }
    }
    fn emit(&mut self, term: String) {
        self.cases.push(term);
        self.sum.model_cases += 1;
    }
    fn stmt_cases(&mut self, id: u64, table: &str, stmts: &[String]) {
        // at most two statements of the case (first and last) are re-read by the real parser
        let mut picks: Vec<usize> = Vec::new();
        if !stmts.is_empty() {
            picks.push(0);
            if stmts.len() > 1 {
                picks.push(stmts.len() - 1);
            }
        }
        for (k, i) in picks.into_iter().enumerate() {
            let v = parser_view(table, &stmts[i]);
            self.sum.count(if v.is_some() { "stmt-parser-insert-of-literals" } else { "stmt-parser-other" });
            let cid = id + 1 + k as u64; // sub-ids 1,2 of the originating case
            self.emit(format!("KStmt {} {} {} {}", cid, coq_str(table), coq_str(&stmts[i]), coq_parser_view(&v)));
        }
    }
}

fn text_rows(rows: &[Vec<Cell>]) -> Option<Vec<Vec<Option<String>>>> {
    let mut out = Vec::new();
    for r in rows {
        let mut o = Vec::new();
        for c in r {
            match c {
                Cell::Text(s) => o.push(Some(s.clone())),
                Cell::Null => o.push(None),
                _ => return None,
            }
        }
        out.push(o);
    }
    Some(out)
}
fn sorted<T: Ord + Clone>(v: &[T]) -> Vec<T> {
    let mut w = v.to_vec();
    w.sort();
    w
}
/// is `a` a sub-bag of `b`
fn sub_bag<T: Ord + Clone>(a: &[T], b: &[T]) -> bool {
    let mut b = sorted(b);
    for x in a {
        match b.iter().position(|y| y == x) {
            Some(i) => {
                b.remove(i);
            }
            None => return false,
        }
    }
    true
}

fn col_index(schema: &[String], name: &str) -> Option<usize> {
    schema.iter().position(|c| c.eq_ignore_ascii_case(name))
}

/// narrow classes of CSV fidelity failures, by a predicate on the file and its intended fields
fn csv_class(file: &str, fields: &[&String], typed_hit: bool, has_null: bool) -> &'static str {
    if typed_hit {
        "import-typed-column-rejected"
    } else if fields.iter().any(|f| f.contains(',')) {
        "csv-field-with-comma"
    } else if fields.iter().any(|f| f.contains('"')) {
        "csv-field-with-quote"
    } else if fields.iter().any(|f| f.contains('\n') || f.contains('\r')) {
        "csv-field-with-newline"
    } else if file.contains('"') {
        "csv-quoted-field" // RFC 4180 quoting around a field that did not need it
    } else if fields.iter().any(|f| f.trim() != f.as_str()) {
        "csv-field-edge-whitespace"
    } else if has_null {
        "csv-null-not-importable" // the table holds SQL NULL; no CSV field is ever imported as NULL
    } else {
        "result-mismatch"
    }
}
fn typed_hit(rows: &[Vec<Cell>]) -> bool {
    rows.iter().flatten().any(|c| matches!(c, Cell::Int(_) | Cell::Bool(_)))
}

// ------------------------------------------------------------------------------------------------
// family 1: csv import

struct CsvCase {
    schema: Vec<(String, Ty)>,
    table_exists: bool,
    file: Vec<u8>,
    kind: &'static str,
}

fn gen_csv_case(r: &mut Rng) -> CsvCase {
    let schema = gen_schema(r, 200);
    let names: Vec<String> = schema.iter().map(|(n, _)| n.clone()).collect();
    let k = r.below(100);
    let ncols = names.len();
    let nrec = r.below(5) as usize;
    if k < 38 {
        // RFC 4180 encoding of intended records
        let hot = *r.pick(&[0u64, 150, 400]);
        let mut rows = vec![names.iter().map(|n| vary_case(r, n)).collect::<Vec<_>>()];
        if r.chance(1, 6) {
            rows[0].reverse();
        }
        for _ in 0..nrec {
            rows.push((0..ncols).map(|i| typed_field(r, schema[i].1, hot)).collect());
        }
        let eol = if r.chance(1, 2) { "\r\n" } else { "\n" };
        let mut f = rfc_write(&rows, eol);
        if r.chance(1, 8) && f.ends_with(eol) {
            f.truncate(f.len() - eol.len());
        }
        CsvCase { schema, table_exists: true, file: f.into_bytes(), kind: "rfc" }
    } else if k < 62 {
        // the dialect the code itself understands: bare fields, optional blanks around them
        let mut lines = Vec::new();
        let pad = |r: &mut Rng, s: &str| -> String {
            let ws = [" ", "", "", "\t", "  ", "\u{a0}", "\u{3000}"];
            format!("{}{}{}", r.pick(&ws), s, r.pick(&ws))
        };
        lines.push(names.iter().map(|n| { let v = vary_case(r, n); pad(r, &v) }).collect::<Vec<_>>().join(","));
        for _ in 0..nrec {
            lines.push((0..ncols).map(|_| { let t = gen_text(r, 60, 3).replace(',', ";").replace('\n', " "); pad(r, &t) }).collect::<Vec<_>>().join(","));
        }
        let eol = if r.chance(1, 3) { "\r\n" } else { "\n" };
        let mut f = lines.join(eol);
        if r.chance(3, 4) {
            f.push_str(eol);
        }
        CsvCase { schema, table_exists: true, file: f.into_bytes(), kind: "plain" }
    } else if k < 90 {
        // hostile / malformed
        let mut header: Vec<String> = names.clone();
        let mut lines: Vec<String> = Vec::new();
        for _ in 0..nrec.max(1) {
            lines.push((0..ncols).map(|_| gen_text(r, 250, 2).replace(',', ";").replace('\n', "|").replace('\r', "|")).collect::<Vec<_>>().join(","));
        }
        let kind;
        match r.below(14) {
            0 => { header[0] = format!("{}) VALUES ('x'); DROP TABLE other; --", header[0]); kind = "hdr-injection"; }
            1 => { header.push("nosuch".into()); for l in lines.iter_mut() { l.push_str(",1"); } kind = "hdr-unknown-column"; }
            2 => { let h0 = header[0].clone(); header.push(h0); for l in lines.iter_mut() { l.push_str(",dup"); } kind = "hdr-duplicate-column"; }
            3 => { header = vec![String::new()]; kind = "hdr-empty"; }
            4 => { return CsvCase { schema, table_exists: true, file: Vec::new(), kind: "empty-file" }; }
            5 => { lines.clear(); kind = "header-only"; }
            6 => { if let Some(l) = lines.last_mut() { l.push_str(",extra"); } kind = "ragged-long"; }
            7 => { lines.push("x".repeat(1)); if ncols == 1 { lines.push("a,b".into()); } kind = "ragged-short"; }
            8 => { lines.insert(0, String::new()); kind = "blank-line"; }
            9 => { header[0] = format!("\"{}\"", header[0]); kind = "hdr-quoted"; }
            10 => { header[0] = format!("{} -- x", header[0]); kind = "hdr-comment"; }
            11 => { header[0] = format!("{}, {}", header[0], header[0]); kind = "hdr-extra-comma"; }
            12 => { header[0] = format!("other.{}", header[0]); kind = "hdr-qualified"; }
            _ => { let h = header[0].clone(); header[0] = format!("{}\r", h); kind = "hdr-cr-inside"; }
        }
        let mut all = vec![header.join(",")];
        all.extend(lines);
        let mut f = all.join("\n");
        if r.chance(2, 3) {
            f.push('\n');
        }
        if r.chance(1, 10) {
            f.push('\r');
        }
        CsvCase { schema, table_exists: true, file: f.into_bytes(), kind }
    } else if k < 93 {
        // a delimited column name with characters the validators look for
        let weird = *r.pick(&["we(ird", "we)ird", "se;mi", "qu'ote", "sp ace", "co,mma", "da--sh", "MiXed"]);
        let mut schema = schema;
        schema[0].0 = weird.to_string();
        schema[0].1 = Ty::Text;
        let names: Vec<String> = schema.iter().map(|(n, _)| n.clone()).collect();
        let row: Vec<String> = (0..ncols).map(|i| typed_field(r, schema[i].1, 0)).collect();
        let f = format!("{}\n{}\n", names.join(","), row.join(","));
        CsvCase { schema, table_exists: true, file: f.into_bytes(), kind: "delimited-column-name" }
    } else if k < 96 {
        let f = format!("{}\nx\n", names.join(","));
        CsvCase { schema, table_exists: false, file: f.into_bytes(), kind: "no-such-table" }
    } else {
        // not UTF-8 (oracle only)
        let mut f = format!("{}\n", names.join(",")).into_bytes();
        if r.chance(1, 2) {
            f.insert(0, 0xff);
        }
        f.extend_from_slice(b"ok");
        for _ in 1..ncols { f.extend_from_slice(b",v"); }
        f.extend_from_slice(b"\n\xc3\x28");
        for _ in 1..ncols { f.extend_from_slice(b",v"); }
        f.push(b'\n');
        CsvCase { schema, table_exists: true, file: f, kind: "invalid-utf8" }
    }
}

fn run_csv_import(cx: &mut Ctx, id: u64, case: &CsvCase) {
    let dir = cx.dir.clone();
    let mut s = Sess::new(&dir);
    setup_other(&mut s);
    if case.table_exists {
        s.create("t", &case.schema);
    }
    let path = dir.join("in.csv");
    std::fs::write(&path, &case.file).expect("harness: write csv");
    let ps = path.to_str().unwrap();
    let schema_before = s.schema_lines();
    // the two steps of handle_copy, called directly to see the statements
    let direct: Result<Vec<String>, String> = validation::validate_csv_columns(&s.db, ps, "t")
        .and_then(|_| DataIO::import_csv(ps, "t"))
        .map_err(|e| e.to_string());
    // the real thing
    let hc = s.copy(&format!("\\copy t FROM '{}'", ps));
    let rows = if case.table_exists { s.rows("t") } else { Vec::new() };
    let other_ok = other_intact(&mut s);
    let schema_after = s.schema_lines();
    let typed = case.schema.iter().any(|(_, t)| *t != Ty::Text);
    let schema_names = s.schema("t");
    let text = String::from_utf8(case.file.clone()).ok();

    cx.sum.evaluations += 1;
    cx.sum.count(&format!("csv-import/{}", case.kind));
    cx.sum.count(if direct.is_ok() { "csv-import:accepted" } else { "csv-import:rejected" });
    let cj = json!({"family": "csv-import", "kind": case.kind, "schema": case.schema.iter().map(|(n,t)| format!("{} {}", n, t.sql())).collect::<Vec<_>>(),
                    "file": String::from_utf8_lossy(&case.file), "statements": direct.clone().unwrap_or_default(), "handle_copy": format!("{:?}", hc),
                    "rows": rows.iter().map(|r| r.iter().map(|c| c.js()).collect::<Vec<_>>()).collect::<Vec<_>>() });
    cx.log.log(id, cj.clone());
    cx.sum.sample(cj.clone());
    if let Ok(st) = &direct {
        if !st.is_empty() {
            cx.sum.nontrivial(&format!("{:?}", st));
        }
    }

    // ---- model tie
    if let Some(t) = &text {
        let orows = if case.table_exists && !typed { text_rows(&rows) } else { None };
        cx.emit(format!(
            "KCsvImp {} {} {} {} {} {} {} {}",
            id,
            coq_opt(&schema_names, |v| coq_strs(v)),
            coq_str(t),
            coq_str("t"),
            coq_bool(direct.is_ok()),
            coq_strs(direct.as_ref().map(|v| v.as_slice()).unwrap_or(&[])),
            coq_bool(hc.is_ok()),
            coq_opt(&orows, |v| coq_orows(v))
        ));
        if let Ok(st) = &direct {
            cx.stmt_cases(id, "t", st);
        }
    }

    // ---- the property's own oracle
    if !other_ok || schema_before != schema_after {
        cx.sum.finding("import-changed-other-objects", id, format!("other table intact: {}, schema before {:?} after {:?}", other_ok, schema_before, schema_after), cj.clone());
        return;
    }
    if direct.is_ok() != hc.is_ok() {
        cx.sum.finding("result-mismatch", id, "handle_copy and validate+import disagree on acceptance".into(), cj.clone());
        return;
    }
    let Some(t) = text else {
        // not UTF-8: nothing may be imported
        if !rows.is_empty() || hc.is_ok() {
            cx.sum.finding("result-mismatch", id, "a file that is not UTF-8 was (partly) imported".into(), cj);
        }
        return;
    };
    if !case.table_exists {
        if hc.is_ok() {
            cx.sum.finding("result-mismatch", id, "import into a missing table succeeded".into(), cj);
        }
        return;
    }
    if case.schema.iter().any(|(n, _)| !n.chars().all(|c| c.is_ascii_alphanumeric() || c == '_')) {
        return; // delimited column names: outside the fidelity half of the property (tie and safety oracle still apply)
    }
    let Some(parsed) = rfc_read(&t) else { return };
    let schema = schema_names.unwrap();
    // expected outcome by RFC 4180
    let mut expected: Option<Vec<Vec<Cell>>> = None; // None = the file must be rejected (nothing inserted)
    if let Some(header) = parsed.first() {
        let idx: Vec<Option<usize>> = header.iter().map(|h| col_index(&schema, h.trim())).collect();
        let distinct = { let mut v: Vec<usize> = idx.iter().flatten().cloned().collect(); v.sort(); v.dedup(); v.len() == idx.iter().flatten().count() };
        if !distinct {
            return; // a column named twice in the header: the property does not say which value counts
        }
        if idx.iter().all(|i| i.is_some()) && parsed[1..].iter().all(|r| r.len() == header.len()) {
            let mut rows_e = Vec::new();
            let mut representable = true;
            for rec in &parsed[1..] {
                let mut row = vec![Cell::Null; schema.len()];
                for (f, i) in rec.iter().zip(idx.iter()) {
                    let i = i.unwrap();
                    row[i] = match case.schema[i].1 {
                        Ty::Text => Cell::Text(f.clone()),
                        Ty::Int => match f.trim().parse::<i64>() { Ok(v) => Cell::Int(v), Err(_) => { representable = false; Cell::Null } },
                        Ty::Bool => match f.trim().to_ascii_lowercase().as_str() { "true" => Cell::Bool(true), "false" => Cell::Bool(false), _ => { representable = false; Cell::Null } },
                    };
                }
                rows_e.push(row);
            }
            if !representable {
                return; // the property says nothing about text in a typed column
            }
            expected = Some(rows_e);
        }
    }
    let exp = expected.clone().unwrap_or_default();
    if sorted(&exp) != sorted(&rows) {
        let fields: Vec<&String> = parsed.iter().flatten().collect();
        let class = if expected.is_none() { "result-mismatch" } else { csv_class(&t, &fields, typed_hit(&exp), false) };
        cx.sum.finding(class, id, format!("after import the table holds {:?}, RFC 4180 reading of the file gives {:?}", rows, expected), cj);
    }
}

// ------------------------------------------------------------------------------------------------
// family 2: json import

#[derive(Clone, Debug)]
enum JV {
    Str(String),
    Num(String), // the literal as written in the file
    Bool(bool),
    Null,
    Other(serde_json::Value),
}
impl JV {
    fn file_text(&self) -> String {
        match self {
            JV::Str(s) => serde_json::to_string(s).unwrap(),
            JV::Num(l) => l.clone(),
            JV::Bool(b) => b.to_string(),
            JV::Null => "null".into(),
            JV::Other(v) => serde_json::to_string(v).unwrap(),
        }
    }
    /// the text the code derives from the parsed value (library renderings are taken from serde_json)
    fn coq(&self) -> String {
        match self {
            JV::Str(s) => format!("JStr {}", coq_str(s)),
            JV::Num(l) => {
                let n: serde_json::Number = serde_json::from_str(l).expect("harness: number literal");
                format!("JNum {}", coq_str(&n.to_string()))
            }
            JV::Bool(b) => format!("JBool {}", coq_bool(*b)),
            JV::Null => "JNull".into(),
            JV::Other(v) => format!("JOther {}", coq_str(&v.to_string())),
        }
    }
    /// what a faithful import stores in a text column
    fn expected_text(&self) -> Option<String> {
        match self {
            JV::Str(s) => Some(s.clone()),
            JV::Num(l) => Some(serde_json::from_str::<serde_json::Number>(l).unwrap().to_string()),
            JV::Bool(b) => Some(b.to_string()),
            JV::Null => None,
            JV::Other(v) => Some(v.to_string()),
        }
    }
}

struct JsonCase {
    schema: Vec<(String, Ty)>,
    table_exists: bool,
    objs: Option<Vec<Vec<(String, JV)>>>, // None: the file is not a JSON array of objects
    file: String,
    kind: &'static str,
}

fn gen_jv(r: &mut Rng, hot: u64) -> JV {
    match r.below(20) {
        0..=9 => JV::Str(gen_text(r, hot, 3)),
        10 => JV::Str("NULL".into()),
        11..=13 => JV::Num(r.pick(&["0", "1", "42", "-7", "9223372036854775807", "-9223372036854775808", "18446744073709551615", "1.5", "1e3", "-0.0", "2.50", "1E-2"]).to_string()),
        14 | 15 => JV::Bool(r.chance(1, 2)),
        16 | 17 => JV::Null,
        18 => JV::Other(json!([1, "x'y", null])),
        _ => JV::Other(json!({"k": ["NULL", 2], "q": "it's"})),
    }
}
const HOSTILE_KEYS: &[&str] = &[
    "a) SELECT y FROM other; --",
    "a) VALUES ('injected'); --",
    "a, b",
    "nosuch",
    "a -- ",
    "",
    " a",
    "a'",
    "\"a\"",
    "a;",
    "other.x",
    "a) SELECT y FROM other WHERE ('1' = '1",
];

fn gen_json_case(r: &mut Rng) -> JsonCase {
    let schema = gen_schema(r, 200);
    let names: Vec<String> = schema.iter().map(|(n, _)| n.clone()).collect();
    let k = r.below(100);
    let nobj = 1 + r.below(4) as usize;
    let hot = *r.pick(&[0u64, 200, 400]);
    let mut objs: Vec<Vec<(String, JV)>> = Vec::new();
    for _ in 0..nobj {
        let mut o = Vec::new();
        for (n, ty) in &schema {
            if r.chance(9, 10) {
                let v = match ty {
                    Ty::Int if r.chance(4, 5) => if r.chance(1, 6) { JV::Null } else { JV::Num(r.pick(&["0", "7", "42", "-5", "9223372036854775807"]).to_string()) },
                    Ty::Bool if r.chance(4, 5) => JV::Bool(r.chance(1, 2)),
                    _ => gen_jv(r, hot),
                };
                o.push((vary_case(r, n), v));
            }
        }
        if o.is_empty() {
            o.push((names[0].clone(), gen_jv(r, hot)));
        }
        if r.chance(1, 3) {
            // member order is free in JSON
            let i = r.below(o.len() as u64) as usize;
            o.swap(0, i);
        }
        objs.push(o);
    }
    let mut kind = "valid";
    let mut table_exists = true;
    let mut raw: Option<String> = None;
    if k < 45 {
    } else if k < 60 {
        // hostile key in the FIRST object
        let key = r.pick(HOSTILE_KEYS).replace("a", &names[0]);
        objs[0].push((key, gen_jv(r, hot)));
        kind = "hostile-key-first-object";
    } else if k < 78 {
        // hostile key in a LATER object
        let key = r.pick(HOSTILE_KEYS).replace("a", &names[0]);
        let v = gen_jv(r, hot);
        if objs.len() < 2 {
            objs.push(vec![(key, v)]);
        } else {
            let i = 1 + r.below(objs.len() as u64 - 1) as usize;
            if r.chance(1, 2) { objs[i] = vec![(key, v)]; } else { objs[i].push((key, v)); }
        }
        kind = "hostile-key-later-object";
    } else if k < 80 {
        // a delimited column name with characters the validators look for, as a key of the first object
        let weird = *r.pick(&["we(ird", "we)ird", "se;mi", "qu'ote", "sp ace", "co,mma", "da--sh", "Mi Xed"]);
        return {
            let mut schema = schema;
            schema[0].0 = weird.to_string();
            schema[0].1 = Ty::Text;
            let objs = vec![schema.iter().map(|(n, t)| (n.clone(), if *t == Ty::Text { JV::Str("v".into()) } else { JV::Null })).collect::<Vec<_>>()];
            let ms: Vec<String> = objs[0].iter().map(|(k, v)| format!("{}: {}", serde_json::to_string(k).unwrap(), v.file_text())).collect();
            let file = format!("[{{{}}}]", ms.join(", "));
            JsonCase { schema, table_exists: true, objs: Some(objs), file, kind: "delimited-column-name" }
        };
    } else if k < 83 {
        // repeated member names (exact and by case)
        let n0 = objs[0][0].0.clone();
        objs[0].push((n0.clone(), JV::Str("second".into())));
        if r.chance(1, 2) {
            let alt = if n0.to_uppercase() != n0 { n0.to_uppercase() } else { n0.to_lowercase() };
            objs[0].push((alt, JV::Str("third".into())));
        }
        kind = "repeated-key";
    } else if k < 87 {
        let i = r.below(objs.len() as u64) as usize;
        objs[i].clear();
        kind = "empty-object";
    } else if k < 90 {
        objs.clear();
        kind = "empty-array";
    } else if k < 95 {
        raw = Some(r.pick(&["{\"a\": 1}", "[1, 2]", "[{\"a\": 1}, 5]", "[{\"a\": 1}", "not json", "", "[{\"a\": 1},]", "[{a: 1}]", "null"]).to_string());
        kind = "malformed";
    } else {
        table_exists = false;
        kind = "no-such-table";
    }
    let file = match &raw {
        Some(t) => t.clone(),
        None => {
            let sp = |r: &mut Rng| -> &'static str { *r.pick(&["", " ", "\n", "\n  "]) };
            let os: Vec<String> = objs
                .iter()
                .map(|o| {
                    let ms: Vec<String> = o.iter().map(|(k, v)| format!("{}{}:{}{}", sp(r), serde_json::to_string(k).unwrap(), sp(r), v.file_text())).collect();
                    format!("{{{}{}}}", ms.join(","), sp(r))
                })
                .collect();
            format!("[{}{}]", os.join(","), sp(r))
        }
    };
    JsonCase { schema, table_exists, objs: if raw.is_some() { None } else { Some(objs) }, file, kind }
}

fn coq_jobjs(objs: &Option<Vec<Vec<(String, JV)>>>) -> String {
    coq_opt(objs, |os| coq_list(os, |o| coq_list(o, |(k, v)| format!("({}, {})", coq_str(k), v.coq()))))
}

fn run_json_import(cx: &mut Ctx, id: u64, case: &JsonCase) {
    let dir = cx.dir.clone();
    let mut s = Sess::new(&dir);
    setup_other(&mut s);
    if case.table_exists {
        s.create("t", &case.schema);
    }
    let path = dir.join("in.json");
    std::fs::write(&path, case.file.as_bytes()).expect("harness: write json");
    let ps = path.to_str().unwrap();
    let schema_before = s.schema_lines();
    let direct: Result<Vec<String>, String> = validation::validate_json_columns(&s.db, ps, "t")
        .and_then(|_| DataIO::import_json(ps, "t"))
        .map_err(|e| e.to_string());
    let hc = s.copy(&format!("\\copy t FROM '{}'", ps));
    let rows = if case.table_exists { s.rows("t") } else { Vec::new() };
    let other_ok = other_intact(&mut s);
    let schema_after = s.schema_lines();
    let typed = case.schema.iter().any(|(_, t)| *t != Ty::Text);
    let schema_names = s.schema("t");

    cx.sum.evaluations += 1;
    cx.sum.count(&format!("json-import/{}", case.kind));
    cx.sum.count(if direct.is_ok() { "json-import:accepted" } else { "json-import:rejected" });
    let cj = json!({"family": "json-import", "kind": case.kind, "schema": case.schema.iter().map(|(n,t)| format!("{} {}", n, t.sql())).collect::<Vec<_>>(),
                    "file": case.file, "statements": direct.clone().unwrap_or_default(), "handle_copy": format!("{:?}", hc),
                    "rows": rows.iter().map(|r| r.iter().map(|c| c.js()).collect::<Vec<_>>()).collect::<Vec<_>>() });
    cx.log.log(id, cj.clone());
    cx.sum.sample(cj.clone());
    if let Ok(st) = &direct {
        cx.sum.nontrivial(&format!("{:?}", st));
    }

    // ---- model tie
    let orows = if case.table_exists && !typed { text_rows(&rows) } else { None };
    cx.emit(format!(
        "KJsonImp {} {} {} {} {} {} {} {}",
        id,
        coq_opt(&schema_names, |v| coq_strs(v)),
        coq_jobjs(&case.objs),
        coq_str("t"),
        coq_bool(direct.is_ok()),
        coq_strs(direct.as_ref().map(|v| v.as_slice()).unwrap_or(&[])),
        coq_bool(hc.is_ok()),
        coq_opt(&orows, |v| coq_orows(v))
    ));
    if let Ok(st) = &direct {
        cx.stmt_cases(id, "t", st);
    }

    // ---- oracle
    if !other_ok || schema_before != schema_after {
        cx.sum.finding("import-changed-other-objects", id, format!("other table intact: {}, schema before {:?} after {:?}", other_ok, schema_before, schema_after), cj.clone());
        return;
    }
    if direct.is_ok() != hc.is_ok() {
        cx.sum.finding("result-mismatch", id, "handle_copy and validate+import disagree on acceptance".into(), cj.clone());
        return;
    }
    if !case.table_exists {
        if hc.is_ok() {
            cx.sum.finding("result-mismatch", id, "import into a missing table succeeded".into(), cj);
        }
        return;
    }
    if case.schema.iter().any(|(n, _)| !n.chars().all(|c| c.is_ascii_alphanumeric() || c == '_')) {
        return; // delimited column names: outside the fidelity half of the property
    }
    let Some(objs) = &case.objs else {
        if !rows.is_empty() || hc.is_ok() {
            cx.sum.finding("result-mismatch", id, "a malformed JSON file was (partly) imported".into(), cj);
        }
        return;
    };
    let schema = schema_names.unwrap();
    let mut expected_full: Vec<Vec<Cell>> = Vec::new();
    let mut has_invalid = objs.is_empty();
    let mut later_invalid_key = false;
    let mut ambiguous = false;
    let mut null_text = false;
    for (oi, o) in objs.iter().enumerate() {
        // JSON semantics: a repeated member name keeps the last value
        let mut members: Vec<(String, JV)> = Vec::new();
        for (k, v) in o {
            if let Some(p) = members.iter().position(|(k2, _)| k2 == k) {
                members[p].1 = v.clone();
            } else {
                members.push((k.clone(), v.clone()));
            }
        }
        let idx: Vec<Option<usize>> = members.iter().map(|(k, _)| col_index(&schema, k)).collect();
        if members.is_empty() || idx.iter().any(|i| i.is_none()) {
            has_invalid = true;
            if oi > 0 && idx.iter().any(|i| i.is_none()) {
                later_invalid_key = true;
            }
            continue;
        }
        let mut seen: Vec<usize> = idx.iter().flatten().cloned().collect();
        seen.sort();
        let n0 = seen.len();
        seen.dedup();
        if seen.len() != n0 {
            ambiguous = true; // the same column named twice with different case: no expectation
        }
        let mut row = vec![Cell::Null; schema.len()];
        let mut representable = true;
        for ((_, v), i) in members.iter().zip(idx.iter()) {
            let i = i.unwrap();
            if let JV::Str(t) = v {
                if t == "NULL" {
                    null_text = true;
                }
            }
            row[i] = match (case.schema[i].1, v) {
                (_, JV::Null) => Cell::Null,
                (Ty::Text, v) => Cell::Text(v.expected_text().unwrap()),
                (Ty::Int, JV::Num(l)) => match l.parse::<i64>() { Ok(x) => Cell::Int(x), Err(_) => { representable = false; Cell::Null } },
                (Ty::Bool, JV::Bool(b)) => Cell::Bool(*b),
                _ => { representable = false; Cell::Null }
            };
        }
        if !representable {
            return;
        }
        expected_full.push(row);
    }
    if ambiguous {
        return;
    }
    let pass = sorted(&expected_full) == sorted(&rows) || (has_invalid && sub_bag(&rows, &expected_full));
    if !pass {
        let foreign = !sub_bag(&rows, &expected_full);
        let class = if later_invalid_key && foreign {
            "json-key-injection"
        } else if typed_hit(&expected_full) {
            "import-typed-column-rejected"
        } else if null_text {
            "null-text-becomes-null"
        } else {
            "result-mismatch"
        };
        cx.sum.finding(class, id, format!("after import the table holds {:?}; the file's records are {:?}", rows, expected_full), cj);
    }
}

// ------------------------------------------------------------------------------------------------
// family 3: export of a real table, and the CLI round trip

fn gen_cell(r: &mut Rng, ty: Ty, hot: u64) -> Cell {
    if r.chance(1, 6) {
        return Cell::Null;
    }
    match ty {
        Ty::Text => {
            if r.chance(1, 12) {
                return Cell::Text("NULL".into());
            }
            let t: String = gen_text(r, hot, 3).chars().filter(|c| debug_domain(*c)).collect();
            Cell::Text(t)
        }
        Ty::Int => Cell::Int(*r.pick(&[0i64, 1, 7, 42, 1000, 2147483647, 9223372036854775807, -1, -42, -9223372036854775807])),
        Ty::Bool => Cell::Bool(r.chance(1, 2)),
    }
}

fn run_export(cx: &mut Ctx, id: u64, r: &mut Rng) {
    let dir = cx.dir.clone();
    let mut s = Sess::new(&dir);
    setup_other(&mut s);
    let schema = gen_schema(r, 500);
    s.create("t", &schema);
    s.create("t2", &schema);
    s.create("t3", &schema);
    s.create("t4", &schema);
    let nrows = r.below(6) as usize;
    let hot = *r.pick(&[0u64, 200, 500]);
    let mut data: Vec<Vec<Cell>> = Vec::new();
    for _ in 0..nrows {
        data.push(schema.iter().map(|(_, t)| gen_cell(r, *t, hot)).collect());
    }
    // negative integers cannot be written as INSERT literals: insert the magnitude, then negate by UPDATE
    let mut ok = true;
    for row in &data {
        let lits: Vec<String> = row.iter().map(|c| match c { Cell::Int(i) if *i < 0 => (-i).to_string(), c => c.sql() }).collect();
        ok &= s.sql(&format!("INSERT INTO t VALUES ({})", lits.join(", "))).is_ok();
    }
    for (ci, (name, ty)) in schema.iter().enumerate() {
        if *ty == Ty::Int {
            let mut negs: Vec<i64> = data.iter().filter_map(|r| if let Cell::Int(i) = r[ci] { if i < 0 { Some(-i) } else { None } } else { None }).collect();
            negs.sort();
            negs.dedup();
            for m in negs {
                // rows that hold +m in this column but were meant positive would be hit too: only negate when unambiguous
                if data.iter().any(|r| r[ci] == Cell::Int(m)) {
                    ok = false;
                } else {
                    ok &= s.sql(&format!("UPDATE t SET {} = 0 - {} WHERE {} = {}", name, m, name, m)).is_ok();
                }
            }
        }
    }
    let stored = s.rows("t");
    if !ok || sorted(&stored) != sorted(&data) {
        cx.sum.count("export:setup-not-representable");
        return;
    }
    let pcsv = dir.join("out.csv");
    let pjson = dir.join("out.json");
    let _ = std::fs::remove_file(&pcsv);
    let _ = std::fs::remove_file(&pjson);
    let e1 = s.copy(&format!("\\copy t TO '{}'", pcsv.to_str().unwrap()));
    let e2 = s.copy(&format!("\\copy t TO {}", pjson.to_str().unwrap()));
    let fcsv = std::fs::read_to_string(&pcsv).unwrap_or_else(|_| "<no file>".into());
    let fjson = std::fs::read_to_string(&pjson).unwrap_or_else(|_| "<no file>".into());
    // order: what SELECT * returns now (same call handle_copy made)
    let ordered = s.rows("t");
    cx.sum.evaluations += 1;
    cx.sum.count(&format!("export/rows={}", nrows));
    cx.sum.count(&format!("export/cols={}", schema.len()));
    let cj = json!({"family": "export", "schema": schema.iter().map(|(n,t)| format!("{} {}", n, t.sql())).collect::<Vec<_>>(),
                    "rows": ordered.iter().map(|r| r.iter().map(|c| c.js()).collect::<Vec<_>>()).collect::<Vec<_>>(), "csv": fcsv, "json": fjson,
                    "export_result": format!("{:?} {:?}", e1, e2)});
    cx.log.log(id, cj.clone());
    cx.sum.sample(cj.clone());
    if nrows > 0 {
        cx.sum.nontrivial(&fcsv);
    }
    cx.emit(format!("KExport {} {} {} {}", id, coq_list(&ordered, |r| coq_list(r, |c| c.coq())), coq_str(&fcsv), coq_str(&fjson)));

    // ---- oracle: the CLI round trip
    let names = s.schema("t").unwrap();
    let typed = schema.iter().any(|(_, t)| *t != Ty::Text);
    let schema_before = s.schema_lines();
    let imp = s.copy(&format!("\\copy t2 FROM '{}'", pcsv.to_str().unwrap()));
    let back = s.rows("t2");
    let first_line = fcsv.lines().next().unwrap_or("").to_string();
    let header_is_names = first_line.eq_ignore_ascii_case(&names.join(","));
    if !other_intact(&mut s) || schema_before != s.schema_lines() {
        cx.sum.finding("import-changed-other-objects", id, "round trip touched another table or the schema".into(), cj.clone());
        return;
    }
    if sorted(&back) != sorted(&data) {
        let texts: Vec<String> = data.iter().flatten().filter_map(|c| if let Cell::Text(t) = c { Some(t.clone()) } else { None }).collect();
        let trefs: Vec<&String> = texts.iter().collect();
        let has_null = data.iter().flatten().any(|c| *c == Cell::Null);
        let class = if !data.is_empty() && !header_is_names { "export-header-placeholder" } else { csv_class(&fcsv, &trefs, typed_hit(&data), has_null) };
        cx.sum.finding(class, id, format!("CSV round trip: exported header {:?} (columns {:?}), import said {:?}, table after import {:?}", first_line, names, imp, back), cj.clone());
    }
    // JSON: one member per column?
    if let Ok(serde_json::Value::Array(a)) = serde_json::from_str::<serde_json::Value>(&fjson) {
        let bad = a.iter().any(|o| o.as_object().map(|m| m.len() != schema.len()).unwrap_or(true));
        if bad || a.len() != data.len() {
            let class = if schema.len() >= 2 && !data.is_empty() { "json-export-drops-columns" } else { "result-mismatch" };
            cx.sum.finding(class, id + 3, format!("JSON export: {} columns, objects {:?}", schema.len(), a.iter().take(2).collect::<Vec<_>>()), cj.clone());
        }
    } else {
        cx.sum.finding("result-mismatch", id + 3, "JSON export is not a JSON array".into(), cj.clone());
    }
    let imp_j = s.copy(&format!("\\copy t3 FROM {}", pjson.to_str().unwrap()));
    let back_j = s.rows("t3");
    if sorted(&back_j) != sorted(&data) {
        let class = if !data.is_empty() && fjson.contains("\"Column\"") && col_index(&names, "Column").is_none() {
            "export-header-placeholder"
        } else if typed_hit(&data) {
            "import-typed-column-rejected"
        } else if data.iter().flatten().any(|c| *c == Cell::Text("NULL".into())) {
            "null-text-becomes-null"
        } else {
            "result-mismatch"
        };
        cx.sum.finding(class, id + 4, format!("JSON round trip: import said {:?}, table after import {:?}", imp_j, back_j), cj.clone());
    }
    // assisted round trip: the harness repairs the header line, the cells stay as exported
    if !data.is_empty() && !header_is_names {
        let mut fixed = names.join(",");
        fixed.push('\n');
        if let Some(p) = fcsv.find('\n') {
            fixed.push_str(&fcsv[p + 1..]);
        }
        let p2 = dir.join("fixed.csv");
        std::fs::write(&p2, fixed.as_bytes()).unwrap();
        let imp2 = s.copy(&format!("\\copy t4 FROM '{}'", p2.to_str().unwrap()));
        let back2 = s.rows("t4");
        if sorted(&back2) != sorted(&data) {
            // every exported cell is a Debug rendering, never the value's own text
            let debugish = ordered.iter().flatten().all(|c| match c { Cell::Text(t) => format!("Varchar({:?})", t) != *t, _ => true });
            let class = if debugish { "typed-export-debug-format" } else { "result-mismatch" };
            cx.sum.finding(class, id + 5, format!("round trip with repaired header: import said {:?}, table after import {:?} (typed columns: {})", imp2, back2, typed), cj);
        }
    }
}

// ------------------------------------------------------------------------------------------------
// family 4: the DataIO writers on a hand-made QueryResult; writer -> reader round trip on text tables

fn run_writer(cx: &mut Ctx, id: u64, r: &mut Rng) {
    let dir = cx.dir.clone();
    let roundtrip = r.chance(1, 2);
    let pcsv = dir.join("w.csv");
    let pjson = dir.join("w.json");
    // what the table is meant to hold (None = SQL NULL, written with the marker NULL)
    let mut intended: Vec<Vec<Option<String>>> = Vec::new();
    let (columns, rows, schema): (Vec<String>, Vec<Vec<String>>, Option<Vec<(String, Ty)>>) = if roundtrip {
        let mut sch = gen_schema(r, 0);
        for c in sch.iter_mut() {
            c.1 = Ty::Text;
        }
        let hot = *r.pick(&[0u64, 0, 100, 300]);
        let n = r.below(5) as usize;
        let cells: Vec<Vec<Option<String>>> =
            (0..n).map(|_| sch.iter().map(|_| if r.chance(1, 20) { None } else if r.chance(1, 15) { Some("NULL".to_string()) } else { Some(gen_text(r, hot, 3)) }).collect()).collect();
        intended = cells.clone();
        let rows = cells.iter().map(|r| r.iter().map(|c| c.clone().unwrap_or_else(|| "NULL".to_string())).collect()).collect();
        (sch.iter().map(|(n, _)| n.clone()).collect(), rows, Some(sch))
    } else {
        let nc = r.below(4) as usize;
        let columns: Vec<String> = (0..nc).map(|_| if r.chance(1, 4) { gen_text(r, 500, 2) } else { r.pick(NAMES).to_string() }).collect();
        let n = r.below(4) as usize;
        let rows = (0..n)
            .map(|_| {
                let w = if r.chance(1, 4) { r.below(5) as usize } else { nc };
                (0..w).map(|_| gen_text(r, 500, 3)).collect()
            })
            .collect();
        (columns, rows, None)
    };
    let qr = QueryResult { columns: columns.clone(), rows: rows.clone(), row_count: rows.len(), execution_time_ms: None };
    let e1 = DataIO::export_csv(&qr, pcsv.to_str().unwrap());
    let e2 = DataIO::export_json(&qr, pjson.to_str().unwrap());
    if e1.is_err() || e2.is_err() {
        cx.sum.finding("result-mismatch", id, format!("writer failed: {:?} {:?}", e1.err().map(|e| e.to_string()), e2.err().map(|e| e.to_string())), json!({"columns": columns, "rows": rows}));
        return;
    }
    let fcsv = std::fs::read_to_string(&pcsv).unwrap();
    let fjson = std::fs::read_to_string(&pjson).unwrap();
    cx.sum.evaluations += 1;
    cx.sum.count(if roundtrip { "writer/roundtrip-table" } else { "writer/free-form" });
    let cj = json!({"family": "writer", "columns": columns, "rows": rows, "csv": fcsv, "json": fjson});
    cx.log.log(id, cj.clone());
    if !rows.is_empty() {
        cx.sum.nontrivial(&fcsv);
    }
    cx.emit(format!("KWriter {} {} {} {} {}", id, coq_strs(&columns), coq_rows(&rows), coq_str(&fcsv), coq_str(&fjson)));
    let Some(sch) = schema else { return };

    // ---- writer -> reader round trip through handle_copy (what a repaired export would hand to the writers)
    for (sub, is_json) in [(4u64, false), (7u64, true)] {
        let mut s = Sess::new(&dir);
        setup_other(&mut s);
        s.create("t", &sch);
        let names = s.schema("t");
        let p = if is_json { &pjson } else { &pcsv };
        let ps = p.to_str().unwrap();
        let direct: Result<Vec<String>, String> = if is_json {
            validation::validate_json_columns(&s.db, ps, "t").and_then(|_| DataIO::import_json(ps, "t")).map_err(|e| e.to_string())
        } else {
            validation::validate_csv_columns(&s.db, ps, "t").and_then(|_| DataIO::import_csv(ps, "t")).map_err(|e| e.to_string())
        };
        let hc = s.copy(&format!("\\copy t FROM '{}'", ps));
        let back = s.rows("t");
        cx.sum.evaluations += 1;
        let orows = text_rows(&back);
        if is_json {
            let objs: Option<Vec<Vec<(String, JV)>>> = if rows.is_empty() {
                Some(Vec::new())
            } else {
                Some(rows.iter().map(|r| columns.iter().cloned().zip(r.iter().map(|v| JV::Str(v.clone()))).collect()).collect())
            };
            cx.emit(format!("KJsonImp {} {} {} {} {} {} {} {}", id + sub, coq_opt(&names, |v| coq_strs(v)), coq_jobjs(&objs), coq_str("t"),
                coq_bool(direct.is_ok()), coq_strs(direct.as_ref().map(|v| v.as_slice()).unwrap_or(&[])), coq_bool(hc.is_ok()), coq_opt(&orows, |v| coq_orows(v))));
        } else {
            cx.emit(format!("KCsvImp {} {} {} {} {} {} {} {}", id + sub, coq_opt(&names, |v| coq_strs(v)), coq_str(&fcsv), coq_str("t"),
                coq_bool(direct.is_ok()), coq_strs(direct.as_ref().map(|v| v.as_slice()).unwrap_or(&[])), coq_bool(hc.is_ok()), coq_opt(&orows, |v| coq_orows(v))));
        }
        if let Ok(st) = &direct {
            cx.stmt_cases(id + sub, "t", st);
        }
        let want: Vec<Vec<Cell>> = intended.iter().map(|r| r.iter().map(|v| match v { Some(t) => Cell::Text(t.clone()), None => Cell::Null }).collect()).collect();
        if !other_intact(&mut s) {
            cx.sum.finding("import-changed-other-objects", id + sub, "round trip touched another table".into(), cj.clone());
            continue;
        }
        if sorted(&back) != sorted(&want) {
            let fields: Vec<&String> = intended.iter().flatten().flatten().collect();
            let has_null = intended.iter().flatten().any(|c| c.is_none());
            let class = if is_json {
                if fields.iter().any(|f| f.as_str() == "NULL") { "null-text-becomes-null" } else { "result-mismatch" }
            } else {
                csv_class(&fcsv, &fields, false, has_null)
            };
            cx.sum.finding(class, id + sub, format!("{} writer->reader round trip: wrote {:?}, table after import {:?} (import said {:?})", if is_json { "JSON" } else { "CSV" }, rows, back, hc), cj.clone());
        } else {
            cx.sum.count(if is_json { "writer-roundtrip-json:ok" } else { "writer-roundtrip-csv:ok" });
        }
    }
}

// ------------------------------------------------------------------------------------------------
// family 5: `\copy` line parsing

fn run_parse(cx: &mut Ctx, id: u64, r: &mut Rng) {
    let cmd = *r.pick(&["\\copy", "\\copy", "\\copy", "\\copy", "\\COPY", "\\copyx", "\\cop", "copy"]);
    let table = *r.pick(&["t", "users", "T1", "t;", "a.b", "'t'"]);
    let dir = *r.pick(&["TO", "to", "To", "FROM", "from", "fRoM", "INTO", "T", "FROMM", ""]);
    let path = *r.pick(&[
        "'/tmp/x.csv'", "/tmp/x.json", "\"/tmp/a b.json\"", "'/tmp/a  b.csv'", "'/tmp/it''s.csv'", "x.JSON", "'.json'", "''", "x.json'", "'\"x.json\"'",
        "\"'x.json'\"", "'x.json\"", "/tmp/x.json.csv", "/tmp/x", "'/tmp/x.json' extra", "", "x.jsonl", "'x y z.json'",
    ]);
    let sep = |r: &mut Rng| -> &'static str { *r.pick(&[" ", " ", "  ", "\t", "\u{a0}", " \t "]) };
    let lead = *r.pick(&["", "", " ", "\t"]);
    let trail = *r.pick(&["", "", " ", "\n", " \r\n"]);
    let mut line = String::from(lead);
    line.push_str(cmd);
    for part in [table, dir, path] {
        if part.is_empty() {
            continue;
        }
        line.push_str(sep(r));
        line.push_str(part);
    }
    line.push_str(trail);
    let real = std::panic::catch_unwind(|| MetaCommand::parse(&line));
    let obs: Option<(String, String, bool, bool)> = match real {
        Ok(Some(MetaCommand::Copy { table, file_path, direction, format })) => {
            Some((table, file_path, matches!(direction, CopyDirection::Import), matches!(format, CopyFormat::Json)))
        }
        Ok(_) => None,
        Err(_) => {
            cx.sum.finding("result-mismatch", id, "MetaCommand::parse panicked".into(), json!({"line": line}));
            return;
        }
    };
    cx.sum.evaluations += 1;
    cx.sum.count(if obs.is_some() { "parse:copy" } else { "parse:none" });
    cx.log.log(id, json!({"family": "parse", "line": line, "parsed": format!("{:?}", obs)}));
    if obs.is_some() {
        cx.sum.nontrivial(&line);
    }
    cx.emit(format!(
        "KParse {} {} {}",
        id,
        coq_str(&line),
        coq_opt(&obs, |(t, f, d, j)| format!("({}, {}, {}, {})", coq_str(t), coq_str(f), coq_bool(*d), coq_bool(*j)))
    ));
}

// ------------------------------------------------------------------------------------------------
// family 6: the RFC 4180 oracle of this harness is the specification's

fn run_rfc(cx: &mut Ctx, id: u64, r: &mut Rng) {
    let nrows = r.below(4) as usize;
    let rows: Vec<Vec<String>> = (0..nrows).map(|_| (0..1 + r.below(3)).map(|_| gen_text(r, 450, 3)).collect()).collect();
    let w = rfc_write(&rows, "\r\n");
    cx.emit(format!("KRfcWrite {} {} {}", id, coq_rows(&rows), coq_str(&w)));
    // a file: the written one, possibly with LF line ends, possibly damaged
    let mut f = if r.chance(1, 2) { w.clone() } else { rfc_write(&rows, "\n") };
    if r.chance(1, 2) {
        let alphabet = ["a", ",", "\"", "\r", "\n", "\r\n", " ", "\"\"", "x"];
        for _ in 0..1 + r.below(3) {
            let cs: Vec<char> = f.chars().collect();
            let p = r.below(cs.len() as u64 + 1) as usize;
            let mut g: String = cs[..p].iter().collect();
            g.push_str(*r.pick(&alphabet));
            g.extend(cs[p..].iter());
            f = g;
        }
    }
    let back = rfc_read(&f);
    cx.sum.evaluations += 1;
    cx.sum.count(if back.is_some() { "rfc-read:accepted" } else { "rfc-read:rejected" });
    if f == w && back.as_ref() != Some(&rows) {
        cx.sum.finding("result-mismatch", id, "harness RFC 4180 oracle does not round-trip".into(), json!({"rows": rows}));
    }
    cx.log.log(id, json!({"family": "rfc", "rows": rows, "file": f}));
    cx.emit(format!("KRfcRead {} {} {}", id + 1, coq_str(&f), coq_opt(&back, |v| coq_rows(v))));
}

// ------------------------------------------------------------------------------------------------
// family 8: standard-library behaviour the model transcribes (char::is_whitespace, Debug of str / i64)

fn run_std(cx: &mut Ctx) {
    use vibesql_types::SqlValue;
    let base = 8_000_000u64;
    if cx.wanted(base) {
        let pts: Vec<String> = (0u32..0x110000).filter_map(char::from_u32).filter(|c| c.is_whitespace()).map(|c| (c as u32).to_string()).collect();
        cx.emit(format!("KWs {} [{}]", base, pts.join("; ")));
        cx.sum.evaluations += 1;
    }
    // every ASCII character alone, then the rest of the model's debug_domain in chunks
    let mut texts: Vec<String> = (0u32..128).map(|c| char::from_u32(c).unwrap().to_string()).collect();
    let dom: Vec<char> = (128u32..0x110000).filter_map(char::from_u32).filter(|c| debug_domain(*c)).collect();
    for ch in dom.chunks(96) {
        texts.push(ch.iter().collect());
    }
    texts.push("a\"b\\c\'d\n\r\t\u{0}\u{1b}\u{7f} é".into());
    let mut i = 0u64;
    for t in &texts {
        i += 1;
        let id = base + i * 10;
        if !cx.wanted(id) {
            continue;
        }
        let obs = format!("{:?}", SqlValue::Varchar(t.clone()));
        cx.sum.evaluations += 1;
        cx.emit(format!("KFmt {} (CText {}) {}", id, coq_str(t), coq_str(&obs)));
        if parse_debug_cell(&obs) != Cell::Text(t.clone()) {
            cx.sum.finding("result-mismatch", id, "harness cannot read back a Debug-formatted cell".into(), json!({"text": t, "debug": obs}));
        }
    }
    for (k, v) in [0i64, 1, -1, 9, 10, -10, 1234567890, i64::MAX, i64::MIN, i64::MIN + 1].iter().enumerate() {
        let id = base + 900_000 + k as u64 * 10;
        if cx.wanted(id) {
            cx.emit(format!("KFmt {} (CInt ({})) {}", id, v, coq_str(&format!("{:?}", SqlValue::Integer(*v)))));
        }
    }
    for (k, (c, v)) in [("CNull", SqlValue::Null), ("(CBool true)", SqlValue::Boolean(true)), ("(CBool false)", SqlValue::Boolean(false))].iter().enumerate() {
        let id = base + 950_000 + k as u64 * 10;
        if cx.wanted(id) {
            cx.emit(format!("KFmt {} {} {}", id, c, coq_str(&format!("{:?}", v))));
        }
    }
    cx.sum.count_n("std/debug-format-cases", texts.len() as u64 + 13);
}

// ------------------------------------------------------------------------------------------------

fn main() {
    let args = parse_args();
    quiet_panics();
    let dir = args.out.join("tmp");
    std::fs::create_dir_all(&dir).expect("harness: tmp dir");
    let thorough = args.thorough;
    let seed = args.seed;
    let log = CaseLog::new(&args);
    let mut cx = Ctx { args, sum: Summary::default(), log, cases: Vec::new(), dir: dir.clone() };
    cx.sum.nontrivial_rule = "import cases that generated at least one statement; export/writer cases with at least one row; \\copy lines that parse as a copy command".into();
    let scale = if thorough { 6 } else { 1 };
    let counts: [(u64, u64); 6] = [(1, 1200 * scale), (2, 1000 * scale), (3, 400 * scale), (4, 500 * scale), (5, 400 * scale), (6, 300 * scale)];
    for (fam, n) in counts {
        for i in 0..n {
            let id = fam * 1_000_000 + i * 10;
            if !cx.wanted(id) {
                continue;
            }
            let mut r = Rng::new(seed, &format!("c31/{}/{}", fam, i));
            match fam {
                1 => {
                    let c = gen_csv_case(&mut r);
                    run_csv_import(&mut cx, id, &c);
                }
                2 => {
                    let c = gen_json_case(&mut r);
                    run_json_import(&mut cx, id, &c);
                }
                3 => run_export(&mut cx, id, &mut r),
                4 => run_writer(&mut cx, id, &mut r),
                5 => run_parse(&mut cx, id, &mut r),
                _ => run_rfc(&mut cx, id, &mut r),
            }
        }
    }
    run_std(&mut cx);
    // shards
    let nshards = if cx.cases.len() < 64 { 1 } else { 16 };
    let mut buckets: Vec<Vec<&String>> = vec![Vec::new(); nshards];
    for (i, c) in cx.cases.iter().enumerate() {
        buckets[i % nshards].push(c);
    }
    for (k, b) in buckets.iter().enumerate() {
        let mut t = String::new();
        t.push_str("From Coq Require Import String List ZArith.\nFrom VibeSQL Require Import Codec.Csv Codec.CsvSpec Run.C31Run.\nImport ListNotations.\nOpen Scope Z_scope.\n");
        // several small Evals per shard: no case list is stored in a .vo, small terms elaborate fastest
        for chunk in b.chunks(40) {
            t.push_str("Eval vm_compute in (c31_mismatches [\n");
            let v: Vec<String> = chunk.iter().map(|c| format!("  {}", c)).collect();
            t.push_str(&v.join(";\n"));
            t.push_str("\n]).\n");
        }
        write_shard(&cx.args, k, &t);
    }
    cx.sum.notes.push("\\copy is unreachable in script/stdin mode (ScriptExecutor sends every line to the SQL parser): the harness drives MetaCommand::parse + SqlExecutor::handle_copy, the two calls the REPL makes".into());
    cx.sum.write(&cx.args);
    let _ = std::fs::remove_dir_all(&dir);
}
