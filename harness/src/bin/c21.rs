//! C21 correspondence + property oracle: SqlValue Eq / PartialOrd / Ord / Hash.
use serde_json::json;
use std::cmp::Ordering;
use std::hash::Hash;
use vh::out::*;
use vh::rng::Rng;
use vh::val::*;
use vibesql_types::SqlValue;

fn ord_code(o: Ordering) -> i64 {
    match o {
        Ordering::Less => 1,
        Ordering::Equal => 2,
        Ordering::Greater => 3,
    }
}

fn hash_bytes(v: &SqlValue) -> Vec<u8> {
    let mut h = RecHasher::default();
    v.hash(&mut h);
    h.0
}

fn is_interval_tie(a: &SqlValue, b: &SqlValue) -> bool {
    if let (SqlValue::Interval(x), SqlValue::Interval(y)) = (a, b) {
        let (tx, ty) = (interval_triple(x), interval_triple(y));
        let lin = |t: (i64, i64, i64)| (t.0 as i128 * 30 + t.1 as i128) * 86_400_000_000 + t.2 as i128;
        lin(tx) == lin(ty) && tx != ty
    } else {
        false
    }
}

fn main() {
    let args = parse_args();
    quiet_panics();
    let mut sum = Summary::default();
    sum.nontrivial_rule = "a case is an ordered pair (a,b) of SqlValues with its observed (==, partial_cmp, cmp), or a value with its recorded hash bytes; distinct = distinct printed (a,b); non-trivial = the two values have the same variant or one is NULL/NaN/zero (pairs of unrelated variants only exercise the type-tag branch and are not counted)".into();
    let mut log = CaseLog::new(&args);
    let nshards = if args.thorough { 64 } else { 16 };
    let per = if args.thorough { 160 } else { 110 };
    let mut base: u64 = 0;
    for k in 0..nshards {
        let vals: Vec<SqlValue> = if k == 0 {
            boundary_values()
        } else {
            let mut r = Rng::new(args.seed, &format!("c21/{}", k));
            // half of each random shard concentrates on one variant family so same-type pairs dominate
            let fam = r.below(6);
            (0..per)
                .map(|i| {
                    if i % 2 == 0 {
                        match fam {
                            0 => SqlValue::Double(f64::from_bits(random_f64_bits(&mut r))),
                            1 => SqlValue::Float(f32::from_bits(random_f32_bits(&mut r))),
                            2 => SqlValue::Interval(random_interval(&mut r)),
                            3 => SqlValue::Varchar(random_string(&mut r)),
                            4 => SqlValue::Numeric(f64::from_bits(random_f64_bits(&mut r))),
                            _ => SqlValue::Integer(random_i64(&mut r)),
                        }
                    } else {
                        random_value(&mut r)
                    }
                })
                .collect()
        };
        let n = vals.len() as u64;
        let hashes: Vec<Vec<u8>> = vals.iter().map(hash_bytes).collect();
        let mut rows = Vec::with_capacity(vals.len());
        for (i, a) in vals.iter().enumerate() {
            let mut row = Vec::with_capacity(vals.len());
            for (j, b) in vals.iter().enumerate() {
                let id = base + i as u64 * n + j as u64;
                if let Some(only) = &args.only {
                    if !only.contains(&id) {
                        row.push(-1);
                        continue;
                    }
                }
                let e = a == b;
                let pc = a.partial_cmp(b);
                let c = a.cmp(b);
                let code = (if e { 100 } else { 0 }) + 10 * pc.map(ord_code).unwrap_or(0) + ord_code(c);
                row.push(code);
                sum.evaluations += 1;
                let same_variant = std::mem::discriminant(a) == std::mem::discriminant(b);
                if same_variant || a.is_null() || b.is_null() {
                    sum.nontrivial(&format!("{}|{}", coq_value(a), coq_value(b)));
                }
                sum.count(if same_variant { "pairs_same_variant" } else { "pairs_cross_variant" });
                if e {
                    sum.count("pairs_equal");
                }
                let case = || json!({"a": format!("{:?}", a), "b": format!("{:?}", b), "coq_a": coq_value(a), "coq_b": coq_value(b)});
                // ---- the property's own oracle, on the implementation's answers ----
                let e2 = b == a;
                let c2 = b.cmp(a);
                if e != e2 {
                    sum.finding("eq-not-symmetric", id, format!("a==b is {} but b==a is {}", e, e2), case());
                }
                if c != c2.reverse() {
                    sum.finding("cmp-not-antisymmetric", id, format!("cmp(a,b)={:?} cmp(b,a)={:?}", c, c2), case());
                }
                if (c == Ordering::Equal) != e {
                    let class = if is_interval_tie(a, b) { "interval-linear-tie" } else { "cmp-eq-disagree" };
                    sum.finding(class, id, format!("cmp(a,b)={:?} but a==b is {}", c, e), case());
                }
                if e && hashes[i] != hashes[j] {
                    let class = "eq-hash-disagree";
                    sum.finding(class, id, format!("a==b but hash bytes differ: {:?} vs {:?}", hashes[i], hashes[j]), case());
                }
                if let Some(p) = pc {
                    if p != c {
                        sum.finding("partial-cmp-vs-cmp", id, format!("partial_cmp={:?} cmp={:?}", p, c), case());
                    }
                }
                if i == j && !e {
                    sum.finding("eq-not-reflexive", id, "a != a".into(), case());
                }
                if i < 3 && j < 3 && k < 2 {
                    log.log(id, case());
                }
            }
            rows.push(row);
        }
        // transitivity (oracle on the implementation): sort by cmp, then every i<j must not be Greater;
        // and eq-transitivity on sampled triples
        if args.only.is_none() {
            let mut idx: Vec<usize> = (0..vals.len()).collect();
            let sorted_ok = std::panic::catch_unwind(std::panic::AssertUnwindSafe(|| idx.sort_by(|&x, &y| vals[x].cmp(&vals[y]))));
            if sorted_ok.is_err() {
                sum.finding("sort-panics", base, "sort_by(cmp) panicked: comparator is not a total order".into(), json!({"shard": k}));
            } else {
                'outer: for x in 0..idx.len() {
                    for y in x + 1..idx.len() {
                        if vals[idx[x]].cmp(&vals[idx[y]]) == Ordering::Greater {
                            sum.finding("cmp-not-transitive", base + (idx[x] as u64) * n + idx[y] as u64,
                                format!("after sorting by cmp, element {} > later element {}", x, y),
                                json!({"a": format!("{:?}", vals[idx[x]]), "b": format!("{:?}", vals[idx[y]])}));
                            break 'outer;
                        }
                    }
                }
            }
            let mut r = Rng::new(args.seed, &format!("c21/triples/{}", k));
            for _ in 0..20000 {
                let (a, b, c) = (r.pick(&vals), r.pick(&vals), r.pick(&vals));
                sum.evaluations += 1;
                if a == b && b == c && a != c {
                    sum.finding("eq-not-transitive", base, "a==b, b==c, a!=c".into(), json!({"a": format!("{:?}", a), "b": format!("{:?}", b), "c": format!("{:?}", c)}));
                }
                if a.cmp(b) != Ordering::Greater && b.cmp(c) != Ordering::Greater && a.cmp(c) == Ordering::Greater {
                    sum.finding("cmp-not-transitive", base, "a<=b, b<=c, a>c".into(), json!({"a": format!("{:?}", a), "b": format!("{:?}", b), "c": format!("{:?}", c)}));
                }
            }
        }
        if k == 0 {
            sum.sample(json!({"a": format!("{:?}", vals[1]), "b": format!("{:?}", vals[5]), "eq": vals[1] == vals[5], "cmp": format!("{:?}", vals[1].cmp(&vals[5])), "hash_a": hashes[1]}));
        } else if k < 4 {
            sum.sample(json!({"a": format!("{:?}", vals[0]), "b": format!("{:?}", vals[2]), "eq": vals[0] == vals[2], "partial_cmp": format!("{:?}", vals[0].partial_cmp(&vals[2])), "cmp": format!("{:?}", vals[0].cmp(&vals[2])), "hash_a": hashes[0]}));
        }
        // ---- Coq shard ----
        if args.only.is_none() {
            let mut s = String::new();
            s.push_str("From Coq Require Import List ZArith.\nImport ListNotations.\nOpen Scope Z_scope.\nFrom VibeSQL Require Import Value.SqlValue Run.C21Run.\n");
            s.push_str("Definition vals : list sqlvalue := [\n");
            s.push_str(&vals.iter().map(coq_value).collect::<Vec<_>>().join(";\n"));
            s.push_str("].\nDefinition hashes : list (list Z) := [\n");
            s.push_str(&hashes.iter().map(|h| bytes_lit(h)).collect::<Vec<_>>().join(";\n"));
            s.push_str("].\nDefinition obs : list (list Z) := [\n");
            s.push_str(&rows.iter().map(|r| format!("[{}]", r.iter().map(|c| c.to_string()).collect::<Vec<_>>().join(";"))).collect::<Vec<_>>().join(";\n"));
            s.push_str(&format!("].\nEval vm_compute in (c21_mismatches {} vals hashes obs).\n", base));
            write_shard(&args, k, &s);
            sum.model_cases += n * n + n;
        }
        sum.evaluations += n; // hashes
        base += n * n + 2 * n + 1;
    }
    sum.write(&args);
}
