//! C15 -- index structures always mirror table contents (see ../c10_c15.rs).
#[path = "../c10_c15.rs"]
mod c10_c15;
fn main() {
    c10_c15::run(c10_c15::Prop::C15);
}
