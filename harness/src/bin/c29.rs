//! C29 correspondence + property oracle: PasswordStore (vibesql-server/src/auth/password.rs).
//!
//! The real file is compiled into this binary.  A *scenario* is one store: `PasswordStore::new()` or
//! `load_from_file(<generated file>)`, followed by `add_user` / `add_user_hashed` calls, followed by
//! `get_password` / `verify_cleartext` / `verify_md5` queries.  For every scenario the binary writes
//!   * the observations as a Coq term evaluated against the model (`c29_scenario`, Run/C29Run.v);
//!   * the property's own oracle on the implementation: the generator knows what every user's secret
//!     was created from (`Truth`), so acceptance must be `p == p0` (cleartext, Argon2 secrets) resp.
//!     `resp == "md5" + hex(md5(hex(md5(pw+user))+salt))` computed here with the md-5 crate ({MD5} secrets),
//!     and `false` for everybody else.
//! The Argon2 answers the model needs are obtained by calling the argon2 crate directly.
#[path = "/repo/crates/vibesql-server/src/auth/password.rs"]
#[allow(dead_code)]
mod password;

use argon2::{
    password_hash::{PasswordHash, PasswordHasher, PasswordVerifier, SaltString},
    Algorithm, Argon2, Params, Version,
};
use md5::{Digest, Md5};
use password::PasswordStore;
use serde_json::{json, Value};
use std::collections::{BTreeMap, HashMap};
use std::sync::atomic::{AtomicUsize, Ordering};
use std::sync::Mutex;
use vh::out::*;
use vh::rng::Rng;

// ------------------------------------------------------------------------------------------------
// printing
// ------------------------------------------------------------------------------------------------
fn cs(s: &str) -> String {
    let mut o = String::with_capacity(s.len() * 4 + 2);
    o.push('[');
    let mut first = true;
    for c in s.chars() {
        if !first {
            o.push(';');
        }
        first = false;
        // code points below 256 are named constants of Run/C29Run.v (c0..c255): identifiers elaborate
        // several times faster than number notations
        if (c as u32) < 256 {
            o.push('c');
        }
        o.push_str(&(c as u32).to_string());
    }
    o.push(']');
    o
}
fn cbytes(b: &[u8]) -> String {
    format!("[{}]", b.iter().map(|x| format!("c{}", x)).collect::<Vec<_>>().join(";"))
}
fn cbool(b: bool) -> &'static str {
    if b {
        "true"
    } else {
        "false"
    }
}
/// per-shard pool of string constants: every distinct string of 3+ characters is defined once
#[derive(Default)]
struct Pool {
    map: HashMap<String, usize>,
    defs: Vec<String>,
}
impl Pool {
    fn s(&mut self, s: &str) -> String {
        if s.chars().count() < 3 {
            return cs(s);
        }
        if let Some(i) = self.map.get(s) {
            return format!("p{}", i);
        }
        let i = self.map.len();
        self.map.insert(s.to_string(), i);
        self.defs.push(format!("Definition p{} : str := {}.\n", i, cs(s)));
        format!("p{}", i)
    }
    fn parts(&mut self, parts: &[String]) -> String {
        let ps: Vec<String> = parts.iter().filter(|p| !p.is_empty()).map(|p| self.s(p)).collect();
        match ps.len() {
            0 => "[]".into(),
            1 => ps[0].clone(),
            _ => format!("({})", ps.join(" ++ ")),
        }
    }
    fn opt(&mut self, s: &Option<String>) -> String {
        match s {
            Some(x) => format!("(Some {})", self.s(x)),
            None => "None".into(),
        }
    }
    fn bytes(&mut self, b: &[u8]) -> String {
        let key = format!("\u{1}bytes:{}", hex(b));
        if let Some(i) = self.map.get(&key) {
            return format!("p{}", i);
        }
        let i = self.map.len();
        self.map.insert(key, i);
        self.defs.push(format!("Definition p{} : list Z := {}.\n", i, cbytes(b)));
        format!("p{}", i)
    }
}

// ------------------------------------------------------------------------------------------------
// independent reference computations (md-5 crate / argon2 crate used directly)
// ------------------------------------------------------------------------------------------------
fn hex(b: &[u8]) -> String {
    b.iter().map(|x| format!("{:02x}", x)).collect()
}
fn md5_raw(parts: &[&[u8]]) -> Vec<u8> {
    let mut h = Md5::new();
    for p in parts {
        h.update(p);
    }
    h.finalize().to_vec()
}
/// the 32 hex digits PostgreSQL clients send after "md5"
fn pg_digest(pw: &str, user: &str, salt: &[u8; 4]) -> String {
    let inner = hex(&md5_raw(&[pw.as_bytes(), user.as_bytes()]));
    hex(&md5_raw(&[inner.as_bytes(), salt]))
}
fn lowcost_hash(r: &mut Rng, pw: &str) -> String {
    let alg = match r.below(6) {
        0 => Algorithm::Argon2i,
        1 => Algorithm::Argon2d,
        _ => Algorithm::Argon2id,
    };
    let ver = if r.chance(1, 5) { Version::V0x10 } else { Version::V0x13 };
    let (m, t) = *r.pick(&[(8u32, 1u32), (8, 2), (16, 1), (32, 1)]);
    let a = Argon2::new(alg, ver, Params::new(m, t, 1, None).unwrap());
    let n = 8 + r.below(9) as usize;
    let sb: Vec<u8> = (0..n).map(|_| r.below(256) as u8).collect();
    let salt = SaltString::encode_b64(&sb).unwrap();
    a.hash_password(pw.as_bytes(), &salt).unwrap().to_string()
}
fn is_default_cost(stored: &str) -> bool {
    stored.contains("m=19456")
}

// ------------------------------------------------------------------------------------------------
// scenario description
// ------------------------------------------------------------------------------------------------
#[derive(Clone, Debug, PartialEq)]
enum Truth {
    /// Argon2 secret made from exactly this password (by the code under test or by the generator)
    Password(String),
    /// stored as "{MD5}" + pw
    Md5(String),
    /// anything else: nobody may be accepted
    Junk,
}

#[derive(Clone)]
enum Op {
    AddUser(String, String),
    AddHashed(String, String, Truth),
}

#[derive(Clone)]
struct FileSpec {
    content: String,
    /// Some(..) when the generator knows what the file means: Ok(entries in order) or Err
    intent: Option<Result<Vec<(String, Truth, String)>, String>>,
    label: &'static str,
}

#[derive(Clone)]
struct Scenario {
    k: usize,
    file: Option<FileSpec>,
    ops: Vec<Op>,
    heavy: bool,
}

const USERS: &[&str] = &[
    "postgres", "alice", "bob", "carol", "Alice", "admin", "u", "user with space", "a#b", "md5", "{MD5}", "$argon2",
    "Ünï©ode", "名前", "пользователь", "x\u{301}", "🙂",
];
const API_ONLY_USERS: &[&str] = &["", " padded ", "a:b", "#hash", "tab\tname", "new\nline", "nul\0"];
const PASSWORDS: &[&str] = &[
    "secret", "secret123", "", "pass word", "päss", "密码", "a:b:c", "#notcomment", "md5abc", "x", "P@ss:w0rd#1",
    "0123456789abcdef0123456789abcdef", "md50123456789abcdef0123456789abcdef", "pw\u{301}", "🙂🙂", "in\tner",
    "postgres", "alice", "'; DROP TABLE users; --", "ｆｕｌｌ",
];
const API_ONLY_PASSWORDS: &[&str] = &[" leading", "trailing ", "\ttab", "line\nbreak", "nul\0byte", "\u{a0}nbsp", "\u{3000}"];
const HASHLIKE_PASSWORDS: &[&str] = &["$argon2id$v=19$fake", "$argon2", "{MD5}inner", "{MD5}", "$argon2id$v=19$m=8,t=1,p=1$c2FsdHNhbHQ"];
const WS: &[&str] = &[" ", "  ", "\t", " \t ", "\u{a0}", "\u{3000}", "\u{2003}", "\u{b}", "\u{c}", "\u{85}", "\u{2028}", "\u{1680} ", "\r"];

fn pick_s(r: &mut Rng, xs: &[&str]) -> String {
    r.pick(xs).to_string()
}
fn long_string(r: &mut Rng) -> String {
    let n = 60 + r.below(260) as usize;
    (0..n).map(|_| *r.pick(&['a', 'b', 'Z', '0', '9', '_', 'é', '-'])).collect()
}
fn gen_user(r: &mut Rng, api: bool) -> String {
    match r.below(12) {
        0 if api => pick_s(r, API_ONLY_USERS),
        1 => long_string(r),
        2 => format!("user{}", r.below(50)),
        _ => pick_s(r, USERS),
    }
}
fn gen_password(r: &mut Rng, api: bool) -> String {
    match r.below(14) {
        0 if api => pick_s(r, API_ONLY_PASSWORDS),
        1 if api => pick_s(r, HASHLIKE_PASSWORDS),
        2 => long_string(r),
        3 => format!("pw{}", r.below(1000)),
        _ => pick_s(r, PASSWORDS),
    }
}
fn pad(r: &mut Rng) -> String {
    match r.below(5) {
        0 | 1 => String::new(),
        2 => pick_s(r, WS),
        3 => format!("{}{}", r.pick(WS), r.pick(WS)),
        _ => " ".into(),
    }
}

/// a stored string that is not a usable secret
fn gen_junk(r: &mut Rng) -> String {
    match r.below(14) {
        0 => "plaintext".into(),
        1 => String::new(),
        2 => "$argon2".into(),
        3 => "$argon2id$garbage".into(),
        4 => "$argon2id$v=19$m=8,t=1,p=1$c2FsdHNhbHQ".into(),
        5 => {
            // a valid hash with one character of the hash output changed
            let pw = gen_password(r, true);
            let h = lowcost_hash(r, &pw);
            let i = h.rfind('$').unwrap() + 1 + r.below(8) as usize;
            let mut cs: Vec<char> = h.chars().collect();
            cs[i] = if cs[i] == 'A' { 'B' } else { 'A' };
            cs.into_iter().collect()
        }
        6 => {
            let pw = gen_password(r, true);
            format!(" {}", lowcost_hash(r, &pw))
        }
        7 => "{MD5".into(),
        8 => format!("{{md5}}{}", gen_password(r, true)),
        9 => format!(" {{MD5}}{}", gen_password(r, true)),
        10 => {
            let pw = gen_password(r, true);
            lowcost_hash(r, &pw).replacen("$argon2", "$ARGON2", 1)
        }
        11 => "md5bb41a296aab6baccb36ff243a562abff".into(),
        12 => "$argon2id$v=19$m=8,t=1,p=1$$".into(),
        _ => gen_password(r, true),
    }
}

fn gen_api_scenario(k: usize, r: &mut Rng, heavy: bool) -> Scenario {
    let nusers = 2 + r.below(4) as usize;
    let mut names: Vec<String> = Vec::new();
    while names.len() < nusers {
        let u = gen_user(r, true);
        if !names.contains(&u) {
            names.push(u);
        }
    }
    let nops = nusers + r.below(4) as usize;
    let mut ops = Vec::new();
    let mut heavy_left = if heavy { 1 } else { 0 };
    for i in 0..nops {
        let u = if i < nusers { names[i].clone() } else { r.pick(&names).clone() };
        let pw = gen_password(r, true);
        let op = match r.below(10) {
            0 | 1 | 2 | 3 => {
                if heavy_left > 0 {
                    heavy_left -= 1;
                    Op::AddUser(u, pw)
                } else {
                    let h = lowcost_hash(r, &pw);
                    Op::AddHashed(u, h, Truth::Password(pw))
                }
            }
            4 | 5 | 6 | 7 => Op::AddHashed(u, format!("{{MD5}}{}", pw), Truth::Md5(pw)),
            _ => {
                let j = gen_junk(r);
                // gen_junk's last arm may return anything from the pools: classify by the documented format
                let t = if let Some(p) = j.strip_prefix("{MD5}") { Truth::Md5(p.to_string()) } else { Truth::Junk };
                Op::AddHashed(u, j, t)
            }
        };
        ops.push(op);
    }
    if heavy && heavy_left > 0 {
        let u = names[0].clone();
        ops.push(Op::AddUser(u, gen_password(r, true)));
    }
    Scenario { k, file: None, ops, heavy }
}

fn clean_for_file(s: &str) -> bool {
    !s.contains('\n') && s.trim() == s
}
fn gen_file_user(r: &mut Rng) -> String {
    loop {
        let u = gen_user(r, false);
        if !u.is_empty() && clean_for_file(&u) && !u.contains(':') && !u.starts_with('#') {
            return u;
        }
    }
}
fn gen_file_password(r: &mut Rng) -> String {
    loop {
        let p = gen_password(r, false);
        if clean_for_file(&p) && !p.starts_with("$argon2") && !p.starts_with("{MD5}") {
            return p;
        }
    }
}

/// a structured, mostly valid password file; `bad` injects one malformed line
fn gen_structured_file(r: &mut Rng, heavy: bool, bad: bool) -> FileSpec {
    let nlines = 3 + r.below(8) as usize;
    let mut content = String::new();
    let mut entries: Vec<(String, Truth, String)> = Vec::new();
    let mut heavy_left = if heavy { 1 } else { 0 };
    let bad_at = if bad { Some(r.below(nlines as u64) as usize) } else { None };
    let mut err: Option<String> = None;
    let crlf = r.chance(1, 4);
    let mut names: Vec<String> = Vec::new();
    for i in 0..nlines {
        let line: String;
        if Some(i) == bad_at {
            line = match r.below(6) {
                0 => "invalid_line_without_colon".into(),
                1 => format!("{}:{}", pad(r), gen_file_password(r)),       // empty user name
                2 => ":".into(),
                3 => format!(" {} ", gen_file_user(r)),                      // user without password
                4 => format!("{}:pw", pick_s(r, WS)),                        // whitespace-only user
                _ => "$argon2id$nocolon".into(),
            };
            if err.is_none() {
                err = Some(format!("line {}", i + 1));
            }
        } else {
            match r.below(12) {
                0 => line = format!("{}# comment {}: x", pad(r), i),
                1 => line = pad(r),
                2 => line = format!("#{}:{}", gen_file_user(r), gen_file_password(r)), // commented-out entry
                _ => {
                    let u = if !names.is_empty() && r.chance(1, 5) { r.pick(&names).clone() } else { gen_file_user(r) };
                    names.push(u.clone());
                    let pw = gen_file_password(r);
                    let (v, t) = match r.below(10) {
                        0 | 1 | 2 | 3 => (format!("{{MD5}}{}", pw), Truth::Md5(pw.clone())),
                        4 | 5 | 6 => {
                            if heavy_left > 0 {
                                heavy_left -= 1;
                                (pw.clone(), Truth::Password(pw.clone()))
                            } else {
                                (lowcost_hash(r, &pw), Truth::Password(pw.clone()))
                            }
                        }
                        7 => (lowcost_hash(r, &pw), Truth::Password(pw.clone())),
                        8 if !pw.is_empty() => {
                            // "{MD5}" followed by padding: the padding belongs to the password
                            let inner = format!("{}{}", pick_s(r, &[" ", "  ", "\t"]), pw);
                            (format!("{{MD5}}{}", inner), Truth::Md5(inner))
                        }
                        _ => {
                            let j = pick_s(r, &["$argon2", "$argon2id$garbage", "$argon2id$v=19$m=8,t=1,p=1$c2FsdHNhbHQ", "$argon2id$v=19$m=8,t=1,p=1$$"]);
                            (j, Truth::Junk)
                        }
                    };
                    let (p1, p2, p3, p4) = (pad(r), pad(r), pad(r), pad(r));
                    line = format!("{}{}{}:{}{}{}", p1, u, p2, p3, v, p4);
                    if err.is_none() {
                        entries.push((u, t, v));
                    }
                }
            }
        }
        // the padding pools contain '\r' but never '\n'
        content.push_str(&line);
        let last = i + 1 == nlines;
        if !(last && r.chance(1, 3)) {
            content.push_str(if crlf { "\r\n" } else { "\n" });
        } else if r.chance(1, 3) {
            content.push('\r');
        }
    }
    let intent = match err {
        Some(e) => Err(e),
        None => Ok(entries),
    };
    FileSpec { content, intent: Some(intent), label: if bad { "structured-bad" } else { "structured" } }
}

/// character soup over the alphabet the parser cares about; no intended meaning (model vs impl only)
fn gen_soup_file(r: &mut Rng) -> FileSpec {
    let n = r.below(60) as usize;
    let alphabet: &[&str] = &[
        "a", "b", ":", ":", "#", " ", " ", "\n", "\n", "\r", "\r\n", "\t", "{MD5}", "{MD5}", "{MD5", "$argon2", "$argon2x", "é", "\u{a0}", "\u{2028}",
        "\u{85}", "md5", "\u{b}",
    ];
    let mut s = String::new();
    // every line that reaches the cleartext branch costs a default-cost Argon2 hash: make values mostly
    // {MD5}/$argon2-prefixed by inserting a prefix right after most colons
    for _ in 0..n {
        let t = *r.pick(alphabet);
        s.push_str(t);
        if t == ":" && r.chance(11, 12) {
            s.push_str(if r.chance(1, 2) { "{MD5}" } else { "$argon2" });
        }
    }
    FileSpec { content: s, intent: None, label: "soup" }
}

fn gen_fixed_files() -> Vec<FileSpec> {
    let mk = |c: &str, intent: Option<Result<Vec<(String, Truth, String)>, String>>| FileSpec { content: c.to_string(), intent, label: "fixed" };
    let md5e = |u: &str, pw: &str| (u.to_string(), Truth::Md5(pw.to_string()), format!("{{MD5}}{}", pw));
    vec![
        mk("", Some(Ok(vec![]))),
        mk("\n\n\n", Some(Ok(vec![]))),
        mk("# only a comment", Some(Ok(vec![]))),
        mk("postgres:{MD5}secret\n", Some(Ok(vec![md5e("postgres", "secret")]))),
        mk("postgres:{MD5}secret", Some(Ok(vec![md5e("postgres", "secret")]))),
        mk("postgres:{MD5}secret\r\n", Some(Ok(vec![md5e("postgres", "secret")]))),
        mk("postgres:{MD5}secret\r", Some(Ok(vec![md5e("postgres", "secret")]))),
        mk("  postgres  :  {MD5}secret  \n", Some(Ok(vec![md5e("postgres", "secret")]))),
        mk("postgres:{MD5}a:b:c\n", Some(Ok(vec![md5e("postgres", "a:b:c")]))),
        mk("postgres:{MD5}\n", Some(Ok(vec![md5e("postgres", "")]))),
        mk("postgres:{MD5}one\npostgres:{MD5}two\n", Some(Ok(vec![md5e("postgres", "one"), md5e("postgres", "two")]))),
        mk("#postgres:{MD5}secret\n", Some(Ok(vec![]))),
        mk("   #postgres:{MD5}secret\n", Some(Ok(vec![]))),
        mk("a#b:{MD5}x # not a comment\n", Some(Ok(vec![md5e("a#b", "x # not a comment")]))),
        mk("invalid_line_without_colon\n", Some(Err("line 1".into()))),
        mk("a:{MD5}x\n:pw\n", Some(Err("line 2".into()))),
        mk("a:{MD5}x\n  :pw\nb:{MD5}y\n", Some(Err("line 2".into()))),
        mk("a:{MD5}x\u{2028}b:{MD5}y\n", Some(Ok(vec![md5e("a", "x\u{2028}b:{MD5}y")]))),
        mk("a:{MD5}x\u{b}\n\u{c}b\u{85}:\u{a0}{MD5}y\u{3000}\n", Some(Ok(vec![md5e("a", "x"), md5e("b", "y")]))),
        mk("\u{feff}a:{MD5}x\n", Some(Ok(vec![md5e("\u{feff}a", "x")]))), // a BOM is not whitespace: part of the name
    ]
}

// ------------------------------------------------------------------------------------------------
// execution
// ------------------------------------------------------------------------------------------------
struct Query {
    kind: &'static str, // "get" | "clear" | "md5"
    user: String,
    arg: String,       // password / response
    parts: Vec<String>, // the same, as the pieces it was built from (printed as p1 ++ p2 ++ ..)
    salt: [u8; 4],
    obs_bool: bool,
    obs_get: Option<String>,
    expected: Option<bool>,
    note: &'static str,
    truth: Option<Truth>,
}

struct ScResult {
    k: usize,
    label: String,
    file: Option<FileSpec>,
    load_ok: bool,
    salts_tab: Vec<(usize, String)>,
    ops_raw: Vec<(bool, String, String, String)>, // (is add_user, user, password | stored, resulting hash)
    ops_desc: Vec<String>,
    dump: Option<Vec<(String, String)>>,
    pt: Vec<(String, bool)>,
    vt: Vec<(String, Vec<(String, bool)>)>,
    queries: Vec<Query>,
    local_findings: Vec<(String, Option<usize>, String)>, // (class, query index, what)
    truths: BTreeMap<String, Truth>,
    heavy_ops: u64,
}

/// parse the derived Debug output `PasswordStore { passwords: {"k": "v", ...} }`
fn parse_debug_map(s: &str) -> Option<Vec<(String, String)>> {
    let start = s.find("passwords: {")? + "passwords: {".len();
    let cs: Vec<char> = s[start..].chars().collect();
    let mut i = 0usize;
    let mut out = Vec::new();
    fn parse_str(cs: &[char], i: &mut usize) -> Option<String> {
        if *cs.get(*i)? != '"' {
            return None;
        }
        *i += 1;
        let mut o = String::new();
        loop {
            let c = *cs.get(*i)?;
            *i += 1;
            match c {
                '"' => return Some(o),
                '\\' => {
                    let e = *cs.get(*i)?;
                    *i += 1;
                    match e {
                        'n' => o.push('\n'),
                        'r' => o.push('\r'),
                        't' => o.push('\t'),
                        '0' => o.push('\0'),
                        '\\' => o.push('\\'),
                        '"' => o.push('"'),
                        '\'' => o.push('\''),
                        'u' => {
                            if *cs.get(*i)? != '{' {
                                return None;
                            }
                            *i += 1;
                            let mut v = 0u32;
                            loop {
                                let h = *cs.get(*i)?;
                                *i += 1;
                                if h == '}' {
                                    break;
                                }
                                v = v.checked_mul(16)? + h.to_digit(16)?;
                            }
                            o.push(char::from_u32(v)?);
                        }
                        _ => return None,
                    }
                }
                c => o.push(c),
            }
        }
    }
    loop {
        match cs.get(i)? {
            '}' => return Some(out),
            ',' | ' ' => {
                i += 1;
            }
            '"' => {
                let k = parse_str(&cs, &mut i)?;
                if *cs.get(i)? != ':' || *cs.get(i + 1)? != ' ' {
                    return None;
                }
                i += 2;
                let v = parse_str(&cs, &mut i)?;
                out.push((k, v));
            }
            _ => return None,
        }
    }
}

struct ArgonOracle {
    parse: HashMap<String, bool>,
    verify: HashMap<(String, String), bool>,
}
impl ArgonOracle {
    /// direct calls into the password-hash / argon2 crates (NOT through PasswordStore)
    fn ask(&mut self, stored: &str, pw: &str) {
        let ok = *self.parse.entry(stored.to_string()).or_insert_with(|| PasswordHash::new(stored).is_ok());
        if ok {
            let key = (stored.to_string(), pw.to_string());
            if !self.verify.contains_key(&key) {
                let parsed = PasswordHash::new(stored).unwrap();
                let v = Argon2::default().verify_password(pw.as_bytes(), &parsed).is_ok();
                self.verify.insert(key, v);
            }
        }
    }
}

fn run_scenario(sc: &Scenario, seed: u64, thorough: bool, tmpdir: &std::path::Path) -> ScResult {
    let mut r = Rng::new(seed, &format!("c29/run/{}", sc.k));
    let mut res = ScResult {
        k: sc.k,
        label: sc.file.as_ref().map(|f| f.label).unwrap_or("api").to_string(),
        file: sc.file.clone(),
        load_ok: true,
        salts_tab: vec![],
        ops_raw: vec![],
        ops_desc: vec![],
        dump: None,
        pt: vec![],
        vt: vec![],
        queries: vec![],
        local_findings: vec![],
        truths: BTreeMap::new(),
        heavy_ops: 0,
    };
    let mut truths: BTreeMap<String, Truth> = BTreeMap::new();
    let mut truth_known = true;
    // ---- origin ----
    let mut store = match &sc.file {
        None => PasswordStore::new(),
        Some(f) => {
            let path = tmpdir.join(format!("c29_pw_{}.txt", sc.k));
            std::fs::write(&path, f.content.as_bytes()).expect("write password file");
            let loaded = PasswordStore::load_from_file(&path);
            std::fs::remove_file(&path).ok();
            match (&f.intent, &loaded) {
                (Some(Ok(_)), Err(e)) => res.local_findings.push(("file-load-unexpected-error".into(), None, format!("well-formed password file rejected: {}", e))),
                (Some(Err(w)), Ok(_)) => res.local_findings.push(("file-load-missing-error".into(), None, format!("malformed password file ({}) accepted", w))),
                _ => {}
            }
            match loaded {
                Ok(s) => {
                    match &f.intent {
                        Some(Ok(entries)) => {
                            for (u, t, v) in entries {
                                truths.insert(u.clone(), t.clone());
                                let _ = v;
                            }
                        }
                        Some(Err(_)) => truth_known = false,
                        None => truth_known = false,
                    }
                    s
                }
                Err(_) => {
                    res.load_ok = false;
                    return res;
                }
            }
        }
    };
    // per-line salts for the model: the hash a cleartext line produced is only observable through the map
    if let Some(f) = &sc.file {
        for (n, line) in f.content.lines().enumerate() {
            let line = line.trim();
            if let Some((a, _)) = line.split_once(':') {
                let u = a.trim();
                if let Some(h) = store.get_password(u) {
                    if h.starts_with("$argon2") && !f.content.contains(h.as_str()) {
                        res.salts_tab.push((n, h.clone()));
                    }
                }
            }
        }
        // entry check of the file oracle: what is stored for each intended entry
        if let Some(Ok(entries)) = &f.intent {
            let mut last: BTreeMap<&str, (&Truth, &str)> = BTreeMap::new();
            for (u, t, v) in entries {
                last.insert(u.as_str(), (t, v.as_str()));
            }
            for (u, (t, v)) in last {
                match store.get_password(u) {
                    None => res.local_findings.push(("file-entry-missing".into(), None, format!("user {:?} of the file is not in the store", u))),
                    Some(st) => {
                        let cleartext_line = matches!(t, Truth::Password(p) if p == v);
                        if cleartext_line {
                            res.heavy_ops += 1;
                            if !st.starts_with("$argon2") || st == v {
                                res.local_findings.push(("password-not-hashed".into(), None, format!("cleartext password of {:?} stored as {:?}", u, st)));
                            }
                        } else if st != v {
                            res.local_findings.push(("file-entry-mismatch".into(), None, format!("user {:?}: file value {:?} stored as {:?}", u, v, st)));
                        }
                    }
                }
            }
        }
    }
    // ---- operations ----
    for op in &sc.ops {
        match op {
            Op::AddUser(u, p) => {
                let rr = store.add_user(u.clone(), p);
                res.heavy_ops += 1;
                let h = if rr.is_ok() { store.get_password(u).cloned().unwrap_or_default() } else { String::new() };
                if rr.is_ok() {
                    truths.insert(u.clone(), Truth::Password(p.clone()));
                    if !h.starts_with("$argon2") || &h == p {
                        res.local_findings.push(("password-not-hashed".into(), None, format!("add_user({:?}) stored {:?}", u, h)));
                    }
                    // the assumptions of the theorems, on the real crate: parses, verifies its own password
                    let ok = PasswordHash::new(&h).map(|ph| Argon2::default().verify_password(p.as_bytes(), &ph).is_ok()).unwrap_or(false);
                    res.heavy_ops += 1;
                    if !ok {
                        res.local_findings.push(("argon2-assumption-broken".into(), None, format!("hash produced for {:?} does not verify its own password", p)));
                    }
                } else {
                    res.local_findings.push(("add-user-error".into(), None, format!("add_user({:?}, {:?}) returned Err", u, p)));
                }
                res.ops_raw.push((true, u.clone(), p.clone(), h.clone()));
                res.ops_desc.push(format!("add_user({:?},{:?})", u, p));
            }
            Op::AddHashed(u, h, t) => {
                store.add_user_hashed(u.clone(), h.clone());
                truths.insert(u.clone(), t.clone());
                res.ops_raw.push((false, u.clone(), h.clone(), String::new()));
                res.ops_desc.push(format!("add_user_hashed({:?},{:?})", u, h));
            }
        }
    }
    // ---- whole-map observation ----
    res.dump = parse_debug_map(&format!("{:?}", store));
    // ---- queries ----
    let mut oracle = ArgonOracle { parse: HashMap::new(), verify: HashMap::new() };
    let mut users: Vec<String> = truths.keys().cloned().collect();
    if let Some(d) = &res.dump {
        for (k, _) in d {
            if !users.contains(k) {
                users.push(k.clone());
            }
        }
    }
    let known_users = users.clone();
    // unknown / near-miss user names
    let mut probes = users.clone();
    for u in known_users.iter().take(3) {
        probes.push(format!("{} ", u));
        probes.push(u.to_uppercase());
        probes.push(u.chars().skip(1).collect());
    }
    probes.push("nobody".into());
    probes.push(String::new());
    probes.dedup();
    let all_pw: Vec<String> = truths
        .values()
        .filter_map(|t| match t {
            Truth::Password(p) | Truth::Md5(p) => Some(p.clone()),
            _ => None,
        })
        .collect();
    let truth_of = |u: &str| -> Option<Truth> {
        if !truth_known {
            return None;
        }
        Some(truths.get(u).cloned().unwrap_or(Truth::Junk))
    };
    for u in &probes {
        let got = store.get_password(u).cloned();
        res.queries.push(Query { kind: "get", user: u.clone(), arg: String::new(), parts: vec![], salt: [0; 4], obs_bool: false, obs_get: got.clone(), expected: None, note: "get", truth: None });
        let t = truth_of(u);
        let in_store = got.is_some();
        // -- cleartext candidates --
        let mut cands: Vec<(Vec<String>, &'static str)> = Vec::new();
        let base_pw: String = match truths.get(u) {
            Some(Truth::Password(p)) | Some(Truth::Md5(p)) => p.clone(),
            _ => "secret".into(),
        };
        let one = |x: String| vec![x];
        let heavy_stored = got.as_deref().map(is_default_cost).unwrap_or(false);
        cands.push((one(base_pw.clone()), "the-password"));
        if heavy_stored {
            cands.push((vec![base_pw.clone(), " ".into()], "password+space"));
            if let Some(s) = &got {
                if thorough && r.chance(1, 2) {
                    cands.push((one(s.clone()), "pass-the-hash"));
                }
            }
        } else if in_store {
            cands.push((vec![base_pw.clone(), " ".into()], "password+space"));
            cands.push((vec![" ".into(), base_pw.clone()], "space+password"));
            cands.push((one(base_pw.to_uppercase()), "uppercased"));
            cands.push((one(String::new()), "empty"));
            cands.push((one(base_pw.chars().skip(1).collect()), "truncated"));
            cands.push((vec![base_pw.clone(), "\0".into()], "password+nul"));
            if let Some(s) = &got {
                cands.push((one(s.clone()), "pass-the-hash"));
                cands.push((vec!["{MD5}".into(), base_pw.clone()], "{MD5}+password"));
            }
            if !all_pw.is_empty() {
                cands.push((one(r.pick(&all_pw).clone()), "another-users-password"));
            }
            cands.push((one(gen_password(&mut r, true)), "random"));
            cands.push((one(pg_digest(&base_pw, u, &[1, 2, 3, 4])), "md5-digest-as-password"));
        } else {
            cands.push((one(String::new()), "empty"));
        }
        for (parts, note) in cands {
            let p: String = parts.concat();
            if let Some(s) = &got {
                if s.starts_with("$argon2") {
                    oracle.ask(s, &p);
                    if heavy_stored {
                        res.heavy_ops += 2;
                    }
                }
            }
            let obs = store.verify_cleartext(u, &p);
            let expected = t.as_ref().map(|t| matches!(t, Truth::Password(p0) if *p0 == p));
            res.queries.push(Query { kind: "clear", user: u.clone(), arg: p, parts, salt: [0; 4], obs_bool: obs, obs_get: None, expected, note, truth: t.clone() });
        }
        // -- MD5 challenge candidates --
        let nsalts = if !in_store { 1 } else if thorough { 3 } else { 2 };
        for si in 0..nsalts {
            let salt: [u8; 4] = match si {
                0 if r.chance(1, 2) => [1, 2, 3, 4],
                1 if r.chance(1, 2) => *r.pick(&[[0u8; 4], [255u8; 4], [0, 0, 0, 1], [10, 13, 32, 0]]),
                _ => [r.below(256) as u8, r.below(256) as u8, r.below(256) as u8, r.below(256) as u8],
            };
            let d = pg_digest(&base_pw, u, &salt);
            let mut other_salt = salt;
            other_salt[r.below(4) as usize] ^= 1 << r.below(8);
            let m5 = || "md5".to_string();
            let mut rs: Vec<(Vec<String>, &'static str)> = vec![(vec![m5(), d.clone()], "md5+digest"), (vec![d.clone()], "bare-digest")];
            if in_store {
                let other_pw = if all_pw.is_empty() { "x".to_string() } else { r.pick(&all_pw).clone() };
                let other_user = r.pick(&known_users).clone();
                let inner = hex(&md5_raw(&[base_pw.as_bytes(), u.as_bytes()]));
                let dws = pg_digest(&base_pw, u, &other_salt);
                rs.extend(vec![
                    (vec![m5(), m5(), d.clone()], "doubled-prefix"),
                    (vec!["MD5".into(), d.clone()], "upper-prefix"),
                    (vec![m5(), d.to_uppercase()], "upper-hex"),
                    (vec![d.to_uppercase()], "bare-upper-hex"),
                    (vec![m5(), d[..31].to_string()], "truncated"),
                    (vec![d[..31].to_string()], "bare-truncated"),
                    (vec![m5(), d.clone(), "0".into()], "extended"),
                    (vec![m5(), dws.clone()], "wrong-salt"),
                    (vec![dws], "bare-wrong-salt"),
                    (vec![m5(), pg_digest(&other_pw, &other_user, &salt)], "another-users-digest"),
                    (vec![m5(), pg_digest(&other_pw, u, &salt)], "another-password"),
                    (vec![m5(), pg_digest(u, &base_pw, &salt)], "user-password-swapped"),
                    (vec![m5(), inner], "inner-hash"),
                    (vec![String::new()], "empty"),
                    (vec![m5()], "prefix-only"),
                    (vec![base_pw.clone()], "cleartext-password"),
                    (vec![m5(), " ".into(), d.clone()], "space-after-prefix"),
                    (vec![m5(), d.clone(), " ".into()], "trailing-space"),
                    (vec![m5(), d.replace('a', "ａ").replace('0', "０")], "fullwidth-digit"),
                ]);
                let rnd: String = (0..32).map(|_| *r.pick(&['0', '1', '2', '3', '4', '5', '6', '7', '8', '9', 'a', 'b', 'c', 'd', 'e', 'f'])).collect();
                rs.push((vec![rnd.clone()], "random-bare-hex"));
                rs.push((vec![m5(), rnd], "random-md5-hex"));
                if let Some(s) = &got {
                    rs.push((vec![s.clone()], "stored-string"));
                }
            }
            for (parts, note) in rs {
                let resp: String = parts.concat();
                let obs = store.verify_md5(u, &resp, &salt);
                let expected = t.as_ref().map(|t| match t {
                    Truth::Md5(pw) => resp == format!("md5{}", pg_digest(pw, u, &salt)),
                    _ => false,
                });
                res.queries.push(Query { kind: "md5", user: u.clone(), arg: resp, parts, salt, obs_bool: obs, obs_get: None, expected, note, truth: t.clone() });
            }
        }
    }
    let mut pt: Vec<(String, bool)> = oracle.parse.into_iter().collect();
    pt.sort();
    let mut vtm: BTreeMap<String, Vec<(String, bool)>> = BTreeMap::new();
    for ((s, p), b) in oracle.verify {
        vtm.entry(s).or_default().push((p, b));
    }
    for v in vtm.values_mut() {
        v.sort();
    }
    res.pt = pt;
    res.vt = vtm.into_iter().collect();
    res.truths = truths;
    res
}

fn truth_json(t: &Option<Truth>) -> Value {
    match t {
        None => json!("unknown (unstructured file)"),
        Some(Truth::Password(p)) => json!({"argon2_from_password": p}),
        Some(Truth::Md5(p)) => json!({"md5_format_password": p}),
        Some(Truth::Junk) => json!("absent-or-unusable"),
    }
}

fn main() {
    let args = parse_args();
    quiet_panics();
    let t0 = std::time::Instant::now();
    let mut sum = Summary::default();
    sum.nontrivial_rule = "a case is one get_password / verify_cleartext / verify_md5 call on a generated store (or one function-level vector: md5, compute_md5_password, trim, lines, is_whitespace); distinct = distinct (how the user's secret was created, user, password/response, salt) texts; non-trivial = the user is present in the store, so the call goes past the map lookup (calls for unknown users are evaluated but not counted)".into();
    let mut log = CaseLog::new(&args);

    // ---------------- scenarios ----------------
    let (n_api, n_api_heavy, n_file, n_file_heavy, n_bad, n_soup) = if args.thorough { (260, 30, 120, 24, 40, 120) } else { (60, 5, 30, 4, 10, 30) };
    let mut scenarios: Vec<Scenario> = Vec::new();
    let mut k = 0usize;
    for f in gen_fixed_files() {
        scenarios.push(Scenario { k, file: Some(f), ops: vec![], heavy: false });
        k += 1;
    }
    // the unit-test scenario of password.rs and the witness of C29_verify_md5_refuted
    scenarios.push(Scenario { k, file: None, ops: vec![Op::AddHashed("postgres".into(), "{MD5}secret".into(), Truth::Md5("secret".into()))], heavy: false });
    k += 1;
    for i in 0..(n_api + n_api_heavy) {
        let mut r = Rng::new(args.seed, &format!("c29/api/{}", i));
        scenarios.push(gen_api_scenario(k, &mut r, i >= n_api));
        k += 1;
    }
    for i in 0..(n_file + n_file_heavy + n_bad) {
        let mut r = Rng::new(args.seed, &format!("c29/file/{}", i));
        let heavy = i >= n_file && i < n_file + n_file_heavy;
        let bad = i >= n_file + n_file_heavy;
        let f = gen_structured_file(&mut r, heavy, bad);
        // some file scenarios continue with API calls on the loaded store
        let ops = if r.chance(1, 4) {
            let u = gen_user(&mut r, true);
            let pw = gen_password(&mut r, true);
            if r.chance(1, 2) {
                let h = lowcost_hash(&mut r, &pw);
                vec![Op::AddHashed(u, h, Truth::Password(pw))]
            } else {
                vec![Op::AddHashed(u, format!("{{MD5}}{}", pw), Truth::Md5(pw))]
            }
        } else {
            vec![]
        };
        scenarios.push(Scenario { k, file: Some(f), ops, heavy });
        k += 1;
    }
    for i in 0..n_soup {
        let mut r = Rng::new(args.seed, &format!("c29/soup/{}", i));
        scenarios.push(Scenario { k, file: Some(gen_soup_file(&mut r)), ops: vec![], heavy: false });
        k += 1;
    }

    // ---------------- run them (Argon2 with default parameters is slow in debug builds: threads) ----------------
    let results: Mutex<Vec<Option<ScResult>>> = Mutex::new((0..scenarios.len()).map(|_| None).collect());
    let next = AtomicUsize::new(0);
    // heavy scenarios first so that the tail of the schedule is short
    let mut order: Vec<usize> = (0..scenarios.len()).collect();
    order.sort_by_key(|&i| (!scenarios[i].heavy, i));
    let nthreads = std::env::var("C29_THREADS").ok().and_then(|x| x.parse().ok()).unwrap_or_else(|| std::thread::available_parallelism().map(|n| n.get()).unwrap_or(4).min(16));
    std::thread::scope(|s| {
        for _ in 0..nthreads {
            s.spawn(|| loop {
                let j = next.fetch_add(1, Ordering::SeqCst);
                if j >= order.len() {
                    break;
                }
                let i = order[j];
                let ts = std::time::Instant::now();
                let r = run_scenario(&scenarios[i], args.seed, args.thorough, &args.out);
                if std::env::var("C29_TIMING").is_ok() { eprintln!("sc {} {} heavy={} q={} {:.2}s", i, r.label, r.heavy_ops, r.queries.len(), ts.elapsed().as_secs_f64()); }
                results.lock().unwrap()[i] = Some(r);
            });
        }
    });
    let t_par = t0.elapsed().as_secs_f64();
    let results: Vec<ScResult> = results.into_inner().unwrap().into_iter().map(|x| x.expect("scenario result")).collect();

    // ---------------- ids, oracle, shards ----------------
    let nshards = 16usize;
    let mut shard_defs: Vec<Vec<String>> = vec![Vec::new(); nshards];
    let mut shard_names: Vec<Vec<String>> = vec![Vec::new(); nshards];
    let mut pools: Vec<Pool> = (0..nshards).map(|_| Pool::default()).collect();
    let mut id: u64 = 0;
    let wanted = |id: u64| args.only.as_ref().map(|o| o.contains(&id)).unwrap_or(true);
    let mut dump_unavailable = 0u64;
    let mut heavy_total = 0u64;
    for res in &results {
        let id0 = id;
        id += 2;
        heavy_total += res.heavy_ops;
        sum.count(&format!("scenario_{}", res.label));
        let origin_desc = match &res.file {
            None => json!("PasswordStore::new()"),
            Some(f) => json!({"load_from_file": f.content, "kind": f.label}),
        };
        if !res.load_ok {
            sum.count("load_err");
            sum.evaluations += 1;
            sum.nontrivial(&format!("loaderr|{}", res.file.as_ref().map(|f| f.content.as_str()).unwrap_or("")));
        } else if res.file.is_some() {
            sum.count("load_ok");
            sum.evaluations += 1;
        }
        if wanted(id0) {
            log.log(id0, json!({"scenario": res.k, "origin": origin_desc, "ops": res.ops_desc, "what": "load outcome", "load_ok": res.load_ok}));
        }
        if wanted(id0 + 1) {
            log.log(id0 + 1, json!({"scenario": res.k, "origin": origin_desc, "ops": res.ops_desc, "what": "whole-map dump", "dump": res.dump.as_ref().map(|d| d.iter().map(|(a, b)| json!([a, b])).collect::<Vec<_>>())}));
        }
        for (class, _q, what) in &res.local_findings {
            if wanted(id0) {
                sum.finding(class, id0, what.clone(), json!({"scenario": res.k, "origin": origin_desc, "ops": res.ops_desc}));
            }
        }
        if res.load_ok && res.dump.is_none() {
            dump_unavailable += 1;
        }
        let (mut gets, mut clears, mut md5s) = (Vec::new(), Vec::new(), Vec::new());
        let pool = &mut pools[res.k % nshards];
        for q in &res.queries {
            let qid = id;
            id += 1;
            sum.evaluations += 1;
            let present = res.dump.as_ref().map(|d| d.iter().any(|(k, _)| *k == q.user)).unwrap_or(res.truths.contains_key(&q.user));
            sum.count(&format!("{}_{}", q.kind, if present { "known_user" } else { "unknown_user" }));
            if q.kind != "get" {
                sum.count(&format!("{}_{}", q.kind, if q.obs_bool { "accepted" } else { "rejected" }));
                sum.count(&format!("{}:{}", q.kind, q.note));
            }
            let mk_case = |full: bool| {
                let mut c = json!({"scenario": res.k, "store_described_by_case": id0, "call": q.kind, "user": q.user,
                              "arg": q.arg, "salt": q.salt, "variant": q.note, "secret_created_from": truth_json(&q.truth),
                              "observed": if q.kind == "get" { json!(q.obs_get) } else { json!(q.obs_bool) }, "expected": q.expected});
                if full {
                    c["origin"] = origin_desc.clone();
                    c["ops"] = json!(res.ops_desc);
                }
                c
            };
            if present {
                sum.nontrivial(&format!("{}|{:?}|{}|{}|{:?}", q.kind, q.truth, q.user, q.arg, q.salt));
            }
            if wanted(qid) {
                log.log(qid, mk_case(args.only.is_some()));
            }
            if q.kind == "md5" && q.obs_bool && sum.samples.len() < 2 {
                sum.sample(mk_case(true));
            }
            if q.kind == "clear" && q.obs_bool && sum.samples.len() >= 2 && sum.samples.len() < 4 {
                sum.sample(mk_case(true));
            }
            if q.kind == "md5" && !q.obs_bool && q.note == "upper-hex" && sum.samples.len() >= 4 {
                sum.sample(mk_case(true));
            }
            // ---- the property's own oracle ----
            if let Some(exp) = q.expected {
                if exp != q.obs_bool && wanted(qid) {
                    let class = match (q.kind, q.obs_bool) {
                        ("md5", true) => {
                            // narrow classifier: the response is exactly the right digest with its "md5" prefix missing
                            let bare_of_right = matches!(&q.truth, Some(Truth::Md5(pw)) if q.arg == pg_digest(pw, &q.user, &q.salt));
                            if bare_of_right {
                                "md5-response-without-prefix"
                            } else {
                                "md5-accepts-wrong-response"
                            }
                        }
                        ("md5", false) => "md5-rejects-correct-response",
                        ("clear", true) => "cleartext-accepts-wrong-password",
                        _ => "cleartext-rejects-correct-password",
                    };
                    let what = format!("verify_{}({:?}, {:?}{}) = {} but the user's secret was created from {} (variant {})",
                        if q.kind == "md5" { "md5" } else { "cleartext" }, q.user, q.arg,
                        if q.kind == "md5" { format!(", salt {:?}", q.salt) } else { String::new() },
                        q.obs_bool, truth_json(&q.truth), q.note);
                    sum.finding(class, qid, what, mk_case(true));
                }
            }
            match q.kind {
                "get" => gets.push(format!("({},{},{})", qid, pool.s(&q.user), pool.opt(&q.obs_get))),
                "clear" => clears.push(format!("({},{},{},{})", qid, pool.s(&q.user), pool.parts(&q.parts), cbool(q.obs_bool))),
                _ => md5s.push(format!("({},{},{},{},{})", qid, pool.s(&q.user), pool.parts(&q.parts), pool.bytes(&q.salt), cbool(q.obs_bool))),
            }
        }
        // ---- Coq term ----
        let file_term = match &res.file {
            None => "None".to_string(),
            Some(f) => format!(
                "(Some ({}, [{}]))",
                cs(&f.content),
res.salts_tab.iter().map(|(n, h)| format!("({}%nat,{})", n, pool.s(h))).collect::<Vec<_>>().join(";")
            ),
        };
        let pt = res.pt.iter().map(|(s, b)| format!("({},{})", pool.s(s), cbool(*b))).collect::<Vec<_>>().join(";");
        let vt = res
            .vt
            .iter()
            .map(|(s, l)| {
                let inner = l.iter().map(|(p, b)| format!("({},{})", pool.s(p), cbool(*b))).collect::<Vec<_>>().join(";");
                format!("({},[{}])", pool.s(s), inner)
            })
            .collect::<Vec<_>>()
            .join(";\n   ");
        let dump = match &res.dump {
            Some(d) => format!("(Some [{}])", d.iter().map(|(a, b)| format!("({},{})", pool.s(a), pool.s(b))).collect::<Vec<_>>().join(";")),
            None => "None".into(),
        };
        let ops_coq: Vec<String> = res
            .ops_raw
            .iter()
            .map(|(is_add, u, x, h)| if *is_add { format!("AddU {} {} {}", pool.s(u), pool.s(x), pool.s(h)) } else { format!("AddH {} {}", pool.s(u), pool.s(x)) })
            .collect();
        let name = format!("sc_{}", res.k);
        let def = format!(
            "Definition {} : list Z := c29_scenario {} {} {}\n  [{}]\n  [{}]\n  [{}]\n  {}\n  [{}]\n  [{}]\n  [{}].\n",
            name,
            id0,
            file_term,
            cbool(res.load_ok),
            ops_coq.join(";\n   "),
            pt,
            vt,
            dump,
            gets.join(";"),
            clears.join(";\n   "),
            md5s.join(";\n   ")
        );
        let sh = res.k % nshards;
        shard_defs[sh].push(def);
        shard_names[sh].push(name);
        sum.model_cases += 2 + res.queries.len() as u64;
    }

    // ---------------- function-level vectors ----------------
    let mut extra_defs: Vec<String> = Vec::new();
    let mut extra_names: Vec<String> = Vec::new();
    {
        // md5 of messages around the block boundaries and of random messages
        let mut r = Rng::new(args.seed, "c29/md5vec");
        let mut lens: Vec<usize> = vec![0, 1, 2, 3, 54, 55, 56, 57, 63, 64, 65, 118, 119, 120, 121, 127, 128, 129, 183, 184, 200];
        let nrand = if args.thorough { 400 } else { 80 };
        for _ in 0..nrand {
            lens.push(r.below(260) as usize);
        }
        let mut items = Vec::new();
        for n in lens {
            let msg: Vec<u8> = (0..n).map(|_| if r.chance(1, 8) { *r.pick(&[0u8, 255, 128, 127]) } else { r.below(256) as u8 }).collect();
            let d = md5_raw(&[&msg]);
            let vid = id;
            id += 1;
            sum.evaluations += 1;
            sum.count("vector_md5");
            sum.nontrivial(&format!("md5|{:?}", msg));
            if wanted(vid) {
                log.log(vid, json!({"call": "Md5::digest", "msg": msg, "digest": hex(&d)}));
            }
            items.push(format!("({},{},{})", vid, cbytes(&msg), cbytes(&d)));
        }
        extra_defs.push(format!("Definition vec_md5 : list Z := c29_md5_vectors [{}].\n", items.join(";\n  ")));
        extra_names.push("vec_md5".into());
        sum.model_cases += items.len() as u64;
        // compute_md5_password (pub fn of password.rs) directly
        let mut items = Vec::new();
        let ncmp = if args.thorough { 600 } else { 150 };
        for i in 0..ncmp {
            let (pw, user) = if i == 0 { ("secret".to_string(), "postgres".to_string()) } else { (gen_password(&mut r, true), gen_user(&mut r, true)) };
            let salt: [u8; 4] = if i == 0 { [1, 2, 3, 4] } else { [r.below(256) as u8, r.below(256) as u8, r.below(256) as u8, r.below(256) as u8] };
            let out = password::compute_md5_password(&pw, &user, &salt);
            let vid = id;
            id += 1;
            sum.evaluations += 1;
            sum.count("vector_compute_md5_password");
            sum.nontrivial(&format!("cmp|{}|{}|{:?}", pw, user, salt));
            let case = json!({"call": "compute_md5_password", "password": pw, "user": user, "salt": salt, "out": out});
            if wanted(vid) {
                log.log(vid, case.clone());
                // oracle: must be the 32 hex digits PostgreSQL computes
                if out != pg_digest(&pw, &user, &salt) {
                    sum.finding("md5-digest-wrong", vid, format!("compute_md5_password({:?},{:?},{:?}) = {:?}, PostgreSQL digest is {:?}", pw, user, salt, out, pg_digest(&pw, &user, &salt)), case);
                }
            }
            items.push(format!("({},{},{},{},{})", vid, cs(&pw), cs(&user), cbytes(&salt), cs(&out)));
        }
        extra_defs.push(format!("Definition vec_cmp : list Z := c29_cmp_vectors [{}].\n", items.join(";\n  ")));
        extra_names.push("vec_cmp".into());
        sum.model_cases += items.len() as u64;
        // char::is_whitespace on every scalar value
        let ws: Vec<u32> = (0..0x110000u32).filter_map(char::from_u32).filter(|c| c.is_whitespace()).map(|c| c as u32).collect();
        let vid = id;
        id += 1;
        sum.evaluations += 1;
        sum.count("vector_is_whitespace");
        if wanted(vid) {
            log.log(vid, json!({"call": "char::is_whitespace over all scalar values", "whitespace": ws}));
        }
        extra_defs.push(format!("Definition vec_ws : list Z := c29_ws {} [{}].\n", vid, ws.iter().map(|c| if *c < 256 { format!("c{}", c) } else { c.to_string() }).collect::<Vec<_>>().join(";")));
        extra_names.push("vec_ws".into());
        sum.model_cases += 1;
        // str::trim / str::lines of std on strings over the interesting alphabet
        let mut titems = Vec::new();
        let mut litems = Vec::new();
        let alpha: &[&str] = &["a", "b", ":", "#", " ", " ", "\t", "\n", "\n", "\r", "\r\n", "\u{a0}", "\u{3000}", "\u{2028}", "\u{85}", "\u{b}", "\u{feff}", "\u{200b}", "é", "\u{1680}", "\u{180e}"];
        let nstr = if args.thorough { 1500 } else { 300 };
        for i in 0..nstr {
            let n = if i < 3 { i } else { r.below(14) as usize };
            let s: String = (0..n).map(|_| *r.pick(alpha)).collect();
            let vid = id;
            id += 2;
            sum.evaluations += 2;
            sum.count_n("vector_trim_lines", 2);
            sum.nontrivial(&format!("trimlines|{}", s));
            let t = s.trim().to_string();
            let ls: Vec<String> = s.lines().map(|x| x.to_string()).collect();
            if wanted(vid) || wanted(vid + 1) {
                log.log(vid, json!({"call": "str::trim", "s": s, "out": t}));
                log.log(vid + 1, json!({"call": "str::lines", "s": s, "out": ls}));
            }
            titems.push(format!("({},{},{})", vid, cs(&s), cs(&t)));
            litems.push(format!("({},{},[{}])", vid + 1, cs(&s), ls.iter().map(|x| cs(x)).collect::<Vec<_>>().join(";")));
        }
        extra_defs.push(format!("Definition vec_trim : list Z := c29_trim_vectors [{}].\n", titems.join(";\n  ")));
        extra_names.push("vec_trim".into());
        extra_defs.push(format!("Definition vec_lines : list Z := c29_lines_vectors [{}].\n", litems.join(";\n  ")));
        extra_names.push("vec_lines".into());
        sum.model_cases += (titems.len() + litems.len()) as u64;
    }
    // put the vectors into the smallest shards
    for (d, n) in extra_defs.into_iter().zip(extra_names.into_iter()) {
        let sh = (0..nshards).min_by_key(|&i| shard_defs[i].iter().map(|x| x.len()).sum::<usize>()).unwrap();
        shard_defs[sh].push(d);
        shard_names[sh].push(n);
    }

    // ---------------- I/O error paths of load_from_file (oracle only) ----------------
    {
        let missing = args.out.join("c29_no_such_file.txt");
        let vid = id;
        id += 1;
        sum.evaluations += 1;
        sum.count("load_io_error");
        if PasswordStore::load_from_file(&missing).is_ok() && wanted(vid) {
            sum.finding("file-load-missing-error", vid, "load_from_file of a missing file returned Ok".into(), json!({"path": missing.display().to_string()}));
        }
        let bad = args.out.join("c29_bad_utf8.txt");
        std::fs::write(&bad, b"postgres:{MD5}se\xffcret\n").unwrap();
        let vid = id;
        id += 1;
        sum.evaluations += 1;
        sum.count("load_io_error");
        if PasswordStore::load_from_file(&bad).is_ok() && wanted(vid) {
            sum.finding("file-load-missing-error", vid, "load_from_file of a file that is not UTF-8 returned Ok".into(), json!({"bytes": "postgres:{MD5}se\\xffcret\\n"}));
        }
        std::fs::remove_file(&bad).ok();
    }
    let _ = id;

    if args.only.is_none() {
        for sh in 0..nshards {
            let mut s = String::new();
            s.push_str("From Coq Require Import List ZArith.\nImport ListNotations.\nOpen Scope Z_scope.\nFrom VibeSQL Require Import Store.Auth Run.C29Run.\n");
            for d in &pools[sh].defs {
                s.push_str(d);
            }
            for d in &shard_defs[sh] {
                s.push_str(d);
            }
            s.push_str("Eval vm_compute in (");
            if shard_names[sh].is_empty() {
                s.push_str("@nil Z");
            } else {
                s.push_str(&shard_names[sh].join(" ++ "));
            }
            s.push_str(").\n");
            write_shard(&args, sh, &s);
        }
    }
    if dump_unavailable > 0 {
        sum.notes.push(format!("Debug output of PasswordStore could not be parsed in {} scenarios: whole-map comparison skipped there (get_password probes still compared)", dump_unavailable));
    }
    sum.notes.push(format!("{} scenarios, {} Argon2 computations with default parameters (m=19456,t=2), harness wall {:.1}s (scenario execution on {} threads {:.1}s)", results.len(), heavy_total, t0.elapsed().as_secs_f64(), nthreads, t_par));
    sum.notes.push("Argon2 answers used by the model (PasswordHash::new / verify_password) come from direct calls into the argon2 crate; secrets created by the generator use reduced-cost parameters (m=8..32 KiB, t=1..2), secrets created by add_user / cleartext file lines use the crate defaults".into());
    sum.write(&args);
}
