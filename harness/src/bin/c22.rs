//! C22 correspondence + property oracle: DATE / TIME / TIMESTAMP / INTERVAL text forms.
//!
//! Runs the REAL `FromStr` / `Display` / `Date::new` / `Time::new` / `Interval::new` of
//! vibesql-types (debug build: arithmetic overflow panics) under `catch_unwind`, records
//! `Ok(value) | Err | Panic(kind)` (any panic is a violation since the C22 repairs) and writes Coq shards that evaluate the model
//! (coq/theories/Value/Temporal.v) on the same inputs.  Independently the property itself
//! (round trip; parsing never panics) is asserted on the implementation's answers.
use serde_json::json;
use std::panic::{catch_unwind, AssertUnwindSafe};
use std::str::FromStr;
use vh::out::*;
use vh::rng::Rng;
use vh::val::{interval_triple, zlit};
use vibesql_types::{Date, Interval, SqlValue, Time, Timestamp};

#[derive(Clone, Copy, PartialEq, Eq, Debug)]
enum Kind {
    Date,
    Time,
    Ts,
    Iv,
}
impl Kind {
    fn name(self) -> &'static str {
        match self {
            Kind::Date => "date",
            Kind::Time => "time",
            Kind::Ts => "timestamp",
            Kind::Iv => "interval",
        }
    }
    fn ctor(self) -> &'static str {
        match self {
            Kind::Date => "PDate",
            Kind::Time => "PTime",
            Kind::Ts => "PTimestamp",
            Kind::Iv => "PInterval",
        }
    }
}

#[derive(Clone, PartialEq, Debug)]
enum Obs {
    Val(SqlValue),
    Err,
    Panic(u8, String),
}

fn panic_msg(e: Box<dyn std::any::Any + Send>) -> String {
    if let Some(s) = e.downcast_ref::<&str>() {
        s.to_string()
    } else if let Some(s) = e.downcast_ref::<String>() {
        s.clone()
    } else {
        "<non-string panic payload>".into()
    }
}
/// 1 = slice / char boundary, 2 = index out of bounds, 3 = arithmetic overflow, 9 = anything else
fn panic_kind(m: &str) -> u8 {
    if m.contains("char boundary") || (m.contains("byte index") && m.contains("out of")) || m.contains("out of range for") || m.contains("is out of bounds of") {
        1
    } else if m.contains("index out of bounds") {
        2
    } else if m.contains("with overflow") {
        3
    } else {
        9
    }
}

fn parse_real(kind: Kind, s: &str) -> Obs {
    let r = catch_unwind(AssertUnwindSafe(|| match kind {
        Kind::Date => Date::from_str(s).ok().map(SqlValue::Date),
        Kind::Time => Time::from_str(s).ok().map(SqlValue::Time),
        Kind::Ts => Timestamp::from_str(s).ok().map(SqlValue::Timestamp),
        Kind::Iv => Interval::from_str(s).ok().map(SqlValue::Interval),
    }));
    match r {
        Ok(Some(v)) => Obs::Val(v),
        Ok(None) => Obs::Err,
        Err(e) => {
            let m = panic_msg(e);
            Obs::Panic(panic_kind(&m), m)
        }
    }
}

/// structural identity of temporal values (Interval: the three private fields)
fn same(a: &SqlValue, b: &SqlValue) -> bool {
    match (a, b) {
        (SqlValue::Interval(x), SqlValue::Interval(y)) => interval_triple(x) == interval_triple(y),
        (SqlValue::Date(x), SqlValue::Date(y)) => x == y,
        (SqlValue::Time(x), SqlValue::Time(y)) => x == y,
        (SqlValue::Timestamp(x), SqlValue::Timestamp(y)) => x == y,
        _ => false,
    }
}

fn coq_tv(v: &SqlValue) -> String {
    match v {
        SqlValue::Date(d) => format!("(VDate {} {} {})", zlit(d.year as i128), d.month, d.day),
        SqlValue::Time(t) => format!("(VTime {} {} {} {})", t.hour, t.minute, t.second, t.nanosecond),
        SqlValue::Timestamp(ts) => format!(
            "(VTimestamp {} {} {} {} {} {} {})",
            zlit(ts.date.year as i128), ts.date.month, ts.date.day, ts.time.hour, ts.time.minute, ts.time.second, ts.time.nanosecond
        ),
        SqlValue::Interval(iv) => {
            let (m, d, u) = interval_triple(iv);
            format!("(VInterval {} {} {})", zlit(m as i128), zlit(d as i128), zlit(u as i128))
        }
        _ => unreachable!(),
    }
}
fn coq_obs(o: &Obs) -> String {
    match o {
        Obs::Val(v) => format!("OVal {}", coq_tv(v)),
        Obs::Err => "OErr".into(),
        Obs::Panic(k, _) => format!("OPanic {}", k),
    }
}
/// printable-ASCII texts as Coq string literals, everything else as code points
fn coq_text(s: &str) -> String {
    if s.chars().all(|c| (' '..='~').contains(&c)) {
        format!("TS \"{}\"", s.replace('"', "\"\""))
    } else {
        format!("TL [{}]", s.chars().map(|c| (c as u32).to_string()).collect::<Vec<_>>().join(";"))
    }
}

// ---- triage: the five defect classes found by the first version of this check (non-ASCII
// fraction / timezone offset, interval overflow, trailing TO, negative years) were repaired in
// /repo, so ANY panic and ANY round-trip failure of a constructor-accepted value is a violation.
// The generators that produced the witnesses of those classes are kept (regression coverage).
fn classify_panic(_kind: Kind, _s: &str, _pk: u8, _msg: &str) -> &'static str {
    "parse-panic"
}

struct Ctx {
    args: Args,
    sum: Summary,
    log: CaseLog,
    cases: Vec<String>,
    shows: Vec<String>,
    next_id: u64,
    logged: u64,
}

impl Ctx {
    fn fresh(&mut self) -> Option<u64> {
        let id = self.next_id;
        self.next_id += 1;
        match &self.args.only {
            Some(only) if !only.contains(&id) => None,
            _ => Some(id),
        }
    }
    fn maybe_log(&mut self, id: u64, v: serde_json::Value, force: bool) {
        if force || self.logged < 4000 || self.args.only.is_some() {
            self.log.log(id, v);
            self.logged += 1;
        }
    }

    /// one parse case: real parser under catch_unwind, Coq case line, totality oracle
    fn parse(&mut self, kind: Kind, s: &str, origin: &str) -> Option<Obs> {
        let id = self.fresh()?;
        let o = parse_real(kind, s);
        self.sum.evaluations += 1;
        self.cases.push(format!("({}, {} ({}), {})", id, kind.ctor(), coq_text(s), coq_obs(&o)));
        self.sum.count(&format!("parse_{}_{}", kind.name(), match &o { Obs::Val(_) => "ok", Obs::Err => "err", Obs::Panic(..) => "panic" }));
        self.sum.count(&format!("origin_{}", origin));
        let structured = match kind {
            Kind::Date => s.matches('-').count() >= 2,
            Kind::Time => s.matches(':').count() >= 2,
            Kind::Ts => s.matches('-').count() >= 2,
            Kind::Iv => s.split_whitespace().count() >= 2,
        };
        if !matches!(o, Obs::Err) || structured {
            self.sum.nontrivial(&format!("{}|{}", kind.name(), s));
        }
        let case = json!({"op": format!("{}::from_str", kind.name()), "text": s, "text_codepoints": s.chars().map(|c| c as u32).collect::<Vec<_>>(), "origin": origin, "observed": format!("{:?}", o)});
        if let Obs::Panic(pk, msg) = &o {
            let class = classify_panic(kind, s, *pk, msg);
            self.sum.finding(class, id, format!("{}::from_str({:?}) panicked: {}", kind.name(), s, msg), case.clone());
            self.maybe_log(id, case, true);
        } else {
            self.maybe_log(id, case, false);
        }
        if kind == Kind::Iv {
            // Display prints the stored text; re-parsing the printed text gives the same triple
            if let Obs::Val(SqlValue::Interval(iv)) = &o {
                let shown = iv.to_string();
                let via_value = SqlValue::Interval(iv.clone()).to_string();
                self.sum.evaluations += 1;
                let again = parse_real(Kind::Iv, &shown);
                let ok = shown == s && via_value == s && matches!(&again, Obs::Val(v) if same(v, &SqlValue::Interval(iv.clone())));
                if !ok {
                    self.sum.finding("interval-display-mismatch", id, format!("Interval::new({:?}) displays as {:?} / re-parses as {:?}", s, shown, again), json!({"text": s}));
                }
            }
        }
        Some(o)
    }

    /// Display of a value (fields possibly out of range: they are public), through SqlValue's Display
    fn show(&mut self, v: &SqlValue) -> String {
        let direct = match v {
            SqlValue::Date(d) => d.to_string(),
            SqlValue::Time(t) => t.to_string(),
            SqlValue::Timestamp(t) => t.to_string(),
            _ => unreachable!(),
        };
        if let Some(id) = self.fresh() {
            let text = v.to_string();
            self.sum.evaluations += 1;
            self.sum.count("display");
            self.shows.push(format!("({}, {}, {})", id, coq_tv(v), coq_text(&text)));
            self.sum.nontrivial(&format!("show|{:?}", v));
            if text != direct {
                self.sum.finding("display-delegation", id, format!("SqlValue Display {:?} differs from the inner Display {:?}", text, direct), json!({"value": format!("{:?}", v)}));
            }
            self.maybe_log(id, json!({"op": "Display", "value": format!("{:?}", v), "text": text}), false);
        }
        direct
    }

    /// the round-trip oracle on one value: Display, then FromStr of the text
    fn roundtrip(&mut self, v: &SqlValue, origin: &str) {
        let (kind, valid, year) = match v {
            SqlValue::Date(d) => (Kind::Date, Date::new(d.year, d.month, d.day).is_ok(), d.year),
            SqlValue::Time(t) => (Kind::Time, Time::new(t.hour, t.minute, t.second, t.nanosecond).is_ok(), 0),
            SqlValue::Timestamp(ts) => (
                Kind::Ts,
                Date::new(ts.date.year, ts.date.month, ts.date.day).is_ok() && Time::new(ts.time.hour, ts.time.minute, ts.time.second, ts.time.nanosecond).is_ok(),
                ts.date.year,
            ),
            _ => unreachable!(),
        };
        let text = self.show(v);
        if let Some(o) = self.parse(kind, &text, origin) {
            if valid {
                self.sum.count(&format!("roundtrip_{}", kind.name()));
                let ok = matches!(&o, Obs::Val(w) if same(v, w));
                if !ok && !matches!(o, Obs::Panic(..)) {
                    let _ = year;
                    let class = "roundtrip-mismatch";
                    let id = self.next_id - 1;
                    self.sum.finding(class, id, format!("{:?} prints as {:?}, which parses to {:?}", v, text, o), json!({"value": format!("{:?}", v), "text": text}));
                }
            }
        }
    }

    fn new_date(&mut self, y: i32, m: u8, d: u8) {
        if let Some(id) = self.fresh() {
            let r = Date::new(y, m, d);
            self.sum.evaluations += 1;
            self.sum.count("date_new");
            let o = match &r { Ok(v) => Obs::Val(SqlValue::Date(*v)), Err(_) => Obs::Err };
            self.cases.push(format!("({}, NDate {} {} {}, {})", id, zlit(y as i128), m, d, coq_obs(&o)));
            self.sum.nontrivial(&format!("ndate|{}|{}|{}", y, m, d));
            if let Ok(v) = r {
                if (v.year, v.month, v.day) != (y, m, d) {
                    self.sum.finding("constructor-mismatch", id, format!("Date::new({},{},{}) = {:?}", y, m, d, v), json!({}));
                }
            }
        }
    }
    fn new_time(&mut self, h: u8, mi: u8, s: u8, ns: u32) {
        if let Some(id) = self.fresh() {
            let r = Time::new(h, mi, s, ns);
            self.sum.evaluations += 1;
            self.sum.count("time_new");
            let o = match &r { Ok(v) => Obs::Val(SqlValue::Time(*v)), Err(_) => Obs::Err };
            self.cases.push(format!("({}, NTime {} {} {} {}, {})", id, h, mi, s, ns, coq_obs(&o)));
            self.sum.nontrivial(&format!("ntime|{}|{}|{}|{}", h, mi, s, ns));
            if let Ok(v) = r {
                if (v.hour, v.minute, v.second, v.nanosecond) != (h, mi, s, ns) {
                    self.sum.finding("constructor-mismatch", id, format!("Time::new({},{},{},{}) = {:?}", h, mi, s, ns, v), json!({}));
                }
            }
        }
    }
}

const YEARS: &[i32] = &[0, 1, 4, 9, 10, 99, 100, 999, 1000, 1999, 2000, 2024, 9999, 10000, 99999, 999999, 9999999, 10000000, 99999999, 2147483647];
const NEG_YEARS: &[i32] = &[-1, -9, -10, -99, -100, -999, -1000, -9999, -2147483648];
const NANOS: &[u32] = &[
    0, 1, 9, 10, 11, 99, 100, 101, 999, 1000, 1001, 9999, 10000, 99999, 100000, 999999, 1000000, 1000001, 9999999, 10000000, 99999999,
    100000000, 100000001, 120000000, 123000000, 123456789, 123456780, 123456700, 500000000, 900000000, 990000000, 999000000, 999999000,
    999999990, 999999999, 50000000, 5000000, 500000, 50000, 5000, 500, 50, 5, 10203040, 909090909,
];
const BAD_NANOS: &[u32] = &[1000000000, 1000000001, 1234567890, 2000000000, 4294967295];

/// characters used by the hostile stream
fn hostile_alphabet() -> Vec<char> {
    "0123456789+-:. TZztxE\"'\u{0}\t\n\u{b}\u{85}\u{a0}\u{1680}\u{2003}\u{2028}\u{202f}\u{3000}\u{200b}éßıſﬆ€٣３𝟑\u{7f}\u{80}\u{7ff}\u{800}\u{ffff}\u{10000}"
        .chars()
        .collect()
}

fn mutate(r: &mut Rng, s: &str, alpha: &[char]) -> String {
    let mut cs: Vec<char> = s.chars().collect();
    let n = 1 + r.below(3);
    for _ in 0..n {
        let len = cs.len();
        match r.below(9) {
            0 | 1 | 2 => {
                if len > 0 {
                    let i = r.below(len as u64) as usize;
                    cs[i] = *r.pick(alpha);
                }
            }
            3 | 4 => {
                let i = r.below(len as u64 + 1) as usize;
                cs.insert(i, *r.pick(alpha));
            }
            5 => {
                if len > 0 {
                    let i = r.below(len as u64) as usize;
                    cs.remove(i);
                }
            }
            6 => {
                if len > 0 {
                    let i = r.below(len as u64) as usize;
                    let c = cs[i];
                    cs.insert(i, c);
                }
            }
            7 => {
                let i = r.below(len as u64 + 1) as usize;
                cs.truncate(i);
            }
            _ => {
                // swap two positions
                if len > 1 {
                    let i = r.below(len as u64) as usize;
                    let j = r.below(len as u64) as usize;
                    cs.swap(i, j);
                }
            }
        }
    }
    cs.into_iter().collect()
}

fn digits_mixed(r: &mut Rng, n: usize) -> String {
    // a "number" of n characters drawn from ASCII digits and look-alike non-ASCII digits / letters
    let pool: Vec<char> = "0123456789٣３𝟑éſ€".chars().collect();
    (0..n).map(|_| if r.chance(3, 4) { (b'0' + r.below(10) as u8) as char } else { *r.pick(&pool) }).collect()
}

fn random_date(r: &mut Rng) -> Date {
    let y = match r.below(6) {
        0 => *r.pick(YEARS),
        1 => r.range(0, 9999) as i32,
        2 => r.range(1900, 2100) as i32,
        3 => r.range(0, i32::MAX as i64) as i32,
        4 => r.range(9990, 10010) as i32,
        _ => r.range(1, 3000) as i32,
    };
    Date { year: y, month: r.range(1, 12) as u8, day: r.range(1, 31) as u8 }
}
fn random_time(r: &mut Rng) -> Time {
    let ns = match r.below(6) {
        0 => *r.pick(NANOS),
        1 => 0,
        2 => (r.below(1000) * 1_000_000) as u32,
        3 => (r.below(1_000_000) * 1000) as u32,
        4 => {
            // k significant digits then zeros
            let k = r.below(9) as u32;
            (r.below(10u64.pow(k + 1)) * 10u64.pow(8 - k)) as u32 % 1_000_000_000
        }
        _ => r.below(1_000_000_000) as u32,
    };
    Time { hour: r.range(0, 23) as u8, minute: r.range(0, 59) as u8, second: r.range(0, 59) as u8, nanosecond: ns }
}

/// interval magnitudes around every overflow threshold of parse_interval
fn interval_numbers() -> Vec<String> {
    let mut v: Vec<i128> = vec![0, 1, 2, 5, 9, 10, 11, 12, 59, 60, 99, 100, 999, 12345, 99999999, 100000000];
    let th: [i128; 10] = [
        178956970,            // i32::MAX / 12
        2147483647,           // i32::MAX
        2562047788,           // i64::MAX / 3.6e9 (hours)
        2562047788015215,     // i64::MAX / 3600
        153722867280,         // i64::MAX / 6e7 (minutes)
        153722867280912930,   // i64::MAX / 60
        9223372036854,        // i64::MAX / 1e6 (seconds)
        9223372036854775807,  // i64::MAX
        4294967295,
        18446744073709551615,
    ];
    for t in th {
        for d in -2..=2 {
            v.push(t + d);
        }
    }
    let mut out = vec![];
    for x in v {
        out.push(format!("{}", x));
        out.push(format!("-{}", x));
        if x % 7 == 0 || x < 20 {
            out.push(format!("+{}", x));
        }
    }
    out.push("-2147483648".into());
    out.push("-2147483649".into());
    out.push("-9223372036854775808".into());
    out.push("-9223372036854775809".into());
    out.push("000000000000000000000000012".into());
    out.push("".into());
    out.push("-".into());
    out.push("+".into());
    out.push("abc".into());
    out.push("1e3".into());
    out.push("٣".into());
    out.push("1٣".into());
    out
}

const UNITS: &[&str] = &[
    "YEAR", "YEARS", "MONTH", "MONTHS", "DAY", "DAYS", "HOUR", "HOURS", "MINUTE", "MINUTES", "SECOND", "SECONDS",
    "year", "Years", "month", "dayS", "hour", "Minute", "seconds",
    "dayſ", "yearſ", "mınute", "mınuteſ", "ſecond", "ſecondſ", "hourſ", "monthſ", // Unicode upper-casing reaches the keywords
    "MİNUTE", "minuteß", "ﬆ", "DAY\u{301}", "SECONDE", "WEEK", "", "TO",
];

fn main() {
    let args = parse_args();
    quiet_panics();
    let seed = args.seed;
    let thorough = args.thorough;
    let log = CaseLog::new(&args);
    let mut cx = Ctx { args, sum: Summary::default(), log, cases: vec![], shows: vec![], next_id: 10, logged: 0 };
    cx.sum.nontrivial_rule = "cases: (a) Display of a Date/Time/Timestamp value (through SqlValue's Display) vs the model's printer; (b) FromStr of a text (printed valid values, boundary grids, targeted hostile fragments, mutated valid texts) observed as Ok(value)|Err|Panic(kind) vs the model's parser; (c) Date::new/Time::new grids. distinct = distinct (operation, input); non-trivial = every Display/constructor case, and every parse case whose outcome is Ok or Panic or whose text still has the separator structure of its type (>=2 '-' for dates/timestamps, >=2 ':' for times, >=2 words for intervals), i.e. it gets past the first arity check".into();
    let alpha = hostile_alphabet();

    // ---------------------------------------------------------------- unicode tables (exhaustive)
    let mut ws_obs: Vec<u32> = vec![];
    let mut up_obs: Vec<(u32, String)> = vec![];
    for c in 0u32..0x110000 {
        if let Some(ch) = char::from_u32(c) {
            if ch.is_whitespace() {
                ws_obs.push(c);
            }
            let u: String = ch.to_uppercase().collect();
            if u.is_ascii() {
                up_obs.push((c, u));
            }
        }
    }
    cx.sum.evaluations += 2 * 1_112_064;
    cx.sum.count_n("unicode_scalars_checked", 1_112_064);

    // ---------------------------------------------------------------- DATE
    // exhaustive month x day (including the invalid rim 0, 13, 32, 255) x boundary years
    for &y in YEARS.iter().chain(NEG_YEARS.iter()) {
        for m in (0u8..=13).chain([255u8]) {
            for d in (0u8..=32).chain([99u8, 100, 255]) {
                let full = (1..=12).contains(&m) && (1..=31).contains(&d);
                // the invalid rim only for a few years (it does not depend on the year)
                if !full && !(y == 2024 || y == 0 || y == -1 || y == i32::MAX) {
                    continue;
                }
                cx.new_date(y, m, d);
                cx.roundtrip(&SqlValue::Date(Date { year: y, month: m, day: d }), "date-grid");
            }
        }
    }
    // textual variants of valid dates: unpadded, signs, over-long fields
    for (i, t) in [
        "2024-1-5", "+2024-+1-+5", "2024-01-05 ", " 2024-01-05", "2024-01-05-", "-2024-01-05", "2024--01-05", "2024-01", "2024", "", "-", "--", "---",
        "2024-001-005", "2024-0000000001-0000000005", "02024-01-05", "2147483647-12-31", "2147483648-12-31", "-2147483648-1-1", "2024-256-1", "2024-12-256",
        "2024-255-255", "2024-12-031", "2024/01/05", "2024-01-05T", "٢٠٢٤-01-05", "2024-０1-05", "2024-01-0５", "2024-1-+", "2024-+-1", "+-1-1", "2024-1-1.0",
    ]
    .iter()
    .enumerate()
    {
        let _ = i;
        cx.parse(Kind::Date, t, "date-text");
        cx.parse(Kind::Ts, t, "date-text");
    }

    // ---------------------------------------------------------------- TIME
    let hs: Vec<u8> = if thorough { (0..=24).chain([99, 100, 255]).collect() } else { vec![0, 1, 9, 10, 12, 22, 23, 24, 255] };
    let ms: Vec<u8> = if thorough { (0..=60).chain([99, 100, 255]).collect() } else { vec![0, 1, 9, 10, 30, 58, 59, 60, 255] };
    let mut k = 0usize;
    for &h in &hs {
        for &mi in &ms {
            for &s in &ms {
                // every (h,m,s) at three boundary nanoseconds in rotation, plus 0
                for j in 0..3 {
                    let ns = NANOS[(k * 3 + j) % NANOS.len()];
                    k += 1;
                    cx.roundtrip(&SqlValue::Time(Time { hour: h, minute: mi, second: s, nanosecond: ns }), "time-grid");
                }
                cx.new_time(h, mi, s, NANOS[k % NANOS.len()]);
            }
        }
    }
    // every boundary nanosecond at a few (h,m,s), incl. out-of-range nanoseconds (10 digits)
    for &ns in NANOS.iter().chain(BAD_NANOS.iter()) {
        for &(h, mi, s) in &[(0u8, 0u8, 0u8), (23, 59, 59), (12, 30, 45), (7, 8, 9)] {
            cx.new_time(h, mi, s, ns);
            cx.roundtrip(&SqlValue::Time(Time { hour: h, minute: mi, second: s, nanosecond: ns }), "time-nanos");
        }
    }
    // exhaustive hour x minute x second at nanosecond 0 and one rotating value (thorough: all 86 400)
    {
        let step = if thorough { 1 } else { 11 };
        let mut idx = 0u32;
        for h in 0u8..24 {
            for mi in 0u8..60 {
                for s in 0u8..60 {
                    idx += 1;
                    if idx % step != 0 {
                        continue;
                    }
                    let ns = if idx % 2 == 0 { 0 } else { NANOS[(idx as usize) % NANOS.len()] };
                    cx.roundtrip(&SqlValue::Time(Time { hour: h, minute: mi, second: s, nanosecond: ns }), "time-hms");
                }
            }
        }
    }
    // fraction fragments: n ASCII digits then k multi-byte characters of each width -> explores
    // every alignment of byte 9 of the padded fraction
    for n in 0..=11usize {
        for (wi, wide) in ['é', '€', '𝟑', '٣'].iter().enumerate() {
            for kk in 0..=6usize {
                for tail in ["", "1", "12"] {
                    let frac: String = "123456789012"[..n].to_string() + &wide.to_string().repeat(kk) + tail;
                    let t = format!("01:02:03.{}", frac);
                    cx.parse(Kind::Time, &t, "time-frac");
                    if (n + kk + wi) % 3 == 0 {
                        cx.parse(Kind::Ts, &format!("2024-01-05 {}", t), "time-frac");
                        cx.parse(Kind::Ts, &format!("2024-01-05T{}", t), "time-frac");
                    }
                }
            }
        }
    }
    for t in [
        "1:2:3", "+1:+2:+3", "01:02:03.", "01:02:03.5", "01:02:03.+5", "01:02:03.-5", "01:02:03.5.5", "01:02:03.1234567891", "01:02:03.9999999999", "01:02:03.4294967295",
        "01:02:03.42949672950", "01:02:03.000000000000001", "01:02", "01:02:03:04", "", ":", "::", ":::", ".", "1.2:3:4", "01:02:03 ", " 01:02:03", "24:00:00", "23:60:00",
        "23:59:60", "256:00:00", "001:002:003", "-1:00:00", "01:02:03Z", "01:02:03+05:30", "01:02:03.5Z", "０1:02:03", "01:02:03.５", "01:02:03.         ", "01:02:03.+", "01:02:03.+12345678",
        "01:02:03.+123456789", "01:02:03.-", "-0:00:00", "00:-0:00", "00:00:-0", "00:00:00.-0", "-00:00:00.5", "+0:-1:+2", "1:2:3.é", "1:2:3.éé", "1:2:3.12345678é", "1:2:3.1234567é", "1:2:3.€€€", "1:2:3.1€€€",
    ] {
        cx.parse(Kind::Time, t, "time-text");
        cx.parse(Kind::Ts, &format!("2024-01-05 {}", t), "time-text");
    }

    // ---------------------------------------------------------------- TIMESTAMP
    let some_dates: Vec<Date> = vec![
        Date { year: 2024, month: 1, day: 5 }, Date { year: 0, month: 1, day: 1 }, Date { year: 9999, month: 12, day: 31 }, Date { year: 10000, month: 1, day: 1 },
        Date { year: 9999999, month: 10, day: 10 }, Date { year: 10000000, month: 10, day: 10 }, Date { year: 99999999, month: 12, day: 31 }, Date { year: 2147483647, month: 12, day: 31 },
        Date { year: 1, month: 2, day: 3 }, Date { year: -1, month: 1, day: 1 }, Date { year: -2147483648, month: 12, day: 31 }, Date { year: 2024, month: 13, day: 1 }, Date { year: 2024, month: 0, day: 0 },
    ];
    let some_times: Vec<Time> = vec![
        Time { hour: 0, minute: 0, second: 0, nanosecond: 0 }, Time { hour: 23, minute: 59, second: 59, nanosecond: 999999999 }, Time { hour: 12, minute: 30, second: 45, nanosecond: 500000000 },
        Time { hour: 1, minute: 2, second: 3, nanosecond: 1 }, Time { hour: 1, minute: 2, second: 3, nanosecond: 100 }, Time { hour: 24, minute: 0, second: 0, nanosecond: 0 }, Time { hour: 0, minute: 0, second: 0, nanosecond: 1000000000 },
        Time { hour: 9, minute: 9, second: 9, nanosecond: 123456000 },
    ];
    for d in &some_dates {
        for t in &some_times {
            cx.roundtrip(&SqlValue::Timestamp(Timestamp { date: *d, time: *t }), "ts-grid");
        }
    }
    // timezone suffixes: exhaustive over a small alphabet for the part after the sign (<= 5 chars)
    {
        let sym = ['1', ':', 'é', '€'];
        let mut frontier: Vec<String> = vec![String::new()];
        let mut all: Vec<String> = vec![];
        for _ in 0..5 {
            let mut next = vec![];
            for p in &frontier {
                for c in sym {
                    let mut q = p.clone();
                    q.push(c);
                    next.push(q);
                }
            }
            all.extend(next.iter().cloned());
            frontier = next;
        }
        for (i, rest) in all.iter().enumerate() {
            let sign = if i % 2 == 0 { '+' } else { '-' };
            cx.parse(Kind::Ts, &format!("2024-01-05 01:02:03{}{}", sign, rest), "ts-tz");
            if i % 5 == 0 {
                cx.parse(Kind::Ts, &format!("2024-01-05T01:02:03.5{}{}", if sign == '+' { '-' } else { '+' }, rest), "ts-tz");
            }
        }
    }
    for body in ["2024-01-05 01:02:03", "2024-01-05T01:02:03", "2024-01-05T01:02:03.25", "2024-01-05", "2024-1-5 1:2:3", "12345-01-05 01:02:03"] {
        for suf in [
            "", "Z", "z", "ZZ", " Z", "+05:30", "-05:30", "+0530", "-0530", "+05", "-05", "+5", "+053", "+05:3", "+05:300", "+05-30", "+05:30Z", "Z+05:30", "+٠٥:٣٠", "+1é:2", "+é1:23", "+12:é",
            "+12:3€", "-€:12", "+", "-", "+:", "+ab:cd", "+12:34 ", " +12:34", "+1234+12", "T", "T+05", " 01:02:03", "\u{a0}", "\u{3000}+05",
        ] {
            cx.parse(Kind::Ts, &format!("{}{}", body, suf), "ts-suffix");
        }
        for pre in [" ", "\t", "\u{a0}", "\u{2003}\u{3000}", "\u{200b}", "x"] {
            cx.parse(Kind::Ts, &format!("{}{}", pre, body), "ts-prefix");
            cx.parse(Kind::Ts, &format!("{}{}{}", pre, body, pre), "ts-prefix");
        }
    }
    for t in [
        "", " ", "T", "TT", "2024-01-05T", "T01:02:03", "2024-01-05  01:02:03", "2024-01-05\t01:02:03", "2024-01-05\u{a0}01:02:03", "2024-01-05\u{2003}01:02:03", "2024-01-05\u{200b}01:02:03",
        "2024-01-05 01:02:03 extra", "2024-01-05t01:02:03", "2024-01-05 01:02:03 +05:30", "2024-01-05 +05:30", "2024-01-05+05:30", "2024-01-5+05", "2024-1-5+05", "20240105-05", "1-1-1-05",
        "0000000001-1-1", "00000001-01-01", "0000001-01-01", "2024-01-05 01:02:03-1", "2024-01-05 01:02:03-12", "2024-01-05 01:02:03-123", "2024-01-05 01:02:03-1234", "2024-01-05 01:02:03-12345",
        "2024-01-05T01:02:03T", "Z", "z", "2024-01-05Z", "2024-01-05z", "2024-01-05 Z", "2024-01-05T01:02:03é", "é", "éZ", "€+12", "12345678901+é1:2", "1234567890+é1:2", "1234567890+1é:2", "12345678901+1é:2",
        "12345678901+1€2", "12345678901+1:€", "12345678901+€:12", "12345678901+é:123", "1234567890+05", "12345678901+05", "123456789+0530", "1234567890-0530", "12345678901-0530", "02024-01-05+05", "2024-01-05+05", "2024-01-05-05", "02024-01-05-05:00", "2024-1-05+05:00", "2024-01-05 +05", "2024-01-5 1+05",
    ] {
        cx.parse(Kind::Ts, t, "ts-text");
    }

    // ---------------------------------------------------------------- INTERVAL
    let nums = interval_numbers();
    for n in &nums {
        for u in UNITS {
            cx.parse(Kind::Iv, &format!("{} {}", n, u), "iv-simple");
        }
    }
    // compound forms
    let small: Vec<String> = ["0", "1", "-1", "+1", "11", "12", "59", "60", "7", "8", "178956970", "178956971", "-178956970", "-178956971", "2147483647", "-2147483648", "2147483648", "", "x", "٣"].iter().map(|s| s.to_string()).collect();
    for y in &small {
        for m in &small {
            cx.parse(Kind::Iv, &format!("{}-{} YEAR TO MONTH", y, m), "iv-ym");
        }
        cx.parse(Kind::Iv, &format!("{} YEAR TO MONTH", y), "iv-ym");
        cx.parse(Kind::Iv, &format!("{} year to month", y), "iv-ym");
        cx.parse(Kind::Iv, &format!("{} DAY TO HOUR", y), "iv-day");
        cx.parse(Kind::Iv, &format!("{} 12:30:45 DAY TO SECOND", y), "iv-day");
    }
    let hvals = ["0", "1", "-1", "23", "2562047788", "2562047789", "-2562047788", "-2562047789", "2562047787", "9223372036854775807", "", "x", "+5"];
    let mvals = ["0", "1", "59", "-1", "153722867280", "153722867281", "912930", "912931", "-153722867281", "", "y"];
    let svals = ["0", "1", "59.5", "-1", "9223372036854", "9223372036855", "54.775807", "54.775808", "0.999999", "0.9999999", ".5", "5.", "1.-5", "1.+5", "-9223372036854.775808", "9223372036854.775807", "9223372036854.775808", "-9223372036854.-775808", "-9223372036854.-775809", "9223372036854.999999", "1.aééééé", "1.éééééé", "1.12345é", "1.1234€", "1.𝟑𝟑", "1.1𝟑", "", "z"];
    for h in hvals {
        for m in mvals {
            for s in svals {
                cx.parse(Kind::Iv, &format!("{}:{}:{} HOUR TO SECOND", h, m, s), "iv-hms");
            }
            cx.parse(Kind::Iv, &format!("{}:{} HOUR TO MINUTE", h, m), "iv-hms");
            cx.parse(Kind::Iv, &format!("{}:{} minute to second", h, m), "iv-hms");
        }
        cx.parse(Kind::Iv, &format!("{} HOUR TO HOUR", h), "iv-hms");
    }
    for s in svals {
        for u in ["SECOND", "seconds", "ſecond", "SECOND TO SECOND", "MINUTE TO SECOND"] {
            cx.parse(Kind::Iv, &format!("{} {}", s, u), "iv-sec");
        }
    }
    // fraction fragments for the [..6] slice
    for n in 0..=8usize {
        for wide in ['é', '€', '𝟑'] {
            for kk in 0..=4usize {
                for tail in ["", "7"] {
                    let frac: String = "12345678"[..n].to_string() + &wide.to_string().repeat(kk) + tail;
                    cx.parse(Kind::Iv, &format!("1.{} SECOND", frac), "iv-frac");
                    cx.parse(Kind::Iv, &format!("1:2:3.{} HOUR TO SECOND", frac), "iv-frac");
                }
            }
        }
    }
    for t in [
        "", " ", "TO", "to", "TO TO", "TO TO TO", "1 TO", "1 YEAR TO", "1 year to", "1 YEAR  TO  ", "1-2 YEAR TO MONTH TO", "1 DAY TO SECOND TO", "a b TO", "a b c TO", "a TO b", "TO a b", "a b TO c", "a b TO c TO",
        "1 YEAR TO MONTH", "1-6 YEAR TO MONTH", "5 12:30:45 DAY TO SECOND", "12:30:45 HOUR TO SECOND", "5 YEAR", "5  YEAR", "5\tYEAR", "5\u{a0}YEAR", "5\u{3000}YEAR", "5\u{200b}YEAR", "5YEAR", "5 YEAR extra", "YEAR 5",
        "1 YEAR MONTH", "1 TΟ 2", "1 Y TO M", "1 YEAR ΤΟ MONTH", "1 YEAR tO MONTH", "1 YEAR To MONTH", "1 DAY TO", "1 X TO", "1 X Y TO", "1-2-3 YEAR TO MONTH", "-1-2 YEAR TO MONTH", "1--2 YEAR TO MONTH",
        "1 DAY TO HOUR", "1 2 DAY TO HOUR", "1:2 DAY TO HOUR", "86400 SECOND", "0.000001 SECOND", "1.5 SECOND", "-1.5 SECOND", "1.5.5 SECOND", "1.500000000000 SECOND", "1 ſECOND", "1 SECONDſ",
        "1 mİnute", "1 DAY\u{0}", "1\u{0} DAY", "1:2 mınute TO second", "5 ſecond TO ſecond", "1:2:3 ſECOND TO x", "5 dayſ TO hour", "1-2 year TO month", "1-2 YEAR TO monthſ", "1-2 Year tO mOnth", "1:2 MINUTE to SECOND", "1:2 MıNUTE to SECOND",
    ] {
        cx.parse(Kind::Iv, t, "iv-text");
    }

    // ---------------------------------------------------------------- random valid values
    let n_rand = if thorough { 60_000 } else { 12_000 };
    {
        let mut r = Rng::new(seed, "c22/valid");
        for i in 0..n_rand {
            match i % 3 {
                0 => cx.roundtrip(&SqlValue::Date(random_date(&mut r)), "random-valid"),
                1 => cx.roundtrip(&SqlValue::Time(random_time(&mut r)), "random-valid"),
                _ => cx.roundtrip(&SqlValue::Timestamp(Timestamp { date: random_date(&mut r), time: random_time(&mut r) }), "random-valid"),
            }
        }
        // random intervals in the formats the parser knows
        for _ in 0..n_rand / 2 {
            let mag = |r: &mut Rng| -> i64 {
                match r.below(5) {
                    0 => r.range(-100, 100),
                    1 => r.range(-99_999_999, 99_999_999),
                    2 => r.range(-3_000_000_000, 3_000_000_000),
                    3 => r.range(-9_300_000_000_000, 9_300_000_000_000),
                    _ => r.next() as i64,
                }
            };
            let t = match r.below(9) {
                0 => format!("{} {}", mag(&mut r), r.pick(&UNITS[..19])),
                1 => format!("{}-{} YEAR TO MONTH", mag(&mut r), r.range(-20, 20)),
                2 => format!("{}:{}:{} HOUR TO SECOND", mag(&mut r), mag(&mut r), mag(&mut r)),
                3 => format!("{}:{}:{}.{} HOUR TO SECOND", r.range(0, 99), r.range(0, 59), r.range(0, 59), r.below(10_000_000)),
                4 => format!("{}.{} SECOND", mag(&mut r), r.below(100_000_000)),
                5 => format!("{} {}:{}:{} DAY TO SECOND", r.range(0, 400), r.range(0, 23), r.range(0, 59), r.range(0, 59)),
                6 => format!("{} DAY TO {}", mag(&mut r), r.pick(&["HOUR", "MINUTE", "SECOND"])),
                7 => format!("{}:{} {} TO {}", mag(&mut r), mag(&mut r), r.pick(&["HOUR", "MINUTE", "hour"]), r.pick(&["MINUTE", "SECOND", "second"])),
                _ => format!("{} {}", r.range(-178956975, 178956975), r.pick(&["YEAR", "YEARS", "year"])),
            };
            cx.parse(Kind::Iv, &t, "random-interval");
        }
    }

    // ---------------------------------------------------------------- hostile stream: mutated valid texts
    let n_host = if thorough { 400_000 } else { 60_000 };
    {
        let mut r = Rng::new(seed, "c22/hostile");
        let iv_seeds = [
            "5 YEAR", "18 MONTH", "30 DAYS", "24 HOUR", "90 MINUTES", "1.5 SECOND", "1-6 YEAR TO MONTH", "5 12:30:45 DAY TO SECOND", "12:30:45.123456 HOUR TO SECOND", "12:30 HOUR TO MINUTE",
            "178956970 YEAR", "2562047788 HOUR", "9223372036854.775807 SECOND", "2562047787:59:59.999999 HOUR TO SECOND",
        ];
        for i in 0..n_host {
            let which = r.below(10);
            let (kind, base) = match which {
                0 | 1 => (Kind::Date, random_date(&mut r).to_string()),
                2 | 3 => (Kind::Time, random_time(&mut r).to_string()),
                4 | 5 | 6 => {
                    let mut b = Timestamp { date: random_date(&mut r), time: random_time(&mut r) }.to_string();
                    if r.chance(1, 3) {
                        b = b.replacen(' ', "T", 1);
                    }
                    if r.chance(1, 2) {
                        let sufs: [&str; 9] = ["Z", "z", "+05:30", "-0800", "+01", "-12:00", "+1:30", "+é1:23", "+1é:2"];
                        b.push_str(*r.pick(&sufs));
                    }
                    (Kind::Ts, b)
                }
                _ => (Kind::Iv, r.pick(&iv_seeds).to_string()),
            };
            let mut t = mutate(&mut r, &base, &alpha);
            if r.chance(1, 12) {
                // replace one numeric field by a look-alike number
                let n = 1 + r.below(12) as usize;
                let repl = digits_mixed(&mut r, n);
                if let Some(p) = t.find(|c: char| c.is_ascii_digit()) {
                    let end = t[p..].find(|c: char| !c.is_ascii_digit()).map(|e| p + e).unwrap_or(t.len());
                    t.replace_range(p..end, &repl);
                }
            }
            cx.parse(kind, &t, "hostile");
            // a text of one type is also fed to the timestamp parser (it embeds the other two)
            if i % 4 == 0 && kind != Kind::Ts && kind != Kind::Iv {
                cx.parse(Kind::Ts, &t, "hostile-cross");
            }
        }
    }

    // ---------------------------------------------------------------- samples
    for (kind, t) in [(Kind::Date, "2024-02-31"), (Kind::Time, "23:59:59.000000001"), (Kind::Ts, "2024-01-05T01:02:03.5+05:30"), (Kind::Iv, "1-6 YEAR TO MONTH"), (Kind::Time, "00:00:00.ééééé"), (Kind::Iv, "200000000 YEAR")] {
        let o = parse_real(kind, t);
        cx.sum.sample(json!({"op": format!("{}::from_str", kind.name()), "text": t, "observed": format!("{:?}", o)}));
    }

    // ---------------------------------------------------------------- shards
    if cx.args.only.is_none() {
        let per = 7000usize;
        let head = "From Coq Require Import List ZArith String.\nImport ListNotations.\nOpen Scope string_scope.\nOpen Scope Z_scope.\nFrom VibeSQL Require Import Value.SqlValue Run.C22Run.\n";
        let mut k = 0usize;
        // shard 0: the unicode tables
        {
            let mut s = String::from(head);
            s.push_str(&format!("Definition ws_obs : list Z := [{}].\n", ws_obs.iter().map(|c| c.to_string()).collect::<Vec<_>>().join(";")));
            s.push_str("Definition up_obs : list (Z * list Z) := [\n");
            s.push_str(&up_obs.iter().map(|(c, u)| format!("({}, [{}])", c, u.chars().map(|x| (x as u32).to_string()).collect::<Vec<_>>().join(";"))).collect::<Vec<_>>().join(";\n"));
            s.push_str("].\nEval vm_compute in (c22_unicode_mismatches ws_obs up_obs).\n");
            write_shard(&cx.args, k, &s);
            k += 1;
            cx.sum.model_cases += 2 * 1_112_064;
        }
        let cases = std::mem::take(&mut cx.cases);
        let shows = std::mem::take(&mut cx.shows);
        for chunk in cases.chunks(per) {
            let mut s = String::from(head);
            s.push_str("Definition cases : list (Z * op * obs) := [\n");
            s.push_str(&chunk.join(";\n"));
            s.push_str("].\nEval vm_compute in (c22_mismatches cases []).\n");
            write_shard(&cx.args, k, &s);
            k += 1;
        }
        for chunk in shows.chunks(per * 2) {
            let mut s = String::from(head);
            s.push_str("Definition shows : list (Z * sqlvalue * text) := [\n");
            s.push_str(&chunk.join(";\n"));
            s.push_str("].\nEval vm_compute in (c22_mismatches [] shows).\n");
            write_shard(&cx.args, k, &s);
            k += 1;
        }
        cx.sum.model_cases += (cases.len() + shows.len()) as u64;
        cx.sum.count_n("shards", k as u64);
    }
    cx.sum.notes.push("harness binary is a debug build: i32/i64 overflow in parse_interval panics, as the model says".into());
    cx.sum.write(&cx.args);
}
