//! C01: executor vs the reference semantics on generated databases and queries.
use serde_json::json;
use vh::out::*;
use vh::qgen::*;
use vh::rng::Rng;
use vh::semrun::*;

fn main() {
    let args = parse_args();
    quiet_panics();
    let mut sum = Summary::default();
    sum.nontrivial_rule = "a case is (database, query); distinct = distinct (db text, SQL text); non-trivial = the executor returned rows or an error for a query over at least one non-empty table (every case also lists its syntactic features in the distribution)".into();
    let mut log = CaseLog::new(&args);
    let ndb = if args.thorough { 1000 } else { 320 };
    let per_db = 12;
    let nshards = 16;
    let mut shards: Vec<String> = (0..nshards).map(|_| String::from(SHARD_HEADER)).collect();
    let mut shard_lists: Vec<Vec<String>> = (0..nshards).map(|_| Vec::new()).collect();
    let mut id: u64 = 0;
    for k in 0..ndb {
        let mut r = Rng::new(args.seed, &format!("c01/db/{}", k));
        // size strata: the executor switches to vectorized / parallel / hash paths at ~100 rows
        // (per table or per join result), so some databases are larger
        let big = k % 8 == 7;
        let huge = k % 16 == 11;
        let dbdef = if huge { gen_db_sized(&mut r, 1, 100, 130) } else { gen_db(&mut r, 3, if big { 14 } else { 6 }) };
        let mut db = load_db(&dbdef);
        // every other database also has secondary indexes (results must not depend on them)
        let index_ddl = if k % 2 == 1 { add_random_indexes(&mut db, &dbdef, &mut r, "c01") } else { Vec::new() };
        if !index_ddl.is_empty() {
            sum.count("database:with-indexes");
        }
        let mut cases = Vec::new();
        for _ in 0..per_db {
            let depth = if huge || big { 1 + r.below(2) as usize } else { 1 + r.below(3) as usize };
            let (q, _tys) = {
                let cfg = if huge {
                    GenCfg { max_from: 1, joins: false, subqueries: false, ..GenCfg::default() }
                } else if big {
                    GenCfg { max_from: 2, ..GenCfg::default() }
                } else {
                    GenCfg::default()
                };
                let mut g = Gen { r: &mut r, db: &dbdef, cfg };
                g.query(depth)
            };
            let this = id;
            id += 1;
            if let Some(only) = &args.only {
                if !only.contains(&this) {
                    continue;
                }
            }
            let sql_text = to_sql(&q);
            let o = observe(&mut db, &sql_text);
            if is_timeout(&o) {
                // the executor's own 300 s statement timeout: no observation
                sum.count("skipped:query-timeout");
                continue;
            }
            sum.evaluations += 1;
            let mut feats = Vec::new();
            features(&q, &mut feats);
            feats.sort();
            feats.dedup();
            for f in &feats {
                sum.count(&format!("feature:{}", f));
            }
            sum.count(match &o {
                Obs::Rows(r) if r.is_empty() => "outcome:rows-empty",
                Obs::Rows(_) => "outcome:rows",
                Obs::Err(_) => "outcome:error",
                Obs::Panic(_) => "outcome:panic",
                Obs::Alien(_) => "outcome:alien-value",
            });
            if dbdef.tables.iter().any(|t| !t.rows.is_empty()) {
                sum.nontrivial(&format!("{}|{}", coq_db(&dbdef), sql_text));
            }
            let mut classes: Vec<&str> = Vec::new();
            if has_selfjoin_3way(&q) {
                classes.push("selfjoin-3way");
            }
            let case = json!({"classes": classes, "sql": sql_text, "create": create_sql(&dbdef), "tables": dbdef.tables.iter().map(|t| format!("{:?}", t.rows)).collect::<Vec<_>>(), "observed": obs_text(&o), "features": feats});
            match &o {
                Obs::Panic(m) => sum.finding("panic", this, format!("executor panicked: {}", m), case.clone()),
                Obs::Alien(m) => sum.finding("alien-value", this, format!("result value outside INTEGER/VARCHAR/BOOLEAN/NULL: {}", m), case.clone()),
                _ => {}
            }
            log.log(this, case.clone());
            if sum.samples.len() < 4 && matches!(o, Obs::Rows(ref r) if r.len() > 1) {
                sum.sample(case);
            }
            if args.only.is_some() {
                // replay: print what the reference computes next to what was observed
                let t = format!("{}Definition d : db := {}.\nEval vm_compute in (sem_expected d {}).\nEval vm_compute in (sem_mismatches [(d, [({}, {}, {})])]).\n", SHARD_HEADER, coq_db(&dbdef), coq_query(&q), this, coq_query(&q), coq_obs(&o));
                std::fs::write(args.out.join(format!("only_{}.v", this)), t).unwrap();
                println!("case {}: {}\n  tables: {:?}\n  observed: {}", this, sql_text, dbdef.tables.iter().map(|t| format!("{:?}", t.rows)).collect::<Vec<_>>(), obs_text(&o));
            }
            cases.push(format!("({}, {}, {})", this, coq_query(&q), coq_obs(&o)));
            sum.model_cases += 1;
        }
        if !cases.is_empty() {
            let s = k % nshards;
            let name = format!("db{}", k);
            shards[s].push_str(&format!("Definition {} : db := {}.\nDefinition cs{} : list (Z * query * obs) := [\n{}].\n", name, coq_db(&dbdef), k, cases.join(";\n")));
            shard_lists[s].push(format!("({}, cs{})", name, k));
        }
    }
    if args.only.is_none() {
        for s in 0..nshards {
            if shard_lists[s].is_empty() {
                continue;
            }
            shards[s].push_str(&format!("Eval vm_compute in (sem_mismatches [{}]).\n", shard_lists[s].join("; ")));
            write_shard(&args, s, &shards[s]);
        }
    }
    sum.write(&args);
}
