//! C18 — native save/load round-trips the database.
//!
//! (A) value level: every generated `SqlValue` goes through the real `write_sql_value` /
//!     `read_sql_value`; the bytes are compared with the model's image in Coq and the read-back value
//!     must be the original, bit for bit.
//! (B) database level: databases are built by DML histories (SQL through `vh::sql`, plus direct
//!     `insert_row` calls for values SQL text cannot express: NaN, infinities, -0.0, extreme integers,
//!     SMALLINT/UNSIGNED values), then saved with `save_binary`, `save_compressed`, `save_json` and
//!     loaded back.  Observation of a database = schema listing, row sequences by BITS, index
//!     definitions, and a battery of queries including index-driven ones (`WHERE col = k` on indexed
//!     columns).  The observation of every reloaded database must equal the original's (the property's
//!     own oracle); the binary file bytes and the reloaded content are also compared with the model.
use serde_json::json;
use std::collections::BTreeMap;
use std::panic::{catch_unwind, AssertUnwindSafe};
use vh::out::*;
use vh::rng::Rng;
use vh::sql::{exec, exec_stmt, Outcome};
use vh::val::*;
use vibesql_storage::{Database, Row};
use vibesql_types::{DataType, SqlValue};

// ---------------------------------------------------------------------------------------------
// printing for Coq
// ---------------------------------------------------------------------------------------------
fn coq_bvalue(v: &SqlValue) -> String {
    match v {
        SqlValue::Interval(iv) => format!("(BInterval {})", bytes_lit(iv.value.as_bytes())),
        other => format!("(BV {})", coq_value(other)),
    }
}

fn coq_dtype(t: &DataType) -> String {
    match t {
        DataType::Integer => "TInteger".into(),
        DataType::Smallint => "TSmallint".into(),
        DataType::Bigint => "TBigint".into(),
        DataType::Unsigned => "TUnsigned".into(),
        DataType::Numeric { precision, scale } => format!("(TNumeric {} {})", precision, scale),
        DataType::Decimal { precision, scale } => format!("(TDecimal {} {})", precision, scale),
        DataType::Float { precision } => format!("(TFloat {})", precision),
        DataType::Real => "TReal".into(),
        DataType::DoublePrecision => "TDouble".into(),
        DataType::Character { length } => format!("(TChar {})", length),
        DataType::Varchar { max_length: Some(n) } => format!("(TVarchar (Some {}))", n),
        DataType::Varchar { max_length: None } => "(TVarchar None)".into(),
        DataType::CharacterLargeObject => "TClob".into(),
        DataType::Name => "TName".into(),
        DataType::Boolean => "TBoolean".into(),
        DataType::Date => "TDate".into(),
        DataType::Time { with_timezone } => format!("(TTime {})", with_timezone),
        DataType::Timestamp { with_timezone } => format!("(TTimestamp {})", with_timezone),
        DataType::Interval { start_field, .. } => format!("(TInterval {})", bytes_lit(format!("{:?}", start_field).as_bytes())),
        DataType::BinaryLargeObject => "TBlob".into(),
        DataType::Bit { length: Some(n) } => format!("(TBit (Some {}))", n),
        DataType::Bit { length: None } => "(TBit None)".into(),
        DataType::UserDefined { type_name } => format!("(TUserDefined {})", bytes_lit(type_name.as_bytes())),
        DataType::Null => "TNull".into(),
    }
}

fn coq_list(items: Vec<String>) -> String {
    format!("[{}]", items.join("; "))
}

/// tables of the current schema as Coq `table` terms, in `list_tables()` order
fn coq_tables(db: &Database) -> String {
    let mut ts = Vec::new();
    for name in db.list_tables() {
        if let Some(t) = db.get_table(&name) {
            let cols: Vec<String> = t.schema.columns.iter().map(|c| format!("mkCol {} {} {}", bytes_lit(c.name.as_bytes()), coq_dtype(&c.data_type), c.nullable)).collect();
            let zero = t.schema.columns.is_empty();
            let rows: Vec<String> = if zero { vec![] } else { t.scan().iter().map(|r| coq_list(r.values.iter().map(coq_bvalue).collect())).collect() };
            ts.push(format!("mkTable {} {} {} {}", bytes_lit(name.as_bytes()), coq_list(cols), coq_list(rows), if zero { t.row_count() } else { 0 }));
        }
    }
    coq_list(ts)
}

fn index_count(db: &Database, name: &str) -> i64 {
    match db.get_index_data(name) {
        Some(vibesql_storage::IndexData::InMemory { data }) => data.values().map(|v| v.len() as i64).sum(),
        Some(_) => -1,
        None => -2,
    }
}

fn coq_db(db: &Database) -> String {
    let schemas: Vec<String> = db.catalog.list_schemas().into_iter().filter(|s| s != "public").map(|s| bytes_lit(s.as_bytes())).collect();
    let roles: Vec<String> = db.catalog.list_roles().into_iter().map(|s| bytes_lit(s.as_bytes())).collect();
    let mut idx = Vec::new();
    for n in db.list_indexes() {
        if let Some(m) = db.get_index(&n) {
            let cols: Vec<String> = m.columns.iter().map(|c| format!("({}, {})", bytes_lit(c.column_name.as_bytes()), if matches!(c.direction, vibesql_ast::OrderDirection::Desc) { 1 } else { 0 })).collect();
            idx.push(format!("mkIndex {} {} {} {} []", bytes_lit(n.as_bytes()), bytes_lit(m.table_name.as_bytes()), m.unique, coq_list(cols)));
        }
    }
    format!("(mkDb {} {} {} {} [])", coq_list(schemas), coq_list(roles), coq_tables(db), coq_list(idx))
}

fn coq_db_obs(db: &Database) -> String {
    let schemas: Vec<String> = db.catalog.list_schemas().into_iter().filter(|s| s != "public").map(|s| bytes_lit(s.as_bytes())).collect();
    let roles: Vec<String> = db.catalog.list_roles().into_iter().map(|s| bytes_lit(s.as_bytes())).collect();
    let mut idx = Vec::new();
    for n in db.list_indexes() {
        if let Some(m) = db.get_index(&n) {
            let cols: Vec<String> = m.columns.iter().map(|c| format!("({}, {})", bytes_lit(c.column_name.as_bytes()), if matches!(c.direction, vibesql_ast::OrderDirection::Desc) { 1 } else { 0 })).collect();
            idx.push(format!("mkIndexObs {} {} {} {} {}", bytes_lit(n.as_bytes()), bytes_lit(m.table_name.as_bytes()), m.unique, coq_list(cols), zlit(index_count(db, &n) as i128)));
        }
    }
    format!("(mkDbObs {} {} {} {})", coq_list(schemas), coq_list(roles), coq_tables(db), coq_list(idx))
}

// ---------------------------------------------------------------------------------------------
// observation of a database (the property's own notion of "the same database")
// ---------------------------------------------------------------------------------------------
fn bits(v: &SqlValue) -> String {
    coq_bvalue(v)
}

fn sql_literal(v: &SqlValue) -> Option<String> {
    match v {
        SqlValue::Integer(i) | SqlValue::Bigint(i) if *i >= 0 => Some(i.to_string()),
        SqlValue::Varchar(s) | SqlValue::Character(s) if !s.contains('\\') && !s.contains('\n') && !s.contains('\u{0}') => Some(format!("'{}'", s.replace('\'', "''"))),
        SqlValue::Boolean(b) => Some(if *b { "TRUE".into() } else { "FALSE".into() }),
        SqlValue::Date(d) if d.year >= 0 => Some(format!("DATE '{}'", d)),
        _ => None,
    }
}

#[derive(PartialEq, Eq, Clone, Debug, Default)]
struct Observation {
    schema: Vec<String>,  // one line per table: name(col type nullable, ...)
    rows: Vec<String>,    // one line per table: name: row;row;...
    indexes: Vec<String>, // name ON table (cols) unique
    queries: Vec<(String, String)>,
    index_queries: Vec<(String, String)>, // queries whose WHERE column is indexed
}

fn run_query(db: &mut Database, q: &str, ordered: bool) -> String {
    match exec(db, q) {
        Outcome::Rows(r) => {
            let mut v: Vec<String> = r.iter().map(|row| row.iter().map(bits).collect::<Vec<_>>().join(",")).collect();
            if !ordered {
                v.sort();
            }
            format!("rows[{}]", v.join(" | "))
        }
        o => o.tag(),
    }
}

/// `battery` is computed once from the ORIGINAL database so that original and reloaded databases are
/// asked exactly the same questions
fn battery(db: &Database) -> (Vec<String>, Vec<String>) {
    let (mut plain, mut indexed) = (Vec::new(), Vec::new());
    let idx_cols: Vec<(String, String)> = db
        .list_indexes()
        .iter()
        .filter_map(|n| db.get_index(n).map(|m| (m.table_name.to_uppercase(), m.columns[0].column_name.to_uppercase())))
        .collect();
    let mut names = db.list_tables();
    names.sort();
    for name in names {
        let Some(t) = db.get_table(&name) else { continue };
        plain.push(format!("SELECT * FROM {}", name));
        plain.push(format!("SELECT COUNT(*) FROM {}", name));
        for (ci, c) in t.schema.columns.iter().enumerate() {
            let is_idx = idx_cols.iter().any(|(tn, cn)| *tn == name.to_uppercase() && *cn == c.name.to_uppercase());
            let mut seen = 0;
            for r in t.scan() {
                if let Some(l) = sql_literal(&r.values[ci]) {
                    let q = format!("SELECT * FROM {} WHERE {} = {}", name, c.name, l);
                    if is_idx {
                        if !indexed.contains(&q) {
                            indexed.push(q);
                            seen += 1;
                        }
                    } else if ci == 0 && !plain.contains(&q) {
                        plain.push(q);
                        seen += 1;
                    }
                }
                if seen >= 3 {
                    break;
                }
            }
            if is_idx {
                indexed.push(format!("SELECT * FROM {} WHERE {} = 987654", name, c.name));
                indexed.push(format!("SELECT COUNT(*) FROM {} WHERE {} IS NOT NULL", name, c.name));
            }
        }
    }
    (plain, indexed)
}

fn observe(db: &mut Database, bat: &(Vec<String>, Vec<String>)) -> Observation {
    let mut o = Observation::default();
    let mut names = db.list_tables();
    names.sort();
    for name in &names {
        if let Some(t) = db.get_table(name) {
            let cols: Vec<String> = t.schema.columns.iter().map(|c| format!("{} {:?} {}", c.name, c.data_type, c.nullable)).collect();
            o.schema.push(format!("{}({})", name, cols.join(", ")));
            let rows: Vec<String> = t.scan().iter().map(|r| r.values.iter().map(bits).collect::<Vec<_>>().join(",")).collect();
            o.rows.push(format!("{}: {}", name, rows.join(" ; ")));
        }
    }
    let mut sch: Vec<String> = db.catalog.list_schemas();
    sch.sort();
    o.schema.push(format!("schemas {:?}", sch));
    let mut ro = db.catalog.list_roles();
    ro.sort();
    o.schema.push(format!("roles {:?}", ro));
    let mut idx: Vec<String> = db
        .list_indexes()
        .iter()
        .filter_map(|n| {
            db.get_index(n).map(|m| format!("{} ON {} ({}) unique={}", n, m.table_name, m.columns.iter().map(|c| format!("{} {:?}", c.column_name, c.direction)).collect::<Vec<_>>().join(","), m.unique))
        })
        .collect();
    idx.sort();
    o.indexes = idx;
    for q in &bat.0 {
        o.queries.push((q.clone(), run_query(db, q, q.starts_with("SELECT * FROM") && !q.contains("WHERE"))));
    }
    for q in &bat.1 {
        o.index_queries.push((q.clone(), run_query(db, q, false)));
    }
    o
}

// ---------------------------------------------------------------------------------------------
// database generator
// ---------------------------------------------------------------------------------------------
#[derive(Clone)]
struct ColSpec {
    name: String,
    sql_type: &'static str,
    nullable: bool,
}

const TYPES_COMMON: &[&str] = &["INTEGER", "BIGINT", "DOUBLE PRECISION", "REAL", "VARCHAR(12)", "VARCHAR", "CHAR(4)", "BOOLEAN", "DATE", "TIME", "TIMESTAMP", "NUMERIC(10,2)", "FLOAT(24)", "SMALLINT", "UNSIGNED", "DECIMAL(8,3)", "TEXT"];
const TYPES_RARE: &[&str] = &["INTERVAL DAY", "TIME WITH TIME ZONE", "TIMESTAMP WITH TIME ZONE", "NAME", "BIT", "BLOB", "TINYINT"];

fn gen_value(r: &mut Rng, ty: &DataType, exotic: bool) -> SqlValue {
    use vibesql_types::{Date, Time, Timestamp};
    let date = |r: &mut Rng| Date { year: if exotic && r.chance(1, 6) { *r.pick(&[0, 1, 9999, 12345]) } else { r.range(1990, 2030) as i32 }, month: r.range(1, 12) as u8, day: r.range(1, 28) as u8 };
    let time = |r: &mut Rng| Time { hour: r.range(0, 23) as u8, minute: r.range(0, 59) as u8, second: r.range(0, 59) as u8, nanosecond: *r.pick(&[0u32, 0, 500_000_000, 1, 999_999_999, 120_000]) };
    match ty {
        DataType::Integer => SqlValue::Integer(if exotic { random_i64(r) } else { r.range(0, 50) }),
        DataType::Bigint => SqlValue::Bigint(if exotic { random_i64(r) } else { r.range(0, 50) }),
        DataType::Smallint => SqlValue::Smallint(if exotic { random_i64(r) as i16 } else { r.range(0, 50) as i16 }),
        DataType::Unsigned => SqlValue::Unsigned(if exotic { random_i64(r) as u64 } else { r.range(0, 50) as u64 }),
        DataType::Numeric { .. } | DataType::Decimal { .. } => SqlValue::Numeric(if exotic { f64::from_bits(random_f64_bits(r)) } else { r.range(0, 400) as f64 / 4.0 }),
        DataType::Float { .. } => SqlValue::Float(if exotic { f32::from_bits(random_f32_bits(r)) } else { r.range(0, 400) as f32 / 4.0 }),
        DataType::Real => SqlValue::Real(if exotic { f32::from_bits(random_f32_bits(r)) } else { r.range(0, 400) as f32 / 4.0 }),
        DataType::DoublePrecision => SqlValue::Double(if exotic { f64::from_bits(random_f64_bits(r)) } else { r.range(0, 400) as f64 / 4.0 }),
        DataType::Character { length } => {
            let s = random_string(r);
            // keep direct-API values inside what Table::insert accepts without slicing inside a character
            let s: String = if exotic { s } else { s.chars().filter(|c| c.is_ascii() && *c != '\u{0}').collect() };
            let s: String = s.chars().take(*length).collect();
            SqlValue::Character(if s.len() > *length { s.chars().filter(|c| c.is_ascii()).collect() } else { s })
        }
        DataType::Varchar { max_length } | DataType::Bit { length: max_length } => {
            let s = random_string(r);
            let lim = max_length.unwrap_or(64);
            let s: String = if s.len() > lim { s.chars().filter(|c| c.is_ascii()).take(lim).collect() } else { s };
            SqlValue::Varchar(s)
        }
        DataType::Name | DataType::CharacterLargeObject | DataType::BinaryLargeObject | DataType::UserDefined { .. } => SqlValue::Varchar(random_string(r)),
        DataType::Boolean => SqlValue::Boolean(r.chance(1, 2)),
        DataType::Date => SqlValue::Date(date(r)),
        DataType::Time { .. } => SqlValue::Time(time(r)),
        DataType::Timestamp { .. } => SqlValue::Timestamp(Timestamp { date: date(r), time: time(r) }),
        DataType::Interval { .. } => SqlValue::Interval(random_interval(r)),
        DataType::Null => SqlValue::Null,
    }
}

fn sql_of_value(v: &SqlValue) -> Option<String> {
    match v {
        SqlValue::Null => Some("NULL".into()),
        SqlValue::Integer(i) | SqlValue::Bigint(i) if *i >= 0 => Some(i.to_string()),
        SqlValue::Double(f) if f.is_finite() && *f >= 0.0 && *f == (*f * 4.0).round() / 4.0 && *f < 1e6 && f.to_bits() != 0x8000000000000000 => Some(format!("{:?}", f)),
        SqlValue::Varchar(s) | SqlValue::Character(s) if s.is_ascii() && !s.contains('\\') && !s.contains('\n') && !s.contains('\u{0}') => Some(format!("'{}'", s.replace('\'', "''"))),
        SqlValue::Boolean(b) => Some(if *b { "TRUE".into() } else { "FALSE".into() }),
        SqlValue::Date(d) if d.year >= 1000 && d.year <= 9999 => Some(format!("DATE '{}'", d)),
        SqlValue::Time(t) => Some(format!("TIME '{}'", t)),
        SqlValue::Timestamp(t) if t.date.year >= 1000 && t.date.year <= 9999 => Some(format!("TIMESTAMP '{}'", t)),
        _ => None,
    }
}

/// `normalize_for_comparison` of the index layer: every numeric variant as f64
fn index_norm(v: &SqlValue) -> SqlValue {
    match v {
        SqlValue::Integer(i) | SqlValue::Bigint(i) => SqlValue::Double(*i as f64),
        SqlValue::Smallint(i) => SqlValue::Double(*i as f64),
        SqlValue::Unsigned(u) => SqlValue::Double(*u as f64),
        SqlValue::Float(f) | SqlValue::Real(f) => SqlValue::Double(*f as f64),
        SqlValue::Numeric(f) | SqlValue::Double(f) => SqlValue::Double(*f),
        other => other.clone(),
    }
}

/// would this row (inserted through the storage API, which checks nothing) put a duplicate NULL-free key under a
/// UNIQUE index?  Such a state is not a database the SQL layer can produce and is not generated.
fn violates_unique(db: &Database, table_key: &str, vals: &[SqlValue]) -> bool {
    let Some(t) = db.get_table(table_key) else { return false };
    for n in db.list_indexes() {
        let Some(m) = db.get_index(&n) else { continue };
        if !m.unique || m.table_name.to_uppercase() != table_key.to_uppercase() {
            continue;
        }
        let idxs: Vec<usize> = m.columns.iter().filter_map(|c| t.schema.get_column_index(&c.column_name)).collect();
        // the value as Table::insert will store it (CHAR(n) padded / cut by characters, VARCHAR(n) cut)
        let stored = |i: usize| -> SqlValue {
            match (&vals[i], &t.schema.columns[i].data_type) {
                (SqlValue::Character(s), DataType::Character { length }) => {
                    let n = s.chars().count();
                    let mut out: String = s.chars().take(*length).collect();
                    if n < *length {
                        out.extend(std::iter::repeat(' ').take(*length - n));
                    }
                    SqlValue::Character(out)
                }
                (SqlValue::Varchar(s), DataType::Varchar { max_length: Some(m) }) if s.len() > *m => {
                    let mut e = *m;
                    while !s.is_char_boundary(e) {
                        e -= 1;
                    }
                    SqlValue::Varchar(s[..e].to_string())
                }
                (v, _) => v.clone(),
            }
        };
        let key: Vec<SqlValue> = idxs.iter().map(|&i| index_norm(&stored(i))).collect();
        if key.contains(&SqlValue::Null) {
            continue;
        }
        if t.scan().iter().any(|r| idxs.iter().map(|&i| index_norm(&r.values[i])).collect::<Vec<_>>() == key) {
            return true;
        }
    }
    false
}

struct Built {
    db: Database,
    history: Vec<String>,
}

fn build_db(r: &mut Rng, id: u64) -> Built {
    let mut db = Database::new();
    let mut hist: Vec<String> = Vec::new();
    let mut step = |db: &mut Database, s: String, hist: &mut Vec<String>| -> bool {
        use vibesql_ast::Statement;
        let ok = match vibesql_parser::Parser::parse_sql(&s) {
            Ok(Statement::CreateSchema(st)) => catch_unwind(AssertUnwindSafe(|| vibesql_executor::SchemaExecutor::execute_create_schema(&st, db).is_ok())).unwrap_or(false),
            Ok(st) => exec_stmt(db, &st).is_ok(),
            Err(_) => false,
        };
        hist.push(format!("{}{}", if ok { "" } else { "[failed] " }, s));
        ok
    };
    let ntab = 1 + r.below(3) as usize;
    let rare = id % 8 == 7;
    let mut tables: Vec<(String, Vec<ColSpec>)> = Vec::new();
    if r.chance(1, 6) {
        step(&mut db, format!("CREATE ROLE role{}", r.below(3)), &mut hist);
    }
    if r.chance(1, 8) {
        step(&mut db, "CREATE SCHEMA s2".to_string(), &mut hist);
    }
    for ti in 0..ntab {
        let ncol = 1 + r.below(5) as usize;
        let mut cols = Vec::new();
        for ci in 0..ncol {
            let ty = if rare && r.chance(1, 3) { *r.pick(TYPES_RARE) } else { *r.pick(TYPES_COMMON) };
            cols.push(ColSpec { name: format!("c{}", ci), sql_type: ty, nullable: !r.chance(1, 5) });
        }
        let name = format!("t{}", ti);
        let ddl = format!("CREATE TABLE {} ({})", name, cols.iter().map(|c| format!("{} {}{}", c.name, c.sql_type, if c.nullable { "" } else { " NOT NULL" })).collect::<Vec<_>>().join(", "));
        if step(&mut db, ddl, &mut hist) {
            tables.push((name, cols));
        }
    }
    if tables.is_empty() {
        return Built { db, history: hist };
    }
    let mut nidx = 0;
    let nops = 4 + r.below(14);
    for _ in 0..nops {
        let (tname, cols) = r.pick(&tables).clone();
        let key = tname.to_uppercase();
        let types: Vec<DataType> = match db.get_table(&key) {
            Some(t) => t.schema.columns.iter().map(|c| c.data_type.clone()).collect(),
            None => continue,
        };
        match r.below(10) {
            0..=4 => {
                // insert: SQL text when every value has a literal form, the row API otherwise
                let exotic = r.chance(1, 3);
                let vals: Vec<SqlValue> = types.iter().zip(cols.iter()).map(|(t, c)| if c.nullable && r.chance(1, 6) { SqlValue::Null } else { gen_value(r, t, exotic) }).collect();
                let lits: Option<Vec<String>> = vals.iter().map(sql_of_value).collect();
                let simple_types = types.iter().all(|t| matches!(t, DataType::Integer | DataType::Bigint | DataType::DoublePrecision | DataType::Varchar { .. } | DataType::Boolean | DataType::Date | DataType::Time { .. } | DataType::Timestamp { .. }));
                match lits {
                    Some(l) if simple_types && !exotic => {
                        step(&mut db, format!("INSERT INTO {} VALUES ({})", tname, l.join(", ")), &mut hist);
                    }
                    _ if violates_unique(&db, &key, &vals) => {
                        hist.push(format!("[skipped: duplicate key under a UNIQUE index] insert_row({}, {:?})", key, vals));
                    }
                    _ => {
                        let res = catch_unwind(AssertUnwindSafe(|| db.insert_row(&key, Row::new(vals.clone())).is_ok())).unwrap_or(false);
                        hist.push(format!("{}insert_row({}, {:?})", if res { "" } else { "[failed] " }, key, vals));
                    }
                }
            }
            5 => {
                if let Some((ci, _)) = types.iter().enumerate().find(|(_, t)| matches!(t, DataType::Integer | DataType::Bigint)) {
                    step(&mut db, format!("UPDATE {} SET {} = {} + 1 WHERE {} < {}", tname, cols[ci].name, cols[ci].name, cols[ci].name, r.range(0, 50)), &mut hist);
                }
            }
            6 => {
                if let Some((ci, _)) = types.iter().enumerate().find(|(_, t)| matches!(t, DataType::Integer | DataType::Bigint)) {
                    step(&mut db, format!("DELETE FROM {} WHERE {} = {}", tname, cols[ci].name, r.range(0, 50)), &mut hist);
                }
            }
            _ => {
                if nidx < 3 {
                    let c1 = r.pick(&cols).name.clone();
                    let mut spec = format!("{}{}", c1, if r.chance(1, 4) { " DESC" } else { "" });
                    if cols.len() > 1 && r.chance(1, 4) {
                        let c2 = r.pick(&cols).name.clone();
                        if c2 != c1 {
                            spec.push_str(&format!(", {}", c2));
                        }
                    }
                    if step(&mut db, format!("CREATE {}INDEX ix{}_{} ON {} ({})", if r.chance(1, 5) { "UNIQUE " } else { "" }, id % 1000, nidx, tname, spec), &mut hist) {
                        nidx += 1;
                    }
                }
            }
        }
    }
    Built { db, history: hist }
}

// ---------------------------------------------------------------------------------------------
// classification of a difference between the original and the reloaded observation
// ---------------------------------------------------------------------------------------------
fn supported_binary(t: &DataType) -> bool {
    !matches!(
        t,
        DataType::Interval { .. } | DataType::CharacterLargeObject | DataType::Name | DataType::BinaryLargeObject | DataType::Bit { .. } | DataType::UserDefined { .. } | DataType::Null | DataType::Time { with_timezone: true }
    )
}
fn supported_json(t: &DataType) -> bool {
    // json.rs: Decimal -> "DECIMAL" ok; Interval loses its fields; Bit(length) -> "BIT" is parsed as UserDefined; Name ok
    !matches!(t, DataType::Interval { .. } | DataType::Bit { .. } | DataType::UserDefined { .. } | DataType::Null)
}

/// the column type a loader is KNOWN to hand back for a type it does not preserve (None: load fails)
fn known_type_image(binary: bool, t: &DataType) -> Option<DataType> {
    if binary {
        match t {
            DataType::Time { with_timezone: true } => Some(DataType::Time { with_timezone: false }),
            DataType::Name => Some(DataType::Varchar { max_length: Some(128) }),
            t if supported_binary(t) => Some(t.clone()),
            _ => None,
        }
    } else {
        match t {
            DataType::Interval { .. } => Some(DataType::Interval { start_field: vibesql_types::IntervalField::Day, end_field: None }),
            DataType::Bit { .. } => Some(DataType::UserDefined { type_name: "BIT".into() }),
            DataType::UserDefined { type_name } if type_name.to_uppercase() == "BLOB" => Some(DataType::BinaryLargeObject),
            t => Some(t.clone()),
        }
    }
}

/// schema listing the reloaded database is expected to show, given the known type images
fn expected_schema(db: &Database, binary: bool, orig: &Observation) -> Vec<String> {
    let mut out = Vec::new();
    let mut names = db.list_tables();
    names.sort();
    for name in &names {
        if let Some(t) = db.get_table(name) {
            let cols: Vec<String> = t
                .schema
                .columns
                .iter()
                .map(|c| format!("{} {:?} {}", c.name, known_type_image(binary, &c.data_type).unwrap_or(c.data_type.clone()), c.nullable))
                .collect();
            out.push(format!("{}({})", name, cols.join(", ")));
        }
    }
    out.extend(orig.schema.iter().filter(|l| l.starts_with("schemas ") || l.starts_with("roles ")).cloned());
    out
}

struct Facts {
    has_index: bool,
    unsupported_bin: bool,
    unsupported_json: bool,
    nonfinite: bool,
    f32_cols: bool,
    has_other_schema: bool,
    nonascii_char: bool,
}

fn facts(db: &Database) -> Facts {
    let mut f = Facts { has_index: !db.list_indexes().is_empty(), unsupported_bin: false, unsupported_json: false, nonfinite: false, f32_cols: false, has_other_schema: db.catalog.list_schemas().len() > 1, nonascii_char: false };
    for n in db.list_tables() {
        if let Some(t) = db.get_table(&n) {
            for c in &t.schema.columns {
                f.unsupported_bin |= !supported_binary(&c.data_type);
                f.unsupported_json |= !supported_json(&c.data_type);
                f.f32_cols |= matches!(c.data_type, DataType::Real | DataType::Float { .. });
            }
            for r in t.scan() {
                for v in &r.values {
                    match v {
                        SqlValue::Double(x) | SqlValue::Numeric(x) => f.nonfinite |= !x.is_finite(),
                        SqlValue::Float(x) | SqlValue::Real(x) => f.nonfinite |= !x.is_finite(),
                        SqlValue::Character(s) => f.nonascii_char |= !s.is_ascii(),
                        _ => {}
                    }
                }
            }
        }
    }
    f
}

/// the value strings that differ between two row listings of identical shape (None: shapes differ)
fn value_diffs(a: &[String], b: &[String]) -> Option<Vec<(String, String)>> {
    if a.len() != b.len() {
        return None;
    }
    let mut out = Vec::new();
    for (ta, tb) in a.iter().zip(b.iter()) {
        let (ra, rb): (Vec<&str>, Vec<&str>) = (ta.split(" ; ").collect(), tb.split(" ; ").collect());
        if ra.len() != rb.len() {
            return None;
        }
        for (x, y) in ra.iter().zip(rb.iter()) {
            // values are separated by "),(" ; split conservatively on ",(B"
            let (vx, vy): (Vec<&str>, Vec<&str>) = (x.split(",(B").collect(), y.split(",(B").collect());
            if vx.len() != vy.len() {
                return None;
            }
            for (p, q) in vx.iter().zip(vy.iter()) {
                if p != q {
                    out.push((p.to_string(), q.to_string()));
                }
            }
        }
    }
    Some(out)
}

fn float_bits_of(s: &str) -> Option<(String, i128)> {
    for ctor in ["VNumeric ", "VDouble ", "VFloat ", "VReal "] {
        if let Some(p) = s.find(ctor) {
            let rest = &s[p + ctor.len()..];
            let digits: String = rest.chars().take_while(|c| c.is_ascii_digit()).collect();
            return digits.parse().ok().map(|n| (ctor.to_string(), n));
        }
    }
    None
}

fn char_bytes_of(s: &str) -> Option<Vec<u8>> {
    let p = s.find("VCharacter [")?;
    let rest = &s[p + "VCharacter [".len()..];
    let inner = &rest[..rest.find(']')?];
    if inner.is_empty() {
        return Some(vec![]);
    }
    inner.split(';').map(|x| x.trim().parse().ok()).collect()
}

fn classify(fmt: &str, f: &Facts, orig: &Observation, exp_schema: &[String], re: Result<&Observation, &str>) -> Option<(&'static str, String)> {
    let binary = fmt != "json";
    match re {
        Err(msg) => {
            let cls = if msg.starts_with("PANIC") {
                "reload-panic"
            } else if binary && f.unsupported_bin && msg.contains("Unsupported data type") {
                "binary-unsupported-column-type"
            } else if !binary && f.nonfinite && msg.contains("NullConstraintViolation") {
                "json-nonfinite-float"
            } else if !binary && f.unsupported_json && msg.contains("Unsupported JSON value") && (msg.contains("UserDefined") || msg.contains("BinaryLargeObject")) {
                "json-unsupported-column-type"
            } else {
                "reload-error"
            };
            Some((cls, format!("{}: saving succeeded but loading the file failed: {}", fmt, msg.chars().take(200).collect::<String>())))
        }
        Ok(o) => {
            if o == orig {
                return None;
            }
            let what = if o.schema != orig.schema {
                format!("schema listing differs: {:?} vs {:?}", orig.schema, o.schema)
            } else if o.rows != orig.rows {
                let mut d = String::new();
                for (a, b) in orig.rows.iter().zip(o.rows.iter()) {
                    if a != b {
                        let (ra, rb): (Vec<&str>, Vec<&str>) = (a.split(" ; ").collect(), b.split(" ; ").collect());
                        if ra.len() != rb.len() {
                            d = format!("{} rows vs {} rows in {}", ra.len(), rb.len(), a.split(':').next().unwrap_or(""));
                        } else if let Some((i, (x, y))) = ra.iter().zip(rb.iter()).enumerate().find(|(_, (x, y))| x != y) {
                            d = format!("{} row {}: {} vs {}", a.split(':').next().unwrap_or(""), i, x, y);
                        }
                        break;
                    }
                }
                format!("rows differ: {}", d)
            } else if o.indexes != orig.indexes {
                format!("index definitions differ: {:?} vs {:?}", orig.indexes, o.indexes)
            } else if o.queries != orig.queries {
                let d = orig.queries.iter().zip(o.queries.iter()).find(|(a, b)| a != b).map(|(a, b)| format!("{} : {} vs {}", a.0, a.1, b.1)).unwrap_or_default();
                format!("query results differ: {}", d)
            } else {
                let d = orig.index_queries.iter().zip(o.index_queries.iter()).find(|(a, b)| a != b).map(|(a, b)| format!("{} : {} vs {}", a.0, a.1, b.1)).unwrap_or_default();
                format!("index-driven query results differ: {}", d)
            };
            let only_index_queries = o.schema == orig.schema && o.rows == orig.rows && o.indexes == orig.indexes && o.queries == orig.queries;
            let diffs = if o.schema == orig.schema { value_diffs(&orig.rows, &o.rows) } else { None };
            let all_diffs = |p: &dyn Fn(&str, &str) -> bool| diffs.as_ref().map(|d| !d.is_empty() && d.iter().all(|(a, b)| p(a, b))).unwrap_or(false);
            // a CHAR(n) value holding non-ASCII text was padded by characters and is cut by bytes on reload
            let char_renorm = |a: &str, b: &str| match (char_bytes_of(a), char_bytes_of(b)) {
                (Some(x), Some(y)) => x.iter().any(|c| *c >= 128) && y.len() < x.len() && x.starts_with(&y),
                _ => false,
            };
            // serde_json's default float parser is not correctly rounded: last-place differences
            let float_ulp = |a: &str, b: &str| match (float_bits_of(a), float_bits_of(b)) {
                (Some((ca, x)), Some((cb, y))) => ca == cb && (x - y).abs() <= 2,
                _ => false,
            };
            let nonfinite_to_null = |a: &str, b: &str| b.contains("VNull") && float_bits_of(a).is_some();
            // every differing value must be explained by one of the listed causes; the class is the first cause
            let cause = |a: &str, b: &str| -> Option<&'static str> {
                if f.nonascii_char && char_renorm(a, b) {
                    Some("char-nonascii-renormalized")
                } else if !binary && float_ulp(a, b) {
                    Some("json-float-last-place")
                } else if !binary && f.nonfinite && nonfinite_to_null(a, b) {
                    Some("json-nonfinite-float")
                } else {
                    None
                }
            };
            let explained: Option<&'static str> = match &diffs {
                Some(d) if !d.is_empty() && d.iter().all(|(a, b)| cause(a, b).is_some()) => cause(&d[0].0, &d[0].1),
                _ => None,
            };
            let _ = &all_diffs;
            let cls = if let (true, Some(c)) = (o.rows != orig.rows, explained) {
                c
            } else if only_index_queries && binary && f.has_index {
                "binary-load-empty-index"
            } else if o.schema != orig.schema && binary && f.unsupported_bin && o.schema == exp_schema {
                "binary-unsupported-column-type"
            } else if o.schema != orig.schema && !binary && f.unsupported_json && o.schema == exp_schema {
                "json-unsupported-column-type"
            } else if o.rows != orig.rows && !binary && f.nonfinite && o.schema == orig.schema {
                "json-nonfinite-float"
            } else {
                "roundtrip-mismatch"
            };
            Some((cls, format!("{}: {}", fmt, what.chars().take(400).collect::<String>())))
        }
    }
}

/// observed JSON cell as a Coq `jobs` term
fn coq_jobs(v: &serde_json::Value) -> Option<String> {
    match v {
        serde_json::Value::Null => Some("ONull".into()),
        serde_json::Value::Bool(b) => Some(format!("(OBool {})", b)),
        serde_json::Value::Number(n) => {
            if let Some(i) = n.as_i64() {
                Some(format!("(OInt {})", zlit(i as i128)))
            } else if let Some(u) = n.as_u64() {
                Some(format!("(OInt {})", zlit(u as i128)))
            } else {
                Some("OFloat".into())
            }
        }
        serde_json::Value::String(s) => Some(format!("(OStr {})", bytes_lit(s.as_bytes()))),
        _ => None,
    }
}

/// cells of the JSON file as (table, row index, column name) -> value, by walking the document
fn json_cells(text: &str) -> Vec<(String, usize, String, serde_json::Value)> {
    let mut out = Vec::new();
    let Ok(doc) = serde_json::from_str::<serde_json::Value>(text) else { return out };
    for t in doc["tables"].as_array().cloned().unwrap_or_default() {
        let name = t["name"].as_str().unwrap_or("").to_string();
        for (ri, row) in t["rows"].as_array().cloned().unwrap_or_default().iter().enumerate() {
            if let Some(m) = row.as_object() {
                for (k, v) in m {
                    out.push((name.clone(), ri, k.clone(), v.clone()));
                }
            }
        }
    }
    out
}

fn load_guard<F: FnOnce() -> Result<Database, vibesql_storage::StorageError>>(f: F) -> Result<Database, String> {
    match catch_unwind(AssertUnwindSafe(f)) {
        Ok(Ok(d)) => Ok(d),
        Ok(Err(e)) => Err(format!("{:?}", e)),
        Err(_) => Err("PANIC while loading".into()),
    }
}

fn main() {
    let args = parse_args();
    quiet_panics();
    let mut sum = Summary::default();
    sum.nontrivial_rule = "value case: a SqlValue with the bytes of write_sql_value and its read-back (non-trivial: not NULL); database case: a database built by a DML history, saved and reloaded in three formats (non-trivial: at least one table with at least one row); distinct by printed value / by printed history".into();
    let mut log = CaseLog::new(&args);
    let tmp = args.out.join("tmp");
    std::fs::create_dir_all(&tmp).unwrap();
    let only = args.only.clone();
    let want = |id: u64| only.as_ref().map(|v| v.contains(&id)).unwrap_or(true);

    // ------------------------------------------------------------------ (A) values
    let mut vals: Vec<SqlValue> = boundary_values();
    {
        let mut r = Rng::new(args.seed, "c18/values");
        for _ in 0..(if args.thorough { 20000 } else { 3000 }) {
            vals.push(random_value(&mut r));
        }
        // long strings and strings with every kind of UTF-8 sequence length
        for n in [255usize, 256, 65535, 65536, 70000] {
            vals.push(SqlValue::Varchar("x".repeat(n)));
        }
        vals.push(SqlValue::Varchar("\u{7f}\u{80}\u{7ff}\u{800}\u{ffff}\u{10000}\u{10ffff}".into()));
    }
    let per_shard = 800usize;
    let mut shard_no = 0usize;
    let value_base: u64 = 1_000_000;
    for (k, chunk) in vals.chunks(per_shard).enumerate() {
        let mut lines = Vec::new();
        for (j, v) in chunk.iter().enumerate() {
            let id = value_base + (k * per_shard + j) as u64;
            if !want(id) {
                continue;
            }
            sum.evaluations += 1;
            sum.count(&format!("value_{}", v.type_name()));
            let mut buf = Vec::new();
            vibesql_storage::persistence::binary::value::write_sql_value(&mut buf, v).expect("write to Vec");
            let back = catch_unwind(AssertUnwindSafe(|| {
                let mut rd = &buf[..];
                vibesql_storage::persistence::binary::value::read_sql_value(&mut rd).map(|x| (x, rd.len()))
            }));
            if !v.is_null() {
                sum.nontrivial(&coq_bvalue(v));
            }
            let case = || json!({"value": format!("{:?}", v), "coq": coq_bvalue(v), "bytes": buf.iter().take(80).collect::<Vec<_>>()});
            match back {
                Ok(Ok((x, left))) => {
                    if coq_bvalue(&x) != coq_bvalue(v) || left != 0 {
                        sum.finding("value-roundtrip-mismatch", id, format!("read back {:?} ({} bytes left) for {:?}", x, left, v), case());
                    }
                }
                Ok(Err(e)) => {
                    let neg_year = matches!(v, SqlValue::Date(d) if d.year < 0) || matches!(v, SqlValue::Timestamp(t) if t.date.year < 0);
                    sum.finding(if neg_year { "negative-year-text-not-reparsed" } else { "value-roundtrip-error" }, id, format!("read_sql_value failed on the bytes write_sql_value produced for {:?}: {:?}", v, e), case());
                    log.log(id, case());
                }
                Err(_) => {
                    sum.finding("value-roundtrip-panic", id, format!("read_sql_value panicked on the bytes written for {:?}", v), case());
                    log.log(id, case());
                }
            }
            if buf.len() <= 400 {
                lines.push(format!("({}, {})", coq_bvalue(v), bytes_lit(&buf)));
            } else {
                // long strings: checked on the Rust side only (prefix + length)
                let l = match v {
                    SqlValue::Varchar(s) | SqlValue::Character(s) => s.len(),
                    _ => 0,
                };
                if buf[1..5] != (l as u32).to_le_bytes() || buf.len() != 5 + l {
                    sum.finding("value-roundtrip-mismatch", id, "long string image has a wrong length prefix".into(), case());
                }
            }
            if j < 2 && k < 3 {
                sum.sample(case());
            }
        }
        if only.is_none() && !lines.is_empty() {
            let mut s = String::from("From Coq Require Import List ZArith.\nImport ListNotations.\nOpen Scope Z_scope.\nFrom VibeSQL Require Import Value.SqlValue Codec.BinValue Run.C18Run.\n");
            s.push_str("Definition cases : list (bvalue * list Z) := [\n");
            s.push_str(&lines.join(";\n"));
            s.push_str(&format!("].\nEval vm_compute in (c18_value_check {} cases).\n", value_base + (k * per_shard) as u64));
            write_shard(&args, shard_no, &s);
            shard_no += 1;
            sum.model_cases += lines.len() as u64;
        }
    }

    // ------------------------------------------------------------------ (B) databases
    let ndb: u64 = if args.thorough { 4000 } else { 600 };
    let mut json_lines: Vec<String> = Vec::new();
    let mut json_seen: std::collections::HashSet<String> = Default::default();
    let mut shard_text = String::new();
    let mut in_shard = 0;
    let flush = |text: &mut String, n: &mut usize, shard_no: &mut usize| {
        if *n > 0 {
            let mut s = String::from("From Coq Require Import List ZArith.\nImport ListNotations.\nOpen Scope Z_scope.\nFrom VibeSQL Require Import Value.SqlValue Codec.BinValue Codec.BinType Codec.BinFile Run.C18Run.\n");
            s.push_str("Eval vm_compute in (\n");
            s.push_str(text);
            s.push_str("[]).\n");
            write_shard(&args, *shard_no, &s);
            *shard_no += 1;
            text.clear();
            *n = 0;
        }
    };
    for k in 0..ndb {
        let id = 2 * k; // id: byte image, id+1: reload
        if !(want(id) || want(id + 1)) {
            continue;
        }
        let mut r = Rng::new(args.seed, &format!("c18/db/{}", k));
        let Built { mut db, history } = build_db(&mut r, k);
        sum.evaluations += 1;
        let total_rows: usize = db.list_tables().iter().filter_map(|n| db.get_table(n).map(|t| t.row_count())).sum();
        if total_rows > 0 {
            sum.nontrivial(&history.join("\n"));
        }
        sum.count(&format!("tables_{}", db.list_tables().len()));
        sum.count(&format!("rows_{}", if total_rows > 9 { "10+".to_string() } else { total_rows.to_string() }));
        sum.count(&format!("indexes_{}", db.list_indexes().len()));
        let f = facts(&db);
        let bat = battery(&db);
        let orig = observe(&mut db, &bat);
        let case = |fmt: &str| json!({"db": k, "format": fmt, "history": history});
        let pb = tmp.join("d.vbsql");
        let pz = tmp.join("d.vbsqlz");
        let pj = tmp.join("d.json");
        // binary
        let mut reload_code = 1;
        let mut reload_obs = String::from("(mkDbObs [] [] [] [])");
        let mut file_bytes: Vec<u8> = Vec::new();
        for (fmt, path) in [("binary", &pb), ("compressed", &pz), ("json", &pj)] {
            let saved = catch_unwind(AssertUnwindSafe(|| match fmt {
                "binary" => db.save_binary(path),
                "compressed" => db.save_compressed(path),
                _ => db.save_json(path),
            }));
            match saved {
                Ok(Ok(())) => {}
                Ok(Err(e)) => {
                    sum.finding("save-error", id, format!("{}: save failed: {:?}", fmt, e), case(fmt));
                    log.log(id, case(fmt));
                    continue;
                }
                Err(_) => {
                    sum.finding("save-panic", id, format!("{}: save panicked", fmt), case(fmt));
                    log.log(id, case(fmt));
                    continue;
                }
            }
            let loaded = load_guard(|| match fmt {
                "binary" => Database::load_binary(path),
                "compressed" => Database::load_compressed(path),
                _ => Database::load_json(path),
            });
            sum.count(&format!("{}_{}", fmt, if loaded.is_ok() { "reloaded" } else { "reload_failed" }));
            let verdict = match loaded {
                Ok(mut d2) => {
                    if fmt == "binary" {
                        reload_code = 0;
                        reload_obs = coq_db_obs(&d2);
                    }
                    if fmt == "json" && only.is_none() {
                        // JSON tie: every cell of the file vs the model's sql_value_to_json, and the reloaded cell
                        let text = std::fs::read_to_string(path).unwrap_or_default();
                        for (tname, ri, cname, jv) in json_cells(&text) {
                            let (Some(t1), Some(t2)) = (db.get_table(&tname), d2.get_table(&tname)) else { continue };
                            let Some(ci) = t1.schema.columns.iter().position(|c| c.name == cname) else { continue };
                            let (Some(r1), r2) = (t1.scan().get(ri), t2.scan().get(ri)) else { continue };
                            let Some(job) = coq_jobs(&jv) else { continue };
                            let same_shape = t1.row_count() == t2.row_count() && t1.schema.columns.len() == t2.schema.columns.len();
                            let re = match r2 {
                                Some(r) if same_shape => format!("(Some {})", coq_bvalue(&r.values[ci])),
                                _ => "None".to_string(),
                            };
                            let line = format!("({}, {}, {}, {})", coq_bvalue(&r1.values[ci]), coq_dtype(&t1.schema.columns[ci].data_type), job, re);
                            if json_seen.insert(line.clone()) {
                                json_lines.push(line);
                            }
                        }
                    }
                    let o2 = observe(&mut d2, &bat);
                    classify(fmt, &f, &orig, &expected_schema(&db, fmt != "json", &orig), Ok(&o2))
                }
                Err(e) => {
                    if fmt == "binary" {
                        reload_code = if e.starts_with("PANIC") { 2 } else { 1 };
                    }
                    classify(fmt, &f, &orig, &[], Err(&e))
                }
            };
            if fmt == "binary" {
                file_bytes = std::fs::read(path).unwrap_or_default();
            }
            if let Some((cls, what)) = verdict {
                sum.finding(cls, id, what, case(fmt));
                log.log(id, case(fmt));
            }
        }
        if k < 3 {
            sum.sample(json!({"history": history, "observation": {"schema": orig.schema, "rows": orig.rows, "indexes": orig.indexes, "index_queries": orig.index_queries.iter().take(3).collect::<Vec<_>>()}}));
        }
        if only.is_none() && !file_bytes.is_empty() && file_bytes.len() < 20000 {
            shard_text.push_str(&format!("c18_db_check {} {} {} {} {} ++\n", id, coq_db(&db), bytes_lit(&file_bytes), reload_code, reload_obs));
            in_shard += 1;
            sum.model_cases += 2;
            if in_shard >= 50 {
                flush(&mut shard_text, &mut in_shard, &mut shard_no);
            }
        }
    }
    flush(&mut shard_text, &mut in_shard, &mut shard_no);
    let json_base: u64 = 3_000_000;
    for (k, chunk) in json_lines.chunks(1500).enumerate() {
        let mut s = String::from("From Coq Require Import List ZArith.\nImport ListNotations.\nOpen Scope Z_scope.\nFrom VibeSQL Require Import Value.SqlValue Codec.BinValue Codec.BinType Run.C18Run.\n");
        s.push_str("Definition cases : list (bvalue * dtype * jobs * option bvalue) := [\n");
        s.push_str(&chunk.join(";\n"));
        s.push_str(&format!("].\nEval vm_compute in (c18_json_check {} cases).\n", json_base + (k * 1500) as u64));
        write_shard(&args, shard_no, &s);
        shard_no += 1;
        sum.model_cases += chunk.len() as u64;
        sum.count_n("json_cells_compared", chunk.len() as u64);
    }
    sum.write(&args);
}
