//! C34 correspondence + property oracle: row triggers fire once per affected row with the right row images.
//!
//! Trigger definitions (timing x event x granularity x UPDATE OF x WHEN x enabled) on a subject table under
//! single-row / multi-row / zero-row INSERT (VALUES, SELECT through both paths), UPDATE and DELETE.  Every trigger
//! body writes (trigger id, OLD image, NEW image) into an audit table; the audit table's new rows are
//!   * compared in sequence with the model's firing list inside Coq (Run/C34Run.v), together with every table, and
//!   * compared by the oracle below with the specification list computed by the harness's own evaluator: one entry
//!     per enabled matching trigger and affected row (statement triggers: one per statement, also for zero rows),
//!     BEFORE entries of a row in front of its AFTER entries, WHEN / UPDATE OF gating, and a failing trigger must
//!     leave the subject table unchanged.
#[path = "../c11_c34.rs"]
mod dm;
use dm::*;
use serde_json::json;
use std::collections::BTreeMap;
use vh::out::*;
use vh::rng::Rng;
use vh::sql::Outcome;

const CHILD: usize = 2;

struct Scenario {
    case: Case,
    kind: &'static str,
    audit: bool,        // every trigger on the subject table has an audit-first body and nothing else writes AUD
    fail_planted: bool, // a trigger with a failing body / failing WHEN exists
    fail_timing: Option<(Timing, Gran)>,
    child_cascade: bool,
    recursive: bool,
}

fn shuffled(r: &mut Rng, mut v: Vec<i64>) -> Vec<i64> {
    for i in (1..v.len()).rev() {
        let j = r.below(i as u64 + 1) as usize;
        v.swap(i, j);
    }
    v
}

fn t0_row(r: &mut Rng, key: i64) -> Vec<Expr> {
    vec![lit(key), lit(r.range(0, 9)), if r.chance(1, 4) { null() } else { lit(r.range(0, 60)) }, if r.chance(1, 3) { null() } else { lit(r.range(0, 5)) }]
}

fn gen_when(r: &mut Rng, ev: &Ev, gran: Gran) -> Option<Cond> {
    if gran == Gran::Stmt {
        return if r.chance(1, 8) { Some(Cond::Cmp(Op::Eq, lit(1), lit(1))) } else { None };
    }
    let img = |r: &mut Rng, c: usize| -> Expr {
        match ev {
            Ev::Insert => Expr::New(c),
            Ev::Delete => Expr::Old(c),
            Ev::Update(_) => {
                if r.chance(1, 2) {
                    Expr::New(c)
                } else {
                    Expr::Old(c)
                }
            }
        }
    };
    match r.below(12) {
        0..=4 => None,
        5 => Some(Cond::Cmp(Op::Gt, img(r, 0), lit(r.range(10, 60)))),
        6 => Some(Cond::Cmp(Op::Lt, img(r, 1), lit(r.range(0, 9)))),
        7 => Some(Cond::IsNull(img(r, 2))),
        8 => Some(Cond::Not(Box::new(Cond::Cmp(Op::Eq, img(r, 3), lit(r.range(0, 5)))))), // UNKNOWN for NULL
        9 => Some(Cond::Or(Box::new(Cond::Cmp(Op::Ge, img(r, 0), lit(30))), Box::new(Cond::IsNull(img(r, 3))))),
        10 => Some(Cond::Cmp(Op::Gt, Expr::Col(0), lit(r.range(10, 40)))), // bare column: NEW row, or OLD for DELETE
        _ => match ev {
            Ev::Update(_) => Some(Cond::Cmp(Op::Ne, Expr::Old(1), Expr::New(1))),
            _ => Some(Cond::Const(Some(r.chance(1, 2)))),
        },
    }
}

fn gen_trig(r: &mut Rng, id: i64, kind_hint: u64) -> Trig {
    let ev = match (kind_hint + r.below(5)) % 4 {
        0 => Ev::Insert,
        1 => Ev::Delete,
        2 => Ev::Update(None),
        _ => {
            if r.chance(1, 2) {
                Ev::Update(Some(vec![1]))
            } else if r.chance(1, 2) {
                Ev::Update(Some(vec![2, 3]))
            } else {
                Ev::Update(None)
            }
        }
    };
    let timing = match r.below(9) {
        0..=3 => Timing::Before,
        4..=7 => Timing::After,
        _ => Timing::InsteadOf,
    };
    let gran = if r.chance(3, 4) { Gran::Row } else { Gran::Stmt };
    let when = gen_when(r, &ev, gran);
    Trig { id, table: 0, timing, event: ev.clone(), gran, when, enabled: !r.chance(1, 8), body: vec![audit_body(id, &ev, gran)] }
}

fn gen(r: &mut Rng, idx: u64) -> Scenario {
    let fam = idx % 8;
    let n0 = r.range(0, 5) as usize;
    let keys: Vec<i64> = shuffled(r, vec![10, 20, 30, 40, 50, 60])[..n0].to_vec();
    let child_action = *r.pick(&[Act::Cascade, Act::SetNull, Act::Cascade]);
    let mut tabs = tables(false, (child_action, child_action), (Act::NoAction, Act::NoAction), true);
    tabs.retain(|t| t.id != 3 && t.id != 1);
    let mut setup: Vec<Stmt> = vec![Stmt::Insert { t: ONCE, cols_ok: true, rows: vec![vec![lit(7)]] }];
    for k in &keys {
        setup.push(Stmt::Insert { t: 0, cols_ok: true, rows: vec![t0_row(r, *k)] });
    }
    let mut trigs: Vec<Trig> = Vec::new();
    let ntr = r.range(1, 5);
    let stmt_kind = fam % 4; // 0 insert, 1 delete, 2/3 update
    for i in 0..ntr {
        // most triggers are on the event of the statement under test
        let hint = if r.chance(3, 4) { stmt_kind } else { r.below(4) };
        trigs.push(gen_trig(r, i + 1, hint));
    }
    let mut next_id = ntr + 1;
    let mut fail_planted = false;
    let mut fail_timing = None;
    let mut recursive = false;
    let mut audit = true;
    // the statement
    let stmt: Stmt;
    let kind: &'static str;
    match stmt_kind {
        0 => {
            let k = r.range(1, 4) as usize;
            let new_keys: Vec<i64> = shuffled(r, vec![11, 12, 13, 14, 15, 16])[..k].to_vec();
            if fam == 4 && r.chance(2, 3) {
                // INSERT ... SELECT
                let bulk = r.chance(1, 2);
                let src = if bulk || r.chance(1, 2) { SRC_OK } else { SRC_NULLABLE };
                let star = bulk || src == SRC_NULLABLE;
                let nsrc = r.range(0, 3) as usize;
                for key in new_keys.iter().take(nsrc) {
                    let mut row = t0_row(r, *key);
                    if row[1] == null() {
                        row[1] = lit(1);
                    }
                    setup.push(Stmt::Insert { t: src, cols_ok: true, rows: vec![row] });
                }
                stmt = Stmt::InsertSel { t: 0, src, star };
                kind = if star && src == SRC_OK { "insert-select-bulk" } else { "insert-select" };
            } else {
                stmt = Stmt::Insert { t: 0, cols_ok: true, rows: new_keys.iter().map(|key| t0_row(r, *key)).collect() };
                kind = "insert-values";
            }
        }
        1 => {
            let w = match r.below(6) {
                0 => None,
                1 => Some(Cond::Cmp(Op::Ge, Expr::Col(0), lit(r.range(10, 70)))),
                2 => Some(eqc(Expr::Col(0), r.range(1, 6) * 10)), // primary-key fast path
                3 => Some(eqc(Expr::Col(0), 999)),                // zero rows
                4 => Some(Cond::Val(Expr::Col(1))),               // WHERE C1: selects the rows whose C1 is not 0
                _ => Some(Cond::IsNull(Expr::Col(2))),
            };
            // children of some rows
            for (i, key) in keys.iter().enumerate() {
                if r.chance(1, 3) {
                    setup.push(Stmt::Insert { t: CHILD, cols_ok: true, rows: vec![vec![lit(100 + i as i64), lit(*key)]] });
                }
            }
            if r.chance(1, 3) {
                // a row trigger on the child table: the SQL standard fires it for rows removed by a referential action
                let id = next_id;
                next_id += 1;
                let mut row = vec![lit(id), Expr::Old(0), Expr::Old(1)];
                row.extend((0..6).map(|_| null()));
                trigs.push(Trig { id, table: CHILD, timing: Timing::After, event: Ev::Delete, gran: Gran::Row, when: None, enabled: true, body: vec![Stmt::Insert { t: AUD, cols_ok: true, rows: vec![row] }] });
            }
            stmt = Stmt::Delete { t: 0, w };
            kind = "delete";
        }
        _ => {
            let w = match r.below(6) {
                0 => None,
                1 => Some(Cond::Cmp(Op::Ge, Expr::Col(0), lit(r.range(10, 70)))),
                2 => Some(eqc(Expr::Col(0), r.range(1, 6) * 10)),
                3 => Some(eqc(Expr::Col(0), 999)),
                4 => Some(Cond::Val(Expr::Col(2))), // WHERE C2: not 0 and not NULL
                _ => Some(Cond::Not(Box::new(Cond::IsNull(Expr::Col(3))))),
            };
            let asg = match r.below(6) {
                0 => vec![(1, Expr::Add(Box::new(Expr::Col(1)), r.range(1, 3)))],
                1 => vec![(2, Expr::Add(Box::new(Expr::Col(2)), 1))], // NULL + 1 stays NULL
                2 => vec![(1, Expr::Col(1))],                         // assigned, never changed
                3 => vec![(3, lit(r.range(0, 5))), (1, lit(r.range(0, 9)))],
                4 => vec![(0, Expr::Add(Box::new(Expr::Col(0)), 100))], // primary key rewritten: the cascade check runs
                _ => vec![(2, Expr::Case(Box::new(Cond::Cmp(Op::Gt, Expr::Col(0), lit(30))), Box::new(lit(1)), Box::new(Expr::Col(2))))],
            };
            for (i, key) in keys.iter().enumerate() {
                if r.chance(1, 4) {
                    setup.push(Stmt::Insert { t: CHILD, cols_ok: true, rows: vec![vec![lit(100 + i as i64), lit(*key)]] });
                }
            }
            stmt = Stmt::Update { t: 0, asg, w };
            kind = "update";
        }
    }
    // variations on the trigger set
    match r.below(10) {
        0 | 1 => {
            // a trigger that raises for one particular row (or always, for statement triggers): failing_trigger_aborts
            let ev = match stmt_kind {
                0 => Ev::Insert,
                1 => Ev::Delete,
                _ => Ev::Update(None),
            };
            let id = next_id;
            next_id += 1;
            let gran = if r.chance(4, 5) { Gran::Row } else { Gran::Stmt };
            let timing = if r.chance(1, 2) { Timing::Before } else { Timing::After };
            let key = if matches!(ev, Ev::Insert) { r.range(11, 16) } else { r.range(1, 6) * 10 };
            let img = if matches!(ev, Ev::Insert) { Expr::New(0) } else { Expr::Old(0) };
            let when = if gran == Gran::Row { Some(eqc(img, key)) } else { None };
            let mut body = vec![audit_body(id, &ev, gran)];
            body.extend(failing_stmt(r.below(4)));
            trigs.push(Trig { id, table: 0, timing, event: ev, gran, when, enabled: true, body });
            fail_planted = true;
            fail_timing = Some((timing, gran));
        }
        2 => {
            // nested firing: a row trigger and a statement trigger on the audit table itself (the statement trigger
            // must be skipped inside the trigger context)
            let id = next_id;
            next_id += 1;
            trigs.push(Trig { id, table: AUD, timing: Timing::After, event: Ev::Insert, gran: Gran::Row, when: None, enabled: true, body: vec![Stmt::Insert { t: AUD2, cols_ok: true, rows: vec![vec![Expr::New(0)]] }] });
            let id2 = next_id;
            next_id += 1;
            trigs.push(Trig { id: id2, table: AUD, timing: Timing::Before, event: Ev::Insert, gran: Gran::Stmt, when: None, enabled: true, body: vec![Stmt::Insert { t: AUD2, cols_ok: true, rows: vec![vec![lit(1000 + id2)]] }] });
        }
        3 if stmt_kind == 0 && kind == "insert-values" => {
            // self-recursive trigger: the chain stops by WHEN or is cut by the recursion guard
            let id = next_id;
            next_id += 1;
            let limit = 100 + r.range(13, 19); // chain lengths around the guard's 16 levels
            let timing = if r.chance(1, 2) { Timing::Before } else { Timing::After };
            let body = vec![Stmt::Insert { t: 0, cols_ok: true, rows: vec![vec![Expr::Add(Box::new(Expr::New(0)), 1), lit(1), null(), null()]] }];
            trigs.retain(|t| !matches!(t.event, Ev::Insert));
            trigs.push(Trig { id, table: 0, timing, event: Ev::Insert, gran: Gran::Row, when: Some(Cond::And(Box::new(Cond::Cmp(Op::Ge, Expr::New(0), lit(100))), Box::new(Cond::Cmp(Op::Lt, Expr::New(0), lit(limit))))), enabled: true, body });
            recursive = true;
            audit = false;
        }
        _ => {}
    }
    let _ = next_id;
    let mut stmt = stmt;
    if recursive {
        let mut rows = vec![vec![lit(100), lit(1), null(), null()], vec![lit(90), lit(2), null(), null()]];
        if r.chance(1, 2) {
            rows.swap(0, 1);
        }
        stmt = Stmt::Insert { t: 0, cols_ok: true, rows };
    }
    // shuffle creation order (the catalog's iteration order is what counts; the model is given that order)
    for i in (1..trigs.len()).rev() {
        let j = r.below(i as u64 + 1) as usize;
        trigs.swap(i, j);
    }
    Scenario { case: Case { tabs, setup, trigs, stmt }, kind, audit, fail_planted, fail_timing, child_cascade: child_action == Act::Cascade, recursive }
}

// ------------------------------------------------------------------------------------------------
// the specification list
// ------------------------------------------------------------------------------------------------
#[derive(Clone, Debug, PartialEq, Eq, PartialOrd, Ord)]
struct Entry {
    tid: i64,
    old: Option<Row>,
    new: Option<Row>,
}

struct Spec {
    entries: Vec<(Entry, &'static str, usize)>, // entry, phase (bs / br / ar / as), affected-row index
    should_fail: bool,                          // a WHEN condition cannot be evaluated / a failing trigger fires
    ambiguous: bool,                            // UPDATE OF with an assigned but unchanged column
    stmt_when: bool,                            // a statement-level trigger with a WHEN condition takes part
    affected: usize,
}

fn affected_rows(sc: &Scenario, ran: &Ran) -> Option<Vec<(Option<Row>, Option<Row>)>> {
    let before: Vec<Row> = rows_of(&ran.obs0, 0).to_vec();
    match &sc.case.stmt {
        Stmt::Insert { rows, .. } => {
            let en = Env { cur: None, old: None, new: None };
            rows.iter().map(|es| es.iter().map(|e| eval_expr(&en, e)).collect::<Option<Vec<_>>>().map(|r| (None, Some(r)))).collect()
        }
        Stmt::InsertSel { src, .. } => {
            let mut s = rows_of(&ran.obs0, *src).to_vec();
            s.sort_by(|a, b| match (&a[0], &b[0]) {
                (Cell::Int(x), Cell::Int(y)) => x.cmp(y),
                _ => std::cmp::Ordering::Equal,
            });
            Some(s.into_iter().map(|r| (None, Some(r))).collect())
        }
        Stmt::Update { asg, w, .. } => {
            let mut out = Vec::new();
            for row in &before {
                let en = Env { cur: Some(row), old: None, new: None };
                let sel = match w {
                    None => true,
                    Some(c) => where_selects(&en, c)?,
                };
                if sel {
                    let mut new = row.clone();
                    for (c, e) in asg {
                        *new.get_mut(*c)? = eval_expr(&en, e)?;
                    }
                    out.push((Some(row.clone()), Some(new)));
                }
            }
            Some(out)
        }
        Stmt::Delete { w, .. } => {
            let mut out = Vec::new();
            for row in &before {
                let en = Env { cur: Some(row), old: None, new: None };
                let sel = match w {
                    None => true,
                    Some(c) => where_selects(&en, c) == Some(true),
                };
                if sel {
                    out.push((Some(row.clone()), None));
                }
            }
            Some(out)
        }
    }
}

fn spec_of(sc: &Scenario, ran: &Ran) -> Option<Spec> {
    let aff = affected_rows(sc, ran)?;
    let mut sp = Spec { entries: vec![], should_fail: false, ambiguous: false, stmt_when: false, affected: aff.len() };
    let assigned: Vec<usize> = if let Stmt::Update { asg, .. } = &sc.case.stmt { asg.iter().map(|(c, _)| *c).collect() } else { vec![] };
    for tr in sc.case.trigs.iter().filter(|t| t.table == 0 && t.enabled && t.timing != Timing::InsteadOf) {
        let matches_stmt = match (&tr.event, &sc.case.stmt) {
            (Ev::Insert, Stmt::Insert { .. }) | (Ev::Insert, Stmt::InsertSel { .. }) => true,
            (Ev::Delete, Stmt::Delete { .. }) => true,
            (Ev::Update(_), Stmt::Update { .. }) => true,
            _ => false,
        };
        if !matches_stmt {
            continue;
        }
        let fails = tr.body.len() > 1; // audit insert followed by a failing statement
        match tr.gran {
            Gran::Stmt => {
                if let Ev::Update(Some(cols)) = &tr.event {
                    if !cols.iter().any(|c| assigned.contains(c)) {
                        continue;
                    }
                }
                let fire = match &tr.when {
                    None => true,
                    Some(c) => {
                        sp.stmt_when = true;
                        eval_cond(&Env { cur: None, old: None, new: None }, c)? == Some(true)
                    }
                };
                if fire {
                    sp.entries.push((Entry { tid: tr.id, old: None, new: None }, if tr.timing == Timing::Before { "bs" } else { "as" }, 0));
                    sp.should_fail |= fails;
                }
            }
            Gran::Row => {
                for (i, (o, n)) in aff.iter().enumerate() {
                    if let Ev::Update(Some(cols)) = &tr.event {
                        let changed = cols.iter().any(|c| o.as_ref().unwrap().get(*c) != n.as_ref().unwrap().get(*c));
                        let named = cols.iter().any(|c| assigned.contains(c));
                        if named && !changed {
                            sp.ambiguous = true;
                        }
                        if !changed {
                            continue;
                        }
                    }
                    let fire = match &tr.when {
                        None => true,
                        Some(c) => {
                            let cur = n.as_ref().or(o.as_ref());
                            match eval_cond(&Env { cur, old: o.as_ref(), new: n.as_ref() }, c) {
                                Some(v) => v == Some(true),
                                None => {
                                    sp.should_fail = true;
                                    false
                                }
                            }
                        }
                    };
                    if fire {
                        sp.entries.push((Entry { tid: tr.id, old: o.clone(), new: n.clone() }, if tr.timing == Timing::Before { "br" } else { "ar" }, i));
                        sp.should_fail |= fails;
                    }
                }
            }
        }
    }
    Some(sp)
}

fn entry_of_audit(row: &Row) -> Entry {
    let tid = if let Cell::Int(i) = row[0] { i } else { -1 };
    let img = |s: &[Cell]| if s.iter().all(|c| *c == Cell::Null) { None } else { Some(s.to_vec()) };
    Entry { tid, old: img(&row[1..5]), new: img(&row[5..9]) }
}

fn main() {
    let args = parse_args();
    quiet_panics();
    let mut sum = Summary::default();
    sum.nontrivial_rule = "a case is (tables, set-up rows, 1-6 trigger definitions, one DML statement) with the audit table's rows before/after; distinct = distinct printed case; non-trivial = at least one enabled trigger is defined on the statement's table for the statement's event (so the firing list or its emptiness is decided by gating, not by the absence of triggers)".into();
    let mut log = CaseLog::new(&args);
    let n_cases: u64 = if args.thorough { 20000 } else { 2000 };
    let per_shard = 125;
    let mut shard_text: Vec<String> = Vec::new();
    let mut shard_k = 0usize;
    for id in 0..n_cases {
        if let Some(only) = &args.only {
            if !only.contains(&id) {
                continue;
            }
        }
        let mut r = Rng::new(args.seed, &format!("c34/{}", id));
        let mut sc = gen(&mut r, id);
        let keep = r.chance(1, 2);
        prune_case(&mut sc.case, keep);
        let ran = run_case(&sc.case);
        sum.evaluations += 1;
        let cj = || {
            let mut j = case_json(&sc.case);
            j["kind"] = json!(sc.kind);
            j
        };
        if let Some(e) = &ran.setup_failed {
            sum.finding("harness-setup-failed", id, e.clone(), cj());
            continue;
        }
        let code = res_code(&ran.res);
        sum.count(&format!("kind:{}", sc.kind));
        sum.count(if code >= 0 { "result:ok" } else if code == -1 { "result:err" } else { "result:panic" });
        sum.count(&format!("triggers:{}", sc.case.trigs.len()));
        for t in &sc.case.trigs {
            sum.count(&format!("trig:{:?}/{}/{:?}{}{}", t.timing, match &t.event { Ev::Insert => "insert", Ev::Delete => "delete", Ev::Update(None) => "update", Ev::Update(Some(_)) => "update-of" }, t.gran, if t.when.is_some() { "/when" } else { "" }, if t.enabled { "" } else { "/disabled" }));
        }
        log.log(id, cj());
        let aud_before = rows_of(&ran.obs0, AUD).len();
        let aud_new: Vec<Row> = rows_of(&ran.obs1, AUD)[aud_before.min(rows_of(&ran.obs1, AUD).len())..].to_vec();
        if id < 6 {
            sum.sample(json!({"case": cj(), "result": ran.res.tag(), "audit_rows_written": aud_new.iter().map(|r| format!("{:?}", r)).collect::<Vec<_>>()}));
        }
        // ---------------- the property's own oracle ----------------
        if !sc.recursive {
            if let Some(sp) = spec_of(&sc, &ran) {
                sum.count(&format!("affected:{}", sp.affected.min(5)));
                if !sp.entries.is_empty() || sc.case.trigs.iter().any(|t| t.table == 0 && t.enabled) {
                    sum.nontrivial(&format!("{}", cj()));
                }
                let child_trigger = sc.case.trigs.iter().find(|t| t.table == CHILD).map(|t| t.id);
                let subject_changed = rows_of(&ran.obs0, 0) != rows_of(&ran.obs1, 0) || rows_of(&ran.obs0, CHILD) != rows_of(&ran.obs1, CHILD);
                match &ran.res {
                    Outcome::Count(_) => {
                        let got: Vec<Entry> = aud_new.iter().map(entry_of_audit).filter(|e| Some(e.tid) != child_trigger).collect();
                        let mut want: Vec<Entry> = sp.entries.iter().map(|(e, _, _)| e.clone()).collect();
                        let mut got_sorted = got.clone();
                        got_sorted.sort();
                        want.sort();
                        if sp.should_fail {
                            let class = if sc.kind == "insert-select-bulk" { "insert-select-bulk-skips-triggers" } else { "failing-trigger-did-not-abort" };
                            sum.finding(class, id, format!("{}: a trigger of the specification list raises, but the statement returned Ok", sc.kind), cj());
                        } else if got_sorted != want && !sp.ambiguous {
                            // narrow classification of the difference
                            let missing: Vec<&Entry> = want.iter().filter(|e| !got_sorted.contains(e)).collect();
                            let extra: Vec<&Entry> = got_sorted.iter().filter(|e| !want.contains(e)).collect();
                            let is_update_of = |tid: i64| sc.case.trigs.iter().any(|t| t.id == tid && matches!(t.event, Ev::Update(Some(_))));
                            let class = if sc.kind == "insert-select-bulk" && got.is_empty() {
                                "insert-select-bulk-skips-triggers"
                            } else if extra.is_empty() && !missing.is_empty() && missing.iter().all(|e| is_update_of(e.tid)) {
                                "update-of-trigger-never-fires"
                            } else {
                                "firing-list-differs-from-specification"
                            };
                            sum.finding(class, id, format!("{}: audit rows {:?}, specification {:?}", sc.kind, got, want), cj());
                            sum.count(&format!("finding:{}", class));
                        } else if !sp.ambiguous {
                            // order: BEFORE STATEMENT first, AFTER STATEMENT last, BEFORE of a row in front of its AFTER
                            let phase_of = |e: &Entry| sp.entries.iter().find(|(x, _, _)| x == e).map(|(_, p, i)| (*p, *i));
                            let seq: Vec<(&'static str, usize)> = got.iter().filter_map(phase_of).collect();
                            let mut bad = false;
                            for (a, x) in seq.iter().enumerate() {
                                for y in seq.iter().skip(a + 1) {
                                    let wrong = match (x.0, y.0) {
                                        ("as", _) => y.0 != "as",
                                        (_, "bs") => x.0 != "bs",
                                        ("ar", "br") => x.1 == y.1,
                                        _ => false,
                                    };
                                    bad |= wrong;
                                }
                            }
                            if bad {
                                sum.finding("firing-order-violates-before-after", id, format!("{}: audit sequence {:?}", sc.kind, seq), cj());
                            }
                        }
                        // referential actions: the child table's row trigger should see the rows the cascade removed
                        if let (Some(ct), true) = (child_trigger, sc.child_cascade) {
                            let removed = rows_of(&ran.obs0, CHILD).iter().filter(|r| !rows_of(&ran.obs1, CHILD).contains(r)).count();
                            let fired = aud_new.iter().map(entry_of_audit).filter(|e| e.tid == ct).count();
                            if removed != fired {
                                // recorded as an observation, not as a finding: C34 speaks about the triggers of the
                                // statement's own table (design.d/C34.md, "cascade")
                                sum.count("observation:cascade-removed-child-rows-without-firing-child-triggers");
                            }
                        }
                    }
                    Outcome::Err(_, msg) => {
                        let child_changed = rows_of(&ran.obs0, CHILD) != rows_of(&ran.obs1, CHILD);
                        let t0_changed = rows_of(&ran.obs0, 0) != rows_of(&ran.obs1, 0);
                        if !sp.should_fail && sp.stmt_when {
                            // a statement-level trigger with a WHEN condition: the condition cannot be evaluated at all
                            sum.finding("statement-trigger-when-errors", id, format!("{} failed ({}) although no trigger of the specification list raises{}", sc.kind, &msg[..msg.len().min(80)], if subject_changed { " (and the change was kept)" } else { "" }), cj());
                            sum.count("finding:statement-trigger-when-errors");
                        } else if subject_changed {
                            let class = match (&sc.case.stmt, sc.fail_timing) {
                                (_, Some((Timing::After, Gran::Stmt))) => "after-statement-trigger-failure-keeps-change",
                                (Stmt::Insert { .. }, Some((_, Gran::Row))) | (Stmt::InsertSel { .. }, Some((_, Gran::Row))) if !child_changed => "insert-row-trigger-failure-keeps-earlier-rows",
                                (Stmt::Update { .. }, Some((Timing::After, Gran::Row))) => "update-after-row-trigger-failure-keeps-change",
                                (Stmt::Delete { .. }, Some((Timing::After, Gran::Row))) => "delete-after-row-trigger-failure-keeps-change",
                                (Stmt::Update { .. }, Some((Timing::Before, Gran::Row))) if child_changed && !t0_changed => "update-cascade-survives-before-trigger-failure",
                                _ => "table-changed-by-failed-statement",
                            };
                            sum.finding(class, id, format!("{} failed ({}) but the subject table changed: {:?} -> {:?}", sc.kind, &msg[..msg.len().min(60)], rows_of(&ran.obs0, 0), rows_of(&ran.obs1, 0)), cj());
                            sum.count(&format!("finding:{}", class));
                        } else if !sp.should_fail {
                            sum.finding("statement-failed-without-failing-trigger", id, format!("{} failed ({}) although no trigger of the specification list raises", sc.kind, &msg[..msg.len().min(80)]), cj());
                        }
                    }
                    Outcome::Panic(m) => sum.finding("dml-panic", id, format!("panic: {}", m), cj()),
                    _ => sum.finding("unexpected-outcome", id, ran.res.tag(), cj()),
                }
            }
        } else {
            sum.nontrivial(&format!("{}", cj()));
            sum.count(&format!("recursive:{}", if code >= 0 { "ok" } else { "refused" }));
            if code < 0 && rows_of(&ran.obs0, 0) != rows_of(&ran.obs1, 0) {
                sum.finding("insert-row-trigger-failure-keeps-earlier-rows", id, format!("recursive trigger chain refused by the guard, subject table changed: {} -> {} rows", rows_of(&ran.obs0, 0).len(), rows_of(&ran.obs1, 0).len()), cj());
            }
        }
        // ---------------- Coq case ----------------
        if args.only.is_none() {
            shard_text.push(case_coq(id, &sc.case, &ran, if sc.audit { Some((AUD, 4)) } else { None }));
            sum.model_cases += 1;
            if shard_text.len() == per_shard {
                flush(&args, &mut shard_k, &mut shard_text);
            }
        }
    }
    if args.only.is_none() && !shard_text.is_empty() {
        flush(&args, &mut shard_k, &mut shard_text);
    }
    let _: BTreeMap<u8, u8> = BTreeMap::new();
    sum.write(&args);
}

fn flush(args: &Args, k: &mut usize, cases: &mut Vec<String>) {
    let mut s = String::new();
    s.push_str("From Coq Require Import List ZArith.\nImport ListNotations.\nFrom VibeSQL Require Import Store.Trigger Store.Atomic Store.AtomicObs Run.C34Run.\n");
    s.push_str("Definition cases : list tcase := [\n");
    s.push_str(&cases.join(";\n"));
    s.push_str("].\nEval vm_compute in (c34_mismatches cases).\n");
    write_shard(args, *k, &s);
    *k += 1;
    cases.clear();
}
