//! C12 harness, part 1: declared schemas, statements, SQL / Coq printing, state dump, RI oracle.
#![allow(dead_code)]
use vibesql_storage::Database;
use vibesql_types::SqlValue;

pub type V = Option<i64>;
pub type Row = Vec<V>;

#[derive(Clone, Copy, PartialEq, Eq, Debug)]
pub enum Act {
    NoAction,
    Cascade,
    SetNull,
    SetDefault,
}
impl Act {
    pub fn sql(self) -> &'static str {
        match self {
            Act::NoAction => "NO ACTION",
            Act::Cascade => "CASCADE",
            Act::SetNull => "SET NULL",
            Act::SetDefault => "SET DEFAULT",
        }
    }
    pub fn coq(self) -> &'static str {
        match self {
            Act::NoAction => "ANoAction",
            Act::Cascade => "ACascade",
            Act::SetNull => "ASetNull",
            Act::SetDefault => "ASetDefault",
        }
    }
}

#[derive(Clone, Copy, PartialEq, Eq, Debug)]
pub enum How {
    Create,      // table-level FOREIGN KEY clause of CREATE TABLE
    Alter,       // ALTER TABLE ADD FOREIGN KEY during set-up
    ColumnLevel, // column-level REFERENCES clause (parsed, then ignored by the engine)
}

#[derive(Clone, Debug)]
pub struct Fk {
    pub cols: Vec<usize>,
    pub parent: usize,
    pub pcols: Vec<usize>,
    pub ondel: Act,
    pub onupd: Act,
    pub how: How,
}

#[derive(Clone, Debug)]
pub struct Col {
    pub notnull: bool,
    pub default: V,
}

#[derive(Clone, Debug)]
pub struct Tab {
    pub id: usize,
    pub cols: Vec<Col>,
    pub pk: Option<Vec<usize>>,
    pub fks: Vec<Fk>,
    pub dropped: bool,
}

pub fn tname(id: usize) -> String {
    format!("t{}", id)
}
/// the name under which the catalog / storage know the table (the parser upper-cases identifiers)
pub fn catname(id: usize) -> String {
    format!("T{}", id)
}
pub fn cname(c: usize) -> String {
    format!("c{}", c)
}
fn cols_sql(cs: &[usize]) -> String {
    cs.iter().map(|c| cname(*c)).collect::<Vec<_>>().join(", ")
}

impl Fk {
    pub fn clause(&self) -> String {
        format!(
            "FOREIGN KEY ({}) REFERENCES {}({}) ON DELETE {} ON UPDATE {}",
            cols_sql(&self.cols),
            tname(self.parent),
            cols_sql(&self.pcols),
            self.ondel.sql(),
            self.onupd.sql()
        )
    }
    pub fn coq(&self) -> String {
        format!(
            "FK {} {} {} {} {}",
            zlist(&self.cols.iter().map(|c| *c as i64).collect::<Vec<_>>()),
            self.parent,
            zlist(&self.pcols.iter().map(|c| *c as i64).collect::<Vec<_>>()),
            self.ondel.coq(),
            self.onupd.coq()
        )
    }
}

impl Tab {
    /// CREATE TABLE text; FKs with How::Create are table-level clauses, How::ColumnLevel ones are
    /// written on the column, How::Alter ones are added afterwards.
    pub fn create_sql(&self) -> String {
        let mut parts: Vec<String> = Vec::new();
        for (i, c) in self.cols.iter().enumerate() {
            let mut s = format!("{} INTEGER", cname(i));
            if let Some(d) = c.default {
                s.push_str(&format!(" DEFAULT {}", d));
            }
            if c.notnull {
                s.push_str(" NOT NULL");
            }
            for fk in &self.fks {
                if fk.how == How::ColumnLevel && fk.cols == vec![i] {
                    s.push_str(&format!(
                        " REFERENCES {}({}) ON DELETE {} ON UPDATE {}",
                        tname(fk.parent),
                        cols_sql(&fk.pcols),
                        fk.ondel.sql(),
                        fk.onupd.sql()
                    ));
                }
            }
            parts.push(s);
        }
        if let Some(pk) = &self.pk {
            parts.push(format!("PRIMARY KEY ({})", cols_sql(pk)));
        }
        for fk in &self.fks {
            if fk.how == How::Create {
                parts.push(fk.clause());
            }
        }
        format!("CREATE TABLE {} ({})", tname(self.id), parts.join(", "))
    }
    pub fn alter_sqls(&self) -> Vec<String> {
        self.fks
            .iter()
            .filter(|f| f.how == How::Alter)
            .map(|f| format!("ALTER TABLE {} ADD {}", tname(self.id), f.clause()))
            .collect()
    }
}

// ------------------------------------------------------------------------------------------
// statements

#[derive(Clone, Debug)]
pub enum Expr {
    Lit(V),
    Col(usize),
    Add(usize, i64),
    Default,
}
#[derive(Clone, Copy, Debug, PartialEq)]
pub enum Op {
    Eq,
    Lt,
    Ge,
}
#[derive(Clone, Debug)]
pub enum Pred {
    Cmp(usize, Op, i64),
    IsNull(usize),
    Or(Box<Pred>, Box<Pred>),
    And(Box<Pred>, Box<Pred>),
}
#[derive(Clone, Debug)]
pub enum Stmt {
    Insert { t: usize, rows: Vec<Row> },
    /// INSERT INTO dst SELECT * FROM src [WHERE c0 >= 0]; `sel` = what that SELECT returned
    InsertSelect { dst: usize, src: usize, simple: bool, sel: Vec<Row> },
    Update { t: usize, asg: Vec<(usize, Expr)>, wh: Option<Pred> },
    Delete { t: usize, wh: Option<Pred> },
    Truncate { t: usize, cascade: bool },
    Drop { t: usize },
    AddFk { t: usize, fk: Fk },
}

pub fn vsql(v: &V) -> String {
    match v {
        None => "NULL".into(),
        Some(i) => format!("{}", i),
    }
}
pub fn zl(i: i64) -> String {
    if i < 0 {
        format!("({})", i)
    } else {
        format!("{}", i)
    }
}
pub fn vcoq(v: &V) -> String {
    match v {
        None => "NULLC".into(),
        Some(i) => zl(*i),
    }
}
pub fn zlist(l: &[i64]) -> String {
    format!("[{}]", l.iter().map(|i| zl(*i)).collect::<Vec<_>>().join(";"))
}
pub fn rowcoq(r: &Row) -> String {
    format!("[{}]", r.iter().map(vcoq).collect::<Vec<_>>().join(";"))
}
pub fn rowscoq(rs: &[Row]) -> String {
    format!("[{}]", rs.iter().map(rowcoq).collect::<Vec<_>>().join(";"))
}

impl Pred {
    pub fn sql(&self) -> String {
        match self {
            Pred::Cmp(c, o, k) => format!(
                "{} {} {}",
                cname(*c),
                match o {
                    Op::Eq => "=",
                    Op::Lt => "<",
                    Op::Ge => ">=",
                },
                k
            ),
            Pred::IsNull(c) => format!("{} IS NULL", cname(*c)),
            Pred::Or(a, b) => format!("({} OR {})", a.sql(), b.sql()),
            Pred::And(a, b) => format!("({} AND {})", a.sql(), b.sql()),
        }
    }
    pub fn coq(&self) -> String {
        match self {
            Pred::Cmp(c, o, k) => format!(
                "(CMP {} {} {})",
                c,
                match o {
                    Op::Eq => "OEq",
                    Op::Lt => "OLt",
                    Op::Ge => "OGe",
                },
                zl(*k)
            ),
            Pred::IsNull(c) => format!("(ISNULL {})", c),
            Pred::Or(a, b) => format!("(POr {} {})", a.coq(), b.coq()),
            Pred::And(a, b) => format!("(PAnd {} {})", a.coq(), b.coq()),
        }
    }
    /// three-valued evaluation
    pub fn eval(&self, r: &Row) -> Option<bool> {
        match self {
            Pred::Cmp(c, o, k) => r[*c].map(|v| match o {
                Op::Eq => v == *k,
                Op::Lt => v < *k,
                Op::Ge => v >= *k,
            }),
            Pred::IsNull(c) => Some(r[*c].is_none()),
            Pred::Or(a, b) => match (a.eval(r), b.eval(r)) {
                (Some(true), _) | (_, Some(true)) => Some(true),
                (Some(false), Some(false)) => Some(false),
                _ => None,
            },
            Pred::And(a, b) => match (a.eval(r), b.eval(r)) {
                (Some(false), _) | (_, Some(false)) => Some(false),
                (Some(true), Some(true)) => Some(true),
                _ => None,
            },
        }
    }
}
pub fn selects(wh: &Option<Pred>, r: &Row) -> bool {
    match wh {
        None => true,
        Some(p) => p.eval(r) == Some(true),
    }
}
fn whsql(wh: &Option<Pred>) -> String {
    match wh {
        None => String::new(),
        Some(p) => format!(" WHERE {}", p.sql()),
    }
}
fn whcoq(wh: &Option<Pred>) -> String {
    match wh {
        None => "None".into(),
        Some(p) => format!("(Some {})", p.coq()),
    }
}

impl Expr {
    pub fn sql(&self) -> String {
        match self {
            Expr::Lit(v) => vsql(v),
            Expr::Col(c) => cname(*c),
            Expr::Add(c, k) => format!("{} + {}", cname(*c), k),
            Expr::Default => "DEFAULT".into(),
        }
    }
    pub fn coq(&self) -> String {
        match self {
            Expr::Lit(v) => format!("LIT {}", vcoq(v)),
            Expr::Col(c) => format!("COL {}", c),
            Expr::Add(c, k) => format!("ADD {} {}", c, zl(*k)),
            Expr::Default => "EDefault".into(),
        }
    }
}

/// the SELECT that feeds INSERT..SELECT (the plain form takes the bulk-transfer path when the schemas allow it)
pub fn select_sql(src: usize, simple: bool) -> String {
    if simple {
        format!("SELECT * FROM {}", tname(src))
    } else {
        format!("SELECT * FROM {} WHERE c0 >= 0", tname(src))
    }
}

impl Stmt {
    pub fn sql(&self) -> String {
        match self {
            Stmt::Insert { t, rows } => format!(
                "INSERT INTO {} VALUES {}",
                tname(*t),
                rows.iter()
                    .map(|r| format!("({})", r.iter().map(vsql).collect::<Vec<_>>().join(", ")))
                    .collect::<Vec<_>>()
                    .join(", ")
            ),
            Stmt::InsertSelect { dst, src, simple, .. } => format!(
                "INSERT INTO {} {}",
                tname(*dst),
                select_sql(*src, *simple)
            ),
            Stmt::Update { t, asg, wh } => format!(
                "UPDATE {} SET {}{}",
                tname(*t),
                asg.iter().map(|(c, e)| format!("{} = {}", cname(*c), e.sql())).collect::<Vec<_>>().join(", "),
                whsql(wh)
            ),
            Stmt::Delete { t, wh } => format!("DELETE FROM {}{}", tname(*t), whsql(wh)),
            Stmt::Truncate { t, cascade } => {
                format!("TRUNCATE TABLE {}{}", tname(*t), if *cascade { " CASCADE" } else { "" })
            }
            Stmt::Drop { t } => format!("DROP TABLE {}", tname(*t)),
            Stmt::AddFk { t, fk } => format!("ALTER TABLE {} ADD {}", tname(*t), fk.clause()),
        }
    }
    pub fn coq(&self) -> String {
        match self {
            Stmt::Insert { t, rows } => format!("INS {} {}", t, rowscoq(rows)),
            Stmt::InsertSelect { dst, src, simple, sel } => format!("INSSEL {} {} {} {}", dst, src, simple, rowscoq(sel)),
            Stmt::Update { t, asg, wh } => format!(
                "UPD {} [{}] {}",
                t,
                asg.iter().map(|(c, e)| format!("AS {} ({})", c, e.coq())).collect::<Vec<_>>().join(";"),
                whcoq(wh)
            ),
            Stmt::Delete { t, wh } => format!("DEL {} {}", t, whcoq(wh)),
            Stmt::Truncate { t, cascade } => format!("TRUNC {} {}", t, cascade),
            Stmt::Drop { t } => format!("DROP {}", t),
            Stmt::AddFk { t, fk } => format!("ADDFK {} ({})", t, fk.coq()),
        }
    }
    pub fn kind(&self) -> &'static str {
        match self {
            Stmt::Insert { .. } => "insert",
            Stmt::InsertSelect { simple: true, .. } => "insert_select_simple",
            Stmt::InsertSelect { .. } => "insert_select_where",
            Stmt::Update { .. } => "update",
            Stmt::Delete { .. } => "delete",
            Stmt::Truncate { .. } => "truncate",
            Stmt::Drop { .. } => "drop",
            Stmt::AddFk { .. } => "addfk",
        }
    }
    pub fn target(&self) -> usize {
        match self {
            Stmt::InsertSelect { dst, .. } => *dst,
            Stmt::Insert { t, .. }
            | Stmt::Update { t, .. }
            | Stmt::Delete { t, .. }
            | Stmt::Truncate { t, .. }
            | Stmt::Drop { t }
            | Stmt::AddFk { t, .. } => *t,
        }
    }
}

// ------------------------------------------------------------------------------------------
// reading the implementation

pub fn conv(v: &SqlValue) -> V {
    match v {
        SqlValue::Null => None,
        SqlValue::Integer(i) | SqlValue::Bigint(i) => Some(*i),
        SqlValue::Smallint(i) => Some(*i as i64),
        other => panic!("harness: unexpected value {:?}", other),
    }
}

pub fn parse_tid(name: &str) -> usize {
    name.trim_start_matches(|c| c == 'T' || c == 't').parse().expect("harness: table name")
}

/// `catalog.list_tables()` as table ids (HashMap iteration order of this very map)
pub fn catalog_order(db: &Database) -> Vec<usize> {
    db.catalog.list_tables().iter().map(|n| parse_tid(n)).collect()
}

/// rows of a table in storage order
pub fn scan(db: &Database, t: usize) -> Option<Vec<Row>> {
    db.get_table(&catname(t)).map(|tb| tb.scan().iter().map(|r| r.values.iter().map(conv).collect()).collect())
}

fn cat_act(a: &vibesql_catalog::ReferentialAction) -> &'static str {
    use vibesql_catalog::ReferentialAction::*;
    match a {
        NoAction => "ANoAction",
        Restrict => "ARestrict",
        Cascade => "ACascade",
        SetNull => "ASetNull",
        SetDefault => "ASetDefault",
    }
}

/// the table as the CATALOG describes it (not as the harness declared it), as a Coq literal
pub fn table_coq(db: &Database, tab: &Tab) -> String {
    let sch = db.catalog.get_table(&catname(tab.id)).expect("harness: table in catalog");
    let cols: Vec<String> = sch
        .columns
        .iter()
        .enumerate()
        .map(|(i, c)| format!("CD {} {}", c.nullable, vcoq(&tab.cols[i].default)))
        .collect();
    let pk = match sch.get_primary_key_indices() {
        Some(ix) => format!("(Some {})", zlist(&ix.iter().map(|i| *i as i64).collect::<Vec<_>>())),
        None => "None".into(),
    };
    let fks: Vec<String> = sch
        .foreign_keys
        .iter()
        .map(|f| {
            format!(
                "FK {} {} {} {} {}",
                zlist(&f.column_indices.iter().map(|i| *i as i64).collect::<Vec<_>>()),
                parse_tid(&f.parent_table),
                zlist(&f.parent_column_indices.iter().map(|i| *i as i64).collect::<Vec<_>>()),
                cat_act(&f.on_delete),
                cat_act(&f.on_update)
            )
        })
        .collect();
    format!("T {} [{}] {} [{}]", tab.id, cols.join(";"), pk, fks.join(";"))
}

pub fn nfks(db: &Database, t: usize) -> usize {
    db.catalog.get_table(&catname(t)).map(|s| s.foreign_keys.len()).unwrap_or(0)
}

/// the whole state: (table id, rows in storage order) for every table the catalog still knows
pub type State = Vec<(usize, Vec<Row>)>;
pub fn dump(db: &Database, tabs: &[Tab]) -> State {
    tabs.iter().filter_map(|t| scan(db, t.id).map(|r| (t.id, r))).collect()
}
pub fn state_rows<'a>(st: &'a State, t: usize) -> Option<&'a Vec<Row>> {
    st.iter().find(|(i, _)| *i == t).map(|(_, r)| r)
}

// ------------------------------------------------------------------------------------------
// the property's own oracle: referential integrity of what SELECT * returns

pub fn proj(cols: &[usize], r: &Row) -> Vec<V> {
    cols.iter().map(|c| r[*c]).collect()
}

/// does some parent row carry the key (declared referenced columns, zipped)
pub fn parent_has(fk: &Fk, key: &[V], prows: &[Row]) -> bool {
    prows.iter().any(|p| fk.pcols.iter().zip(key.iter()).all(|(pc, v)| p.get(*pc).map(|x| x == v).unwrap_or(false)))
}

#[derive(Clone, Debug)]
pub struct Orphan {
    pub child: usize,
    pub fk_ix: usize,
    pub row: Row,
}

/// every declared FOREIGN KEY (as the harness declared it) evaluated on `rows_of` (table id -> rows)
pub fn ri_check(tabs: &[Tab], rows_of: &dyn Fn(usize) -> Option<Vec<Row>>) -> Vec<Orphan> {
    let mut out = Vec::new();
    for t in tabs.iter().filter(|t| !t.dropped) {
        let rows = match rows_of(t.id) {
            Some(r) => r,
            None => continue,
        };
        for (k, fk) in t.fks.iter().enumerate() {
            let prows = if tabs[fk.parent].dropped { None } else { rows_of(fk.parent) };
            for r in &rows {
                let key = proj(&fk.cols, r);
                if key.iter().any(|v| v.is_none()) {
                    continue;
                }
                let ok = match &prows {
                    Some(p) => parent_has(fk, &key, p),
                    None => false,
                };
                if !ok {
                    out.push(Orphan { child: t.id, fk_ix: k, row: r.clone() });
                }
            }
        }
    }
    out
}

/// rows through the SQL front door (SELECT *), independent of `scan`
pub fn select_all(db: &mut Database, t: usize) -> Option<Vec<Row>> {
    match vh::sql::exec(db, &format!("SELECT * FROM {}", tname(t))) {
        vh::sql::Outcome::Rows(rs) => Some(rs.iter().map(|r| r.iter().map(conv).collect()).collect()),
        _ => None,
    }
}
