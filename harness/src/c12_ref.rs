//! C12 harness, part 2: a declarative reference for the exact child delta of DELETE / key UPDATE
//! (what the declared actions specify), cascade-cycle detection, and the narrow classifiers of
//! the known defect classes.
#![allow(dead_code)]
use super::c12_core::*;
use std::collections::{BTreeMap, BTreeSet};

pub enum RefOut {
    Reject,
    Accept(State),
    Ambiguous,
}

fn rows_of<'a>(st: &'a State, t: usize) -> &'a [Row] {
    st.iter().find(|(i, _)| *i == t).map(|(_, r)| r.as_slice()).unwrap_or(&[])
}

fn nonnull(k: &[V]) -> bool {
    k.iter().all(|v| v.is_some())
}

/// parent key of `row` as foreign key `fk` sees it (declared referenced columns)
fn pkey(fk: &Fk, row: &Row) -> Vec<V> {
    fk.pcols.iter().map(|c| row.get(*c).cloned().unwrap_or(None)).collect()
}

fn fk_matches(fk: &Fk, child: &Row, parent: &Row) -> bool {
    let k = proj(&fk.cols, child);
    nonnull(&k) && fk.cols.len() == fk.pcols.len() && k == pkey(fk, parent)
}

/// DELETE of the rows `sel` (indices into the pre-state) of table `t`
pub fn ref_delete(tabs: &[Tab], pre: &State, t: usize, sel: &[usize]) -> RefOut {
    let live: Vec<&Tab> = tabs.iter().filter(|x| !x.dropped).collect();
    let mut doomed: BTreeSet<(usize, usize)> = sel.iter().map(|i| (t, *i)).collect();
    loop {
        let mut add = Vec::new();
        for c in &live {
            for fk in c.fks.iter().filter(|f| f.ondel == Act::Cascade && f.how != How::ColumnLevel) {
                for (i, r) in rows_of(pre, c.id).iter().enumerate() {
                    if doomed.contains(&(c.id, i)) {
                        continue;
                    }
                    let hit = doomed.iter().any(|(pt, pi)| *pt == fk.parent && fk_matches(fk, r, &rows_of(pre, *pt)[*pi]));
                    if hit {
                        add.push((c.id, i));
                    }
                }
            }
        }
        if add.is_empty() {
            break;
        }
        doomed.extend(add);
    }
    let mut ambiguous = false;
    let mut post: State = pre.clone();
    // columns of surviving rows that some SET NULL / SET DEFAULT action of this statement rewrites:
    // a NO ACTION key over such a column may or may not still see the reference, depending on the
    // order in which the engine happens to process the keys (two keys on one column) -- undecided
    let mut rewritten: BTreeSet<(usize, usize, usize)> = BTreeSet::new();
    for c in &live {
        for fk in c.fks.iter().filter(|f| f.how != How::ColumnLevel && matches!(f.ondel, Act::SetNull | Act::SetDefault)) {
            for (i, r) in rows_of(pre, c.id).iter().enumerate() {
                if doomed.contains(&(c.id, i)) {
                    continue;
                }
                if doomed.iter().any(|(pt, pi)| *pt == fk.parent && fk_matches(fk, r, &rows_of(pre, *pt)[*pi])) {
                    for cc in &fk.cols {
                        rewritten.insert((c.id, i, *cc));
                    }
                }
            }
        }
    }
    for c in &live {
        for fk in c.fks.iter().filter(|f| f.how != How::ColumnLevel) {
            for (i, r) in rows_of(pre, c.id).iter().enumerate() {
                let hit = doomed.iter().any(|(pt, pi)| *pt == fk.parent && fk_matches(fk, r, &rows_of(pre, *pt)[*pi]));
                if !hit {
                    continue;
                }
                let in_d = doomed.contains(&(c.id, i));
                // two keys of this table over a common column with different actions: which action
                // wins depends on the order the engine processes them in -- undecided
                if c.fks.iter().any(|g| g.how != How::ColumnLevel && g.ondel != fk.ondel && g.cols.iter().any(|x| fk.cols.contains(x))) {
                    ambiguous = true;
                }
                match fk.ondel {
                    Act::NoAction => {
                        if in_d || fk.cols.iter().any(|cc| rewritten.contains(&(c.id, i, *cc))) {
                            ambiguous = true;
                        } else {
                            return RefOut::Reject;
                        }
                    }
                    Act::Cascade => {}
                    Act::SetNull | Act::SetDefault => {
                        if in_d {
                            continue;
                        }
                        let vals: Vec<V> = fk
                            .cols
                            .iter()
                            .map(|cc| if fk.ondel == Act::SetNull { None } else { c.cols[*cc].default })
                            .collect();
                        if fk.cols.iter().zip(vals.iter()).any(|(cc, v)| v.is_none() && c.cols[*cc].notnull) {
                            ambiguous = true;
                        }
                        // a rewritten column that is part of a key other rows reference: not decided here
                        if c.pk.as_ref().map(|pk| fk.cols.iter().any(|x| pk.contains(x))).unwrap_or(false) {
                            ambiguous = true;
                        }
                        let rows = &mut post.iter_mut().find(|(id, _)| *id == c.id).unwrap().1;
                        for (cc, v) in fk.cols.iter().zip(vals.iter()) {
                            rows[i][*cc] = *v;
                        }
                    }
                }
            }
        }
    }
    if ambiguous {
        return RefOut::Ambiguous;
    }
    for (id, rows) in post.iter_mut() {
        let mut i = 0usize;
        rows.retain(|_| {
            let keep = !doomed.contains(&(*id, i));
            i += 1;
            keep
        });
    }
    // the state the actions lead to must itself satisfy every declared FOREIGN KEY (SET DEFAULT!)
    let p2 = post.clone();
    let orphans = ri_check(tabs, &|x| state_rows(&p2, x).cloned());
    let before = ri_check(tabs, &|x| state_rows(pre, x).cloned());
    if orphans.len() > before.len() {
        return RefOut::Reject;
    }
    RefOut::Accept(post)
}

/// UPDATE of table `t`: `ups` = (index, new row).  Only decides the simple cases.
pub fn ref_update(tabs: &[Tab], pre: &State, t: usize, ups: &[(usize, Row)]) -> RefOut {
    let tab = &tabs[t];
    let trows = rows_of(pre, t);
    let mut post: State = pre.clone();
    // new rows: NOT NULL
    for (_, nr) in ups {
        if nr.iter().enumerate().any(|(c, v)| v.is_none() && tab.cols[c].notnull) {
            return RefOut::Reject;
        }
    }
    if let Some(pk) = &tab.pk {
        let newkeys: Vec<Vec<V>> = ups.iter().map(|(_, r)| proj(pk, r)).collect();
        let upd_ix: BTreeSet<usize> = ups.iter().map(|(i, _)| *i).collect();
        for (a, k) in newkeys.iter().enumerate() {
            if newkeys.iter().skip(a + 1).any(|k2| k2 == k) {
                return RefOut::Ambiguous; // duplicate primary keys inside one UPDATE: C10's class, not decided here
            }
            for (j, r) in trows.iter().enumerate() {
                if &proj(pk, r) == k && j != ups[a].0 {
                    if upd_ix.contains(&j) {
                        return RefOut::Ambiguous; // key handed over inside the statement
                    }
                    return RefOut::Reject;
                }
            }
        }
    }
    {
        let rows = &mut post.iter_mut().find(|(id, _)| *id == t).unwrap().1;
        for (i, nr) in ups {
            rows[*i] = nr.clone();
        }
    }
    // children of changed keys
    let mut ambiguous = false;
    if let Some(pk) = &tab.pk {
        for (i, nr) in ups {
            let old = &trows[*i];
            if proj(pk, old) == proj(pk, nr) {
                continue;
            }
            for c in tabs.iter().filter(|x| !x.dropped) {
                for fk in c.fks.iter().filter(|f| f.parent == t && f.how != How::ColumnLevel) {
                    for (j, r) in rows_of(pre, c.id).iter().enumerate() {
                        if !fk_matches(fk, r, old) {
                            continue;
                        }
                        if c.id == t {
                            ambiguous = true; // self reference with a key change: not decided here
                            continue;
                        }
                        match fk.onupd {
                            Act::NoAction => return RefOut::Reject,
                            a => {
                                let vals: Vec<V> = match a {
                                    Act::Cascade => pkey(fk, nr),
                                    Act::SetNull => fk.cols.iter().map(|_| None).collect(),
                                    _ => fk.cols.iter().map(|cc| c.cols[*cc].default).collect(),
                                };
                                if fk.cols.iter().zip(vals.iter()).any(|(cc, v)| v.is_none() && c.cols[*cc].notnull) {
                                    ambiguous = true;
                                }
                                let overl = c.pk.as_ref().map(|p| fk.cols.iter().any(|x| p.contains(x))).unwrap_or(false)
                                    || c.fks.iter().filter(|g| g.cols.iter().any(|x| fk.cols.contains(x))).count() > 1;
                                if overl {
                                    ambiguous = true;
                                }
                                let rows = &mut post.iter_mut().find(|(id, _)| *id == c.id).unwrap().1;
                                for (cc, v) in fk.cols.iter().zip(vals.iter()) {
                                    rows[j][*cc] = *v;
                                }
                            }
                        }
                    }
                }
            }
        }
    }
    if ambiguous {
        return RefOut::Ambiguous;
    }
    let p2 = post.clone();
    let orphans = ri_check(tabs, &|x| state_rows(&p2, x).cloned());
    let before = ri_check(tabs, &|x| state_rows(pre, x).cloned());
    if orphans.len() > before.len() {
        return RefOut::Reject;
    }
    RefOut::Accept(post)
}

// ------------------------------------------------------------------------------------------
// cascade cycles (what makes check_no_child_references recurse for ever)

/// edges follow the CODE: child FK tuple (NULL-free) == parent's PRIMARY KEY values, ON DELETE CASCADE
fn cascade_children(tabs: &[Tab], pre: &State, node: (usize, usize)) -> Vec<(usize, usize)> {
    let (pt, pi) = node;
    let pk = match &tabs[pt].pk {
        Some(p) => p,
        None => return vec![],
    };
    let key = proj(pk, &rows_of(pre, pt)[pi]);
    let mut out = Vec::new();
    for c in tabs.iter().filter(|x| !x.dropped) {
        for fk in c.fks.iter().filter(|f| f.parent == pt && f.ondel == Act::Cascade && f.how != How::ColumnLevel) {
            for (j, r) in rows_of(pre, c.id).iter().enumerate() {
                let k = proj(&fk.cols, r);
                if nonnull(&k) && k == key {
                    out.push((c.id, j));
                }
            }
        }
    }
    out
}

/// is a cycle of ON DELETE CASCADE references reachable from the selected rows?
pub fn cascade_cycle_reachable(tabs: &[Tab], pre: &State, t: usize, sel: &[usize]) -> bool {
    fn dfs(tabs: &[Tab], pre: &State, n: (usize, usize), color: &mut BTreeMap<(usize, usize), u8>) -> bool {
        match color.get(&n) {
            Some(1) => return true,
            Some(2) => return false,
            _ => {}
        }
        color.insert(n, 1);
        for c in cascade_children(tabs, pre, n) {
            if dfs(tabs, pre, c, color) {
                return true;
            }
        }
        color.insert(n, 2);
        false
    }
    let mut color = BTreeMap::new();
    sel.iter().any(|i| dfs(tabs, pre, (t, *i), &mut color))
}

/// every FOREIGN KEY of the live schema is ON DELETE CASCADE: a reachable cycle then certainly recurses for ever
pub fn all_cascade(tabs: &[Tab]) -> bool {
    tabs.iter().filter(|t| !t.dropped).all(|t| t.fks.iter().all(|f| f.ondel == Act::Cascade))
}

// ------------------------------------------------------------------------------------------
// classifiers: narrow predicates on (schema, pre-state, statement, post-state)

pub fn fk_standard(tabs: &[Tab], fk: &Fk) -> bool {
    // (declaration order no longer matters: INSERT, UPDATE and DELETE all use it)
    let distinct = (0..fk.cols.len()).all(|i| !fk.cols[i + 1..].contains(&fk.cols[i]));
    let p = &tabs[fk.parent];
    distinct && !p.dropped && p.pk.as_ref().map(|pk| *pk == fk.pcols).unwrap_or(false) && fk.cols.len() == fk.pcols.len()
}

fn reaches_by_cascade(tabs: &[Tab], from: usize, to: usize) -> bool {
    // is there a chain of ON DELETE CASCADE foreign keys from parent `from` down to table `to` (length >= 1)
    let mut seen = BTreeSet::new();
    let mut todo = vec![from];
    while let Some(x) = todo.pop() {
        for c in tabs.iter().filter(|c| !c.dropped) {
            if c.fks.iter().any(|f| f.parent == x && f.ondel == Act::Cascade) {
                if c.id == to {
                    return true;
                }
                if seen.insert(c.id) {
                    todo.push(c.id);
                }
            }
        }
    }
    false
}

pub struct Ctx<'a> {
    pub tabs: &'a [Tab],
    pub pre: &'a State,
    pub post: &'a State,
    pub stmt: &'a Stmt,
    pub is_err: bool,
    pub orphans: &'a [Orphan],
}

/// the class of a property failure, or a generic slug when no known class describes it
pub fn classify_c12(cx: &Ctx) -> &'static str {
    let tabs = cx.tabs;
    // 1. the failing foreign key itself is one the executors disagree about
    for o in cx.orphans {
        let fk = &tabs[o.child].fks[o.fk_ix];
        if fk.how == How::ColumnLevel {
            return "column-level-references-ignored";
        }
        if !fk_standard(tabs, fk) {
            return "fk-references-non-pk";
        }
    }
    // 1b. the statement works on a parent that a non-standard foreign key references
    match cx.stmt {
        Stmt::Delete { t, .. } | Stmt::Update { t, .. } => {
            for c in tabs.iter().filter(|c| !c.dropped) {
                for fk in c.fks.iter().filter(|f| (f.parent == *t || c.id == *t) && f.how != How::ColumnLevel) {
                    if !fk_standard(tabs, fk) {
                        return "fk-references-non-pk";
                    }
                }
            }
        }
        _ => {}
    }
    match cx.stmt {
        Stmt::AddFk { t, fk } => {
            // rows that were there before the constraint violate it
            let rows = rows_of(cx.pre, *t);
            let prows = rows_of(cx.pre, fk.parent);
            if rows.iter().any(|r| {
                let k = proj(&fk.cols, r);
                nonnull(&k) && !parent_has(fk, &k, prows)
            }) {
                return "add-fk-unvalidated";
            }
        }
        Stmt::Delete { t, wh } => {
            if cx.is_err {
                return "partial-effects-on-error";
            }
            // SET DEFAULT: an orphan carries exactly the declared defaults
            for o in cx.orphans {
                let c = &tabs[o.child];
                let fk = &c.fks[o.fk_ix];
                if fk.ondel == Act::SetDefault && proj(&fk.cols, &o.row) == fk.cols.iter().map(|x| c.cols[*x].default).collect::<Vec<_>>() {
                    return "set-default-unchecked";
                }
            }
            let any_setdefault = tabs.iter().any(|c| !c.dropped && c.fks.iter().any(|f| f.ondel == Act::SetDefault));
            // stale row: a child table has a CASCADE key and a SET NULL / SET DEFAULT key, and a row
            // that the cascade reaches survived
            for c in tabs.iter().filter(|c| !c.dropped) {
                let has_c = c.fks.iter().any(|f| f.ondel == Act::Cascade);
                let has_n = c.fks.iter().any(|f| matches!(f.ondel, Act::SetNull | Act::SetDefault));
                if has_c && has_n {
                    if let RefOut::Accept(exp) = ref_delete_cascade_only(tabs, cx.pre, *t, wh) {
                        let want = rows_of(&exp, c.id).len();
                        let got = rows_of(cx.post, c.id).len();
                        if got > want {
                            return "cascade-stale-row";
                        }
                    }
                }
            }
            // index shift: the target table is below itself in the CASCADE graph
            if reaches_by_cascade(tabs, *t, *t) {
                return "cascade-index-shift";
            }
            if any_setdefault {
                return "set-default-unchecked";
            }
        }
        Stmt::Update { t, asg, .. } => {
            let tab = &tabs[*t];
            let touches_pk = tab.pk.as_ref().map(|pk| asg.iter().any(|(c, _)| pk.contains(c))).unwrap_or(false);
            if cx.is_err {
                return "partial-effects-on-error";
            }
            if touches_pk && tab.fks.iter().any(|f| f.parent == *t) {
                return "self-ref-pk-update";
            }
            // the key is assigned but does not change, and the children were touched all the same
            if touches_pk && cx.orphans.is_empty() {
                if let (Some(pk), Stmt::Update { wh, .. }) = (&tab.pk, cx.stmt) {
                    let unchanged_referenced = rows_of(cx.pre, *t).iter().filter(|r| selects(wh, r)).any(|r| {
                        let same = asg.iter().filter(|(c, _)| pk.contains(c)).all(|(c, e)| match e {
                            Expr::Lit(v) => *v == r[*c],
                            Expr::Col(c2) => r[*c2] == r[*c],
                            Expr::Add(c2, k) => r[*c2].and_then(|x| x.checked_add(*k)) == r[*c],
                            Expr::Default => tab.cols[*c].default == r[*c],
                        });
                        same && tabs.iter().filter(|c| !c.dropped && c.id != *t).any(|c| {
                            c.fks.iter().any(|f| f.parent == *t && f.onupd != Act::NoAction
                                && rows_of(cx.pre, c.id).iter().any(|x| proj(&f.cols, x) == proj(pk, r)))
                        })
                    });
                    if unchanged_referenced {
                        return "update-unchanged-key-fires-action";
                    }
                }
            }
            if touches_pk {
                for c in tabs.iter().filter(|c| !c.dropped) {
                    let to_t: Vec<&Fk> = c.fks.iter().filter(|f| f.parent == *t).collect();
                    if to_t.len() >= 2 && cx.orphans.iter().any(|o| o.child == c.id) {
                        return "update-two-fks-overwrite";
                    }
                    for fk in &to_t {
                        let overl = c.pk.as_ref().map(|p| fk.cols.iter().any(|x| p.contains(x))).unwrap_or(false)
                            || c.fks.iter().filter(|g| g.cols.iter().any(|x| fk.cols.contains(x))).count() > 1;
                        if fk.onupd == Act::Cascade && overl {
                            return "update-cascade-side-effect";
                        }
                    }
                }
                if tabs.iter().any(|c| !c.dropped && c.fks.iter().any(|f| f.parent == *t && f.onupd == Act::SetDefault)) {
                    return "set-default-unchecked";
                }
            }
        }
        _ => {}
    }
    "ri-violated"
}

/// rows the declared CASCADE closure removes (SET NULL / NO ACTION ignored): used by the stale-row classifier
fn ref_delete_cascade_only(tabs: &[Tab], pre: &State, t: usize, wh: &Option<Pred>) -> RefOut {
    let sel: Vec<usize> = rows_of(pre, t).iter().enumerate().filter(|(_, r)| selects(wh, r)).map(|(i, _)| i).collect();
    let stripped: Vec<Tab> = tabs
        .iter()
        .map(|x| {
            let mut y = x.clone();
            y.fks.retain(|f| f.ondel == Act::Cascade);
            y
        })
        .collect();
    ref_delete(&stripped, pre, t, &sel)
}
