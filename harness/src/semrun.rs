//! Shared pieces of the reference-semantics harnesses: load a DbDef into vibesql, run a generated
//! query, print observations as Gallina terms.
use crate::qgen::*;
use crate::sql::{self, Outcome};
use vibesql_storage::{Database, Row};
use vibesql_types::SqlValue;

pub fn to_sqlvalue(v: &Val) -> SqlValue {
    match v {
        Val::Null => SqlValue::Null,
        Val::Int(i) => SqlValue::Integer(*i),
        Val::Str(s) => SqlValue::Varchar(s.clone()),
        Val::Bool(b) => SqlValue::Boolean(*b),
    }
}

/// Create the tables through SQL and load the rows through the storage API (negative integer
/// literals cannot be written in INSERT ... VALUES).
pub fn load_db(d: &DbDef) -> Database {
    let mut db = Database::new();
    for s in create_sql(d) {
        sql::must(&mut db, &s);
    }
    for (i, t) in d.tables.iter().enumerate() {
        for r in &t.rows {
            db.insert_row(&format!("TAB{}", i), Row::new(r.iter().map(to_sqlvalue).collect())).expect("insert_row");
        }
    }
    db
}

/// Observed value -> reference value ("compare by value, not by storage type").
pub fn obs_val(v: &SqlValue) -> Option<Val> {
    Some(match v {
        SqlValue::Null => Val::Null,
        SqlValue::Integer(i) | SqlValue::Bigint(i) => Val::Int(*i),
        SqlValue::Smallint(i) => Val::Int(*i as i64),
        SqlValue::Unsigned(u) => Val::Int(*u as i64),
        SqlValue::Numeric(f) | SqlValue::Double(f) => {
            if f.is_finite() && *f == f.trunc() && f.abs() < 9.0e15 {
                Val::Int(*f as i64)
            } else {
                return None;
            }
        }
        SqlValue::Float(f) | SqlValue::Real(f) => {
            if f.is_finite() && *f == f.trunc() {
                Val::Int(*f as i64)
            } else {
                return None;
            }
        }
        SqlValue::Varchar(s) | SqlValue::Character(s) => Val::Str(s.clone()),
        SqlValue::Boolean(b) => Val::Bool(*b),
        _ => return None,
    })
}

pub enum Obs {
    Rows(Vec<Vec<Val>>),
    Err(String),
    Panic(String),
    /// a value outside the reference domain came back (e.g. a non-integral float)
    Alien(String),
}

pub fn observe(db: &mut Database, sql_text: &str) -> Obs {
    match sql::exec(db, sql_text) {
        Outcome::Rows(rows) => {
            let mut out = Vec::with_capacity(rows.len());
            for r in rows {
                let mut rr = Vec::with_capacity(r.len());
                for v in &r {
                    match obs_val(v) {
                        Some(x) => rr.push(x),
                        None => return Obs::Alien(format!("{:?}", v)),
                    }
                }
                out.push(rr);
            }
            Obs::Rows(out)
        }
        Outcome::Err(_, m) => Obs::Err(m),
        Outcome::Panic(m) => Obs::Panic(m),
        other => Obs::Err(format!("unexpected outcome {:?}", other)),
    }
}

pub fn coq_obs(o: &Obs) -> String {
    match o {
        Obs::Rows(r) => format!("(ObsRows {})", coq_rows(r)),
        Obs::Err(_) => "ObsErr".into(),
        Obs::Panic(_) | Obs::Alien(_) => "ObsPanic".into(),
    }
}

pub fn obs_text(o: &Obs) -> String {
    match o {
        Obs::Rows(r) => format!("rows {:?}", r),
        Obs::Err(m) => format!("error {}", m),
        Obs::Panic(m) => format!("PANIC {}", m),
        Obs::Alien(m) => format!("value outside the reference domain: {}", m),
    }
}

pub const SHARD_HEADER: &str = "From Coq Require Import List ZArith.\nImport ListNotations.\nOpen Scope Z_scope.\nFrom VibeSQL Require Import Sem.Syntax Sem.Rel Sem.Eval Run.SemRun.\n";

/// Create 1-3 secondary indexes on random columns of the loaded tables (single and two-column, ASC / DESC).
/// Results must not depend on them (C02), so every reference-semantics check can run with them: the index scan,
/// index-order and index-backed subquery paths then see the same generated queries as the plain paths.
pub fn add_random_indexes(db: &mut Database, d: &DbDef, r: &mut crate::rng::Rng, tag: &str) -> Vec<String> {
    let mut ddl = Vec::new();
    let n = 1 + r.below(3) as usize;
    for i in 0..n {
        let t = r.below(d.tables.len() as u64) as usize;
        let w = d.tables[t].cols.len();
        if w == 0 {
            continue;
        }
        let c1 = r.below(w as u64) as usize;
        let mut cols = vec![format!("c{}{}", c1, if r.chance(1, 4) { " DESC" } else { "" })];
        if w > 1 && r.chance(1, 3) {
            let c2 = (c1 + 1 + r.below((w - 1) as u64) as usize) % w;
            cols.push(format!("c{}", c2));
        }
        let text = format!("CREATE INDEX ix_{}_{} ON tab{} ({})", tag, i, t, cols.join(", "));
        if sql::exec(db, &text).is_ok() {
            ddl.push(text);
        }
    }
    ddl
}

/// The executor gives up on a statement after 300 s (QueryTimeoutExceeded): such an observation says nothing
/// about the property and must not reach the model comparison.
pub fn is_timeout(o: &Obs) -> bool {
    matches!(o, Obs::Err(m) if m.contains("QueryTimeoutExceeded"))
}
