//! Property-local helpers shared by the c18 and c20 harness binaries (included with `#[path]`):
//! a hand-written encoder for the `.vbsql` layout (used ONLY to craft malformed / adversarial files and
//! to locate fields inside files produced by the real `save_binary`), and a counting global allocator.
#![allow(dead_code)]
use std::alloc::{GlobalAlloc, Layout, System};
use std::sync::atomic::{AtomicBool, AtomicUsize, Ordering};

// ---------------------------------------------------------------------------------------------
// allocation recorder: largest single request and running total while `ARMED`
// ---------------------------------------------------------------------------------------------
pub struct CountingAlloc;
pub static ARMED: AtomicBool = AtomicBool::new(false);
pub static MAX_REQ: AtomicUsize = AtomicUsize::new(0);
/// largest request with alignment 1, i.e. a byte buffer (`Vec<u8>` / `String`): what the model's
/// `Alloc` events stand for
pub static MAX_REQ_BYTES: AtomicUsize = AtomicUsize::new(0);
pub static TOTAL_REQ: AtomicUsize = AtomicUsize::new(0);

#[inline]
fn note(l: Layout, n: usize) {
    if ARMED.load(Ordering::Relaxed) {
        MAX_REQ.fetch_max(n, Ordering::Relaxed);
        if l.align() == 1 {
            MAX_REQ_BYTES.fetch_max(n, Ordering::Relaxed);
        }
        TOTAL_REQ.fetch_add(n, Ordering::Relaxed);
    }
}

unsafe impl GlobalAlloc for CountingAlloc {
    unsafe fn alloc(&self, l: Layout) -> *mut u8 {
        note(l, l.size());
        System.alloc(l)
    }
    unsafe fn alloc_zeroed(&self, l: Layout) -> *mut u8 {
        note(l, l.size());
        System.alloc_zeroed(l)
    }
    unsafe fn dealloc(&self, p: *mut u8, l: Layout) {
        System.dealloc(p, l)
    }
    unsafe fn realloc(&self, p: *mut u8, l: Layout, n: usize) -> *mut u8 {
        note(l, n);
        System.realloc(p, l, n)
    }
}

pub fn alloc_arm() {
    MAX_REQ.store(0, Ordering::Relaxed);
    MAX_REQ_BYTES.store(0, Ordering::Relaxed);
    TOTAL_REQ.store(0, Ordering::Relaxed);
    ARMED.store(true, Ordering::Relaxed);
}
/// returns (largest single request, largest byte-buffer request, total requested) since `alloc_arm`
pub fn alloc_disarm() -> (usize, usize, usize) {
    ARMED.store(false, Ordering::Relaxed);
    (MAX_REQ.load(Ordering::Relaxed), MAX_REQ_BYTES.load(Ordering::Relaxed), TOTAL_REQ.load(Ordering::Relaxed))
}

// ---------------------------------------------------------------------------------------------
// crafted-file encoder (mirror of persistence/binary/{format,io,catalog,data}.rs writers)
// ---------------------------------------------------------------------------------------------
#[derive(Default, Clone)]
pub struct Enc(pub Vec<u8>);
impl Enc {
    pub fn header() -> Enc {
        let mut e = Enc::default();
        e.0.extend_from_slice(b"VBSQL");
        e.0.push(1);
        e.0.extend_from_slice(&[0u8; 10]);
        e
    }
    pub fn u8(&mut self, x: u8) -> &mut Self {
        self.0.push(x);
        self
    }
    pub fn u32(&mut self, x: u32) -> &mut Self {
        self.0.extend_from_slice(&x.to_le_bytes());
        self
    }
    pub fn u64(&mut self, x: u64) -> &mut Self {
        self.0.extend_from_slice(&x.to_le_bytes());
        self
    }
    pub fn bytes(&mut self, b: &[u8]) -> &mut Self {
        self.0.extend_from_slice(b);
        self
    }
    pub fn str(&mut self, s: &[u8]) -> &mut Self {
        self.u32(s.len() as u32);
        self.bytes(s)
    }
    /// catalog with no schemas/roles, the given tables (name, [(col, type string, nullable)]), no indexes, no triggers
    pub fn simple_catalog(&mut self, tables: &[(&[u8], Vec<(&[u8], &[u8], bool)>)]) -> &mut Self {
        self.u32(0).u32(0).u32(tables.len() as u32);
        for (name, cols) in tables {
            self.str(name).u32(cols.len() as u32);
            for (c, t, n) in cols {
                self.str(c).str(t).u8(*n as u8);
            }
        }
        self.u32(0).u32(0)
    }
}
