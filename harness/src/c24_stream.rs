//! C24 — the hostile statement stream: SQL text through `vh::sql::exec` (parser + executor entry points
//! under catch_unwind), each statement followed by sanity queries on every table.
use super::{Case, Obs};
use serde_json::json;
use std::collections::BTreeMap;
use vh::out::{Args, CaseLog, Summary};
use vh::rng::Rng;
use vh::sql::{exec, Outcome};
use vh::val::coq_value;
use vibesql_ast::BinaryOperator;
use vibesql_storage::{Database, Row};
use vibesql_types::SqlValue;

#[derive(Clone, Debug)]
pub struct Stmt {
    pub sql: String,
    pub tag: &'static str,
    /// known classes this statement is constructed to hit (decided by the generator from the operands)
    pub expect: Vec<&'static str>,
    /// `SELECT a op b` with non-negative integer literals: also compared with the model
    pub arith: Option<(BinaryOperator, i64, i64)>,
    /// reads only (the table counts must not change)
    pub read_only: bool,
}

#[derive(Clone, Debug, PartialEq)]
pub struct SObs {
    pub kind: char, // R rows, C count, D done, E error, P panic
    pub text: String,
    pub sanity: String, // "n1,n2,n3,n4" or a description of the failure
    pub sanity_ok: bool,
}

impl SObs {
    pub fn encode(&self) -> String {
        format!("{}\u{1f}{}\u{1f}{}\u{1f}{}", self.kind, self.text.replace(['\n', '\t'], " "), self.sanity, self.sanity_ok)
    }
    pub fn decode(s: &str) -> Option<SObs> {
        let p: Vec<&str> = s.split('\u{1f}').collect();
        if p.len() != 4 {
            return None;
        }
        Some(SObs { kind: p[0].chars().next()?, text: p[1].to_string(), sanity: p[2].to_string(), sanity_ok: p[3] == "true" })
    }
}

pub const TABLES: [&str; 4] = ["t1", "t2", "t3", "t4"];

fn st(sql: String, tag: &'static str) -> Stmt {
    let up = sql.trim_start().to_uppercase();
    Stmt { read_only: up.starts_with("SELECT"), sql, tag, expect: vec![], arith: None }
}

fn setup_db() -> Database {
    let mut db = Database::new();
    for s in [
        "CREATE TABLE t1 (a INTEGER, b INTEGER, d DOUBLE PRECISION, s VARCHAR(20))",
        "CREATE INDEX ia ON t1 (a)",
        "CREATE INDEX iab ON t1 (b, a)",
        "CREATE INDEX idd ON t1 (d, a)",
        "CREATE INDEX isx ON t1 (s)",
        "CREATE TABLE t2 (k INTEGER PRIMARY KEY, v BIGINT, f FLOAT, sm SMALLINT, n NUMERIC(12,2), u UNSIGNED)",
        "CREATE UNIQUE INDEX iv ON t2 (v)",
        // one index per leading column: with two candidates the planner's choice follows HashMap order and the
        // result of a NaN / -0.0 range scan then differs from run to run (see design.d/C24.md, observation O2)
        "CREATE TABLE t3 (d DOUBLE PRECISION, x INTEGER, e DOUBLE PRECISION)",
        "CREATE INDEX i3d ON t3 (d)",
        "CREATE INDEX i3ex ON t3 (e, x)",
        "CREATE TABLE t4 (a INTEGER, s VARCHAR(10))",
        "CREATE INDEX i4 ON t4 (a)",
        "CREATE INDEX i4s ON t4 (s, a)",
    ] {
        vh::sql::must(&mut db, s);
    }
    use SqlValue::*;
    let t1: Vec<(i64, i64, f64, &str)> = vec![
        (1, 1, 1.5, "a"),
        (2, 5, f64::from_bits(0x3ff8000000000001), "b"),
        (3, 6, 2.5, "c"),
        (i64::MAX, 7, 0.0, "\u{e9}"),
        (i64::MIN, 5, -0.0, "h\u{e9}llo"),
        (1, i64::MAX, 1e308, ""),
        (-7, -7, -2.5, "x"),
        (100, 50, 100.25, "zz"),
    ];
    for (a, b, dd, s) in t1 {
        db.insert_row("T1", Row::new(vec![Integer(a), Integer(b), Double(dd), Varchar(s.to_string())])).expect("harness t1 row");
    }
    db.insert_row("T1", Row::new(vec![Null, Null, Null, Null])).expect("harness t1 null row");
    let t2: Vec<(i64, i64, f32, i16, f64, u64)> = vec![
        (1, i64::MAX, 1.5, i16::MAX, 1.25, u64::MAX),
        (2, 1, 2.5, 1, 2.5, 5),
        (3, i64::MIN, -1.5, i16::MIN, -1.25, 1 << 63),
        (4, -1, 3.0e38, -1, 99999.99, 0),
    ];
    for (k, v, f, sm, n, u) in t2 {
        db.insert_row("T2", Row::new(vec![Integer(k), Bigint(v), Float(f), Smallint(sm), Numeric(n), Unsigned(u)])).expect("harness t2 row");
    }
    for (dd, x) in [(f64::NAN, 1), (1.5, 2), (f64::NAN, 3), (f64::INFINITY, 4), (-0.0, 5), (0.0, 6), (f64::NEG_INFINITY, 7), (2.5, 8)] {
        db.insert_row("T3", Row::new(vec![Double(dd), Integer(x), Double(dd)])).expect("harness t3 row");
    }
    db
}

const INTS: [i64; 14] =
    [0, 1, 2, 7, 3037000499, 3037000500, 4294967296, 4611686018427387904, 9007199254740993, 9223372036854775806, 9223372036854775807, 1000000007, 99, 4611686018427387903];

fn lit_neg(z: i64) -> String {
    // a SQL expression whose value is z (negative values through unary minus; i64::MIN as -MAX - 1)
    if z == i64::MIN {
        "(-9223372036854775807 - 1)".into()
    } else if z < 0 {
        format!("(-{})", -(z as i128))
    } else {
        format!("{}", z)
    }
}

fn arith_stmts(r: &mut Rng, n: usize, out: &mut Vec<Stmt>) {
    let ops: [(&str, BinaryOperator); 5] = [
        ("+", BinaryOperator::Plus),
        ("-", BinaryOperator::Minus),
        ("*", BinaryOperator::Multiply),
        ("DIV", BinaryOperator::IntegerDivide),
        ("/", BinaryOperator::Divide),
    ];
    let mut push = |a: i64, b: i64, k: usize, out: &mut Vec<Stmt>| {
        let (sym, op) = &ops[k];
        let mut s = st(format!("SELECT {} {} {}", a, sym, b), "literal-arith");
        let (x, y) = (a as i128, b as i128);
        let z = match k {
            0 => Some(x + y),
            1 => Some(x - y),
            2 => Some(x * y),
            _ => None,
        };
        if let Some(z) = z {
            if z < i64::MIN as i128 || z > i64::MAX as i128 {
                s.expect.push(["i64-add-overflow", "i64-sub-overflow", "i64-mul-overflow"][k]);
            }
        }
        if k == 3 && (x.abs() > (1 << 53) || y.abs() > (1 << 53)) {
            s.expect.push("int-div-via-f64-inexact");
        }
        s.arith = Some((op.clone(), a, b));
        out.push(s);
    };
    for &a in &INTS {
        for &b in &INTS {
            for k in 0..5 {
                if (a % 3 + b % 3 + k as i64) % 3 == 0 || a >= 9223372036854775806 || b >= 9223372036854775806 {
                    push(a, b, k, out);
                }
            }
        }
    }
    for _ in 0..n {
        let a = (r.next() >> r.below(40)) as i64 & i64::MAX;
        let b = (r.next() >> r.below(40)) as i64 & i64::MAX;
        push(a, b, r.below(5) as usize, out);
    }
}

fn signed_arith(out: &mut Vec<Stmt>) {
    let vals = [i64::MIN, i64::MIN + 1, -1, 0, 1, i64::MAX];
    for &a in &vals {
        for &b in &vals {
            for (k, sym) in ["+", "-", "*", "DIV", "/"].iter().enumerate() {
                let mut s = st(format!("SELECT {} {} {}", lit_neg(a), sym, lit_neg(b)), "signed-arith");
                let (x, y) = (a as i128, b as i128);
                let z = match k {
                    0 => Some(x + y),
                    1 => Some(x - y),
                    2 => Some(x * y),
                    _ => None,
                };
                if let Some(z) = z {
                    if z < i64::MIN as i128 || z > i64::MAX as i128 {
                        s.expect.push(["i64-add-overflow", "i64-sub-overflow", "i64-mul-overflow"][k]);
                    }
                }
                if k == 3 {
                    s.expect.push("int-div-via-f64-inexact");
                }
                out.push(s);
            }
            let mut m = st(format!("SELECT MOD({}, {})", lit_neg(a), lit_neg(b)), "mod-fn");
            if a == i64::MIN && b == -1 {
                m.expect.push("i64-rem-overflow");
            }
            out.push(m);
        }
        let mut n = st(format!("SELECT -{}", lit_neg(a)), "unary-minus");
        let mut ab = st(format!("SELECT ABS({})", lit_neg(a)), "abs");
        if a == i64::MIN {
            n.expect.push("i64-neg-overflow");
            ab.expect.push("i64-abs-overflow");
        }
        out.push(n);
        out.push(ab);
    }
    for (sql, ex) in [
        ("SELECT -CAST(-32768 AS SMALLINT)", vec!["i64-neg-overflow"]),
        ("SELECT ABS(CAST(-32768 AS SMALLINT))", vec!["i64-abs-overflow"]),
        ("SELECT -CAST(-9223372036854775807 - 1 AS BIGINT)", vec!["i64-neg-overflow"]),
        ("SELECT CAST(32767 AS SMALLINT) + CAST(1 AS SMALLINT)", vec![]),
        ("SELECT CAST(18446744073709551615 AS UNSIGNED) + 0", vec!["unsigned-as-i64-wrap"]),
        ("SELECT CAST(9223372036854775808 AS UNSIGNED) * 1", vec!["unsigned-as-i64-wrap"]),
        ("SELECT CAST(5 AS UNSIGNED) - 6", vec![]),
        ("SELECT CAST(1.5 AS FLOAT) / CAST(2.0 AS FLOAT)", vec!["div-unreachable-arm"]),
        ("SELECT CAST(1.5 AS FLOAT) / 2", vec!["div-unreachable-arm"]),
        ("SELECT 2 / CAST(1.5 AS REAL)", vec!["div-unreachable-arm"]),
        ("SELECT CAST(1.5 AS DOUBLE PRECISION) / 2", vec!["div-unreachable-arm"]),
        ("SELECT f / 2 FROM t2", vec!["div-unreachable-arm"]),
        ("SELECT f / f, f + f, f * f, f - f FROM t2 WHERE k = 2", vec!["div-unreachable-arm"]),
        ("SELECT 1.5 / 2, 1.5 / 0, 0 / 0, 0.0 / 0.0, 1e308 * 10, -1e308 * 10", vec![]),
        ("SELECT TRUE + TRUE, TRUE * 5, TRUE / 1.5, TRUE + 1.5, FALSE / TRUE, TRUE DIV FALSE", vec![]),
        ("SELECT 9223372036854775808", vec![]),
        ("SELECT 9223372036854775808 + 1, -9223372036854775808, 99999999999999999999999999999999", vec![]),
        ("SELECT 1e400, -1e400, 1e-400", vec![]),
        ("SELECT v + 1 FROM t2 WHERE k = 1", vec!["i64-add-overflow"]),
        ("SELECT v - 1 FROM t2 WHERE k = 3", vec!["i64-sub-overflow"]),
        ("SELECT v * 2 FROM t2", vec!["i64-mul-overflow"]),
        ("SELECT sm + sm, sm * sm, sm - sm FROM t2", vec![]),
        ("SELECT -sm FROM t2", vec!["i64-neg-overflow"]),
        ("SELECT -v FROM t2", vec!["i64-neg-overflow"]),
        ("SELECT ABS(v) FROM t2", vec!["i64-abs-overflow"]),
        ("SELECT u + 0 FROM t2", vec!["unsigned-as-i64-wrap"]),
        ("SELECT u * 2 FROM t2 WHERE k = 2", vec![]),
        ("SELECT a + b FROM t1", vec!["i64-add-overflow"]),
        ("SELECT a * b FROM t1 WHERE a < 1000", vec!["i64-mul-overflow"]),
        ("SELECT a - b FROM t1", vec!["i64-sub-overflow"]),
        ("SELECT a DIV b, a / b FROM t1", vec!["int-div-via-f64-inexact"]),
        ("SELECT MOD(a, b) FROM t1", vec![]),
        ("SELECT n + 1, n * n, n / 0, n DIV 2 FROM t2", vec![]),
    ] {
        let mut s = st(sql.to_string(), "typed-arith");
        s.expect = ex;
        out.push(s);
    }
}

fn aggregate_stmts(out: &mut Vec<Stmt>) {
    for (sql, ex) in [
        ("SELECT SUM(a) FROM t1", vec!["sum-i64-overflow"]),
        ("SELECT SUM(a) FROM t1 WHERE a > 0", vec!["sum-i64-overflow"]),
        ("SELECT SUM(a) FROM t1 WHERE a < 1000", vec![]),
        ("SELECT AVG(a) FROM t1", vec!["sum-i64-overflow"]),
        ("SELECT AVG(a) FROM t1 WHERE a > 0", vec!["sum-i64-overflow"]),
        ("SELECT SUM(b), COUNT(*), MIN(a), MAX(a) FROM t1", vec!["sum-i64-overflow"]),
        ("SELECT SUM(a) FROM t1 GROUP BY s", vec![]),
        ("SELECT b, SUM(a) FROM t1 GROUP BY b", vec!["sum-i64-overflow"]),
        ("SELECT SUM(a + 1) FROM t1 WHERE a < 1000", vec![]),
        ("SELECT SUM(a + 1) FROM t1", vec!["i64-add-overflow"]),
        ("SELECT SUM(a * 2) FROM t1 WHERE a > 50", vec!["i64-mul-overflow"]),
        ("SELECT SUM(a), COUNT(*) FROM t1 HAVING COUNT(*) > 0", vec!["sum-i64-overflow"]),
        ("SELECT SUM(DISTINCT a) FROM t1 WHERE a > 0", vec!["sum-i64-overflow"]),
        ("SELECT SUM(v) FROM t2", vec!["sum-i64-overflow"]),
        ("SELECT SUM(v) FROM t2 WHERE v > 0", vec!["sum-i64-overflow"]),
        ("SELECT SUM(v), AVG(v) FROM t2 WHERE v < 0", vec!["sum-i64-overflow"]),
        ("SELECT SUM(sm), AVG(sm), SUM(f), AVG(f), SUM(n), AVG(n) FROM t2", vec![]),
        ("SELECT SUM(u) FROM t2", vec![]),
        ("SELECT SUM(d), AVG(d), MIN(d), MAX(d) FROM t1", vec![]),
        ("SELECT SUM(d), AVG(d), MIN(d), MAX(d), COUNT(d) FROM t3", vec![]),
        ("SELECT SUM(s) FROM t1", vec![]),
        ("SELECT AVG(s), MIN(s), MAX(s) FROM t1", vec![]),
        ("SELECT SUM(a) FROM t4", vec![]),
        ("SELECT AVG(a), MIN(a), MAX(a), COUNT(a) FROM t4", vec![]),
        ("SELECT COUNT(*) FROM t1, t1 AS x, t1 AS y", vec![]),
        ("SELECT SUM(t1.a) FROM t1, t2 WHERE t1.a = t2.k", vec![]),
        ("SELECT SUM(x) FROM t3 GROUP BY d", vec![]),
        ("SELECT d, COUNT(*) FROM t3 GROUP BY d", vec![]),
    ] {
        let mut s = st(sql.to_string(), "aggregate");
        s.expect = ex;
        out.push(s);
    }
}

fn substring_stmts(out: &mut Vec<Stmt>) {
    for s in ["hello", "h\u{e9}llo", "\u{65e5}\u{672c}", "", "\u{e9}"] {
        for (from, len) in [
            ("-5", Some("4611686018427387904")),
            ("2", Some("1")),
            ("3", Some("1")),
            ("3", None),
            ("2", None),
            ("0", Some("0")),
            ("1", Some("-1")),
            ("9223372036854775807", Some("9223372036854775807")),
            ("1", Some("9223372036854775807")),
            ("2", Some("9223372036854775807")),
            ("-9223372036854775807 - 1", Some("2")),
        ] {
            let sql = match len {
                Some(l) => format!("SELECT SUBSTRING('{}' FROM {} FOR {})", s, from, l),
                None => format!("SELECT SUBSTRING('{}' FROM {})", s, from),
            };
            let mut x = st(sql, "substring");
            if !s.is_ascii() {
                x.expect.push("substring-char-boundary");
            }
            out.push(x);
        }
    }
    for sql in [
        "SELECT SUBSTRING(s FROM 2 FOR 1) FROM t1",
        "SELECT SUBSTR(s, 2) FROM t1",
        "SELECT SUBSTRING(s, 3, 2) FROM t1 WHERE a = 1",
        "SELECT s FROM t1 WHERE SUBSTRING(s FROM 2 FOR 1) = 'x'",
    ] {
        let mut x = st(sql.to_string(), "substring");
        x.expect.push("substring-char-boundary");
        out.push(x);
    }
    for (sql, class) in [
        ("SELECT LOCATE('a', 'abc', -9223372036854775807 - 1)", "locate-start-position-overflow"),
        ("SELECT LOCATE('b', 'abc', 2), LOCATE('b', 'abc', 0), LOCATE('b', 'abc', -5), LOCATE('b', 'abc', 9223372036854775807)", "locate-start-position-overflow"),
        ("SELECT LOCATE('l', 'h\u{e9}llo', 3)", "locate-start-char-boundary"),
        ("SELECT LOCATE('', 'h\u{e9}llo', 3), LOCATE('l', 'h\u{e9}llo', 2), LOCATE('l', 'h\u{e9}llo', 4)", "locate-start-char-boundary"),
        ("SELECT LOCATE('a', s, 3) FROM t1", "locate-start-char-boundary"),
        ("SELECT FORMAT(1, 9223372036854775807)", "format-decimals-out-of-range"),
        ("SELECT FORMAT(1.5, 65536)", "format-decimals-out-of-range"),
        ("SELECT FORMAT(1.5, 300), FORMAT(1234567.891, 2), FORMAT(-0.5, 0), FORMAT(1e308, 3), FORMAT(1, -9223372036854775807 - 1)", "format-decimals-out-of-range"),
    ] {
        let mut x = st(sql.to_string(), "function-hostile");
        x.expect.push(class);
        out.push(x);
    }
    for sql in [
        "SELECT LEFT('h\u{e9}llo', 2), RIGHT('h\u{e9}llo', 4), LEFT('abc', -1), RIGHT('abc', 9223372036854775807), LEFT('abc', 9223372036854775807)",
        "SELECT SUBSTRING('abc' FROM 'x')",
        "SELECT SUBSTRING('abc' FROM 1.5)",
        "SELECT SUBSTRING(5 FROM 1)",
        "SELECT SUBSTRING(NULL FROM 1), SUBSTRING('abc' FROM NULL), SUBSTRING('abc' FROM 1 FOR NULL)",
        "SELECT SUBSTRING('abc')",
        "SELECT SUBSTRING()",
    ] {
        out.push(st(sql.to_string(), "substring"));
    }
}

fn range_stmts(r: &mut Rng, n: usize, out: &mut Vec<Stmt>) {
    // (column, literals ascending-ish, multi-column index on it?)
    let cols: [(&str, &str, Vec<&str>); 11] = [
        ("t1", "a", vec!["-9223372036854775807 - 1", "-7", "0", "1", "2", "3", "5", "100", "9223372036854775807", "1.5", "'x'", "NULL", "TRUE"]),
        ("t1", "b", vec!["-7", "1", "5", "6", "7", "50", "9223372036854775807", "5.5", "'x'", "NULL"]),
        ("t1", "d", vec!["-2.5", "-0.0", "0.0", "1.5", "1.5000000000000002", "1.5000000000000004", "2.5", "100.25", "1e308", "1e400", "'x'", "NULL", "2"]),
        ("t1", "s", vec!["''", "'a'", "'b'", "'c'", "'x'", "'zz'", "'\u{e9}'", "5", "NULL"]),
        ("t2", "k", vec!["0", "1", "2", "3", "4", "5", "-1", "9223372036854775807", "2.5"]),
        ("t2", "v", vec!["-9223372036854775807 - 1", "-1", "0", "1", "9223372036854775807", "9223372036854775808", "0.5"]),
        ("t3", "d", vec!["-1e400", "-0.0", "0.0", "1.5", "2.5", "1e400", "1.5000000000000002", "NULL"]),
        ("t3", "e", vec!["-1e400", "-0.0", "0.0", "1.5", "2.5", "1e400", "1.5000000000000002", "NULL", "2"]),
        ("t4", "s", vec!["''", "'a'", "'n'", "5"]),
        ("t4", "a", vec!["0", "1", "5"]),
        ("t3", "x", vec!["0", "1", "5", "9"]),
    ];
    let lows = [">", ">="];
    let highs = ["<", "<="];
    let mut push = |t: &str, c: &str, lo: &str, lop: &str, hi: &str, hop: &str, out: &mut Vec<Stmt>| {
        let mut s = st(format!("SELECT * FROM {} WHERE {} {} {} AND {} {} {}", t, c, lop, lo, c, hop, hi), "range-indexed");
        if ((t == "t1" && (c == "d" || c == "b")) || (t == "t3" && c == "e")) && lop == ">" {
            s.expect.push("range-multi-column-exclusive-start-overshoot");
        }
        out.push(s);
    };
    for (t, c, lits) in cols.iter() {
        for (i, lo) in lits.iter().enumerate() {
            for (j, hi) in lits.iter().enumerate() {
                // every inverted / degenerate / adjacent pair, a sample of the others
                if i == j || j + 1 == i || i + 1 == j || (i * 7 + j * 3) % 5 == 0 {
                    for lop in lows {
                        for hop in highs {
                            push(t, c, lo, lop, hi, hop, out);
                        }
                    }
                }
            }
            out.push(st(format!("SELECT * FROM {} WHERE {} BETWEEN {} AND {}", t, c, lo, lits[(i + 1) % lits.len()]), "range-indexed"));
            out.push(st(format!("SELECT * FROM {} WHERE {} BETWEEN {} AND {}", t, c, lits[(i + 1) % lits.len()], lo), "range-indexed"));
            out.push(st(format!("SELECT * FROM {} WHERE {} NOT BETWEEN {} AND {}", t, c, lo, lo), "range-indexed"));
            out.push(st(format!("SELECT * FROM {} WHERE {} > {}", t, c, lo), "range-indexed"));
            out.push(st(format!("SELECT * FROM {} WHERE {} <= {}", t, c, lo), "range-indexed"));
            out.push(st(format!("SELECT * FROM {} WHERE {} = {}", t, c, lo), "range-indexed"));
            out.push(st(format!("SELECT * FROM {} WHERE {} IN ({}, {}, NULL)", t, c, lo, lits[(i + 2) % lits.len()]), "range-indexed"));
            out.push(st(format!("SELECT {} FROM {} WHERE {} >= {} ORDER BY {} DESC", c, t, c, lo, c), "range-indexed"));
        }
    }
    for _ in 0..n {
        let (t, c, lits) = r.pick(&cols);
        let (lo, hi) = (*r.pick(lits), *r.pick(lits));
        let (lop, hop) = (*r.pick(&lows[..]), *r.pick(&highs[..]));
        push(t, c, lo, lop, hi, hop, out);
    }
    // neighbouring doubles on the multi-column index (d, a)
    for _ in 0..n {
        let base = (r.range(-800, 800) as f64) / 8.0;
        let hi = f64::from_bits(base.to_bits() + r.below(3));
        let mut s = st(format!("SELECT a FROM t1 WHERE d > {:?} AND d {} {:?}", base, *r.pick(&highs[..]), hi), "range-adjacent-doubles");
        s.expect.push("range-multi-column-exclusive-start-overshoot");
        out.push(s);
    }
}

fn misc_stmts(out: &mut Vec<Stmt>) {
    for sql in [
        // NaN sort keys and grouping keys
        "SELECT d, x FROM t3 ORDER BY d",
        "SELECT d, x FROM t3 ORDER BY d DESC, x",
        "SELECT DISTINCT d FROM t3",
        "SELECT d FROM t3 ORDER BY d LIMIT 3 OFFSET 2",
        "SELECT t3.d, y.d FROM t3, t3 AS y WHERE t3.d = y.d",
        "SELECT t3.x FROM t3 JOIN t1 ON t3.d = t1.d",
        "SELECT x FROM t3 WHERE d = d",
        "SELECT x FROM t3 WHERE d <> d",
        "SELECT MIN(d), MAX(d) FROM t3 WHERE x IN (1, 2, 3)",
        "SELECT x FROM t3 WHERE d IN (SELECT d FROM t3)",
        "SELECT x, d FROM t3 WHERE d > 1 ORDER BY d",
        "SELECT d FROM t3 UNION SELECT d FROM t1",
        "SELECT d FROM t3 INTERSECT SELECT d FROM t3",
        "SELECT d FROM t3 EXCEPT SELECT d FROM t1",
        // missing objects
        "SELECT * FROM nope",
        "SELECT nope FROM t1",
        "SELECT t9.a FROM t1",
        "SELECT a FROM t1 ORDER BY nope",
        "SELECT a FROM t1 GROUP BY nope",
        "INSERT INTO nope VALUES (1)",
        "UPDATE nope SET a = 1",
        "UPDATE t1 SET nope = 1",
        "DELETE FROM nope",
        "DROP TABLE nope",
        "DROP INDEX nope",
        "CREATE INDEX ix ON nope (a)",
        "CREATE INDEX ix ON t1 (nope)",
        "CREATE INDEX ia ON t1 (a)",
        "CREATE TABLE t1 (a INTEGER)",
        "DROP VIEW nope",
        "ALTER TABLE nope ADD COLUMN z INTEGER",
        "TRUNCATE TABLE nope",
        "SELECT nope(1)",
        "SELECT a FROM t1 WHERE a = (SELECT a FROM nope)",
        "ROLLBACK",
        "COMMIT",
        "ROLLBACK TO SAVEPOINT nope",
        "RELEASE SAVEPOINT nope",
        // arity
        "INSERT INTO t4 VALUES (1)",
        "INSERT INTO t4 VALUES (1, 'x', 3)",
        "INSERT INTO t4 (a) VALUES (1, 2)",
        "INSERT INTO t4 (a, s, a) VALUES (1, 'x', 2)",
        "INSERT INTO t4 (a, nope) VALUES (1, 2)",
        "INSERT INTO t4 SELECT a FROM t1",
        "SELECT a FROM t1 UNION SELECT a, b FROM t1",
        "SELECT a FROM t1 WHERE a IN (SELECT a, b FROM t1)",
        "SELECT (SELECT a, b FROM t1)",
        "SELECT (SELECT a FROM t1)",
        "SELECT a FROM t1 WHERE (a, b) = (1, 1)",
        // type mismatches
        "SELECT 'abc' + 1, 'abc' * 2, 'abc' - 'abc', '5' + 5",
        "SELECT DATE '2024-01-31' + 5",
        "SELECT DATE '2024-01-31' - DATE '2024-01-01'",
        "SELECT DATE '2024-01-31' * 2",
        "SELECT TRUE * 'x'",
        "SELECT a FROM t1 WHERE s > 5",
        "SELECT a FROM t1 WHERE a > 'x'",
        "SELECT a FROM t1 WHERE s = 5 OR a = 'x'",
        "SELECT a FROM t1 WHERE d",
        "SELECT a FROM t1 WHERE s",
        "SELECT NOT 'x', NOT 5, NOT NULL, -'x', +'x', -TRUE, -NULL, - DATE '2024-01-01'",
        "SELECT CAST('abc' AS INTEGER), CAST('' AS INTEGER), CAST('9223372036854775808' AS INTEGER), CAST('1e999' AS DOUBLE PRECISION)",
        "SELECT CAST(1e300 AS INTEGER), CAST(-1e300 AS BIGINT), CAST(1e10 AS SMALLINT), CAST(-1 AS UNSIGNED), CAST(1e30 AS UNSIGNED)",
        "SELECT CAST(99999 AS SMALLINT), CAST(-99999 AS SMALLINT), CAST(9223372036854775807 AS SMALLINT)",
        "SELECT CAST(1.0e40 AS FLOAT), CAST(1.0e40 AS REAL), CAST(0.0 / 0.0 AS INTEGER)",
        "SELECT CAST('2024-02-30' AS DATE), CAST('25:61:61' AS TIME), CAST('x' AS TIMESTAMP), CAST(5 AS DATE)",
        "SELECT CAST('h\u{e9}llo' AS VARCHAR(2))",
        "SELECT CAST('h\u{e9}llo' AS VARCHAR(3)), CAST('h\u{e9}llo' AS VARCHAR(1)), CAST('h\u{e9}llo' AS CHAR(2)), CAST('abc' AS VARCHAR(0))",
        "SELECT CAST(s AS VARCHAR(1)) FROM t1",
        "SELECT CAST(s AS VARCHAR(2)) FROM t1 WHERE a = -9223372036854775807 - 1",
        "SELECT CAST(d AS VARCHAR(2)), CAST(a AS VARCHAR(3)), CAST(d AS CHAR(1)) FROM t1",
        "SELECT CAST(9223372036854775807 AS NUMERIC(5,2)), CAST(1.5 AS NUMERIC(400,2)), CAST(1.5 AS NUMERIC(2,300))",
        "SELECT CAST(TRUE AS INTEGER), CAST('x' AS BOOLEAN), CAST(2 AS BOOLEAN), CAST(NULL AS INTEGER)",
        "INSERT INTO t4 VALUES ('x', 5)",
        "INSERT INTO t4 VALUES (1.5, 'x')",
        "INSERT INTO t4 VALUES (9223372036854775807, 'a string longer than ten chars')",
        "INSERT INTO t4 VALUES (1, 'h\u{e9}h\u{e9}h\u{e9}h\u{e9}h\u{e9}h')",
        "UPDATE t4 SET a = 'x'",
        "UPDATE t1 SET s = 5 WHERE a = 1",
        "SELECT a FROM t1 WHERE s LIKE 5",
        "SELECT a FROM t1 WHERE a LIKE '%'",
        "SELECT a FROM t1 WHERE s LIKE '%\u{e9}%' OR s LIKE '_\u{e9}' OR s LIKE '\\'",
        "SELECT 'a' || 5, 5 || 5, NULL || 'a', 'a' || TRUE",
        "SELECT CASE WHEN 5 THEN 1 ELSE 'x' END, CASE 'x' WHEN 5 THEN 1 END, CASE WHEN NULL THEN 1 END",
        "SELECT COALESCE(), COALESCE(NULL), NULLIF(1), NULLIF(1, 'x'), NULLIF(1, 1, 1)",
        "SELECT a FROM t1 WHERE a BETWEEN 'a' AND 5",
        "SELECT a FROM t1 WHERE a IN ('x', 5, NULL, TRUE, 1.5)",
        "SELECT a FROM t1 ORDER BY 5",
        "SELECT a FROM t1 ORDER BY 0",
        "SELECT a FROM t1 ORDER BY -1",
        "SELECT a FROM t1 ORDER BY 9223372036854775807",
        "SELECT a FROM t1 GROUP BY 7",
        // LIMIT / OFFSET extremes
        "SELECT a FROM t1 LIMIT 9223372036854775807 OFFSET 9223372036854775807",
        "SELECT a FROM t1 LIMIT 0",
        "SELECT a FROM t1 LIMIT 2 OFFSET 9223372036854775807",
        "SELECT a FROM t1 LIMIT 9223372036854775807 OFFSET 3",
        "SELECT a FROM t1 LIMIT 18446744073709551615",
        "SELECT a FROM t1 LIMIT 18446744073709551616",
        "SELECT a FROM t1 LIMIT -1",
        "SELECT a FROM t1 LIMIT 1.5",
        "SELECT a FROM t1 LIMIT 'x'",
        "SELECT a FROM t1 ORDER BY a LIMIT 9223372036854775807 OFFSET 9223372036854775807",
        "SELECT a FROM t1 ORDER BY a LIMIT 3 OFFSET 18446744073709551615",
        "SELECT a FROM t1 ORDER BY a OFFSET 2",
        // DML with overflowing arithmetic: each block ends with a reset of t4 (the two builds may legitimately
        // diverge inside a block: the debug build panics where the release build wraps)
        "UPDATE t4 SET a = a + 9223372036854775807",
        "INSERT INTO t4 VALUES (1, 'n')",
        "INSERT INTO t4 VALUES (9223372036854775807, 'm')",
        "UPDATE t4 SET a = a + 1",
        "SELECT a FROM t4 ORDER BY a",
        "DELETE FROM t4",
        "INSERT INTO t4 VALUES (4611686018427387904, 'h')",
        "INSERT INTO t4 VALUES (3, 'n')",
        "UPDATE t4 SET a = a * 3 WHERE a > 0",
        "SELECT a FROM t4 ORDER BY a",
        "DELETE FROM t4",
        "INSERT INTO t4 VALUES (-9223372036854775807 - 1, 'min')",
        "UPDATE t4 SET a = -a",
        "DELETE FROM t4",
        "INSERT INTO t4 VALUES (7, 'seven')",
        "UPDATE t4 SET a = a DIV 0",
        "UPDATE t4 SET a = a / 0",
        "SELECT a FROM t4",
        "DELETE FROM t4 WHERE a + 9223372036854775807 > 0",
        "DELETE FROM t4 WHERE a / 0 = 1",
        "DELETE FROM t4",
        "INSERT INTO t4 SELECT a * 2, s FROM t1 WHERE a > 50",
        "DELETE FROM t4",
        "INSERT INTO t4 SELECT a + b, 'q' FROM t1",
        "DELETE FROM t4",
        "INSERT INTO t4 SELECT a, SUBSTRING(s FROM 2 FOR 1) FROM t1",
        "DELETE FROM t4",
        "BEGIN",
        "INSERT INTO t4 VALUES (5, 'five')",
        "INSERT INTO t4 VALUES (9223372036854775807, 'max')",
        "UPDATE t4 SET a = a + 9223372036854775807",
        "SELECT a FROM t4",
        "ROLLBACK",
        "SELECT COUNT(*) FROM t4",
        "DELETE FROM t4",
        "BEGIN",
        "SAVEPOINT sp1",
        "INSERT INTO t4 VALUES (6, 'six')",
        "SELECT SUM(a) FROM t1",
        "ROLLBACK TO SAVEPOINT sp1",
        "COMMIT",
        "DELETE FROM t4",
        "CREATE TABLE t5 (p INTEGER PRIMARY KEY, q INTEGER CHECK (q + 9223372036854775807 > 0))",
        "INSERT INTO t5 VALUES (1, 1)",
        "INSERT INTO t5 VALUES (2, -5)",
        "INSERT INTO t5 VALUES (1, 0)",
        "DROP TABLE t5",
        "CREATE VIEW v1 AS SELECT a + b AS ab FROM t1",
        "SELECT * FROM v1",
        "SELECT SUM(ab) FROM v1 WHERE ab < 100",
        "DROP VIEW v1",
        "CREATE TABLE t6 (a INTEGER DEFAULT 9223372036854775807 + 1)",
        "INSERT INTO t6 VALUES (DEFAULT)",
        "DROP TABLE t6",
        // window / misc expressions
        "SELECT a, SUM(a) OVER (ORDER BY a) FROM t1 WHERE a > 0",
        "SELECT a, SUM(a) OVER (ORDER BY a ROWS BETWEEN 9223372036854775807 PRECEDING AND CURRENT ROW) FROM t1 WHERE a < 1000",
        "SELECT a, ROW_NUMBER() OVER (ORDER BY d), RANK() OVER (ORDER BY s) FROM t1",
        "SELECT a, LAG(a, 9223372036854775807) OVER (ORDER BY a), LEAD(a, -1) OVER (ORDER BY a) FROM t1",
        "SELECT a, NTILE(0) OVER (ORDER BY a) FROM t1",
        "SELECT x, AVG(d) OVER (ORDER BY d) FROM t3",
        "SELECT POSITION('\u{e9}' IN 'h\u{e9}llo'), POSITION('' IN ''), POSITION(NULL IN 'a'), POSITION(5 IN 'a')",
        "SELECT TRIM(BOTH '\u{e9}' FROM '\u{e9}h\u{e9}'), TRIM(LEADING 'ab' FROM 'abc'), TRIM(5)",
        "SELECT a FROM t1 WHERE EXISTS (SELECT 1 FROM t1 AS y WHERE y.a + t1.a > 0)",
        "SELECT a FROM t1 WHERE a > ALL (SELECT a + 1 FROM t1 WHERE a < 100)",
        "SELECT a FROM t1 WHERE a = ANY (SELECT b * b FROM t1)",
        "SELECT (SELECT SUM(a) FROM t1)",
        "SELECT a, (SELECT MAX(b) + t1.a FROM t1 AS y) FROM t1",
    ] {
        let mut s = st(sql.to_string(), "misc");
        let u = sql.to_uppercase();
        if u.contains("SUM(A)") && !u.contains("WHERE A <") {
            s.expect.push("sum-i64-overflow");
        }
        if u.contains("A + 9223372036854775807") || u.contains("A + B") || u.contains("+ T1.A") || u.contains("A + 1") || u.contains("9223372036854775807 + 1") || u.contains("Q + 9223372036854775807") {
            s.expect.push("i64-add-overflow");
        }
        if u.contains("A * 3") || u.contains("A * 2") || u.contains("B * B") {
            s.expect.push("i64-mul-overflow");
        }
        if u.contains("= -A") || u.contains("INSERT INTO T4 VALUES (-9223372036854775807 - 1") {
            s.expect.push("i64-neg-overflow");
        }
        if u.contains("INTO T5") {
            s.expect.push("i64-add-overflow");
        }
        if u.contains("AS VARCHAR(2))") || u.contains("CAST(S AS VARCHAR(1))") {
            s.expect.push("cast-varchar-truncate-char-boundary");
        }
        if u.contains("SUBSTRING(S") {
            s.expect.push("substring-char-boundary");
        }
        out.push(s);
    }
}

const FUNCS: [&str; 58] = [
    "COALESCE", "NULLIF", "UPPER", "LOWER", "SUBSTRING", "SUBSTR", "CHAR_LENGTH", "CHARACTER_LENGTH", "OCTET_LENGTH", "CONCAT", "LENGTH", "REPLACE", "REVERSE", "LEFT",
    "RIGHT", "INSTR", "LOCATE", "ABS", "ROUND", "TRUNCATE", "FLOOR", "CEIL", "CEILING", "MOD", "POWER", "POW", "SQRT", "EXP", "LN", "LOG", "LOG10", "SIGN", "PI", "SIN", "COS",
    "TAN", "ASIN", "ACOS", "ATAN", "ATAN2", "RADIANS", "DEGREES", "GREATEST", "LEAST", "FORMAT", "DATETIME", "YEAR", "MONTH", "DAY", "HOUR", "MINUTE", "SECOND", "DATEDIFF",
    "DATE_ADD", "DATE_SUB", "EXTRACT", "IF", "TO_NUMBER",
];
const FUNCS2: [&str; 10] = ["TO_DATE", "TO_TIMESTAMP", "TO_CHAR", "AGE", "ADDDATE", "SUBDATE", "ST_GEOMFROMTEXT", "ST_X", "ST_DISTANCE", "ST_ASTEXT"];

const HOSTILE_ARGS: [&str; 24] = [
    "NULL", "0", "1", "-1", "2", "9223372036854775807", "(-9223372036854775807 - 1)", "4611686018427387904", "1.5", "-0.0", "1e308", "-1e308", "''", "'abc'", "'h\u{e9}llo'",
    "'2024-02-30'", "'2024-01-31'", "TRUE", "DATE '2024-01-31'", "TIMESTAMP '2024-01-31 10:20:30'", "'%Y-%m-%d'", "'POINT(1 2)'", "300", "-300",
];

fn function_sweep(r: &mut Rng, per_fn: usize, out: &mut Vec<Stmt>) {
    let all: Vec<&str> = FUNCS.iter().chain(FUNCS2.iter()).copied().collect();
    for f in &all {
        out.push(st(format!("SELECT {}()", f), "function-arity"));
        for a in HOSTILE_ARGS.iter() {
            let mut s = st(format!("SELECT {}({})", f, a), "function-hostile");
            tag_fn(&mut s, f);
            out.push(s);
        }
        for _ in 0..per_fn {
            let n = 2 + r.below(3) as usize;
            let args: Vec<&str> = (0..n).map(|_| *r.pick(&HOSTILE_ARGS)).collect();
            let mut s = st(format!("SELECT {}({})", f, args.join(", ")), "function-hostile");
            tag_fn(&mut s, f);
            out.push(s);
        }
        let mut s = st(format!("SELECT {}(s), {}(a) FROM t1", f, f), "function-hostile");
        tag_fn(&mut s, f);
        out.push(s);
    }
}

fn tag_fn(s: &mut Stmt, f: &str) {
    match f {
        "ABS" => s.expect.push("i64-abs-overflow"),
        "LOCATE" => {
            s.expect.push("locate-start-position-overflow");
            s.expect.push("locate-start-char-boundary");
        }
        "FORMAT" => s.expect.push("format-decimals-out-of-range"),
        "MOD" => s.expect.push("i64-rem-overflow"),
        "SUBSTRING" | "SUBSTR" => s.expect.push("substring-char-boundary"),
        _ => {}
    }
}

pub fn gen_stream(seed: u64, thorough: bool) -> Vec<Stmt> {
    let mut r = Rng::new(seed, "c24/stream");
    let mut out = Vec::new();
    let k = if thorough { 8 } else { 1 };
    arith_stmts(&mut r, 600 * k, &mut out);
    signed_arith(&mut out);
    aggregate_stmts(&mut out);
    substring_stmts(&mut out);
    range_stmts(&mut r, 300 * k, &mut out);
    misc_stmts(&mut out);
    function_sweep(&mut r, 6 * k, &mut out);
    // interleave: a deterministic shuffle of the read-only statements keeps DML sequences in order
    out
}

fn canon_cell(v: &SqlValue) -> String {
    coq_value(&super::canon_nan(v))
}

fn sanity(db: &mut Database) -> (String, bool) {
    let mut parts = Vec::new();
    let mut ok = true;
    for t in TABLES {
        match exec(db, &format!("SELECT COUNT(*) FROM {}", t)) {
            Outcome::Rows(rows) if rows.len() == 1 && rows[0].len() == 1 => match &rows[0][0] {
                SqlValue::Integer(n) | SqlValue::Bigint(n) => parts.push(format!("{}", n)),
                other => {
                    ok = false;
                    parts.push(format!("?{:?}", other));
                }
            },
            other => {
                ok = false;
                parts.push(format!("!{}", other.tag()));
            }
        }
    }
    (parts.join(","), ok)
}

pub fn run_stream(stmts: &[Stmt]) -> Vec<SObs> {
    let mut db = setup_db();
    let mut out = Vec::with_capacity(stmts.len());
    let trace = std::env::var("C24_TRACE").is_ok();
    // watchdog: a statement that does not return within 60 s ends the run with a message naming it
    let current: std::sync::Arc<std::sync::Mutex<(String, std::time::Instant, bool)>> =
        std::sync::Arc::new(std::sync::Mutex::new((String::new(), std::time::Instant::now(), false)));
    {
        let cur = current.clone();
        std::thread::spawn(move || loop {
            std::thread::sleep(std::time::Duration::from_millis(500));
            let g = cur.lock().unwrap();
            if g.2 {
                return;
            }
            if !g.0.is_empty() && g.1.elapsed().as_secs() > 60 {
                eprintln!("harness: statement did not return within 60 s (execution neither returned a result nor an error): {}", g.0);
                std::process::exit(3);
            }
        });
    }
    for s in stmts {
        {
            let mut g = current.lock().unwrap();
            g.0 = s.sql.clone();
            g.1 = std::time::Instant::now();
        }
        let t0 = std::time::Instant::now();
        if trace {
            eprintln!("> {}", s.sql);
        }
        let o = exec(&mut db, &s.sql);
        if trace && t0.elapsed().as_millis() > 200 {
            eprintln!("  SLOW {} ms", t0.elapsed().as_millis());
        }
        let (kind, text) = match &o {
            Outcome::Rows(rows) => {
                let mut v: Vec<String> = rows.iter().map(|r| r.iter().map(canon_cell).collect::<Vec<_>>().join("|")).collect();
                v.sort();
                ('R', v.join(";"))
            }
            Outcome::Count(n) => ('C', format!("{}", n)),
            Outcome::Done => ('D', String::new()),
            Outcome::Err(c, _) => ('E', format!("{:?}", c)),
            Outcome::Panic(m) => ('P', m.clone()),
        };
        let (sn, ok) = sanity(&mut db);
        out.push(SObs { kind, text, sanity: sn, sanity_ok: ok });
    }
    current.lock().unwrap().2 = true;
    out
}

fn msg_matches(class: &str, msg: &str) -> bool {
    match class {
        "i64-add-overflow" => msg == "attempt to add with overflow",
        "sum-i64-overflow" => msg == "attempt to add with overflow",
        "i64-sub-overflow" => msg == "attempt to subtract with overflow",
        "i64-mul-overflow" => msg == "attempt to multiply with overflow",
        "i64-neg-overflow" | "i64-abs-overflow" => msg == "attempt to negate with overflow",
        "i64-rem-overflow" => msg == "attempt to calculate the remainder with overflow",
        "locate-start-position-overflow" => msg == "attempt to subtract with overflow",
        "format-decimals-out-of-range" => msg == "Formatting argument out of range",
        "div-unreachable-arm" => msg.contains("Unexpected combination of coerced type and result type"),
        "substring-char-boundary" | "cast-varchar-truncate-char-boundary" | "locate-start-char-boundary" => msg.contains("is not a char boundary"),
        "range-multi-column-exclusive-start-overshoot" => msg == "range start is greater than range end in BTreeMap",
        _ => false,
    }
}

/// the oracle on the stream; returns the literal-arithmetic statements as model cases
pub fn judge(
    sum: &mut Summary,
    log: &mut CaseLog,
    args: &Args,
    base: u64,
    stmts: &[Stmt],
    dbg: &[SObs],
    rel: &BTreeMap<u64, String>,
) -> Vec<(Case, Obs, Obs)> {
    let mut extra = Vec::new();
    let mut prev_d: Option<String> = None;
    let mut prev_r: Option<String> = None;
    // t4 contents may differ between the builds after an overflowing DML statement (debug panics, release
    // wraps); differences are attributed to that statement until t4 is reset
    let mut tainted = false;
    let init = {
        let mut db = setup_db();
        sanity(&mut db).0
    };
    for (i, s) in stmts.iter().enumerate() {
        let id = base + i as u64;
        let od = &dbg[i];
        let orl = match rel.get(&id).and_then(|x| SObs::decode(x)) {
            Some(o) => o,
            None => panic!("harness: release child did not report statement {}", id),
        };
        let wanted = args.only.as_ref().map(|o| o.contains(&id)).unwrap_or(true);
        let before_d = prev_d.clone().unwrap_or_else(|| init.clone());
        let before_r = prev_r.clone().unwrap_or_else(|| init.clone());
        prev_d = Some(od.sanity.clone());
        prev_r = Some(orl.sanity.clone());
        if !wanted {
            continue;
        }
        sum.evaluations += 2;
        sum.count(&format!("stream/{}", s.tag));
        sum.count(&format!("stream_outcome/{}", od.kind));
        sum.nontrivial(&s.sql);
        let cj = json!({"sql": s.sql, "tag": s.tag, "debug": format!("{}:{}", od.kind, od.text.chars().take(300).collect::<String>()),
                        "release": format!("{}:{}", orl.kind, orl.text.chars().take(300).collect::<String>()),
                        "sanity_debug": od.sanity, "sanity_release": orl.sanity});
        let mut logged = false;
        // 1. no panic
        for (which, o) in [("debug", od), ("release", &orl)] {
            if o.kind == 'P' {
                let class = s.expect.iter().find(|c| msg_matches(c, &o.text)).copied().unwrap_or("panic-unclassified");
                sum.finding(class, id, format!("{} build panicked on `{}`: {}", which, s.sql, o.text.chars().take(200).collect::<String>()), cj.clone());
                sum.count(&format!("stream_panic/{}/{}", which, class));
                logged = true;
            }
        }
        // 2. the database is usable afterwards, in both builds
        for (which, o, before) in [("debug", od, &before_d), ("release", &orl, &before_r)] {
            if !o.sanity_ok {
                sum.finding("db-unusable-after-statement", id, format!("{} build: sanity queries after `{}` gave {}", which, s.sql, o.sanity), cj.clone());
                logged = true;
            } else if (s.read_only || o.kind == 'E' || o.kind == 'P') && &o.sanity != before && !s.sql.starts_with("ROLLBACK") {
                sum.finding(
                    "counts-changed-by-failed-or-read-only-statement",
                    id,
                    format!("{} build: table counts went from {} to {} although `{}` {}", which, before, o.sanity, s.sql, if s.read_only { "only reads" } else { "failed" }),
                    cj.clone(),
                );
                logged = true;
            }
        }
        // 3. debug and release agree value by value (a silent wrap shows up here)
        if od.kind != orl.kind || od.text != orl.text || od.sanity != orl.sanity {
            sum.count("stream_debug_release_differ");
            let explained = od.kind == 'P' && s.expect.iter().any(|c| msg_matches(c, &od.text));
            if explained && !s.read_only {
                tainted = true;
            }
            if tainted && !explained {
                sum.count("stream_differ_after_divergent_dml");
            }
            if !explained && !tainted {
                sum.finding("debug-release-differ", id, format!("`{}`: debug {}:{} vs release {}:{}", s.sql, od.kind, od.text.chars().take(120).collect::<String>(), orl.kind, orl.text.chars().take(120).collect::<String>()), cj.clone());
            }
            logged = true;
        }
        if s.sql == "DELETE FROM t4" || s.sql == "ROLLBACK" {
            tainted = false;
        }
        // 4. literal integer arithmetic: exact value (i128) or error / NULL; also handed to the model
        if let Some((op, a, b)) = &s.arith {
            let c = Case::Bin { sqlite: false, op: op.clone(), a: SqlValue::Integer(*a), b: SqlValue::Integer(*b) };
            let conv = |o: &SObs| -> Obs {
                match o.kind {
                    'R' if !o.text.contains(';') && !o.text.contains('|') => Obs::Val(o.text.clone()),
                    'P' => Obs::Panic(o.text.clone()),
                    // integer literals: ErrClass::Type can only be DivisionByZero, Unsupported is the out-of-range error
                    'E' => Obs::Err(if o.text == "Type" { 2 } else if o.text == "Unsupported" { 3 } else { 0 }),
                    _ => Obs::Val("SHAPE".into()),
                }
            };
            let (cd, cr) = (conv(od), conv(&orl));
            super::oracle_sql_arith(sum, id, &c, &cd, &cr, &s.sql);
            extra.push((c, cd, cr));
        }
        if logged || i % 211 == 0 || args.only.is_some() {
            log.log(id, cj);
        }
        if i % 1500 == 7 {
            sum.sample(json!({"sql": s.sql, "debug": format!("{}:{}", od.kind, od.text.chars().take(120).collect::<String>()), "release": format!("{}:{}", orl.kind, orl.text.chars().take(120).collect::<String>()), "sanity": od.sanity}));
        }
    }
    extra
}

/// statements run one per child process under a wall-clock limit: a statement that does not return
/// violates "execution returns a result or an error"; `Some(class)` = constructed to hit a listed class
pub const HANG_PROBES: [(&str, Option<&str>); 6] = [
    ("SELECT TRIM('a' FROM 'abc')", None),
    ("SELECT TRIM('' FROM 'abc')", Some("trim-empty-removal-string-hang")),
    ("SELECT TRIM(BOTH '' FROM '')", Some("trim-empty-removal-string-hang")),
    ("SELECT TRIM(LEADING '' FROM s) FROM t1", Some("trim-empty-removal-string-hang")),
    ("SELECT a FROM t1 LIMIT 9223372036854775807 OFFSET 9223372036854775807", None),
    ("SELECT REPLACE('abc', '', 'x'), REVERSE(''), CONCAT(), LOCATE('', ''), INSTR('', '')", None),
];

/// `--role single`: run one statement on the standard database and report how it ended
pub fn run_single(sql: &str) {
    let mut db = setup_db();
    let o = exec(&mut db, sql);
    println!("{}", o.tag());
}

/// run `sql` in a child (`exe --role single`) with a limit; None = did not finish
pub fn probe_in_child(exe: &std::path::Path, sql: &str, limit_ms: u64) -> Option<String> {
    let mut ch = std::process::Command::new(exe)
        .args(["--role", "single"])
        .env("C24_SQL", sql)
        .env("RUST_BACKTRACE", "0")
        .stdout(std::process::Stdio::piped())
        .stderr(std::process::Stdio::null())
        .spawn()
        .expect("harness: cannot start probe child");
    let t0 = std::time::Instant::now();
    loop {
        match ch.try_wait() {
            Ok(Some(_)) => {
                let mut out = String::new();
                if let Some(mut so) = ch.stdout.take() {
                    use std::io::Read;
                    so.read_to_string(&mut out).ok();
                }
                return Some(out.trim().to_string());
            }
            Ok(None) => {
                if t0.elapsed().as_millis() as u64 > limit_ms {
                    ch.kill().ok();
                    ch.wait().ok();
                    return None;
                }
                std::thread::sleep(std::time::Duration::from_millis(20));
            }
            Err(_) => return None,
        }
    }
}
