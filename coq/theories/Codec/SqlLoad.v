(** Model of [vibesql_executor::load_sql_dump] (crates/vibesql-executor/src/persistence.rs) on the
    statements a dump consists of:

      split   [vibesql_storage::parse_sql_statements]                      (Lex/Splitter.v)
      loop    trim, skip empty / [--] pieces                               ([load_stmt])
      lex     [Lexer::tokenize]                                            (Lex/DumpLex.v)
      parse   [Parser::parse_statement] restricted to
              [parse_create_table_statement] (create/table.rs, create/types.rs,
              create/constraints.rs: the NOT NULL / NULL column constraints) and
              [parse_insert_statement] (insert.rs) with [parse_literal]
              (expressions/literals.rs) for the VALUES items
      run     [CreateTableExecutor::execute]; [execute_insert]: [validate_row_column_counts],
              [evaluate_insert_expression] (literals only), [coerce_value]
              (insert/validation.rs), the NOT NULL check of [RowValidator], then
              [Table::insert] = [RowNormalizer::normalize_and_validate]
              (vibesql-storage/src/table/normalization.rs)
      errors  every failure is reported through [truncate_for_error(trimmed, 100)], which cuts the
              statement at the last character boundary at or before byte 100 (no panic).

    Results: [OOk] / [OErr] ([Err(ExecutorError)]) / [OPanic] / [OAbstain].  [OAbstain] marks input
    outside the modelled fragment (other statement kinds, column lists, expressions that are not
    literals but might still evaluate, types the dump of a supported table never prints ...);
    the model never guesses there.  [OErr] is claimed only where every continuation of the real
    code ends in [Err]: once a VALUES item is a non-literal expression (unary minus), the statement
    fails whether or not the rest of it parses.  Definitions only (proofs: Codec/SqlLoadLaws.v). *)
From Coq Require Import Strings.String.
From Coq Require Import List ZArith Bool.
From VibeSQL Require Import Value.SqlValue Value.Dec Value.RStr Value.Temporal.
From VibeSQL Require Import Lex.Splitter Lex.DumpLex Codec.SqlLiteral.
Import ListNotations.
Open Scope Z_scope.

Inductive ores (A : Type) : Type :=
| OOk (a : A)
| OErr
| OPanic
| OAbstain.
Arguments OOk {A} a.
Arguments OErr {A}.
Arguments OPanic {A}.
Arguments OAbstain {A}.

Definition obind {A B} (r : ores A) (f : A -> ores B) : ores B :=
  match r with OOk a => f a | OErr => OErr | OPanic => OPanic | OAbstain => OAbstain end.

Definition of_res {A} (r : res A) : ores A :=
  match r with ROk a => OOk a | RErr => OErr | RPanic _ => OPanic end.

(** the token is the keyword whose variant is called [name] *)
Definition kw_is (k : str) (name : String.string) : bool := str_eqb k (lit name).
Definition id_is (t : str) (name : String.string) : bool := str_eqb t (lit name).

Section Loader.
Variable fl : float_ops.

(** * VALUES items: [parse_expression] where it yields [Expression::Literal] ([parse_literal]) *)
Definition parse_value (ts : list tok) : ores (sqlvalue * list tok) :=
  match ts with
  | TNum n :: r =>
      (* [num_str.parse::<i64>()] first, then [parse::<f64>()] *)
      match parse_i64 n with
      | Some i => OOk (VInteger i, r)
      | None => match parse_f64 fl n with Some b => OOk (VNumeric b, r) | None => OErr end
      end
  | TStr s :: r => OOk (VVarchar s, r)
  | TSym c :: _ =>
      (* unary minus: [Expression::UnaryOp], which [evaluate_insert_expression] rejects *)
      if c =? 45 then OErr else OAbstain
  | TKw k :: r =>
      if kw_is k "True" then OOk (VBoolean true, r)
      else if kw_is k "False" then OOk (VBoolean false, r)
      else if kw_is k "Null" then OOk (VNull, r)
      else if kw_is k "Date" then
        match r with TStr s :: r' => obind (of_res (parse_date s)) (fun v => OOk (v, r')) | _ => OErr end
      else if kw_is k "Time" then
        match r with TStr s :: r' => obind (of_res (parse_time s)) (fun v => OOk (v, r')) | _ => OErr end
      else if kw_is k "Timestamp" then
        match r with TStr s :: r' => obind (of_res (parse_timestamp s)) (fun v => OOk (v, r')) | _ => OErr end
      else if kw_is k "Interval" then
        (* INTERVAL 'text' must be followed by a field name *)
        match r with
        | TStr _ :: TIdent _ :: _ => OAbstain
        | TStr _ :: TKw k2 :: _ =>
            if kw_is k2 "Year" || kw_is k2 "Month" || kw_is k2 "Day" || kw_is k2 "Hour"
               || kw_is k2 "Minute" || kw_is k2 "Second" then OAbstain else OErr
        | _ => OErr
        end
      else OAbstain
  | _ => OAbstain
  end.

(** [parse_comma_separated_list(parse_expression)] then [expect_token(RParen)], after the
    opening parenthesis.  An item must be followed by [,] or [)]; anything else (an operator, a
    second primary) is outside the fragment. *)
Fixpoint parse_values (fuel : nat) (ts : list tok) : ores (list sqlvalue * list tok) :=
  match fuel with
  | O => OAbstain
  | S f =>
      obind (parse_value ts) (fun '(v, r) =>
        match r with
        | TComma :: r' => obind (parse_values f r') (fun '(vs, rest) => OOk (v :: vs, rest))
        | TRParen :: r' => OOk ([v], r')
        | _ => OAbstain
        end)
  end.

(** the [loop { expect '('; items; expect ')'; if ',' continue else break }] of VALUES *)
Fixpoint parse_rows (fuel : nat) (ts : list tok) : ores (list (list sqlvalue) * list tok) :=
  match fuel with
  | O => OAbstain
  | S f =>
      match ts with
      | TLParen :: r =>
          obind (parse_values (S (length r)) r) (fun '(row, rest) =>
            match rest with
            | TComma :: r' => obind (parse_rows f r') (fun '(rows, rest') => OOk (row :: rows, rest'))
            | _ => OOk ([row], rest)
            end)
      | _ => OErr
      end
  end.

(** [parse_insert_statement]: [INSERT INTO name VALUES rows] (an optional [;] and everything
    after it is ignored by [parse_statement]) *)
Definition parse_insert (ts : list tok) : ores (str * list (list sqlvalue)) :=
  match ts with
  | TKw k1 :: TKw k2 :: r2 =>
      if negb (kw_is k1 "Insert") then OAbstain
      else if kw_is k2 "Or" then OAbstain
      else if negb (kw_is k2 "Into") then OErr
      else
        match r2 with
        | TIdent name :: r3 =>
            match r3 with
            | TLParen :: _ => OAbstain
            | TKw k3 :: r4 =>
                if kw_is k3 "Values" then
                  obind (parse_rows (S (length r4)) r4) (fun '(rows, rest) =>
                    match rest with
                    | TKw k5 :: _ => if kw_is k5 "On" then OAbstain else OOk (name, rows)
                    | _ => OOk (name, rows)
                    end)
                else if kw_is k3 "Select" || kw_is k3 "With" then OAbstain
                else OErr
            | _ => OErr
            end
        | _ => OErr
        end
  | TKw k1 :: _ => if kw_is k1 "Insert" then OErr else OAbstain
  | _ => OAbstain
  end.

(** * CREATE TABLE *)

(** a [Token::Number] read by [n.parse::<u8>()] / [n.parse::<usize>()] *)
Definition num_u8 (n : str) : option Z := parse_u8 n.
Definition num_usize (n : str) : option Z := parse_int false 0 18446744073709551615 n.

(** [parse_timezone_modifier] *)
Definition parse_tz (ts : list tok) : ores (bool * list tok) :=
  match ts with
  | TKw k :: r =>
      if kw_is k "With" then
        match r with
        | TKw a :: TKw b :: r' => if kw_is a "Time" && kw_is b "Zone" then OOk (true, r') else OErr
        | _ => OErr
        end
      else if kw_is k "Without" then
        match r with
        | TKw a :: TKw b :: r' => if kw_is a "Time" && kw_is b "Zone" then OOk (false, r') else OErr
        | _ => OErr
        end
      else OOk (false, ts)
  | _ => OOk (false, ts)
  end.

(** [( n )] after a type name whose argument is a [usize]; [None] when there is no parenthesis *)
Definition parse_len_arg (ts : list tok) : ores (option Z * list tok) :=
  match ts with
  | TLParen :: r =>
      match r with
      | TNum n :: r1 =>
          match num_usize n with
          | None => OErr
          | Some v =>
              match r1 with
              | TRParen :: r2 => OOk (Some v, r2)
              | TKw _ :: _ => OAbstain       (* CHARACTERS / OCTETS modifiers *)
              | _ => OErr
              end
          end
      | _ => OErr
      end
  | _ => OOk (None, ts)
  end.

(** [parse_data_type], for the type names the writer prints for supported tables (and their
    documented aliases); any other name abstains *)
Definition parse_type (ts : list tok) : ores (dtype * list tok) :=
  match ts with
  | [] => OErr
  | t0 :: r =>
      let name : option str :=
        match t0 with
        | TIdent t => Some t
        | TKw k => if kw_is k "Date" then Some (lit "DATE") else if kw_is k "Time" then Some (lit "TIME")
                   else if kw_is k "Timestamp" then Some (lit "TIMESTAMP")
                   else if kw_is k "Interval" then Some (lit "INTERVAL")
                   else if kw_is k "Character" then Some (lit "CHARACTER")
                   else if kw_is k "Boolean" then Some (lit "BOOLEAN")
                   else if kw_is k "Set" then Some (lit "SET") else if kw_is k "Year" then Some (lit "YEAR")
                   else if kw_is k "Fixed" then Some (lit "FIXED") else None
        | _ => None
        end in
      match name with
      | None => OErr
      | Some t =>
          if id_is t "INTEGER" || id_is t "INT" then OOk (TInteger, r)
          else if id_is t "SMALLINT" then OOk (TSmallint, r)
          else if id_is t "BIGINT" || id_is t "LONG" then OOk (TBigint, r)
          else if id_is t "BOOLEAN" || id_is t "BOOL" then OOk (TBoolean, r)
          else if id_is t "REAL" then OOk (TReal, r)
          else if id_is t "DATE" then OOk (TDate, r)
          else if id_is t "TEXT" then OOk (TVarchar None, r)
          else if id_is t "FLOAT" then
            match r with
            | TLParen :: r1 =>
                match r1 with
                | TNum n :: r2 =>
                    match num_u8 n with
                    | None => OErr
                    | Some p => match r2 with TRParen :: r3 => OOk (TFloat p, r3) | _ => OErr end
                    end
                | _ => OErr
                end
            | _ => OOk (TFloat 53, r)
            end
          else if id_is t "DOUBLE" then
            match r with
            | TIdent w :: r1 => if id_is w "PRECISION" then OOk (TDouble, r1) else OOk (TDouble, r)
            | _ => OOk (TDouble, r)
            end
          else if id_is t "NUMERIC" || id_is t "DECIMAL" || id_is t "DEC" then
            match r with
            | TLParen :: r1 =>
                match r1 with
                | TNum n :: r2 =>
                    match num_u8 n with
                    | None => OErr
                    | Some p =>
                        match r2 with
                        | TComma :: r3 =>
                            match r3 with
                            | TNum m :: r4 =>
                                match num_u8 m with
                                | None => OErr
                                | Some sc => match r4 with TRParen :: r5 => OOk (TNumeric p sc, r5) | _ => OErr end
                                end
                            | _ => OErr
                            end
                        | TRParen :: r3 => OOk (TNumeric p 0, r3)
                        | _ => OErr
                        end
                    end
                | _ => OErr
                end
            | _ => OOk (TNumeric 38 0, r)
            end
          else if id_is t "TIME" then obind (parse_tz r) (fun '(tz, r1) => OOk (TTime tz, r1))
          else if id_is t "TIMESTAMP" || id_is t "DATETIME" then
            obind (parse_tz r) (fun '(tz, r1) => OOk (TTimestamp tz, r1))
          else if id_is t "VARCHAR" then
            obind (parse_len_arg r) (fun '(n, r1) => OOk (TVarchar n, r1))
          else if id_is t "CHAR" || id_is t "CHARACTER" then
            match r with
            | TKw _ :: _ => OAbstain             (* VARYING *)
            | TIdent _ :: _ => OAbstain          (* VARING, or a parse error: not decided here *)
            | _ => obind (parse_len_arg r) (fun '(n, r1) =>
                     OOk (TChar (match n with Some v => v | None => 1 end), r1))
            end
          else OAbstain
      end
  end.

(** [parse_column_constraints], for [NOT NULL] and the no-op [NULL]; returns "nullable" *)
Fixpoint parse_constraints (fuel : nat) (nullable : bool) (ts : list tok) : ores (bool * list tok) :=
  match fuel with
  | O => OAbstain
  | S f =>
      match ts with
      | TKw k :: r =>
          if kw_is k "Not" then
            match r with
            | TKw k2 :: r' => if kw_is k2 "Null" then parse_constraints f false r' else OErr
            | _ => OErr
            end
          else if kw_is k "Null" then parse_constraints f nullable r
          else OAbstain
      | TComma :: _ => OOk (nullable, ts)
      | TRParen :: _ => OOk (nullable, ts)
      | _ => OAbstain
      end
  end.

(** the column loop of [parse_create_table_statement], after the opening parenthesis *)
Fixpoint parse_columns (fuel : nat) (ts : list tok) : ores (list column * list tok) :=
  match fuel with
  | O => OAbstain
  | S f =>
      match ts with
      | TIdent name :: r =>
          obind (parse_type r) (fun '(ty, r1) =>
          obind (parse_constraints (S (length r1)) true r1) (fun '(nullable, r2) =>
            match r2 with
            | TComma :: r3 => obind (parse_columns f r3) (fun '(cs, rest) => OOk (mk_column name ty nullable :: cs, rest))
            | TRParen :: r3 => OOk ([mk_column name ty nullable], r3)
            | _ => OAbstain
            end))
      | TKw _ :: _ => OAbstain         (* table constraints, keywords usable as names *)
      | TDelim _ :: _ => OAbstain
      | _ => OErr                      (* "Expected column name" *)
      end
  end.

Definition parse_create_table (ts : list tok) : ores (str * list column) :=
  match ts with
  | TKw k1 :: TKw k2 :: TIdent name :: r =>
      if negb (kw_is k1 "Create" && kw_is k2 "Table") then OAbstain
      else
        match r with
        | TLParen :: r1 =>
            obind (parse_columns (S (length r1)) r1) (fun '(cols, rest) =>
              match rest with
              | [] => OOk (name, cols)
              | TSemi :: _ => OOk (name, cols)
              | _ => OAbstain              (* table options *)
              end)
        | TSym _ :: _ => OAbstain          (* schema.table *)
        | _ => OErr
        end
  | _ => OAbstain
  end.

(** * Execution *)

(** [format!("{:width$}", s, width = n)]: right padding with spaces up to [n] CHARACTERS *)
Definition pad_spaces (n : Z) (s : str) : str := s ++ repeat 32 (Z.to_nat n - length s).

(** [&s[..n]] *)
Definition byte_prefix (n : Z) (s : str) : ores str :=
  match bslice_to n s with Some p => OOk p | None => OPanic end.

(** [let mut end = n; while !s.is_char_boundary(end) { end -= 1 }; &s[..end]] for [n <= s.len()]:
    the longest prefix of whole characters that fits in [n] bytes *)
Fixpoint floor_chars (n : Z) (s : str) : nat :=
  match s with
  | [] => O
  | c :: r => if width c <=? n then S (floor_chars (n - width c) r) else O
  end.
Definition byte_floor_prefix (n : Z) (s : str) : str := firstn (floor_chars n s) s.

(** ['NaN'] / ['Infinity'] / ['-Infinity'] as (f64 bits, f32 bits): [f64::NAN], [f64::INFINITY],
    [f64::NEG_INFINITY] and their [as f32] *)
Definition special_bits (s : str) : option (Z * Z) :=
  if str_eqb s (lit "NaN") then Some (9221120237041090560, 2143289344)
  else if str_eqb s (lit "Infinity") then Some (9218868437227405312, 2139095040)
  else if str_eqb s (lit "-Infinity") then Some (18442240474082181120, 4286578688)
  else None.

(** [coerce_value] (insert/validation.rs), arm by arm.  The three arms that turn a NUMERIC
    literal into an integer use float arithmetic ([fract], range tests, [as i64]) that is not
    modelled: they abstain (a dump never prints a non-integer literal for an integer column). *)
Definition coerce_value (v : sqlvalue) (t : dtype) : ores sqlvalue :=
  match v, t with
  | VNull, _ => OOk VNull
  | VInteger _, TInteger => OOk v
  | VVarchar _, TVarchar _ => OOk v
  | VCharacter _, TChar _ => OOk v
  | VBoolean _, TBoolean => OOk v
  | VFloat _, TFloat _ => OOk v
  | VReal _, TReal => OOk v
  | VDouble _, TDouble => OOk v
  | VDate _ _ _, TDate => OOk v
  | VTime _ _ _ _, TTime _ => OOk v
  | VTimestamp _ _ _ _ _ _ _, TTimestamp _ => OOk v
  | VInterval _ _ _, TInterval _ => OOk v
  | VVarchar s, TDate | VCharacter s, TDate => of_res (parse_date s)
  | VVarchar s, TTime _ | VCharacter s, TTime _ => of_res (parse_time s)
  | VVarchar s, TTimestamp _ | VCharacter s, TTimestamp _ => of_res (parse_timestamp s)
  | VSmallint _, TSmallint => OOk v
  | VBigint _, TBigint => OOk v
  (* integer literal -> SMALLINT: [i16::try_from] *)
  | VInteger i, TSmallint => if (-32768 <=? i) && (i <=? 32767) then OOk (VSmallint i) else OErr
  (* integer literal -> NUMERIC / DECIMAL: [*i as f64] *)
  | VInteger i, TNumeric _ _ | VInteger i, TDecimal _ _ => OOk (VNumeric (f64_of_i64 fl i))
  (* the spellings the dump writes for special floats; any other string falls to the last arm *)
  | VVarchar s, TFloat _ => match special_bits s with Some (_, b32) => OOk (VFloat b32) | None => OErr end
  | VVarchar s, TReal => match special_bits s with Some (_, b32) => OOk (VReal b32) | None => OErr end
  | VVarchar s, TDouble => match special_bits s with Some (b64, _) => OOk (VDouble b64) | None => OErr end
  | VNumeric _, TNumeric _ _ => OOk v
  | VNumeric _, TDecimal _ _ => OOk v
  | VNumeric b, TFloat _ => OOk (VFloat (f32_of_f64 fl b))
  | VNumeric b, TReal => OOk (VReal (f32_of_f64 fl b))
  | VNumeric b, TDouble => OOk (VDouble b)
  | VNumeric _, TInteger | VNumeric _, TSmallint | VNumeric _, TBigint => OAbstain
  | VInteger i, TFloat _ => OOk (VFloat (f32_of_i64 fl i))
  | VInteger i, TReal => OOk (VReal (f32_of_i64 fl i))
  | VInteger i, TDouble => OOk (VDouble (f64_of_i64 fl i))
  | VSmallint i, TFloat _ => OOk (VFloat (f32_of_i64 fl i))
  | VSmallint i, TReal => OOk (VReal (f32_of_i64 fl i))
  | VSmallint i, TDouble => OOk (VDouble (f64_of_i64 fl i))
  | VBigint i, TFloat _ => OOk (VFloat (f32_of_i64 fl i))
  | VBigint i, TReal => OOk (VReal (f32_of_i64 fl i))
  | VBigint i, TDouble => OOk (VDouble (f64_of_i64 fl i))
  | VSmallint i, TInteger => OOk (VInteger i)
  | VSmallint i, TBigint => OOk (VBigint i)
  | VInteger i, TBigint => OOk (VBigint i)
  | VVarchar s, TChar n =>
      (* [s.chars().count() > n]: cut to [n] characters, else padded to [n] characters *)
      if n <? Z.of_nat (length s) then OOk (VCharacter (firstn (Z.to_nat n) s))
      else OOk (VCharacter (pad_spaces n s))
  | VCharacter s, TVarchar _ => OOk (VVarchar (trim_end_by is_ws s))
  | _, _ => OErr
  end.

(** [RowNormalizer::validate_and_normalize_value] for a non-NULL value: the variant must be the
    column type's own (DATE/TIME/TIMESTAMP columns also take strings, which [coerce_value] has
    already converted), CHAR is padded / cut to [n] CHARACTERS ([normalize_char_value] counts
    [chars()]), VARCHAR(n) is cut to the last character boundary within [n] bytes *)
Definition normalize_value (v : sqlvalue) (t : dtype) : ores sqlvalue :=
  match t, v with
  | _, VNull => OOk v
  | TInteger, VInteger _ | TSmallint, VSmallint _ | TBigint, VBigint _ | TUnsigned, VUnsigned _
  | TNumeric _ _, VNumeric _ | TDecimal _ _, VNumeric _
  | TFloat _, VFloat _ | TReal, VReal _ | TDouble, VDouble _
  | TBoolean, VBoolean _ | TDate, VDate _ _ _ | TTime _, VTime _ _ _ _
  | TTimestamp _, VTimestamp _ _ _ _ _ _ _ | TInterval _, VInterval _ _ _ => OOk v
  | TChar n, VCharacter s =>
      if Z.of_nat (length s) <? n then OOk (VCharacter (pad_spaces n s))
      else if n <? Z.of_nat (length s) then OOk (VCharacter (firstn (Z.to_nat n) s))
      else OOk v
  | TVarchar (Some n), VVarchar s =>
      (* [truncate_at_char_boundary] *)
      if n <? blen s then OOk (VVarchar (byte_floor_prefix n s)) else OOk v
  | TVarchar None, VVarchar _ => OOk v
  | TDate, VVarchar s | TDate, VCharacter s => of_res (parse_date s)
  | TTime _, VVarchar s | TTime _, VCharacter s => of_res (parse_time s)
  | TTimestamp _, VVarchar s | TTimestamp _, VCharacter s => of_res (parse_timestamp s)
  | TClob, _ | TName, _ | TBlob, _ | TBit _, _ | TUserDefined _, _ | TNullType, _ => OAbstain
  | _, _ => OErr
  end.

Definition is_null (v : sqlvalue) : bool := match v with VNull => true | _ => false end.

(** one row of [execute_insert_internal]: coerce every item, NOT NULL check, then the storage
    layer's normalisation *)
Fixpoint eval_row (cols : list column) (vals : list sqlvalue) : ores (list sqlvalue) :=
  match cols, vals with
  | [], [] => OOk []
  | c :: cs, v :: vs =>
      obind (coerce_value v (c_type c)) (fun v1 =>
      obind (eval_row cs vs) (fun rest => OOk (v1 :: rest)))
  | _, _ => OErr
  end.

Definition not_null_ok (cols : list column) (vals : list sqlvalue) : bool :=
  forallb (fun '(c, v) => c_nullable c || negb (is_null v)) (combine cols vals).

Fixpoint normalize_row (cols : list column) (vals : list sqlvalue) : ores (list sqlvalue) :=
  match cols, vals with
  | [], [] => OOk []
  | c :: cs, v :: vs =>
      obind (normalize_value v (c_type c)) (fun v1 =>
      obind (normalize_row cs vs) (fun rest => OOk (v1 :: rest)))
  | _, _ => OErr
  end.

Fixpoint map_ores {A B} (f : A -> ores B) (l : list A) : ores (list B) :=
  match l with
  | [] => OOk []
  | x :: r => obind (f x) (fun y => obind (map_ores f r) (fun ys => OOk (y :: ys)))
  end.

(** [validate_row_column_counts] over all rows first; then each row is evaluated and validated;
    only then are the rows handed to the storage layer *)
Definition insert_rows (t : table) (rows : list (list sqlvalue)) : ores table :=
  let n := length (t_cols t) in
  if negb (forallb (fun r => Nat.eqb (length r) n) rows) then OErr
  else
    obind (map_ores (fun r => obind (eval_row (t_cols t) r) (fun r1 =>
                               if not_null_ok (t_cols t) r1 then OOk r1 else OErr)) rows) (fun validated =>
    obind (map_ores (normalize_row (t_cols t)) validated) (fun stored =>
      OOk (mk_table (t_name t) (t_cols t) (t_rows t ++ stored)))).

Fixpoint find_table (name : str) (db : list table) : bool :=
  match db with [] => false | t :: r => str_eqb (t_name t) name || find_table name r end.

Fixpoint update_table (name : str) (f : table -> ores table) (db : list table) : ores (list table) :=
  match db with
  | [] => OErr                       (* TableNotFound *)
  | t :: r =>
      if str_eqb (t_name t) name then obind (f t) (fun t' => OOk (t' :: r))
      else obind (update_table name f r) (fun r' => OOk (t :: r'))
  end.

Fixpoint names_distinct (l : list str) : bool :=
  match l with [] => true | x :: r => negb (existsb (str_eqb x) r) && names_distinct r end.

Definition exec_create (name : str) (cols : list column) (db : list table) : ores (list table) :=
  if find_table name db then OErr                      (* TableAlreadyExists *)
  else if negb (names_distinct (map c_name cols)) then OAbstain
  else OOk (db ++ [mk_table name cols []]).

(** the error paths of [load_sql_dump] format [truncate_for_error(trimmed, 100)], which now cuts on
    a character boundary: the outcome is [Err] whatever the statement text *)
Definition fail_with (trimmed : str) : ores (list table) := OErr.

Definition or_fail (trimmed : str) (r : ores (list table)) : ores (list table) :=
  match r with OErr => fail_with trimmed | _ => r end.

(** one iteration of [for (idx, stmt_sql) in statements.iter().enumerate()] *)
Definition load_stmt (db : list table) (stmt : str) : ores (list table) :=
  let t := trim stmt in
  if is_nil t || starts_dashes t then OOk db
  else
    match lex_all t with
    | LErr => fail_with t
    | LAbstain => OAbstain
    | LOk ts =>
        match ts with
        | TKw k :: _ =>
            if kw_is k "Insert" then
              or_fail t (obind (parse_insert ts) (fun '(name, rows) =>
                           update_table name (fun tb => insert_rows tb rows) db))
            else if kw_is k "Create" then
              or_fail t (obind (parse_create_table ts) (fun '(name, cols) => exec_create name cols db))
            else if kw_is k "Replace" then OAbstain
            else fail_with t       (* a parse error, or a statement kind the loader rejects *)
        | _ => fail_with t         (* no statement starts with this token *)
        end
    end.

Fixpoint load_stmts (db : list table) (stmts : list str) : ores (list table) :=
  match stmts with
  | [] => OOk db
  | s :: r => obind (load_stmt db s) (fun db' => load_stmts db' r)
  end.

(** [load_sql_dump] on the text of the file *)
Definition load_sql_dump (content : str) : ores (list table) :=
  load_stmts [] (parse_sql_statements content).

End Loader.
