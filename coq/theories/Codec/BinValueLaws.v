(** Laws of the value codec (BinValue.v): the tag table regenerated from format.rs is consistent
    (write tag = read tag, injective, everything else rejected), and every value is read back
    bit-for-bit. *)
From Coq Require Import String List ZArith Bool Lia.
From VibeSQL Require Import Generated.Consts Value.SqlValue Codec.BinUtf8 Codec.BinDec Codec.BinPrim
  Codec.BinValue Codec.BinPrimLaws Codec.BinDecLaws.
Import ListNotations.
Open Scope Z_scope.

(** * tags (against the regenerated numerals) *)
Lemma tag_from_u8_tag_byte k : tag_from_u8 (tag_byte k) = Some k.
Proof. destruct k; vm_compute; reflexivity. Qed.

Lemma tag_byte_injective k1 k2 : tag_byte k1 = tag_byte k2 -> k1 = k2.
Proof.
  intros H. pose proof (tag_from_u8_tag_byte k1) as H1. rewrite H in H1.
  rewrite tag_from_u8_tag_byte in H1. congruence.
Qed.

Lemma tag_byte_is_byte k : 0 <= tag_byte k < 256.
Proof. destruct k; vm_compute; split; congruence. Qed.

(** the decode table accepts nothing but the bytes the writer uses *)
Lemma tag_from_u8_sound b k : tag_from_u8 b = Some k -> b = tag_byte k.
Proof.
  unfold tag_from_u8, bin_from_u8_table. cbn [assoc_z].
  repeat match goal with
         | |- context [ ?c =? b ] => destruct (Z.eqb_spec c b); [subst b; vm_compute; intros [= <-]; reflexivity|]
         end.
  discriminate.
Qed.

Lemma read_u8_cons b rest : read_u8 (b :: rest) = ([], Ok b rest).
Proof.
  unfold read_u8, bind, read_exact, ret.
  assert (E : blen (b :: rest) <? 1 = false).
  { apply Z.ltb_ge. unfold blen. cbn [length]. lia. }
  rewrite E. change (Z.to_nat 1) with 1%nat. cbn [firstn skipn le_val app].
  replace (b + 256 * 0) with b by lia. reflexivity.
Qed.

(** unknown tag bytes are rejected without reading further *)
Lemma unknown_tag_rejected E b rest :
  (forall k, b <> tag_byte k) -> read_value E (b :: rest) = ([], Err (ETag b)).
Proof.
  intros H. unfold read_value. rewrite (bind_ok_nil _ _ _ _ _ (read_u8_cons b rest)).
  destruct (tag_from_u8 b) as [k|] eqn:Ek; [|reflexivity].
  apply tag_from_u8_sound in Ek. exfalso. exact (H k Ek).
Qed.

Example unknown_tag_example E : read_value E [9; 1; 2; 3] = ([], Err (ETag 9)).
Proof. apply unknown_tag_rejected. intros k; destruct k; vm_compute; congruence. Qed.

(** * value round trip *)
Lemma wf_str_utf8 s : wf_str s = true -> utf8_valid s = true /\ blen s < 2 ^ 32.
Proof.
  unfold wf_str. intros H. apply andb_true_iff in H. destruct H as [H H3].
  apply andb_true_iff in H. destruct H as [_ H2]. split; [exact H2|]. apply Z.ltb_lt. exact H3.
Qed.

Lemma short_ascii_wf s n : is_ascii s = true -> (length s <= n)%nat -> (n <= 1000)%nat ->
  utf8_valid s = true /\ blen s < 2 ^ 32.
Proof.
  intros Ha Hl Hn. split; [apply is_ascii_utf8; exact Ha|]. unfold blen.
  assert (Z.of_nat (length s) <= 1000) by lia. lia.
Qed.

Lemma in_range_spec lo hi z : in_range lo hi z = true -> lo <= z < hi.
Proof.
  unfold in_range. intros H. apply andb_true_iff in H. destruct H as [H1 H2].
  apply Z.leb_le in H1. apply Z.ltb_lt in H2. lia.
Qed.

Ltac tag_step k :=
  unfold read_value, write_value; cbn [kind_of write_payload app];
  rewrite (bind_ok_nil _ _ _ _ _ (read_u8_cons _ _));
  rewrite (tag_from_u8_tag_byte k); cbv beta iota.

Ltac prim_step L := rewrite (bind_ok_nil _ _ _ _ _ L); unfold ret.

Theorem value_roundtrip E b rest :
  wf_bvalue b = true -> temporal_roundtrips E b ->
  snd (read_value E (write_value b ++ rest)) = Ok b rest.
Proof.
  intros Hwf Ht. destruct b as [v|t].
  - destruct v; cbn [wf_bvalue wf] in Hwf.
    + (* Integer *) tag_step KInteger. apply in_range_spec in Hwf.
      prim_step (i64_roundtrip z rest Hwf). reflexivity.
    + (* Smallint *) tag_step KSmallint. apply in_range_spec in Hwf.
      prim_step (i16_roundtrip z rest Hwf). reflexivity.
    + tag_step KBigint. apply in_range_spec in Hwf.
      prim_step (i64_roundtrip z rest Hwf). reflexivity.
    + tag_step KUnsigned. apply in_range_spec in Hwf.
      prim_step (u64_roundtrip z rest Hwf). reflexivity.
    + tag_step KNumeric. apply in_range_spec in Hwf.
      prim_step (f64_roundtrip bits rest Hwf). reflexivity.
    + tag_step KFloat. apply in_range_spec in Hwf.
      prim_step (f32_roundtrip bits rest Hwf). reflexivity.
    + tag_step KReal. apply in_range_spec in Hwf.
      prim_step (f32_roundtrip bits rest Hwf). reflexivity.
    + tag_step KDouble. apply in_range_spec in Hwf.
      prim_step (f64_roundtrip bits rest Hwf). reflexivity.
    + tag_step KCharacter. apply wf_str_utf8 in Hwf. destruct Hwf as [Hu Hl].
      rewrite (bind_ok _ _ _ _ _ _ (string_roundtrip s rest Hu Hl)). reflexivity.
    + tag_step KVarchar. apply wf_str_utf8 in Hwf. destruct Hwf as [Hu Hl].
      rewrite (bind_ok _ _ _ _ _ _ (string_roundtrip s rest Hu Hl)). reflexivity.
    + tag_step KBoolean. prim_step (bool_roundtrip b rest). reflexivity.
    + (* Date *) tag_step KDate.
      destruct (short_ascii_wf _ 140 (show_date_ascii y m d) (show_date_length y m d) ltac:(lia)) as [Hu Hl].
      rewrite (bind_ok _ _ _ _ _ _ (string_roundtrip _ rest Hu Hl)).
      cbn [temporal_roundtrips] in Ht. rewrite Ht. reflexivity.
    + tag_step KTime.
      destruct (short_ascii_wf _ 200 (show_time_ascii h mi s ns) (show_time_length h mi s ns) ltac:(lia)) as [Hu Hl].
      rewrite (bind_ok _ _ _ _ _ _ (string_roundtrip _ rest Hu Hl)).
      cbn [temporal_roundtrips] in Ht. rewrite Ht. reflexivity.
    + tag_step KTimestamp.
      destruct (short_ascii_wf _ 341 (show_timestamp_ascii y m d h mi s ns)
                  (show_timestamp_length y m d h mi s ns) ltac:(lia)) as [Hu Hl].
      rewrite (bind_ok _ _ _ _ _ _ (string_roundtrip _ rest Hu Hl)).
      cbn [temporal_roundtrips] in Ht. rewrite Ht. reflexivity.
    + discriminate.
    + tag_step KNull. reflexivity.
  - cbn [wf_bvalue] in Hwf. tag_step KInterval. apply wf_str_utf8 in Hwf. destruct Hwf as [Hu Hl].
    rewrite (bind_ok _ _ _ _ _ _ (string_roundtrip t rest Hu Hl)).
    cbn [temporal_roundtrips] in Ht. rewrite Ht. reflexivity.
Qed.
