(** The SQL-dump round trip: [load_sql_dump (dump_text db) = OOk db] for every database inside
    the vocabulary of Codec/SqlDumpSpec.v ([db_ok]), by induction on the tables / rows / values,
    composing

      Codec/SqlDumpLaws.v   the splitter returns the statements that were written,
      Lex/DumpLexLaws.v     each statement is tokenised as expected (string literals: every string),
      this file             the tokens parse to the literals, [coerce_value] and the storage
                            layer's normalisation give back the stored values, statement by statement.

    and the refutations that remain: negative numbers and strings with backslash / newline /
    comment-like lines (special floats, SMALLINT, whole NUMERIC and non-ASCII CHAR values were
    repaired in the code: their former counter-examples are positive theorems now).

    Rust's float formatting / parsing are the fields of [float_ops]; what is assumed about them is
    the record [float_text_ok] below (a hypothesis of the theorems, never an axiom). *)
From Coq Require Import Strings.String.
From Coq Require Import List ZArith Bool Lia.
From VibeSQL Require Import Value.SqlValue Value.Dec Value.DecLaws Value.RStr Value.RStrLaws Value.Temporal Value.TemporalLaws.
From VibeSQL Require Import Lex.Splitter Lex.SplitterLaws Lex.DumpLex Lex.DumpLexLaws.
From VibeSQL Require Import Codec.SqlLiteral Codec.SqlLoad Codec.SqlDumpSpec Codec.SqlDumpLaws.
Import ListNotations.
Open Scope Z_scope.

(** * What is assumed of the float library functions

    [shape]: Display of a finite non-negative float is digits with an optional fraction (Rust never
    prints an exponent); [rt64]: [parse::<f64>] reads the Display text of an f64 back to the same
    value (the documented round-trip guarantee of core::fmt / dec2flt); [int64]: on a text of
    digits that fits an i64, [parse::<f64>] and the [as f64] cast agree (both round the same
    integer correctly); [rt32] / [int32]: the shortest text of an f32, read as f64 and narrowed,
    or read as i64 and converted, is that f32 again.  The harness checks every one of these on all
    the float values it generates. *)
Record float_text_ok (fl : float_ops) : Prop := mk_float_text_ok {
  ft_shape64 : forall b, finite_pos 64 b = true -> is_decimal (show_f64 fl b) = true;
  ft_shape32 : forall b, finite_pos 32 b = true -> is_decimal (show_f32 fl b) = true;
  ft_rt64 : forall b, finite_pos 64 b = true -> parse_f64 fl (show_f64 fl b) = Some b;
  ft_int64 : forall ds i, forallb is_digit ds = true -> parse_i64 ds = Some i ->
                          parse_f64 fl ds = Some (f64_of_i64 fl i);
  ft_rt32 : forall b, finite_pos 32 b = true -> parse_i64 (show_f32 fl b) = None ->
                      exists d, parse_f64 fl (show_f32 fl b) = Some d /\ f32_of_f64 fl d = b;
  ft_int32 : forall b i, finite_pos 32 b = true -> parse_i64 (show_f32 fl b) = Some i -> f32_of_i64 fl i = b
}.

(** * Small facts *)
Lemma sql_quote_dq s : sql_quote s = dq s. Proof. reflexivity. Qed.
Lemma sql_quote_quote2 s : sql_quote s = quote2 s. Proof. reflexivity. Qed.
Lemma str_lit_quoted s : str_lit s = quoted s. Proof. reflexivity. Qed.

Lemma str_eqb_refl' a : str_eqb a a = true. Proof. apply str_eqb_refl. Qed.

Lemma finite_pos_not_special w b : (w = 32 \/ w = 64) -> finite_pos w b = true ->
  f_is_nan w b = false /\ f_is_inf w b = false.
Proof.
  intros Hw H. unfold finite_pos in H. apply andb_true_iff in H as [H0 H1]. apply Z.leb_le in H0. apply Z.ltb_lt in H1.
  assert (M : f_mag w b = b).
  { unfold f_mag, f_half. apply Z.mod_small. destruct Hw as [-> | ->]; cbn in *; lia. }
  unfold f_is_nan, f_is_inf. rewrite M. split; [apply Z.ltb_ge; lia | apply Z.eqb_neq; lia].
Qed.

Lemma float_literal_finite w show b : (w = 32 \/ w = 64) -> finite_pos w b = true -> float_literal w show b = show b.
Proof.
  intros Hw H. destruct (finite_pos_not_special w b Hw H) as [N I]. unfold float_literal. rewrite N, I. reflexivity.
Qed.

Lemma is_decimal_digits ds : ds <> [] -> forallb is_digit ds = true -> is_decimal ds = true.
Proof.
  intros Hne Hd. unfold is_decimal.
  rewrite <- (app_nil_r ds) at 1. rewrite (span_app is_digit ds []) by (exact Hd || exact I).
  destruct ds; [congruence | reflexivity].
Qed.

Lemma is_decimal_plain s : is_decimal s = true -> forallb plainc s = true.
Proof.
  intros H. destruct (is_decimal_inv s H) as (ip & _ & Hip & [-> | (fp & _ & Hfp & ->)]).
  - apply digits_plain, Hip.
  - rewrite forallb_app. cbn [forallb]. rewrite (digits_plain _ Hip), (digits_plain _ Hfp). reflexivity.
Qed.

(** a decimal text is all digits exactly when it reads as an integer of any size *)
Lemma parse_i64_digits s i : is_decimal s = true -> parse_i64 s = Some i -> forallb is_digit s = true.
Proof.
  intros H P. destruct (is_decimal_inv s H) as (ip & _ & Hip & [-> | (fp & _ & Hfp & ->)]); [exact Hip|].
  exfalso. apply parse_int_inv in P as (ds & Hs & _ & Hds & _).
  assert (In46 : In 46 (ip ++ 46 :: fp)) by (apply in_or_app; right; left; reflexivity).
  assert (D46 : is_digit 46 = false) by reflexivity.
  rewrite forallb_forall in Hds.
  destruct Hs as [E | [E | E]]; rewrite E in In46.
  - apply Hds in In46. congruence.
  - destruct In46 as [X | In46]; [discriminate | apply Hds in In46; congruence].
  - destruct In46 as [X | In46]; [discriminate | apply Hds in In46; congruence].
Qed.

Lemma show_int_nonneg n : 0 <= n -> show_int n = show_nat n.
Proof. intros H. unfold show_int. destruct (Z.ltb_spec n 0); [lia | reflexivity]. Qed.

Lemma show_int_w_0 n : 0 <= n -> show_int_w 0 n = show_nat n.
Proof. intros H. rewrite show_int_w_nonneg by exact H. reflexivity. Qed.

Lemma parse_show_nat sg lo hi n :
  0 <= n < 100000000000000000000 -> lo <= n <= hi -> parse_int sg lo hi (show_nat n) = Some n.
Proof. intros H1 H2. rewrite <- (show_int_w_0 n) by lia. apply parse_show_int; assumption. Qed.

Lemma show_nat_decimal n : 0 <= n -> is_decimal (show_nat n) = true.
Proof. intros H. apply is_decimal_digits; [apply show_nat_nonempty | apply show_nat_digits, H]. Qed.

(** trimming a statement text *)
Lemma trim_edges c body f : is_ws c = false -> is_ws f = false -> trim (c :: body ++ [f]) = c :: body ++ [f].
Proof.
  intros Hc Hf. unfold trim. rewrite drop_while_id by exact Hc.
  change (c :: body ++ [f]) with ((c :: body) ++ [f]). apply trim_end_by_id, Hf.
Qed.

Lemma trim_space s : trim (32 :: s) = trim s.
Proof. reflexivity. Qed.

(** * Identifiers *)
Lemma ident_ok_facts name : ident_ok name = true ->
  exists c w, name = c :: w /\ word_start c = true /\ forallb is_word_char w = true
              /\ map_keyword (map ascii_upper name) = TIdent name /\ forallb plainc name = true.
Proof.
  unfold ident_ok. destruct name as [|c w]; [discriminate|]. rewrite !andb_true_iff. intros ((Hc & Hw) & Hk).
  assert (U : forall x, is_ident_char x = true -> ascii_upper x = x /\ is_word_char x = true /\ plainc x = true).
  { intros x Hx. unfold is_ident_char, is_ident_start, is_digit in Hx.
    assert (R : (65 <= x <= 90) \/ x = 95 \/ (48 <= x <= 57)) by lia.
    unfold ascii_upper, is_word_char, is_ascii_alpha, is_digit, plainc.
    replace ((97 <=? x) && (x <=? 122)) with false by lia.
    split; [reflexivity|]. split; lia. }
  assert (Hc' : is_ident_char c = true) by (unfold is_ident_char; rewrite Hc; reflexivity).
  assert (Hall : forallb is_ident_char (c :: w) = true) by (cbn [forallb]; rewrite Hc', Hw; reflexivity).
  assert (Up : map ascii_upper (c :: w) = c :: w).
  { clear -Hall U. induction (c :: w) as [|x l IH]; [reflexivity|]. cbn [forallb] in Hall. apply andb_true_iff in Hall as [Hx Hl].
    cbn [map]. rewrite (proj1 (U x Hx)), IH by exact Hl. reflexivity. }
  exists c, w. split; [reflexivity|]. split.
  { unfold word_start, is_ascii_alpha. unfold is_ident_start in Hc. lia. }
  split. { apply (forallb_impl is_ident_char); [intros x Hx; apply U, Hx | exact Hw]. }
  split.
  { rewrite Up. unfold map_keyword. destruct (kw_lookup Generated.Consts.lex_keyword_table (c :: w)); [discriminate | reflexivity]. }
  apply (forallb_impl is_ident_char); [intros x Hx; apply U, Hx | exact Hall].
Qed.

(** * Lexing the literal of a value *)

(** what follows a literal in a VALUES list: a comma or the closing parenthesis *)
Definition val_stop (r : str) : Prop := exists r', r = 44 :: r' \/ r = 41 :: r'.

Lemma val_stop_word r : val_stop r -> word_stop r.
Proof. intros (r' & [-> | ->]); cbn; split; (reflexivity || lia). Qed.
Lemma val_stop_num r : val_stop r -> num_stop r.
Proof. intros (r' & [-> | ->]); cbn; repeat split; (reflexivity || lia). Qed.
Lemma val_stop_quote r : val_stop r -> match r with 39 :: _ => False | _ => True end.
Proof. intros (r' & [-> | ->]); exact I. Qed.

Section Load.
Variable fl : float_ops.
Variable itx : Z -> Z -> Z -> str.
Hypothesis FT : float_text_ok fl.

(** the tokens of [float_literal]: a number, or the quoted spelling of a special value *)
Definition float_toks (w : Z) (show : Z -> str) (b : Z) : list tok :=
  if f_is_nan w b then [TStr (lit "NaN")]
  else if f_is_inf w b then (if f_sign_positive w b then [TStr (lit "Infinity")] else [TStr (lit "-Infinity")])
  else [TNum (show b)].

Lemma float_toks_finite w show b : (w = 32 \/ w = 64) -> finite_pos w b = true -> float_toks w show b = [TNum (show b)].
Proof.
  intros Hw H. destruct (finite_pos_not_special w b Hw H) as [N I]. unfold float_toks. rewrite N, I. reflexivity.
Qed.

Lemma special_cases64 b : finite_pos 64 b || special64 b = true ->
  finite_pos 64 b = true \/ b = 9221120237041090560 \/ b = 9218868437227405312 \/ b = 18442240474082181120.
Proof. unfold special64. rewrite !orb_true_iff, !Z.eqb_eq. tauto. Qed.
Lemma special_cases32 b : finite_pos 32 b || special32 b = true ->
  finite_pos 32 b = true \/ b = 2143289344 \/ b = 2139095040 \/ b = 4286578688.
Proof. unfold special32. rewrite !orb_true_iff, !Z.eqb_eq. tauto. Qed.

Definition value_toks (v : sqlvalue) : list tok :=
  match v with
  | VNull => [TKw (lit "Null")]
  | VInteger n | VSmallint n | VBigint n | VUnsigned n => [TNum (show_nat n)]
  | VNumeric b => [TNum (show_f64 fl b)]
  | VDouble b => float_toks 64 (show_f64 fl) b
  | VFloat b | VReal b => float_toks 32 (show_f32 fl) b
  | VCharacter s | VVarchar s => [TStr s]
  | VBoolean b => [TKw (if b then lit "True" else lit "False")]
  | VDate y m d => [TKw (lit "Date"); TStr (show_date y m d)]
  | VTime h mi s ns => [TKw (lit "Time"); TStr (show_time h mi s ns)]
  | VTimestamp y m d h mi s ns => [TKw (lit "Timestamp"); TStr (show_timestamp y m d h mi s ns)]
  | VInterval _ _ _ => []
  end.

Lemma lexes_kw_word (w : str) (k : tok) r ts :
  (exists c t, w = c :: t /\ word_start c = true /\ forallb is_word_char t = true) ->
  map_keyword (map ascii_upper w) = k -> word_stop r -> lexes r ts -> lexes (w ++ r) (k :: ts).
Proof.
  intros (c & t & -> & Hc & Ht) <- Hr H. apply lexes_word; assumption.
Qed.

(** the hypothesis is [false = true], possibly under a match on an option *)
Ltac dead V :=
  first [ discriminate V
        | match type of V with context [match ?o with Some _ => _ | None => _ end] => destruct o; discriminate V end ].

Ltac word_shape := eexists _, _; split; [reflexivity | split; reflexivity].

(** [KEYWORD 'text'] for a text without quotes *)
Lemma lexes_typed_literal (w pre : str) (k : tok) t r ts :
  (exists c t0, w = c :: t0 /\ word_start c = true /\ forallb is_word_char t0 = true) ->
  map_keyword (map ascii_upper w) = k -> pre = w ++ [32; 39] ->
  forallb tchar t = true -> val_stop r -> lexes r ts ->
  lexes ((pre ++ t ++ [39]) ++ r) (k :: TStr t :: ts).
Proof.
  intros Hw Hk -> Ht Hr H.
  replace (((w ++ [32; 39]) ++ t ++ [39]) ++ r) with (w ++ 32 :: (39 :: dq t ++ [39]) ++ r).
  2:{ unfold dq. fold (quote2 t). rewrite tchar_quote2 by exact Ht. cbn [app]. rewrite <- !app_assoc. cbn [app]. reflexivity. }
  apply lexes_kw_word; [exact Hw | exact Hk | cbn; split; [reflexivity | lia] |].
  apply lexes_space, lexes_string; [apply val_stop_quote, Hr | exact H].
Qed.

Lemma lexes_special (text : str) (toks : list tok) (name : str) r ts :
  text = 39 :: dq name ++ [39] -> toks = [TStr name] -> val_stop r -> lexes r ts ->
  lexes (text ++ r) (toks ++ ts).
Proof. intros -> -> Hr H. apply (lexes_string name r ts); [apply val_stop_quote, Hr | exact H]. Qed.

Ltac lex_special name Hr H :=
  apply (lexes_special _ _ name); [vm_compute; reflexivity | vm_compute; reflexivity | exact Hr | exact H].

Lemma lexes_value ty nl v r ts :
  value_ok ty nl v = true -> val_stop r -> lexes r ts ->
  lexes (sql_value_to_literal fl itx v ++ r) (value_toks v ++ ts).
Proof.
  intros V Hr H.
  destruct v as [n|n|n|n|b|b|b|b|s|s|b|y m d|h mi s ns|y m d h mi s ns|mo d us|];
    cbn [value_ok] in V; cbn [sql_value_to_literal value_toks app].
  - (* Integer *) destruct ty; cbn [value_ok] in V; try (dead V). unfold nonneg_i64 in V. apply andb_true_iff in V as [V0 _]. apply Z.leb_le in V0.
    rewrite show_int_nonneg by exact V0. apply lexes_number; [apply show_nat_decimal, V0 | apply val_stop_num, Hr | exact H].
  - (* Smallint *) destruct ty; cbn [value_ok] in V; try (dead V). apply andb_true_iff in V as [V0 _]. apply Z.leb_le in V0.
    rewrite show_int_nonneg by exact V0. apply lexes_number; [apply show_nat_decimal, V0 | apply val_stop_num, Hr | exact H].
  - (* Bigint *) destruct ty; cbn [value_ok] in V; try (dead V). unfold nonneg_i64 in V. apply andb_true_iff in V as [V0 _]. apply Z.leb_le in V0.
    rewrite show_int_nonneg by exact V0. apply lexes_number; [apply show_nat_decimal, V0 | apply val_stop_num, Hr | exact H].
  - destruct ty; cbn [value_ok] in V; dead V.
  - (* Numeric *) destruct ty; cbn [value_ok] in V; try (dead V).
    apply lexes_number; [apply (ft_shape64 fl FT), V | apply val_stop_num, Hr | exact H].
  - (* Float *) destruct ty; cbn [value_ok] in V; try (dead V).
    destruct (special_cases32 b V) as [F | [-> | [-> | ->]]];
      [| lex_special (lit "NaN") Hr H | lex_special (lit "Infinity") Hr H | lex_special (lit "-Infinity") Hr H].
    rewrite float_literal_finite, float_toks_finite by (auto || exact F).
    apply lexes_number; [apply (ft_shape32 fl FT), F | apply val_stop_num, Hr | exact H].
  - (* Real *) destruct ty; cbn [value_ok] in V; try (dead V).
    destruct (special_cases32 b V) as [F | [-> | [-> | ->]]];
      [| lex_special (lit "NaN") Hr H | lex_special (lit "Infinity") Hr H | lex_special (lit "-Infinity") Hr H].
    rewrite float_literal_finite, float_toks_finite by (auto || exact F).
    apply lexes_number; [apply (ft_shape32 fl FT), F | apply val_stop_num, Hr | exact H].
  - (* Double *) destruct ty; cbn [value_ok] in V; try (dead V).
    destruct (special_cases64 b V) as [F | [-> | [-> | ->]]];
      [| lex_special (lit "NaN") Hr H | lex_special (lit "Infinity") Hr H | lex_special (lit "-Infinity") Hr H].
    rewrite float_literal_finite, float_toks_finite by (auto || exact F).
    apply lexes_number; [apply (ft_shape64 fl FT), F | apply val_stop_num, Hr | exact H].
  - (* Character *) unfold str_lit. rewrite sql_quote_dq. change (39 :: dq s ++ [39]) with (39 :: dq s ++ [39]).
    apply (lexes_string s r ts); [apply val_stop_quote, Hr | exact H].
  - (* Varchar *) unfold str_lit. rewrite sql_quote_dq.
    apply (lexes_string s r ts); [apply val_stop_quote, Hr | exact H].
  - (* Boolean *) destruct b.
    + apply (lexes_kw_word (lit "TRUE")); [word_shape | apply kw_true | apply val_stop_word, Hr | exact H].
    + apply (lexes_kw_word (lit "FALSE")); [word_shape | apply kw_false | apply val_stop_word, Hr | exact H].
  - (* Date *) apply (lexes_typed_literal (lit "DATE")); [word_shape | apply kw_date | reflexivity | apply show_date_tchar | exact Hr | exact H].
  - (* Time *) apply (lexes_typed_literal (lit "TIME")); [word_shape | apply kw_time | reflexivity | apply show_time_tchar | exact Hr | exact H].
  - (* Timestamp *) apply (lexes_typed_literal (lit "TIMESTAMP")); [word_shape | apply kw_timestamp | reflexivity | apply show_timestamp_tchar | exact Hr | exact H].
  - destruct ty; cbn [value_ok] in V; dead V.
  - (* NULL *) apply (lexes_kw_word (lit "NULL")); [word_shape | apply kw_null | apply val_stop_word, Hr | exact H].
Qed.

(** * A row of literals *)
Fixpoint row_toks (row : list sqlvalue) : list tok :=
  match row with
  | [] => []
  | [v] => value_toks v
  | v :: r => value_toks v ++ TComma :: row_toks r
  end.

Definition lit_of (v : sqlvalue) : str := sql_value_to_literal fl itx v.

Lemma join_comma_cons2 x y r : join_comma (x :: y :: r) = x ++ 44 :: 32 :: join_comma (y :: r).
Proof. reflexivity. Qed.

Lemma row_toks_cons2 v v2 r : row_toks (v :: v2 :: r) = value_toks v ++ TComma :: row_toks (v2 :: r).
Proof. reflexivity. Qed.

Lemma lexes_row row : forall cols r ts,
  row_ok cols row = true -> row <> [] -> lexes r ts ->
  lexes (join_comma (map lit_of row) ++ 41 :: r) (row_toks row ++ TRParen :: ts).
Proof.
  induction row as [|v row IH]; intros cols r ts R Hne H; [congruence|].
  destruct cols as [|c cols]; [discriminate|]. cbn [row_ok] in R. apply andb_true_iff in R as [Rv R].
  destruct row as [|v2 row'].
  - cbn [map join_comma row_toks]. unfold lit_of.
    apply (lexes_value (c_type c) (c_nullable c)); [exact Rv | eexists; right; reflexivity | apply lexes_rparen, H].
  - cbn [map]. rewrite join_comma_cons2, row_toks_cons2, <- !app_assoc. cbn [app]. unfold lit_of at 1.
    apply (lexes_value (c_type c) (c_nullable c)); [exact Rv | eexists; left; reflexivity |].
    apply lexes_comma, lexes_space. apply (IH cols); [exact R | discriminate | exact H].
Qed.

(** * From tokens back to values *)

(** the value a literal evaluates to, before coercion to the column type *)
Lemma kw_is_refl (k : String.string) : kw_is (lit k) k = true.
Proof. unfold kw_is. apply str_eqb_refl. Qed.

Ltac kw_compute :=
  repeat match goal with
         | |- context [kw_is ?a ?b] => let v := eval vm_compute in (kw_is a b) in change (kw_is a b) with v
         | |- context [id_is ?a ?b] => let v := eval vm_compute in (id_is a b) in change (id_is a b) with v
         end.

Lemma valid_date_b_prop y m d : valid_date_b y m d = true -> valid_date y m d.
Proof. unfold valid_date_b, valid_date. rewrite !andb_true_iff, !Z.leb_le. tauto. Qed.
Lemma valid_time_b_prop h mi s ns : valid_time_b h mi s ns = true -> valid_time h mi s ns.
Proof. unfold valid_time_b, valid_time. rewrite !andb_true_iff, !Z.leb_le. tauto. Qed.

Lemma pad_spaces_exact n s : Z.of_nat (length s) = n -> pad_spaces n s = s.
Proof. intros <-. unfold pad_spaces. rewrite Nat2Z.id, Nat.sub_diag. apply app_nil_r. Qed.

(** ** CHAR(n): bytes on the way in, characters in the storage layer *)
Lemma floor_chars_le n s : (floor_chars n s <= length s)%nat.
Proof.
  revert n. induction s as [|c r IH]; intros n; cbn [floor_chars length]; [lia|].
  destruct (width c <=? n); [specialize (IH (n - width c)); lia | lia].
Qed.

(** when the cut is taken ([n] bytes do not hold the string) some character is left out *)
Lemma floor_chars_lt n s : 0 <= n < blen s -> (floor_chars n s < length s)%nat.
Proof.
  revert n. induction s as [|c r IH]; intros n H; cbn [floor_chars length blen] in *; [lia|].
  pose proof (width_range c).
  destruct (Z.leb_spec (width c) n); [|lia]. specialize (IH (n - width c) ltac:(lia)). lia.
Qed.

Lemma all_blank_repeat l : forallb (Z.eqb 32) l = true -> l = repeat 32 (length l).
Proof.
  induction l as [|x l IH]; intros H; [reflexivity|]. cbn [forallb] in H. apply andb_true_iff in H as [Hx H].
  apply Z.eqb_eq in Hx. subst x. cbn [length repeat]. rewrite <- IH by exact H. reflexivity.
Qed.

(** what [coerce_value] makes of the parsed literal of a stored value: since the CHAR arm counts
    characters (as the storage layer does) it is the stored value itself *)
Definition coerced (ty : dtype) (v : sqlvalue) : sqlvalue := v.

(** the literal parses to a value that [coerce_value] turns into [coerced ty v] ... *)
Lemma value_parse ty nl v rest :
  value_ok ty nl v = true ->
  exists pv, parse_value fl (value_toks v ++ rest) = OOk (pv, rest) /\ coerce_value fl pv ty = OOk (coerced ty v).
Proof.
  intros V.
  assert (CI : forall w, (forall s0, w <> VCharacter s0) -> coerced ty w = w) by reflexivity.
  destruct v as [n|n|n|n|b|b|b|b|s|s|b|y m d|h mi s ns|y m d h mi s ns|mo d us|];
    cbn [value_ok] in V; cbn [value_toks app parse_value]; try rewrite CI by discriminate.
  - (* Integer *) destruct ty; cbn [value_ok] in V; try (dead V).
    unfold nonneg_i64, i64_max in V. apply andb_true_iff in V as [V0 V1]. apply Z.leb_le in V0, V1.
    unfold parse_i64. rewrite parse_show_nat by lia. eexists. split; reflexivity.
  - (* Smallint: read as Integer, narrowed by i16::try_from *)
    destruct ty; cbn [value_ok] in V; try (dead V).
    apply andb_true_iff in V as [V0 V1]. apply Z.leb_le in V0, V1.
    unfold parse_i64. rewrite parse_show_nat by lia. eexists. split; [reflexivity|]. cbn [coerce_value].
    replace ((-32768 <=? n) && (n <=? 32767)) with true by lia. reflexivity.
  - (* Bigint *) destruct ty; cbn [value_ok] in V; try (dead V).
    unfold nonneg_i64, i64_max in V. apply andb_true_iff in V as [V0 V1]. apply Z.leb_le in V0, V1.
    unfold parse_i64. rewrite parse_show_nat by lia. eexists. split; reflexivity.
  - destruct ty; cbn [value_ok] in V; dead V.
  - (* Numeric: a whole value reads as an Integer and is converted back by [as f64] *)
    destruct ty; cbn [value_ok] in V; try (dead V).
    destruct (parse_i64 (show_f64 fl b)) as [i|] eqn:P.
    + eexists. split; [reflexivity|]. cbn [coerce_value].
      pose proof (ft_int64 fl FT (show_f64 fl b) i (parse_i64_digits _ _ (ft_shape64 fl FT b V) P) P) as E.
      rewrite (ft_rt64 fl FT b V) in E. inversion E. reflexivity.
    + rewrite (ft_rt64 fl FT b V). eexists. split; reflexivity.
  - (* Float *) destruct ty; cbn [value_ok] in V; try (dead V).
    destruct (special_cases32 b V) as [F | [-> | [-> | ->]]];
      [| exists (VVarchar (lit "NaN")); split; vm_compute; reflexivity
       | exists (VVarchar (lit "Infinity")); split; vm_compute; reflexivity
       | exists (VVarchar (lit "-Infinity")); split; vm_compute; reflexivity].
    clear V. rename F into V. rewrite float_toks_finite by (auto || exact V). cbn [app parse_value].
    destruct (parse_i64 (show_f32 fl b)) as [i|] eqn:P.
    + eexists. split; [reflexivity|]. cbn [coerce_value]. rewrite (ft_int32 fl FT b i V P). reflexivity.
    + destruct (ft_rt32 fl FT b V P) as (d & Pd & Ed). rewrite Pd. eexists. split; [reflexivity|].
      cbn [coerce_value]. rewrite Ed. reflexivity.
  - (* Real *) destruct ty; cbn [value_ok] in V; try (dead V).
    destruct (special_cases32 b V) as [F | [-> | [-> | ->]]];
      [| exists (VVarchar (lit "NaN")); split; vm_compute; reflexivity
       | exists (VVarchar (lit "Infinity")); split; vm_compute; reflexivity
       | exists (VVarchar (lit "-Infinity")); split; vm_compute; reflexivity].
    clear V. rename F into V. rewrite float_toks_finite by (auto || exact V). cbn [app parse_value].
    destruct (parse_i64 (show_f32 fl b)) as [i|] eqn:P.
    + eexists. split; [reflexivity|]. cbn [coerce_value]. rewrite (ft_int32 fl FT b i V P). reflexivity.
    + destruct (ft_rt32 fl FT b V P) as (d & Pd & Ed). rewrite Pd. eexists. split; [reflexivity|].
      cbn [coerce_value]. rewrite Ed. reflexivity.
  - (* Double *) destruct ty; cbn [value_ok] in V; try (dead V).
    destruct (special_cases64 b V) as [F | [-> | [-> | ->]]];
      [| exists (VVarchar (lit "NaN")); split; vm_compute; reflexivity
       | exists (VVarchar (lit "Infinity")); split; vm_compute; reflexivity
       | exists (VVarchar (lit "-Infinity")); split; vm_compute; reflexivity].
    clear V. rename F into V. rewrite float_toks_finite by (auto || exact V). cbn [app parse_value].
    destruct (parse_i64 (show_f64 fl b)) as [i|] eqn:P.
    + eexists. split; [reflexivity|]. cbn [coerce_value].
      pose proof (ft_int64 fl FT (show_f64 fl b) i (parse_i64_digits _ _ (ft_shape64 fl FT b V) P) P) as E.
      rewrite (ft_rt64 fl FT b V) in E. inversion E. reflexivity.
    + rewrite (ft_rt64 fl FT b V). eexists. split; reflexivity.
  - (* Character: read as VARCHAR, padded to n characters (nothing to pad) *)
    destruct ty; cbn [value_ok] in V; try (dead V).
    apply andb_true_iff in V as [_ V2]. apply Z.eqb_eq in V2.
    eexists. split; [reflexivity|]. cbn [coerce_value]. unfold coerced.
    replace (length <? Z.of_nat (Datatypes.length s)) with false by (symmetry; apply Z.ltb_ge; lia).
    rewrite pad_spaces_exact by exact V2. reflexivity.
  - (* Varchar *) destruct ty; cbn [value_ok] in V; try (dead V). eexists. split; reflexivity.
  - (* Boolean *) destruct ty; cbn [value_ok] in V; try (dead V).
    destruct b; kw_compute; eexists; split; reflexivity.
  - (* Date *) destruct ty; cbn [value_ok] in V; try (dead V). kw_compute.
    rewrite (date_roundtrip_thm y m d (valid_date_b_prop _ _ _ V)). eexists. split; reflexivity.
  - (* Time *) destruct ty; cbn [value_ok] in V; try (dead V). kw_compute.
    rewrite (time_roundtrip_thm h mi s ns (valid_time_b_prop _ _ _ _ V)). eexists. split; reflexivity.
  - (* Timestamp *) destruct ty; cbn [value_ok] in V; try (dead V). kw_compute.
    apply andb_true_iff in V as [Vd Vt].
    rewrite (timestamp_roundtrip_thm y m d h mi s ns (valid_date_b_prop _ _ _ Vd) (valid_time_b_prop _ _ _ _ Vt)).
    eexists. split; reflexivity.
  - destruct ty; cbn [value_ok] in V; dead V.
  - (* NULL *) kw_compute. eexists. split; [reflexivity|]. destruct ty; reflexivity.
Qed.

(** the storage layer keeps the value as it is *)
(** ... which the storage layer turns (back) into the stored value *)
Lemma value_normalize ty nl v : value_ok ty nl v = true -> normalize_value (coerced ty v) ty = OOk v.
Proof.
  intros V.
  assert (CI : forall w, (forall s0, w <> VCharacter s0) -> coerced ty w = w) by reflexivity.
  destruct v as [n|n|n|n|b|b|b|b|s|s|b|y m d|h mi s ns|y m d h mi s ns|mo d us|];
    cbn [value_ok] in V; try rewrite CI by discriminate;
    try (destruct ty; cbn [value_ok] in V; try (dead V); reflexivity).
  - (* Character *) destruct ty; cbn [value_ok] in V; try (dead V).
    apply andb_true_iff in V as [_ V2]. apply Z.eqb_eq in V2. unfold coerced. cbn [normalize_value].
    replace (Z.of_nat (Datatypes.length s) <? length) with false by (symmetry; apply Z.ltb_ge; lia).
    replace (length <? Z.of_nat (Datatypes.length s)) with false by (symmetry; apply Z.ltb_ge; lia). reflexivity.
  - (* Varchar *) destruct ty as [| | | | | | |ml| | | | | | | | | | | | | |]; cbn [value_ok] in V; try (dead V).
    destruct ml as [n|]; [|reflexivity]. apply andb_true_iff in V as [_ V1]. apply Z.leb_le in V1.
    cbn [normalize_value]. replace (n <? blen s) with false by (symmetry; apply Z.ltb_ge; lia). reflexivity.
  - destruct ty; try reflexivity; repeat match goal with o : option Z |- _ => destruct o end; reflexivity.
Qed.

Lemma value_null ty nl v : value_ok ty nl v = true -> nl || negb (is_null (coerced ty v)) = true.
Proof. unfold coerced. destruct v; cbn [value_ok is_null negb]; intros H; try apply orb_true_r. rewrite H. reflexivity. Qed.

Fixpoint coerced_row (cols : list column) (row : list sqlvalue) : list sqlvalue :=
  match cols, row with
  | c :: cs, v :: vs => coerced (c_type c) v :: coerced_row cs vs
  | _, _ => []
  end.

(** every value has at least one token *)
Lemma value_toks_nonempty ty nl v : value_ok ty nl v = true -> value_toks v <> [].
Proof.
  destruct v; cbn [value_toks]; try discriminate;
    try (intros _; unfold float_toks; repeat match goal with |- context [if ?b then _ else _] => destruct b end; discriminate).
  destruct ty; cbn [value_ok]; intros H; dead H.
Qed.

Lemma parse_row row : forall cols rest fuel,
  row_ok cols row = true -> row <> [] -> (length row <= fuel)%nat ->
  exists pvs, parse_values fl fuel (row_toks row ++ TRParen :: rest) = OOk (pvs, rest)
              /\ eval_row fl cols pvs = OOk (coerced_row cols row) /\ length pvs = length cols.
Proof.
  induction row as [|v row IH]; intros cols rest fuel R Hne Hf; [congruence|].
  destruct cols as [|c cols]; [discriminate|]. cbn [row_ok] in R. apply andb_true_iff in R as [Rv R].
  destruct fuel as [|f]; [cbn [length] in Hf; lia|]. cbn [parse_values].
  destruct row as [|v2 row'].
  - destruct cols as [|c2 cols']; [|discriminate].
    cbn [row_toks]. destruct (value_parse (c_type c) (c_nullable c) v (TRParen :: rest) Rv) as (pv & P & C).
    rewrite P. cbn [obind]. exists [pv]. repeat split. cbn [eval_row coerced_row]. rewrite C. reflexivity.
  - rewrite row_toks_cons2, <- app_assoc. cbn [app].
    destruct (value_parse (c_type c) (c_nullable c) v (TComma :: row_toks (v2 :: row') ++ TRParen :: rest) Rv) as (pv & P & C).
    rewrite P. cbn [obind].
    destruct (IH cols rest f R ltac:(discriminate) ltac:(cbn [length] in Hf |- *; lia)) as (pvs & P2 & E2 & L2).
    rewrite P2. cbn [obind]. exists (pv :: pvs). repeat split.
    + cbn [eval_row]. rewrite C. cbn [obind]. rewrite E2. reflexivity.
    + cbn [length]. rewrite L2. reflexivity.
Qed.

Lemma row_not_null cols row : row_ok cols row = true -> not_null_ok cols (coerced_row cols row) = true.
Proof.
  revert row. induction cols as [|c cols IH]; intros [|v row] R; try discriminate; [reflexivity|].
  cbn [row_ok] in R. apply andb_true_iff in R as [Rv R]. unfold not_null_ok. cbn [coerced_row combine forallb].
  rewrite (value_null _ _ _ Rv). apply IH, R.
Qed.

Lemma row_normalize cols row : row_ok cols row = true -> normalize_row cols (coerced_row cols row) = OOk row.
Proof.
  revert row. induction cols as [|c cols IH]; intros [|v row] R; try discriminate; [reflexivity|].
  cbn [row_ok] in R. apply andb_true_iff in R as [Rv R]. cbn [coerced_row normalize_row].
  rewrite (value_normalize _ _ _ Rv). cbn [obind]. rewrite IH by exact R. reflexivity.
Qed.

Lemma row_toks_length row cols : row_ok cols row = true -> (length row <= length (row_toks row))%nat.
Proof.
  revert cols. induction row as [|v row IH]; intros cols R; [cbn; lia|].
  destruct cols as [|c cols]; [discriminate|]. cbn [row_ok] in R. apply andb_true_iff in R as [Rv R].
  pose proof (value_toks_nonempty _ _ _ Rv) as Ne.
  destruct row as [|v2 row'].
  - cbn [row_toks length]. destruct (value_toks v); [congruence | cbn [length]; lia].
  - rewrite row_toks_cons2, app_length. cbn [length] in *. specialize (IH cols R).
    destruct (value_toks v); [congruence | cbn [length] in *; lia].
Qed.

(** * INSERT statements *)
Definition insert_toks (name : str) (row : list sqlvalue) : list tok :=
  TKw (lit "Insert") :: TKw (lit "Into") :: TIdent name :: TKw (lit "Values") :: TLParen :: row_toks row ++ [TRParen].

Lemma insert_stmt_shape name row :
  insert_stmt fl itx name row
  = lit "INSERT" ++ 32 :: lit "INTO" ++ 32 :: name ++ 32 :: lit "VALUES" ++ 32 :: 40 :: join_comma (map lit_of row) ++ 41 :: [].
Proof.
  unfold insert_stmt, lit_of.
  change (lit "INSERT INTO ") with (lit "INSERT" ++ 32 :: lit "INTO" ++ [32]).
  change (lit " VALUES (") with (32 :: lit "VALUES" ++ [32; 40]). change (lit ")") with [41].
  repeat (rewrite <- app_assoc; cbn [app]). reflexivity.
Qed.

Lemma insert_stmt_edges name row : exists body, insert_stmt fl itx name row = 73 :: body ++ [41].
Proof.
  unfold insert_stmt. change (lit "INSERT INTO ") with (73 :: lit "NSERT INTO "). change (lit ")") with [41].
  eexists (lit "NSERT INTO " ++ name ++ lit " VALUES (" ++ join_comma (map (sql_value_to_literal fl itx) row)).
  cbn [app]. rewrite <- !app_assoc. reflexivity.
Qed.

Ltac stop_by_cbn := cbn; split; [reflexivity | lia].

Lemma lexes_insert name cols row :
  ident_ok name = true -> row_ok cols row = true -> row <> [] ->
  lexes (insert_stmt fl itx name row) (insert_toks name row).
Proof.
  intros Hn R Hne. rewrite insert_stmt_shape. unfold insert_toks.
  apply (lexes_kw_word (lit "INSERT")); [word_shape | apply kw_insert | stop_by_cbn |].
  apply lexes_space. apply (lexes_kw_word (lit "INTO")); [word_shape | apply kw_into | stop_by_cbn |].
  apply lexes_space. destruct (ident_ok_facts name Hn) as (c & w & -> & Hc & Hw & Hk & _).
  rewrite <- Hk. apply lexes_word; [exact Hc | exact Hw | stop_by_cbn |].
  apply lexes_space. apply (lexes_kw_word (lit "VALUES")); [word_shape | apply kw_values | stop_by_cbn |].
  apply lexes_space, lexes_lparen.
  apply (lexes_row row cols [] []); [exact R | exact Hne | apply lexes_nil].
Qed.

Lemma parse_insert_ok name cols row :
  row_ok cols row = true -> row <> [] ->
  exists pvs, parse_insert fl (insert_toks name row) = OOk (name, [pvs])
              /\ eval_row fl cols pvs = OOk (coerced_row cols row) /\ length pvs = length cols.
Proof.
  intros R Hne. unfold insert_toks, parse_insert. kw_compute. cbn [negb parse_rows].
  pose proof (row_toks_length row cols R) as L.
  destruct (parse_row row cols [] (S (length (row_toks row ++ [TRParen]))) R Hne) as (pvs & P & E & Lp).
  { rewrite app_length. cbn [length]. lia. }
  rewrite P. cbn [obind]. exists pvs. repeat split; assumption.
Qed.

Lemma insert_rows_ok t pvs row :
  eval_row fl (t_cols t) pvs = OOk (coerced_row (t_cols t) row) -> length pvs = length (t_cols t) ->
  row_ok (t_cols t) row = true ->
  insert_rows fl t [pvs] = OOk (mk_table (t_name t) (t_cols t) (t_rows t ++ [row])).
Proof.
  intros E L R. unfold insert_rows. cbn [forallb]. rewrite L, Nat.eqb_refl. cbn [andb negb map_ores].
  rewrite E. cbn [obind]. rewrite (row_not_null _ _ R). cbn [obind map_ores].
  rewrite (row_normalize _ _ R). reflexivity.
Qed.

Lemma update_table_last name f db0 t t' :
  find_table name db0 = false -> t_name t = name -> f t = OOk t' ->
  update_table name f (db0 ++ [t]) = OOk (db0 ++ [t']).
Proof.
  intros F Hn Hf. induction db0 as [|x db0 IH].
  - cbn [app update_table]. rewrite Hn, str_eqb_refl, Hf. reflexivity.
  - cbn [find_table] in F. apply orb_false_iff in F as [Fx F].
    cbn [app update_table]. rewrite Fx, IH by exact F. reflexivity.
Qed.

Lemma load_insert db0 t row :
  ident_ok (t_name t) = true -> find_table (t_name t) db0 = false ->
  row_ok (t_cols t) row = true -> row <> [] ->
  load_stmt fl (db0 ++ [t]) (insert_stmt fl itx (t_name t) row)
  = OOk (db0 ++ [mk_table (t_name t) (t_cols t) (t_rows t ++ [row])]).
Proof.
  intros Hn F R Hne. unfold load_stmt.
  destruct (insert_stmt_edges (t_name t) row) as (body & E).
  assert (T : trim (insert_stmt fl itx (t_name t) row) = insert_stmt fl itx (t_name t) row).
  { rewrite E. apply trim_edges; reflexivity. }
  rewrite T. rewrite E at 1 2. cbn [is_nil starts_dashes orb].
  rewrite (lexes_all _ _ (lexes_insert _ _ _ Hn R Hne)).
  unfold insert_toks at 1. kw_compute.
  destruct (parse_insert_ok (t_name t) (t_cols t) row R Hne) as (pvs & P & Ev & L).
  rewrite P. cbn [obind].
  rewrite (update_table_last (t_name t) _ db0 t (mk_table (t_name t) (t_cols t) (t_rows t ++ [row])) F eq_refl
             (insert_rows_ok t pvs row Ev L R)).
  reflexivity.
Qed.

(** * CREATE TABLE statements *)
Definition num_tok (n : Z) : tok := TNum (show_nat n).

Definition type_toks (t : dtype) : list tok :=
  match t with
  | TInteger => [TIdent (lit "INTEGER")]
  | TSmallint => [TIdent (lit "SMALLINT")]
  | TBigint => [TIdent (lit "BIGINT")]
  | TFloat p => [TIdent (lit "FLOAT"); TLParen; num_tok p; TRParen]
  | TReal => [TIdent (lit "REAL")]
  | TDouble => [TIdent (lit "DOUBLE"); TIdent (lit "PRECISION")]
  | TVarchar None => [TIdent (lit "VARCHAR")]
  | TVarchar (Some n) => [TIdent (lit "VARCHAR"); TLParen; num_tok n; TRParen]
  | TChar n => [TIdent (lit "CHAR"); TLParen; num_tok n; TRParen]
  | TBoolean => [TKw (lit "Boolean")]
  | TDate => [TKw (lit "Date")]
  | TTime _ => [TKw (lit "Time")]
  | TTimestamp false => [TKw (lit "Timestamp")]
  | TTimestamp true => [TKw (lit "Timestamp"); TKw (lit "With"); TKw (lit "Time"); TKw (lit "Zone")]
  | TNumeric p s => [TIdent (lit "NUMERIC"); TLParen; num_tok p; TComma; num_tok s; TRParen]
  | _ => []
  end.

(** what follows a type in a column definition: a blank (before NOT NULL), a comma or the
    closing parenthesis *)
Definition def_stop (r : str) : Prop := exists r', r = 32 :: r' \/ r = 44 :: r' \/ r = 41 :: r'.

Lemma def_stop_word r : def_stop r -> word_stop r.
Proof. intros (r' & [-> | [-> | ->]]); cbn; split; (reflexivity || lia). Qed.

Lemma lexes_paren_num n r ts : 0 <= n -> lexes r ts ->
  lexes (40 :: show_nat n ++ 41 :: r) (TLParen :: num_tok n :: TRParen :: ts).
Proof.
  intros Hn H. apply lexes_lparen. unfold num_tok.
  apply lexes_number; [apply show_nat_decimal, Hn | cbn; repeat split; (reflexivity || lia) | apply lexes_rparen, H].
Qed.

Lemma usize_nonneg n : usize_ok n = true -> 0 <= n <= 18446744073709551615.
Proof. unfold usize_ok. rewrite andb_true_iff, !Z.leb_le. tauto. Qed.
Lemma u8_nonneg n : u8_ok n = true -> 0 <= n <= 255.
Proof. unfold u8_ok. rewrite andb_true_iff, !Z.leb_le. tauto. Qed.

Lemma lexes_type ty r ts :
  type_ok ty = true -> def_stop r -> lexes r ts -> lexes (format_data_type ty ++ r) (type_toks ty ++ ts).
Proof.
  intros T Hr H. pose proof (def_stop_word r Hr) as Hw.
  destruct ty as [| | | |p| | |ml|n| | |tz|tz| |p sc|p sc| | | |bl|nm|]; cbn [type_ok] in T; try discriminate;
    cbn [format_data_type type_toks app].
  - apply (lexes_kw_word (lit "INTEGER")); [word_shape | apply id_integer | exact Hw | exact H].
  - apply (lexes_kw_word (lit "SMALLINT")); [word_shape | apply id_smallint | exact Hw | exact H].
  - apply (lexes_kw_word (lit "BIGINT")); [word_shape | apply id_bigint | exact Hw | exact H].
  - (* FLOAT(p) *) apply u8_nonneg in T.
    change (lit "FLOAT(") with (lit "FLOAT" ++ [40]). change (lit ")") with [41].
    repeat (rewrite <- app_assoc; cbn [app]).
    apply (lexes_kw_word (lit "FLOAT")); [word_shape | apply id_float | stop_by_cbn |].
    apply lexes_paren_num; [lia | exact H].
  - apply (lexes_kw_word (lit "REAL")); [word_shape | apply id_real | exact Hw | exact H].
  - (* DOUBLE PRECISION *) change (lit "DOUBLE PRECISION") with (lit "DOUBLE" ++ 32 :: lit "PRECISION").
    repeat (rewrite <- app_assoc; cbn [app]).
    apply (lexes_kw_word (lit "DOUBLE")); [word_shape | apply id_double | stop_by_cbn |].
    apply lexes_space. apply (lexes_kw_word (lit "PRECISION")); [word_shape | apply id_precision | exact Hw | exact H].
  - (* VARCHAR / VARCHAR(n) *) destruct ml as [n|].
    + apply usize_nonneg in T.
      change (lit "VARCHAR(") with (lit "VARCHAR" ++ [40]). change (lit ")") with [41].
      repeat (rewrite <- app_assoc; cbn [app]).
      apply (lexes_kw_word (lit "VARCHAR")); [word_shape | apply id_varchar | stop_by_cbn |].
      apply lexes_paren_num; [lia | exact H].
    + apply (lexes_kw_word (lit "VARCHAR")); [word_shape | apply id_varchar | exact Hw | exact H].
  - (* CHAR(n) *) apply usize_nonneg in T.
    change (lit "CHAR(") with (lit "CHAR" ++ [40]). change (lit ")") with [41].
    repeat (rewrite <- app_assoc; cbn [app]).
    apply (lexes_kw_word (lit "CHAR")); [word_shape | apply id_char | stop_by_cbn |].
    apply lexes_paren_num; [lia | exact H].
  - apply (lexes_kw_word (lit "BOOLEAN")); [word_shape | apply kw_boolean | exact Hw | exact H].
  - apply (lexes_kw_word (lit "DATE")); [word_shape | apply kw_date | exact Hw | exact H].
  - apply (lexes_kw_word (lit "TIME")); [word_shape | apply kw_time | exact Hw | exact H].
  - (* TIMESTAMP [WITH TIME ZONE] *) destruct tz.
    + change (lit "TIMESTAMP WITH TIME ZONE") with (lit "TIMESTAMP" ++ 32 :: lit "WITH" ++ 32 :: lit "TIME" ++ 32 :: lit "ZONE").
      repeat (rewrite <- app_assoc; cbn [app]).
      apply (lexes_kw_word (lit "TIMESTAMP")); [word_shape | apply kw_timestamp | stop_by_cbn |].
      apply lexes_space. apply (lexes_kw_word (lit "WITH")); [word_shape | apply kw_with | stop_by_cbn |].
      apply lexes_space. apply (lexes_kw_word (lit "TIME")); [word_shape | apply kw_time | stop_by_cbn |].
      apply lexes_space. apply (lexes_kw_word (lit "ZONE")); [word_shape | apply kw_zone | exact Hw | exact H].
    + apply (lexes_kw_word (lit "TIMESTAMP")); [word_shape | apply kw_timestamp | exact Hw | exact H].
  - (* NUMERIC(p, s) *) apply andb_true_iff in T as [Tp Ts]. apply u8_nonneg in Tp, Ts.
    change (lit "NUMERIC(") with (lit "NUMERIC" ++ [40]). change (lit ", ") with [44; 32]. change (lit ")") with [41].
    repeat (rewrite <- app_assoc; cbn [app]).
    apply (lexes_kw_word (lit "NUMERIC")); [word_shape | apply id_numeric | stop_by_cbn |].
    apply lexes_lparen. unfold num_tok.
    apply lexes_number; [apply show_nat_decimal; lia | cbn; repeat split; (reflexivity || lia) |].
    apply lexes_comma, lexes_space.
    apply lexes_number; [apply show_nat_decimal; lia | cbn; repeat split; (reflexivity || lia) | apply lexes_rparen, H].
Qed.

(** what follows a type in the token stream *)
Definition type_rest_ok (rest : list tok) : Prop :=
  exists r, rest = TKw (lit "Not") :: r \/ rest = TComma :: r \/ rest = TRParen :: r.

Lemma num_u8_show n : u8_ok n = true -> num_u8 (show_nat n) = Some n.
Proof. intros H. apply u8_nonneg in H. unfold num_u8, parse_u8. apply parse_show_nat; lia. Qed.
Lemma num_usize_show n : usize_ok n = true -> num_usize (show_nat n) = Some n.
Proof. intros H. apply usize_nonneg in H. unfold num_usize. apply parse_show_nat; lia. Qed.

Ltac pt_go :=
  repeat first [ progress kw_compute
               | progress cbn [orb andb negb obind parse_len_arg parse_tz app]
               | rewrite num_u8_show by assumption
               | rewrite num_usize_show by assumption ].

Lemma parse_type_ok ty rest :
  type_ok ty = true -> type_rest_ok rest -> parse_type (type_toks ty ++ rest) = OOk (ty, rest).
Proof.
  intros T (r & Hrest).
  destruct ty as [| | | |p| | |[n|]|n| | |[|]|[|]| |p sc|p sc| | | |bl|nm|]; cbn [type_ok negb] in T; try discriminate;
    cbn [type_toks app]; unfold parse_type, num_tok;
    try (match type of T with (u8_ok _ && u8_ok _ = true) => apply andb_true_iff in T as [Tp Ts] end);
    pt_go; try reflexivity;
    destruct Hrest as [-> | [-> | ->]]; pt_go; reflexivity.
Qed.

Definition col_toks (c : column) : list tok :=
  TIdent (c_name c) :: type_toks (c_type c) ++ (if c_nullable c then [] else [TKw (lit "Not"); TKw (lit "Null")]).

Fixpoint cols_toks (cols : list column) : list tok :=
  match cols with
  | [] => []
  | [c] => col_toks c
  | c :: r => col_toks c ++ TComma :: cols_toks r
  end.

Lemma cols_toks_cons2 c c2 r : cols_toks (c :: c2 :: r) = col_toks c ++ TComma :: cols_toks (c2 :: r).
Proof. reflexivity. Qed.

Lemma lexes_column c r ts :
  column_ok c = true -> val_stop r -> lexes r ts -> lexes (column_def c ++ r) (col_toks c ++ ts).
Proof.
  intros C Hr H. unfold column_ok in C. apply andb_true_iff in C as [Cn Ct].
  unfold column_def, col_toks. destruct (ident_ok_facts (c_name c) Cn) as (x & w & E & Hx & Hw & Hk & _).
  rewrite <- Hk. rewrite E at 1. repeat (rewrite <- app_assoc; cbn [app]).
  change (x :: w ++ 32 :: ?t) with ((x :: w) ++ 32 :: t). rewrite <- E.
  rewrite E at 1 2. apply lexes_word; [exact Hx | exact Hw | stop_by_cbn |]. apply lexes_space.
  destruct (c_nullable c).
  - cbn [app]. rewrite ?app_nil_r. apply lexes_type; [exact Ct | | exact H].
    destruct Hr as (r' & [-> | ->]); eexists; [right; left | right; right]; reflexivity.
  - change (lit " NOT NULL") with (32 :: lit "NOT" ++ 32 :: lit "NULL"). repeat (rewrite <- app_assoc; cbn [app]).
    apply lexes_type; [exact Ct | eexists; left; reflexivity |].
    apply lexes_space. apply (lexes_kw_word (lit "NOT")); [word_shape | apply kw_not | stop_by_cbn |].
    apply lexes_space. apply (lexes_kw_word (lit "NULL")); [word_shape | apply kw_null | apply val_stop_word, Hr | exact H].
Qed.

Lemma lexes_columns cols : forall r ts,
  forallb column_ok cols = true -> cols <> [] -> lexes r ts ->
  lexes (join_comma (map column_def cols) ++ 41 :: r) (cols_toks cols ++ TRParen :: ts).
Proof.
  induction cols as [|c cols IH]; intros r ts C Hne H; [congruence|].
  cbn [forallb] in C. apply andb_true_iff in C as [Cc C].
  destruct cols as [|c2 cols'].
  - cbn [map join_comma cols_toks].
    apply lexes_column; [exact Cc | eexists; right; reflexivity | apply lexes_rparen, H].
  - cbn [map]. rewrite join_comma_cons2, cols_toks_cons2, <- !app_assoc. cbn [app].
    apply lexes_column; [exact Cc | eexists; left; reflexivity |].
    apply lexes_comma, lexes_space. apply IH; [exact C | discriminate | exact H].
Qed.

Definition create_toks (t : table) : list tok :=
  TKw (lit "Create") :: TKw (lit "Table") :: TIdent (t_name t) :: TLParen :: cols_toks (t_cols t) ++ [TRParen].

Lemma create_stmt_shape t :
  create_table_stmt t
  = lit "CREATE" ++ 32 :: lit "TABLE" ++ 32 :: t_name t ++ 32 :: 40 :: join_comma (map column_def (t_cols t)) ++ 41 :: [].
Proof.
  unfold create_table_stmt.
  change (lit "CREATE TABLE ") with (lit "CREATE" ++ 32 :: lit "TABLE" ++ [32]).
  change (lit " (") with [32; 40]. change (lit ")") with [41].
  repeat (rewrite <- app_assoc; cbn [app]). reflexivity.
Qed.

Lemma create_stmt_edges t : exists body, create_table_stmt t = 67 :: body ++ [41].
Proof.
  unfold create_table_stmt. change (lit "CREATE TABLE ") with (67 :: lit "REATE TABLE "). change (lit ")") with [41].
  eexists (lit "REATE TABLE " ++ t_name t ++ lit " (" ++ join_comma (map column_def (t_cols t))).
  cbn [app]. rewrite <- !app_assoc. reflexivity.
Qed.

Lemma lexes_create t :
  ident_ok (t_name t) = true -> forallb column_ok (t_cols t) = true -> t_cols t <> [] ->
  lexes (create_table_stmt t) (create_toks t).
Proof.
  intros Hn C Hne. rewrite create_stmt_shape. unfold create_toks.
  apply (lexes_kw_word (lit "CREATE")); [word_shape | apply kw_create | stop_by_cbn |].
  apply lexes_space. apply (lexes_kw_word (lit "TABLE")); [word_shape | apply kw_table | stop_by_cbn |].
  apply lexes_space. destruct (ident_ok_facts (t_name t) Hn) as (c & w & E & Hc & Hw & Hk & _).
  rewrite <- Hk. rewrite E at 1 2. apply lexes_word; [exact Hc | exact Hw | stop_by_cbn |].
  apply lexes_space, lexes_lparen.
  apply (lexes_columns (t_cols t) [] []); [exact C | exact Hne | apply lexes_nil].
Qed.

(** ** parsing the column definitions *)
Lemma parse_constraints_ok (nullable : bool) rest fuel :
  (exists r, rest = TComma :: r \/ rest = TRParen :: r) -> (2 <= fuel)%nat ->
  parse_constraints fuel true ((if nullable then [] else [TKw (lit "Not"); TKw (lit "Null")]) ++ rest)
  = OOk (nullable, rest).
Proof.
  intros (r & Hr) Hf. destruct fuel as [|[|f]]; try lia.
  destruct nullable; cbn [app].
  - destruct Hr as [-> | ->]; reflexivity.
  - cbn [parse_constraints]. kw_compute. destruct Hr as [-> | ->]; reflexivity.
Qed.

Lemma parse_columns_ok cols : forall rest fuel,
  forallb column_ok cols = true -> cols <> [] -> (length cols <= fuel)%nat ->
  parse_columns fuel (cols_toks cols ++ TRParen :: rest) = OOk (cols, rest).
Proof.
  induction cols as [|c cols IH]; intros rest fuel C Hne Hf; [congruence|].
  cbn [forallb] in C. apply andb_true_iff in C as [Cc C].
  unfold column_ok in Cc. apply andb_true_iff in Cc as [_ Ct].
  destruct fuel as [|f]; [cbn [length] in Hf; lia|].
  assert (Step : forall tail, (exists r, tail = TComma :: r \/ tail = TRParen :: r) ->
            parse_type (type_toks (c_type c) ++ (if c_nullable c then [] else [TKw (lit "Not"); TKw (lit "Null")]) ++ tail)
            = OOk (c_type c, (if c_nullable c then [] else [TKw (lit "Not"); TKw (lit "Null")]) ++ tail)).
  { intros tail (r & Hr). apply parse_type_ok; [exact Ct|].
    destruct (c_nullable c); cbn [app]; [destruct Hr as [-> | ->]; eexists; [right; left | right; right]; reflexivity|].
    eexists. left. reflexivity. }
  destruct cols as [|c2 cols'].
  - cbn [cols_toks]. unfold col_toks. cbn [app parse_columns]. rewrite <- app_assoc.
    rewrite Step by (eexists; right; reflexivity). cbn [obind app].
    rewrite parse_constraints_ok; [| eexists; right; reflexivity | rewrite app_length; destruct (c_nullable c); cbn [length]; lia].
    cbn [obind]. destruct c; reflexivity.
  - rewrite cols_toks_cons2. unfold col_toks at 1. cbn [app parse_columns]. rewrite <- !app_assoc.
    rewrite Step by (eexists; left; reflexivity). cbn [obind app].
    rewrite parse_constraints_ok; [| eexists; left; reflexivity | rewrite app_length; destruct (c_nullable c); cbn [length]; lia].
    cbn [obind]. rewrite (IH rest f C ltac:(discriminate) ltac:(cbn [length] in Hf |- *; lia)). cbn [obind].
    destruct c; reflexivity.
Qed.

Lemma cols_toks_length cols : (length cols <= length (cols_toks cols))%nat.
Proof.
  induction cols as [|c cols IH]; [cbn; lia|]. destruct cols as [|c2 cols'].
  - cbn [cols_toks col_toks length]. lia.
  - rewrite cols_toks_cons2, app_length. unfold col_toks at 1. cbn [length] in *. lia.
Qed.

Lemma parse_create_ok t :
  forallb column_ok (t_cols t) = true -> t_cols t <> [] ->
  parse_create_table (create_toks t) = OOk (t_name t, t_cols t).
Proof.
  intros C Hne. unfold create_toks, parse_create_table. kw_compute. cbn [andb negb].
  rewrite (parse_columns_ok (t_cols t) [] _ C Hne); [reflexivity|].
  pose proof (cols_toks_length (t_cols t)). rewrite app_length. cbn [length]. lia.
Qed.

Lemma load_create db0 t :
  ident_ok (t_name t) = true -> forallb column_ok (t_cols t) = true -> t_cols t <> [] ->
  names_distinct (map c_name (t_cols t)) = true -> find_table (t_name t) db0 = false ->
  load_stmt fl db0 (create_table_stmt t) = OOk (db0 ++ [mk_table (t_name t) (t_cols t) []]).
Proof.
  intros Hn C Hne D F. unfold load_stmt.
  destruct (create_stmt_edges t) as (body & E).
  assert (T : trim (create_table_stmt t) = create_table_stmt t).
  { rewrite E. apply trim_edges; reflexivity. }
  rewrite T. rewrite E at 1 2. cbn [is_nil starts_dashes orb].
  rewrite (lexes_all _ _ (lexes_create t Hn C Hne)).
  unfold create_toks at 1. kw_compute.
  rewrite (parse_create_ok t C Hne). cbn [obind]. unfold exec_create. rewrite F, D. reflexivity.
Qed.

(** * Tables and databases *)
Lemma load_stmts_app db a b :
  load_stmts fl db (a ++ b) = obind (load_stmts fl db a) (fun db' => load_stmts fl db' b).
Proof.
  revert db. induction a as [|s a IH]; intros db; [reflexivity|].
  cbn [app load_stmts]. destruct (load_stmt fl db s); cbn [obind]; [apply IH | reflexivity | reflexivity | reflexivity].
Qed.

Lemma row_ok_nonempty cols row : cols <> [] -> row_ok cols row = true -> row <> [].
Proof. destruct cols; [congruence|]. destruct row; [discriminate | discriminate]. Qed.

Lemma load_inserts db0 name cols : forall rows done,
  ident_ok name = true -> find_table name db0 = false -> cols <> [] ->
  forallb (row_ok cols) rows = true ->
  load_stmts fl (db0 ++ [mk_table name cols done]) (map (insert_stmt fl itx name) rows)
  = OOk (db0 ++ [mk_table name cols (done ++ rows)]).
Proof.
  induction rows as [|row rows IH]; intros done Hn F Hc R.
  - cbn [map load_stmts]. rewrite app_nil_r. reflexivity.
  - cbn [forallb] in R. apply andb_true_iff in R as [Rr R]. cbn [map load_stmts].
    pose proof (load_insert db0 (mk_table name cols done) row) as L. cbn [t_name t_cols t_rows] in L.
    rewrite L by (assumption || (apply (row_ok_nonempty cols); assumption)). cbn [obind].
    rewrite IH by assumption. rewrite <- app_assoc. reflexivity.
Qed.

Lemma load_table db0 t :
  table_ok t = true -> find_table (t_name t) db0 = false ->
  load_stmts fl db0 (table_stmts fl itx t) = OOk (db0 ++ [t]).
Proof.
  unfold table_ok. rewrite !andb_true_iff. intros ((((Hn & Hne) & Hc) & Hd) & Hr) F.
  assert (Hne' : t_cols t <> []) by (destruct (t_cols t); [discriminate | discriminate]).
  unfold table_stmts. cbn [load_stmts]. rewrite (load_create db0 t Hn Hc Hne' Hd F). cbn [obind].
  rewrite (load_inserts db0 (t_name t) (t_cols t) (t_rows t) [] Hn F Hne' Hr). destruct t; reflexivity.
Qed.

Lemma find_table_app name a b : find_table name (a ++ b) = find_table name a || find_table name b.
Proof. induction a as [|x a IH]; [reflexivity|]. cbn [app find_table]. rewrite IH, orb_assoc. reflexivity. Qed.

Lemma load_db db : forall db0,
  forallb table_ok db = true -> names_distinct (map t_name db) = true ->
  (forall t, In t db -> find_table (t_name t) db0 = false) ->
  load_stmts fl db0 (dump_stmts fl itx db) = OOk (db0 ++ db).
Proof.
  induction db as [|t db IH]; intros db0 Hok Hd Hf.
  - cbn. rewrite app_nil_r. reflexivity.
  - cbn [forallb] in Hok. apply andb_true_iff in Hok as [Ht Hok].
    cbn [map names_distinct] in Hd. apply andb_true_iff in Hd as [Hx Hd]. apply negb_true_iff in Hx.
    unfold dump_stmts. cbn [flat_map]. rewrite load_stmts_app.
    rewrite (load_table db0 t Ht (Hf t (or_introl eq_refl))). cbn [obind].
    fold (dump_stmts fl itx db). rewrite (IH (db0 ++ [t]) Hok Hd).
    + rewrite <- app_assoc. reflexivity.
    + intros t' Hin. rewrite find_table_app, (Hf t' (or_intror Hin)). cbn [find_table orb]. rewrite orb_false_r.
      destruct (str_eqb (t_name t) (t_name t')) eqn:E; [|reflexivity].
      exfalso. assert (K : existsb (str_eqb (t_name t)) (map t_name db) = true).
      { apply existsb_exists. exists (t_name t'). split; [apply in_map, Hin | exact E]. }
      congruence.
Qed.

(** ** from the splitter's pieces to the statements *)
Fixpoint stmts_of (ds : list dline) : list stmt :=
  match ds with
  | [] => []
  | LSkip _ :: r => stmts_of r
  | LStmt s :: r => s :: stmts_of r
  end.

Lemma stmts_of_app a b : stmts_of (a ++ b) = stmts_of a ++ stmts_of b.
Proof. induction a as [|d a IH]; [reflexivity|]. destruct d; cbn [app stmts_of]; rewrite IH; reflexivity. Qed.

Lemma load_stmt_space db s : load_stmt fl db (32 :: s) = load_stmt fl db s.
Proof. reflexivity. Qed.

Lemma load_expected ds : forall pre db, (pre = [] \/ pre = [32]) ->
  load_stmts fl db (expected pre ds) = load_stmts fl db (map stmt_text (stmts_of ds)).
Proof.
  induction ds as [|d ds IH]; intros pre db Hp; [reflexivity|].
  destruct d as [l|s]; cbn [expected stmts_of map load_stmts]; [apply IH, Hp|].
  assert (E : load_stmt fl db (pre ++ stmt_text s) = load_stmt fl db (stmt_text s))
    by (destruct Hp as [-> | ->]; [reflexivity | apply load_stmt_space]).
  rewrite E. destruct (load_stmt fl db (stmt_text s)); cbn [obind]; try reflexivity.
  apply IH. right. reflexivity.
Qed.

Lemma stmts_of_table t :
  forallb (forallb (value_benign fl)) (t_rows t) = true ->
  map stmt_text (stmts_of (table_dlines fl itx t)) = table_stmts fl itx t.
Proof.
  intros B. unfold table_dlines, table_stmts. cbn [stmts_of map]. rewrite create_stmt_text. f_equal.
  rewrite stmts_of_app. cbn [stmts_of]. rewrite app_nil_r.
  destruct (t_rows t) as [|r rs] eqn:E; [reflexivity|]. rewrite <- E in *. cbn [stmts_of]. clear E.
  induction (t_rows t) as [|row rows IH]; [reflexivity|].
  cbn [forallb] in B. apply andb_true_iff in B as [Br B].
  cbn [map stmts_of]. rewrite (insert_stmt_text fl itx) by exact Br. f_equal. apply IH, B.
Qed.

Lemma stmts_of_dump g db :
  db_benign fl db = true -> map stmt_text (stmts_of (dump_dlines fl itx g db)) = dump_stmts fl itx db.
Proof.
  intros B. unfold dump_dlines. rewrite !stmts_of_app. cbn [stmts_of app]. rewrite app_nil_r.
  unfold dump_stmts. induction db as [|t db IH]; [reflexivity|].
  cbn [db_benign forallb] in B. apply andb_true_iff in B as [Bt B].
  cbn [flat_map]. rewrite stmts_of_app, map_app, IH by exact B. f_equal.
  apply stmts_of_table. unfold table_benign in Bt. apply andb_true_iff in Bt as [_ Bt]. exact Bt.
Qed.

(** ** a database inside the vocabulary is ordinary text for the splitter *)
Lemma value_ok_benign ty nl v : value_ok ty nl v = true -> value_benign fl v = true.
Proof.
  intros V.
  destruct v as [n|n|n|n|b|b|b|b|s|s|b|y m d|h mi s ns|y m d h mi s ns|mo d us|];
    cbn [value_ok value_benign] in *; try reflexivity;
    destruct ty; cbn [value_ok] in V; try (dead V).
  - apply is_decimal_plain, (ft_shape64 fl FT), V.
  - destruct (special_cases32 b V) as [F | [-> | [-> | ->]]]; try reflexivity.
    rewrite (is_decimal_plain _ (ft_shape32 fl FT b F)). apply orb_true_r.
  - destruct (special_cases32 b V) as [F | [-> | [-> | ->]]]; try reflexivity.
    rewrite (is_decimal_plain _ (ft_shape32 fl FT b F)). apply orb_true_r.
  - destruct (special_cases64 b V) as [F | [-> | [-> | ->]]]; try reflexivity.
    rewrite (is_decimal_plain _ (ft_shape64 fl FT b F)). apply orb_true_r.
Qed.

Lemma value_ok_strings ty nl v : value_ok ty nl v = true -> forallb str_ok (value_strings v) = true.
Proof.
  intros V.
  destruct v as [n|n|n|n|b|b|b|b|s|s|b|y m d|h mi s ns|y m d h mi s ns|mo d us|];
    cbn [value_strings forallb]; try reflexivity.
  - destruct ty; cbn [value_ok] in V; try (dead V).
    apply andb_true_iff in V as [V _]. rewrite V. reflexivity.
  - destruct ty as [| | | | | | |[n|]| | | | | | | | | | | | | |]; cbn [value_ok] in V; try (dead V).
    + apply andb_true_iff in V as [V _]. rewrite V. reflexivity.
    + rewrite V. reflexivity.
Qed.

Lemma row_ok_benign cols row : row_ok cols row = true ->
  forallb (value_benign fl) row = true /\ forallb str_ok (flat_map value_strings row) = true.
Proof.
  revert row. induction cols as [|c cols IH]; intros [|v row] R; try discriminate; [split; reflexivity|].
  cbn [row_ok] in R. apply andb_true_iff in R as [Rv R]. destruct (IH row R) as [B S].
  cbn [forallb flat_map]. rewrite forallb_app, (value_ok_benign _ _ _ Rv), (value_ok_strings _ _ _ Rv), B, S. split; reflexivity.
Qed.

Lemma type_ok_benign ty : type_ok ty = true -> type_benign ty = true.
Proof. destruct ty; cbn; congruence. Qed.

Lemma table_ok_benign t : table_ok t = true ->
  table_benign fl t = true /\ forallb str_ok (flat_map (fun r => flat_map value_strings r) (t_rows t)) = true.
Proof.
  unfold table_ok. rewrite !andb_true_iff. intros ((((Hn & Hne) & Hc) & Hd) & Hr).
  destruct (ident_ok_facts (t_name t) Hn) as (_ & _ & _ & _ & _ & _ & Pn).
  assert (Bc : forallb column_benign (t_cols t) = true).
  { rewrite forallb_forall in *. intros c Hin. specialize (Hc c Hin). unfold column_ok in Hc. apply andb_true_iff in Hc as [Cn Ct].
    unfold column_benign. destruct (ident_ok_facts (c_name c) Cn) as (_ & _ & _ & _ & _ & _ & Pc).
    rewrite Pc, (type_ok_benign _ Ct). reflexivity. }
  assert (Br : forallb (forallb (value_benign fl)) (t_rows t) = true
               /\ forallb str_ok (flat_map (fun r => flat_map value_strings r) (t_rows t)) = true).
  { revert Hr. generalize (t_rows t) as rws. induction rws as [|row rows IH]; intros Hr; [split; reflexivity|].
    cbn [forallb] in Hr. apply andb_true_iff in Hr as [R Hr]. destruct (IH Hr) as [B S].
    destruct (row_ok_benign _ _ R) as [B1 S1]. cbn [forallb flat_map]. rewrite forallb_app, B1, S1, B, S. split; reflexivity. }
  destruct Br as [Br Sr]. split; [|exact Sr]. unfold table_benign. rewrite Pn, Bc, Br. reflexivity.
Qed.

Lemma db_ok_benign db : db_ok db = true -> db_benign fl db = true /\ forallb str_ok (db_strings db) = true.
Proof.
  unfold db_ok. rewrite andb_true_iff. intros [Hok _]. unfold db_benign, db_strings.
  induction db as [|t db IH]; [split; reflexivity|].
  cbn [forallb] in Hok. apply andb_true_iff in Hok as [Ht Hok]. destruct (IH Hok) as [B S].
  destruct (table_ok_benign t Ht) as [Bt St]. cbn [forallb flat_map]. rewrite forallb_app, Bt, St, B, S. split; reflexivity.
Qed.

(** * The round trip *)
Theorem dump_roundtrip_thm g db :
  generated_ok g = true -> db_ok db = true ->
  load_sql_dump fl (dump_text fl itx g db) = OOk db.
Proof.
  intros G Hok. destruct (db_ok_benign db Hok) as [B S].
  destruct (split_dump_thm fl itx g db G B) as [_ Hsplit]. destruct (Hsplit S) as [Hp _].
  unfold load_sql_dump. rewrite Hp. unfold dump_expected.
  rewrite load_expected by (left; reflexivity). rewrite (stmts_of_dump g db B).
  unfold db_ok in Hok. apply andb_true_iff in Hok as [Ht Hd].
  rewrite (load_db db [] Ht Hd) by reflexivity. reflexivity.
Qed.

End Load.

(** * The assumptions are consistent: a toy float library that satisfies [float_text_ok]

    (it prints a bit pattern as its decimal numeral followed by [.5] and reads that back; of
    course it is not IEEE arithmetic, it only shows that the record can be inhabited, so the
    round-trip theorem is not vacuous) *)
Definition toy_show (b : Z) : str := show_nat b ++ [46; 53].
Definition toy_parse (s : str) : option Z :=
  match parse_i64 s with
  | Some i => Some i
  | None => let '(ip, r) := span is_digit s in
            if str_eqb r [46; 53] then parse_int false 0 9223372036854775807 ip else None
  end.
Definition toy_fl : float_ops := mk_float_ops toy_show toy_show toy_parse (fun i => i) (fun i => i) (fun b => b).

Lemma toy_show_decimal b : 0 <= b -> is_decimal (toy_show b) = true.
Proof.
  intros H. unfold toy_show, is_decimal.
  rewrite (span_app is_digit (show_nat b) [46; 53]) by first [apply show_nat_digits, H | reflexivity].
  pose proof (show_nat_nonempty b). destruct (show_nat b); [congruence | reflexivity].
Qed.

Lemma toy_show_not_int b : 0 <= b -> parse_i64 (toy_show b) = None.
Proof.
  intros H. destruct (parse_i64 (toy_show b)) as [i|] eqn:P; [|reflexivity]. exfalso.
  pose proof (parse_i64_digits _ _ (toy_show_decimal b H) P) as D. unfold toy_show in D.
  rewrite forallb_app in D. apply andb_true_iff in D as [_ D]. discriminate.
Qed.

Lemma toy_roundtrip b : 0 <= b < 9223372036854775807 -> toy_parse (toy_show b) = Some b.
Proof.
  intros H. unfold toy_parse. rewrite toy_show_not_int by lia. unfold toy_show.
  rewrite (span_app is_digit (show_nat b) [46; 53]) by first [apply show_nat_digits; lia | reflexivity].
  cbn [str_eqb Z.eqb Pos.eqb andb]. apply parse_show_nat; lia.
Qed.

Theorem toy_float_text_ok : float_text_ok toy_fl.
Proof.
  assert (F64 : forall b, finite_pos 64 b = true -> 0 <= b < 9223372036854775807).
  { intros b H. unfold finite_pos, f_inf in H. cbn in H. lia. }
  assert (F32 : forall b, finite_pos 32 b = true -> 0 <= b < 9223372036854775807).
  { intros b H. unfold finite_pos, f_inf in H. cbn in H. lia. }
  constructor; cbn [show_f64 show_f32 parse_f64 f64_of_i64 f32_of_i64 f32_of_f64 toy_fl].
  - intros b H. apply toy_show_decimal. apply F64 in H. lia.
  - intros b H. apply toy_show_decimal. apply F32 in H. lia.
  - intros b H. apply toy_roundtrip, F64, H.
  - intros ds i _ P. unfold toy_parse. rewrite P. reflexivity.
  - intros b H _. exists b. split; [apply toy_roundtrip, F32, H | reflexivity].
  - intros b i H P. rewrite toy_show_not_int in P by (apply F32 in H; lia). discriminate.
Qed.

(** * Examples and refutations *)
Definition no_itx (a b c : Z) : str := [].
Definition col (n : String.string) (t : dtype) (nullable : bool) : column := mk_column (lit n) t nullable.
Definition one_table (cols : list column) (rows : list (list sqlvalue)) : list table := [mk_table (lit "T0") cols rows].

(** a database inside the vocabulary, with every kind of awkward-but-harmless string *)
Definition ex_db : list table :=
  [mk_table (lit "T0")
     [col "A" TInteger false; col "B" (TVarchar (Some 40)) true; col "C" TDate true; col "D" (TChar 3) true; col "E" TDouble true]
     [[VInteger 5; VVarchar (lit "it's; -- \\ ""x"""); VDate 2024 2 29; VCharacter (lit "ab "); VDouble 4609434218613702656];
      [VInteger 9223372036854775807; VNull; VDate (-44) 3 15; VNull; VNull]];
   mk_table (lit "ORDERS_2") [col "K" TBoolean true; col "TS" (TTimestamp true) true] [[VBoolean true; VTimestamp 1999 12 31 23 59 59 120000000]]].

Example dump_roundtrip_ex :
  db_ok ex_db = true /\ generated_ok (lit "2026-01-01 00:00:00 UTC") = true
  /\ load_sql_dump toy_fl (dump_text toy_fl no_itx (lit "2026-01-01 00:00:00 UTC") ex_db) = OOk ex_db.
Proof.
  split; [vm_compute; reflexivity|]. split; [vm_compute; reflexivity|].
  apply dump_roundtrip_thm; [exact toy_float_text_ok | vm_compute; reflexivity | vm_compute; reflexivity].
Qed.

(** ** negative numbers: the literal of a negative integer is a unary-minus expression, which
    INSERT ... VALUES rejects *)
Lemma negative_literal_tokens n r ts :
  n < 0 -> val_stop r -> lexes r ts -> lexes (show_int n ++ r) (TSym 45 :: TNum (show_nat (- n)) :: ts).
Proof.
  intros Hn Hr H. unfold show_int. destruct (Z.ltb_spec n 0); [|lia].
  apply (lexes_step [45]); [discriminate | |].
  - intros f. apply lex_minus. pose proof (show_nat_decimal (- n) ltac:(lia)) as D.
    destruct (is_decimal_head _ D) as (d & t & E & Hd). rewrite E. cbn [app].
    destruct (digit_facts d Hd) as (_ & N45 & _). destruct d; try exact I. destruct p; try exact I.
    repeat (destruct p; try exact I). exfalso. apply N45. reflexivity.
  - apply lexes_number; [apply show_nat_decimal; lia | apply val_stop_num, Hr | exact H].
Qed.

Theorem negative_literal_rejected_thm fl n rest :
  n < 0 -> parse_value fl (TSym 45 :: TNum (show_nat (- n)) :: rest) = OErr.
Proof. reflexivity. Qed.

Theorem negative_number_refuted_thm fl itx :
  exists db, load_sql_dump fl (dump_text fl itx (lit "x") db) = OErr
             /\ db = one_table [col "A" TInteger true] [[VInteger (-5)]].
Proof. eexists. split; [|reflexivity]. vm_compute. reflexivity. Qed.

(** ** classes repaired in the code (fixes/C19-coerce-dump-literals, C19-char-length-in-characters):
    the former counter-examples are now inside the vocabulary and reload as themselves *)

(** the quoted spellings of the special floats are accepted by the float columns: the canonical
    NaN and both infinities come back bit for bit *)
Theorem special_float_roundtrip_thm fl itx :
  let db := one_table [col "A" TDouble true; col "B" TReal true]
              [[VDouble 9221120237041090560; VReal 2143289344]; [VDouble 9218868437227405312; VReal 4286578688];
               [VDouble 18442240474082181120; VReal 2139095040]] in
  db_ok db = true /\ load_sql_dump fl (dump_text fl itx (lit "x") db) = OOk db.
Proof. split; vm_compute; reflexivity. Qed.

(** a NaN with another payload or sign is written as 'NaN' too and comes back as the canonical NaN
    (the same value for SqlValue's equality; only the payload bits differ) *)
Theorem nan_payload_canonicalised_thm fl itx :
  exists db db', load_sql_dump fl (dump_text fl itx (lit "x") db) = OOk db'
                 /\ db = one_table [col "A" TDouble true] [[VDouble 9221120237041090561]; [VDouble 18444492273895866368]]
                 /\ db' = one_table [col "A" TDouble true] [[VDouble 9221120237041090560]; [VDouble 9221120237041090560]].
Proof. eexists _, _. split; [|split; reflexivity]. vm_compute. reflexivity. Qed.

(** SMALLINT: the Integer literal is narrowed by the new (Integer, Smallint) coercion *)
Theorem smallint_roundtrip_thm fl itx :
  let db := one_table [col "A" TSmallint true] [[VSmallint 5]; [VSmallint 32767]; [VSmallint 0]] in
  db_ok db = true /\ load_sql_dump fl (dump_text fl itx (lit "x") db) = OOk db.
Proof. split; vm_compute; reflexivity. Qed.

(** NUMERIC: a whole value prints without a fraction, reads as an Integer and is converted back *)
Theorem numeric_whole_roundtrip_thm fl (FT : float_text_ok fl) b i p s rest :
  finite_pos 64 b = true -> parse_i64 (show_f64 fl b) = Some i ->
  obind (parse_value fl (TNum (show_f64 fl b) :: rest)) (fun '(pv, _) => coerce_value fl pv (TNumeric p s)) = OOk (VNumeric b).
Proof.
  intros F P. cbn [parse_value]. rewrite P. cbn [obind coerce_value].
  pose proof (ft_int64 fl FT (show_f64 fl b) i (parse_i64_digits _ _ (ft_shape64 fl FT b F) P) P) as E.
  rewrite (ft_rt64 fl FT b F) in E. inversion E. reflexivity.
Qed.

(** CHAR(n) counts characters on both sides now: any value of exactly n characters comes back *)
Theorem char_non_ascii_roundtrip_thm fl itx :
  let db := one_table [col "A" (TChar 3) true; col "B" (TChar 4) true]
              [[VCharacter [97; 8364; 32]; VCharacter [233; 32; 32; 32]]; [VCharacter [128512; 32; 32]; VCharacter [233; 233; 233; 233]]] in
  db_ok db = true /\ load_sql_dump fl (dump_text fl itx (lit "x") db) = OOk db.
Proof. split; vm_compute; reflexivity. Qed.

(** ** strings that break the splitter, seen from the loader *)

(** a value ending in a backslash: the next INSERT is glued to this one and silently dropped *)
Theorem backslash_refuted_thm fl itx :
  exists db db', load_sql_dump fl (dump_text fl itx (lit "x") db) = OOk db'
                 /\ db = one_table [col "A" (TVarchar None) true] [[VVarchar [97; 92]]; [VVarchar [98]]]
                 /\ db' = one_table [col "A" (TVarchar None) true] [[VVarchar [97; 92]]].
Proof. eexists _, _. split; [|split; reflexivity]. vm_compute. reflexivity. Qed.

(** a value with a newline: the newline disappears *)
Theorem newline_refuted_thm fl itx :
  exists db db', load_sql_dump fl (dump_text fl itx (lit "x") db) = OOk db'
                 /\ db = one_table [col "A" (TVarchar None) true] [[VVarchar [97; 10; 98]]]
                 /\ db' = one_table [col "A" (TVarchar None) true] [[VVarchar [97; 98]]].
Proof. eexists _, _. split; [|split; reflexivity]. vm_compute. reflexivity. Qed.

(** a value with a line starting with two hyphens: the load fails *)
Theorem comment_line_refuted_thm fl itx :
  exists db, load_sql_dump fl (dump_text fl itx (lit "x") db) = OErr
             /\ db = one_table [col "A" (TVarchar None) true] [[VVarchar [97; 10; 45; 45; 98]]; [VVarchar [99]]].
Proof. eexists. split; [|reflexivity]. vm_compute. reflexivity. Qed.

(** * Packaged statements for Props/C19.v *)

(** a non-negative integer: one number token, read back as the same Integer *)
Theorem integer_literal_roundtrip_thm fl n :
  0 <= n <= 9223372036854775807 ->
  lex_all (show_int n) = LOk [TNum (show_nat n)]
  /\ parse_value fl [TNum (show_nat n)] = OOk (VInteger n, []).
Proof.
  intros H. split.
  - rewrite show_int_nonneg by lia.
    pose proof (lexes_all _ _ (lexes_number (show_nat n) [] [] (show_nat_decimal n ltac:(lia)) I lexes_nil)) as L.
    rewrite app_nil_r in L. exact L.
  - cbn [parse_value]. unfold parse_i64. rewrite parse_show_nat by lia. reflexivity.
Qed.

(** every value of the vocabulary: its literal lexes to [value_toks], these parse to a literal
    that [coerce_value] turns into the stored value, which the storage layer keeps as it is *)
Theorem load_value_thm fl itx (FT : float_text_ok fl) ty nullable v r ts rest :
  value_ok ty nullable v = true -> val_stop r -> lexes r ts ->
  lexes (sql_value_to_literal fl itx v ++ r) (value_toks fl v ++ ts)
  /\ exists pv cv, parse_value fl (value_toks fl v ++ rest) = OOk (pv, rest)
                   /\ coerce_value fl pv ty = OOk cv /\ normalize_value cv ty = OOk v.
Proof.
  intros V Hr H. split; [apply (lexes_value fl itx FT ty nullable); assumption|].
  destruct (value_parse fl itx FT ty nullable v rest V) as (pv & P & C).
  exists pv, (coerced ty v). repeat split; [exact P | exact C | apply (value_normalize ty nullable), V].
Qed.
