(** UTF-8 facts the persistence code relies on, over byte lists ([list Z], each element meant to be in
    [0,256)):

    - [utf8_valid]         = [String::from_utf8(..).is_ok()]  (core::str::validations::run_utf8_validation:
                             no overlong forms, no surrogates, nothing above U+10FFFF)
    - [is_char_boundary]   = [str::is_char_boundary]
    - [slice_to]           = [&s[..n]]  ([None] = the slicing panic)
    - [char_count]         = [s.chars().count()] for valid UTF-8 (number of non-continuation bytes)
    - ASCII case mapping   = [str::to_uppercase]/[to_lowercase] restricted to ASCII-only strings

    No proofs in this file. *)
From Coq Require Import String List ZArith Bool.
Import ListNotations.
Open Scope Z_scope.

Definition bytes := list Z.

Definition inr (lo hi b : Z) : bool := (lo <=? b) && (b <=? hi).
Definition is_byte (b : Z) : bool := inr 0 255 b.
Definition is_cont (b : Z) : bool := inr 128 191 b.
Definition all_bytes (s : bytes) : bool := forallb is_byte s.

Fixpoint utf8_valid (s : bytes) : bool :=
  match s with
  | [] => true
  | b0 :: r =>
      if inr 0 127 b0 then utf8_valid r
      else if inr 194 223 b0 then
        match r with
        | b1 :: r1 => is_cont b1 && utf8_valid r1
        | _ => false
        end
      else if inr 224 239 b0 then
        match r with
        | b1 :: b2 :: r2 =>
            (if b0 =? 224 then inr 160 191 b1 else if b0 =? 237 then inr 128 159 b1 else is_cont b1)
            && is_cont b2 && utf8_valid r2
        | _ => false
        end
      else if inr 240 244 b0 then
        match r with
        | b1 :: b2 :: b3 :: r3 =>
            (if b0 =? 240 then inr 144 191 b1 else if b0 =? 244 then inr 128 143 b1 else is_cont b1)
            && is_cont b2 && is_cont b3 && utf8_valid r3
        | _ => false
        end
      else false
  end.

Definition blen (s : bytes) : Z := Z.of_nat (length s).

(** [str::is_char_boundary]: 0 and len are boundaries; otherwise the byte at [i] must not be a
    continuation byte ([(b as i8) >= -0x40]). *)
Definition is_char_boundary (s : bytes) (i : Z) : bool :=
  if (i =? 0) || (i =? blen s) then true
  else if (i <? 0) || (blen s <? i) then false
  else negb (is_cont (nth (Z.to_nat i) s 0)).

(** [&s[..n]]; [None] is the panic "byte index n is not a char boundary" / out of range *)
Definition slice_to (s : bytes) (n : Z) : option bytes :=
  if is_char_boundary s n then Some (firstn (Z.to_nat n) s) else None.

(** [RowNormalizer::truncate_at_char_boundary]: the longest prefix of at most [n] bytes that ends on
    a character boundary ([end = min n len; while !is_char_boundary(end) { end -= 1 }]; 0 is a boundary) *)
Fixpoint back_to_boundary (s : bytes) (e : nat) : bytes :=
  if is_char_boundary s (Z.of_nat e) then firstn e s
  else match e with O => [] | S e' => back_to_boundary s e' end.
Definition truncate_at_char_boundary (s : bytes) (n : Z) : bytes :=
  back_to_boundary s (Z.to_nat (Z.min n (blen s))).

Definition char_count (s : bytes) : Z := Z.of_nat (length (filter (fun b => negb (is_cont b)) s)).

(** [s.chars().take(n).collect()]: the bytes of the first [n] characters *)
Fixpoint take_chars (n : nat) (s : bytes) : bytes :=
  match s with
  | [] => []
  | b :: r => if is_cont b then b :: take_chars n r
              else match n with O => [] | S n' => b :: take_chars n' r end
  end.

Definition is_ascii (s : bytes) : bool := forallb (inr 0 127) s.
Definition ascii_upper_b (b : Z) : Z := if inr 97 122 b then b - 32 else b.
Definition ascii_lower_b (b : Z) : Z := if inr 65 90 b then b + 32 else b.
Definition ascii_upper (s : bytes) : bytes := map ascii_upper_b s.
Definition ascii_lower (s : bytes) : bytes := map ascii_lower_b s.

Fixpoint bytes_eqb (a b : bytes) : bool :=
  match a, b with
  | [], [] => true
  | x :: a', y :: b' => (x =? y) && bytes_eqb a' b'
  | _, _ => false
  end.

Fixpoint starts_with (p s : bytes) : bool :=
  match p, s with
  | [], _ => true
  | x :: p', y :: s' => (x =? y) && starts_with p' s'
  | _ :: _, [] => false
  end.

(** ASCII text literal as bytes *)
Definition lit (s : String.string) : bytes :=
  map (fun c => Z.of_nat (Ascii.nat_of_ascii c)) (String.list_ascii_of_string s).
Arguments lit s%string_scope.
