(** C31 — laws of the CSV writer/reader AS CODED (data_io.rs): where they round-trip, where they do not,
    and what the export direction of [\copy] actually writes. *)
From Coq Require Import Ascii String.
From Coq Require Import List ZArith Bool Lia.
From VibeSQL Require Import Base.LexOrd Codec.Csv Codec.CsvSpec.
Import ListNotations.
Local Open Scope string_scope.
Local Open Scope list_scope.
Open Scope Z_scope.

(** ------------------------------------------------------------------------------------------------
    generic list/text lemmas *)

Lemma str_eqb_eq a : forall b, str_eqb a b = true <-> a = b.
Proof.
  induction a as [|x a IH]; intros [|y b]; cbn; try (split; congruence).
  rewrite andb_true_iff, Z.eqb_eq, IH. split; [intros [-> ->]; reflexivity | intros E; inversion E; auto].
Qed.

Lemma str_eqb_refl a : str_eqb a a = true.
Proof. apply str_eqb_eq. reflexivity. Qed.

Lemma contains_cons_c c x s : contains c (x :: s) = (c =? x) || contains c s.
Proof. reflexivity. Qed.

Lemma contains_app c a b : contains c (a ++ b) = contains c a || contains c b.
Proof. unfold contains. apply existsb_app. Qed.

Lemma split_on_nonempty sep s : split_on sep s <> [].
Proof.
  destruct s as [|c r]; cbn; [discriminate|].
  destruct (c =? sep); [discriminate|]. destruct (split_on sep r); discriminate.
Qed.

Lemma split_on_nosep sep s : contains sep s = false -> split_on sep s = [s].
Proof.
  induction s as [|c r IH]; intros H; [reflexivity|].
  cbn in H. apply orb_false_iff in H. destruct H as [Hc Hr].
  cbn [split_on]. rewrite Z.eqb_sym, Hc. rewrite IH by exact Hr. reflexivity.
Qed.

Lemma split_on_app_sep sep a b : contains sep a = false ->
  split_on sep (a ++ sep :: b) = a :: split_on sep b.
Proof.
  induction a as [|c r IH]; intros H.
  - cbn [app split_on]. rewrite Z.eqb_refl. reflexivity.
  - cbn in H. apply orb_false_iff in H. destruct H as [Hc Hr].
    cbn [app split_on]. rewrite Z.eqb_sym, Hc. rewrite IH by exact Hr. reflexivity.
Qed.

Lemma join_cons2 sep x y l : join sep (x :: y :: l) = x ++ sep ++ join sep (y :: l).
Proof. reflexivity. Qed.

Lemma split_on_join sep fs : fs <> [] -> Forall (fun f => contains sep f = false) fs ->
  split_on sep (join [sep] fs) = fs.
Proof.
  induction fs as [|f fs IH]; intros Hne Hall; [congruence|].
  inversion Hall as [|? ? Hf Hfs]; subst.
  destruct fs as [|f2 fs].
  - cbn [join]. apply split_on_nosep. exact Hf.
  - rewrite join_cons2. cbn [app]. rewrite split_on_app_sep by exact Hf.
    rewrite IH by (discriminate || exact Hfs). reflexivity.
Qed.

Lemma contains_join sep c fs : contains c sep = false -> Forall (fun f => contains c f = false) fs ->
  contains c (join sep fs) = false.
Proof.
  intros Hs. induction fs as [|f fs IH]; intros Hall; [reflexivity|].
  inversion Hall as [|? ? Hf Hfs]; subst. destruct fs as [|f2 fs]; [exact Hf|].
  rewrite join_cons2, !contains_app, Hf, Hs, IH by exact Hfs. reflexivity.
Qed.

(** ------------------------------------------------------------------------------------------------
    trimming *)

(** no white space at either end *)
Definition no_edge_ws (f : str) : bool :=
  match f with c :: _ => negb (is_ws c) | [] => true end
  && match rev f with c :: _ => negb (is_ws c) | [] => true end.

Lemma trim_start_id s : match s with c :: _ => is_ws c = false | [] => True end -> trim_start s = s.
Proof. destruct s as [|c r]; [reflexivity|]. cbn. intros ->. reflexivity. Qed.

Lemma no_edge_ws_trim f : no_edge_ws f = true -> trim f = f.
Proof.
  unfold no_edge_ws, trim, trim_end. intros H. apply andb_true_iff in H. destruct H as [H1 H2].
  rewrite (trim_start_id f) by (destruct f; [exact I | apply negb_true_iff; exact H1]).
  rewrite (trim_start_id (rev f)) by (destruct (rev f); [exact I | apply negb_true_iff; exact H2]).
  apply rev_involutive.
Qed.

Lemma trim_start_decomp s : exists p, s = p ++ trim_start s /\ forallb is_ws p = true.
Proof.
  induction s as [|c r IH].
  - exists []. split; reflexivity.
  - cbn [trim_start]. destruct (is_ws c) eqn:E.
    + destruct IH as (p & E1 & E2). exists (c :: p). split.
      * cbn [app]. rewrite <- E1. reflexivity.
      * cbn [forallb]. rewrite E, E2. reflexivity.
    + exists []. split; reflexivity.
Qed.

Lemma trim_start_head s : match trim_start s with c :: _ => is_ws c = false | [] => True end.
Proof.
  induction s as [|c r IH]; [exact I|]. cbn [trim_start]. destruct (is_ws c) eqn:E; [exact IH | exact E].
Qed.

(** [s = p ++ trim s ++ q] with only white space in [p] and [q] *)
Lemma trim_decomp s : exists p q, s = p ++ trim s ++ q /\ forallb is_ws p = true /\ forallb is_ws q = true.
Proof.
  destruct (trim_start_decomp s) as (p & E1 & Hp).
  destruct (trim_start_decomp (rev (trim_start s))) as (q & E2 & Hq).
  exists p, (rev q). split; [|split; [exact Hp|]].
  - unfold trim, trim_end. rewrite E1 at 1. f_equal.
    rewrite <- (rev_involutive (trim_start s)) at 1. rewrite E2 at 1. rewrite rev_app_distr. reflexivity.
  - rewrite forallb_forall in *. intros x Hx. apply Hq. apply in_rev. exact Hx.
Qed.

(** the result of [trim] has clean edges *)
Lemma trim_clean s : no_edge_ws (trim s) = true.
Proof.
  unfold no_edge_ws. apply andb_true_iff. split.
  - (* head of trim s = head of trim_start s unless trim s is empty *)
    unfold trim, trim_end.
    destruct (trim_start_decomp (rev (trim_start s))) as (q & E2 & Hq).
    pose proof (trim_start_head s) as Hh.
    assert (E : trim_start s = rev (trim_start (rev (trim_start s))) ++ rev q).
    { rewrite <- (rev_involutive (trim_start s)) at 1. rewrite E2 at 1. apply rev_app_distr. }
    destruct (rev (trim_start (rev (trim_start s)))) as [|c t] eqn:Et; [reflexivity|].
    rewrite E in Hh. cbn in Hh. rewrite Hh. reflexivity.
  - unfold trim, trim_end. rewrite rev_involutive.
    pose proof (trim_start_head (rev (trim_start s))) as Hh.
    destruct (trim_start (rev (trim_start s))); [reflexivity|]. rewrite Hh. reflexivity.
Qed.

Lemma trim_idem s : trim (trim s) = trim s.
Proof. apply no_edge_ws_trim, trim_clean. Qed.

(** ------------------------------------------------------------------------------------------------
    lines *)

Definition ends_cr (l : str) : bool := match rev l with c :: _ => c =? CR | [] => false end.

Lemma strip_cr_id l : ends_cr l = false -> strip_cr l = l.
Proof. unfold ends_cr, strip_cr. destruct (rev l) as [|c r]; [reflexivity|]. intros ->. reflexivity. Qed.

Lemma ends_cr_app a b : b <> [] -> ends_cr (a ++ b) = ends_cr b.
Proof.
  intros Hb. unfold ends_cr. rewrite rev_app_distr.
  destruct (rev b) as [|c r] eqn:E; [|reflexivity].
  apply (f_equal (@rev Z)) in E. rewrite rev_involutive in E. cbn in E. congruence.
Qed.

Lemma no_edge_ws_ends_cr f : no_edge_ws f = true -> ends_cr f = false.
Proof.
  unfold no_edge_ws, ends_cr. intros H. apply andb_true_iff in H. destruct H as [_ H].
  destruct (rev f) as [|c r]; [reflexivity|].
  destruct (c =? CR) eqn:E; [|reflexivity]. apply Z.eqb_eq in E. subst c. discriminate H.
Qed.

Lemma ends_cr_join fs : Forall (fun f => no_edge_ws f = true) fs -> ends_cr (join [COMMA] fs) = false.
Proof.
  induction fs as [|f fs IH]; intros Hall; [reflexivity|].
  inversion Hall as [|? ? Hf Hfs]; subst. destruct fs as [|f2 fs].
  - apply no_edge_ws_ends_cr. exact Hf.
  - rewrite join_cons2. rewrite ends_cr_app by discriminate.
    specialize (IH Hfs). destruct (join [COMMA] (f2 :: fs)) as [|c r] eqn:E; [reflexivity|].
    change ([COMMA] ++ c :: r) with ([COMMA] ++ (c :: r)). rewrite ends_cr_app by discriminate. exact IH.
Qed.

Lemma split_lines ls : Forall (fun l => contains LF l = false) ls ->
  split_on LF (flat_map (fun l => l ++ [LF]) ls) = ls ++ [[]].
Proof.
  induction ls as [|l ls IH]; intros Hall; [reflexivity|].
  inversion Hall as [|? ? Hl Hls]; subst.
  cbn [flat_map]. rewrite <- app_assoc. cbn [app]. rewrite split_on_app_sep by exact Hl.
  rewrite IH by exact Hls. reflexivity.
Qed.

Lemma lines_of_pieces_term ls : lines_of_pieces (ls ++ [[]]) = map strip_cr ls.
Proof.
  induction ls as [|l ls IH]; [reflexivity|].
  cbn [app map]. rewrite <- IH. destruct ls; reflexivity.
Qed.

(** text written line by line (each line followed by LF) is read back line by line *)
Lemma lines_written ls : Forall (fun l => contains LF l = false) ls ->
  lines (flat_map (fun l => l ++ [LF]) ls) = map strip_cr ls.
Proof. intros H. unfold lines. rewrite split_lines by exact H. apply lines_of_pieces_term. Qed.

(** ------------------------------------------------------------------------------------------------
    the code's writer followed by the code's reader *)

(** the exact class of fields the pair preserves *)
Definition csv_safe (f : str) : bool :=
  negb (contains COMMA f) && negb (contains DQ f) && negb (contains LF f) && no_edge_ws f.

Lemma csv_safe_inv f : csv_safe f = true ->
  contains COMMA f = false /\ contains DQ f = false /\ contains LF f = false /\ no_edge_ws f = true.
Proof.
  unfold csv_safe. intros H. repeat (apply andb_true_iff in H; destruct H as [H ?]).
  repeat match goal with Hx : negb _ = true |- _ => apply negb_true_iff in Hx end. auto.
Qed.

Lemma escape_safe f : csv_safe f = true -> escape_csv_value f = f.
Proof.
  intros H. destruct (csv_safe_inv f H) as (H1 & H2 & H3 & _).
  unfold escape_csv_value. rewrite H1, H2, H3. reflexivity.
Qed.

Lemma map_escape_safe r : Forall (fun f => csv_safe f = true) r -> map escape_csv_value r = r.
Proof.
  induction 1 as [|f r Hf _ IH]; [reflexivity|]. cbn [map]. rewrite escape_safe by exact Hf. rewrite IH. reflexivity.
Qed.

Lemma safe_forall (P : str -> Prop) r :
  (forall f, csv_safe f = true -> P f) -> Forall (fun f => csv_safe f = true) r -> Forall P r.
Proof. intros HP H. induction H; constructor; auto. Qed.

Lemma map_trim_safe r : Forall (fun f => csv_safe f = true) r -> map trim r = r.
Proof.
  induction 1 as [|f r Hf _ IH]; [reflexivity|]. cbn [map]. rewrite IH.
  rewrite no_edge_ws_trim by (apply csv_safe_inv in Hf; tauto). reflexivity.
Qed.

Definition safe_row (n : nat) (r : list str) : Prop := length r = n /\ Forall (fun f => csv_safe f = true) r.

Lemma csv_rows_safe n rows : n <> O -> Forall (safe_row n) rows -> forall idx,
  csv_rows n idx (map (join [COMMA]) rows) = Ok rows.
Proof.
  intros Hn. induction 1 as [|r rows [Hlen Hr] _ IH]; intros idx; [reflexivity|].
  cbn [map csv_rows].
  assert (Hne : r <> []) by (destruct r; [cbn in Hlen; congruence | discriminate]).
  rewrite split_on_join by (try exact Hne; apply safe_forall with (2 := Hr); intros f Hf; apply csv_safe_inv in Hf; tauto).
  rewrite Hlen, Nat.eqb_refl. rewrite IH. rewrite map_trim_safe by exact Hr. reflexivity.
Qed.

Lemma export_csv_safe header rows n :
  Forall (fun f => csv_safe f = true) header -> Forall (safe_row n) rows ->
  export_csv header rows = flat_map (fun l => l ++ [LF]) (map (join [COMMA]) (header :: rows)).
Proof.
  intros Hh Hrows. unfold export_csv, write_csv_row. cbn [map flat_map].
  rewrite map_escape_safe by exact Hh. f_equal.
  induction Hrows as [|r rows [_ Hr] _ IH]; [reflexivity|].
  cbn [map flat_map]. rewrite map_escape_safe by exact Hr. rewrite IH. reflexivity.
Qed.

Lemma line_no_lf r : Forall (fun f => csv_safe f = true) r -> contains LF (join [COMMA] r) = false.
Proof.
  intros H. apply contains_join; [reflexivity|].
  apply safe_forall with (2 := H). intros f Hf. apply csv_safe_inv in Hf. tauto.
Qed.

Lemma line_strip_cr r : Forall (fun f => csv_safe f = true) r -> strip_cr (join [COMMA] r) = join [COMMA] r.
Proof.
  intros H. apply strip_cr_id, ends_cr_join.
  apply safe_forall with (2 := H). intros f Hf. apply csv_safe_inv in Hf. tauto.
Qed.

Lemma lines_export_csv header rows :
  Forall (fun f => csv_safe f = true) header -> Forall (safe_row (length header)) rows ->
  lines (export_csv header rows) = map (join [COMMA]) (header :: rows).
Proof.
  intros Hh Hrows.
  rewrite (export_csv_safe header rows (length header)) by assumption.
  rewrite lines_written.
  2:{ constructor; [apply line_no_lf; exact Hh|].
      induction Hrows as [|r rows [_ Hr] _ IH]; constructor; [apply line_no_lf; exact Hr | exact IH]. }
  cbn [map]. rewrite line_strip_cr by exact Hh. f_equal.
  induction Hrows as [|r rows [_ Hr] _ IH]; [reflexivity|]. cbn [map]. rewrite line_strip_cr by exact Hr. rewrite IH. reflexivity.
Qed.

(** csv_roundtrip, the true version: with safe fields in rectangular rows the code's reader returns
    exactly the header and rows the code's writer was given. *)
Theorem csv_code_roundtrip_thm : forall (header : list str) (rows : list (list str)),
  header <> [] ->
  Forall (fun f => csv_safe f = true) header ->
  Forall (safe_row (length header)) rows ->
  csv_records (export_csv header rows) = Ok (header, rows).
Proof.
  intros header rows Hne Hh Hrows.
  rewrite (export_csv_safe header rows (length header)) by assumption.
  unfold csv_records. rewrite lines_written.
  2:{ constructor; [apply line_no_lf; exact Hh|].
      induction Hrows as [|r rows [_ Hr] _ IH]; constructor; [apply line_no_lf; exact Hr | exact IH]. }
  cbn [map]. rewrite line_strip_cr by exact Hh.
  rewrite split_on_join by (try exact Hne; apply safe_forall with (2 := Hh); intros f Hf; apply csv_safe_inv in Hf; tauto).
  replace (map strip_cr (map (join [COMMA]) rows)) with (map (join [COMMA]) rows).
  2:{ induction Hrows as [|r rows [_ Hr] _ IH]; [reflexivity|]. cbn [map]. rewrite line_strip_cr by exact Hr. rewrite <- IH. reflexivity. }
  rewrite csv_rows_safe; [reflexivity | destruct header; [congruence | discriminate] | exact Hrows].
Qed.

Example csv_code_roundtrip_example :
  let header := [s_of "id"; s_of "name"] in
  let rows := [[s_of "1"; s_of "O'Brien; --"]; [[]; s_of "NULL"]; [s_of "x y"; [233; CR; 233]]] in
  header <> [] /\ Forall (fun f => csv_safe f = true) header /\ Forall (safe_row (length header)) rows
  /\ csv_records (export_csv header rows) = Ok (header, rows).
Proof.
  cbn zeta. split; [discriminate|]. split; [repeat constructor|]. split.
  - repeat constructor.
  - vm_compute. reflexivity.
Qed.

(** csv_roundtrip at full strength is false of the code: one witness per unsafe character class *)
Definition rt1 (f : str) := csv_records (export_csv [s_of "c"] [[f]]).

Theorem csv_roundtrip_refuted_comma : rt1 (s_of "a,b") = Err (ERowLen 2 2 1).
Proof. vm_compute. reflexivity. Qed.
Theorem csv_roundtrip_refuted_quote : rt1 (s_of "q""r") = Ok ([s_of "c"], [[s_of """q""""r"""]]).
Proof. vm_compute. reflexivity. Qed.
Theorem csv_roundtrip_refuted_newline : rt1 [120; LF; 121] = Ok ([s_of "c"], [[[DQ; 120]]; [[121; DQ]]]).
Proof. vm_compute. reflexivity. Qed.
Theorem csv_roundtrip_refuted_space : rt1 (s_of " x ") = Ok ([s_of "c"], [[s_of "x"]]).
Proof. vm_compute. reflexivity. Qed.

(** csv_roundtrip without side condition: refuted, one rectangular one-cell table per class *)
Definition wit_header : str := s_of "c".
(** comma; double quote; line feed; surrounding blanks; trailing NBSP; CR LF *)
Definition wit_fields : list str := [s_of "a,b"; s_of "q""r"; [120; LF; 121]; s_of " x "; [120; 160]; [CR; LF]].
Theorem csv_roundtrip_refuted_thm :
  Forall (fun f : str => csv_records (export_csv [wit_header] [[f]]) <> Ok ([wit_header], [[f]])) wit_fields.
Proof. repeat constructor; vm_compute; discriminate. Qed.

(** exactness of the side condition, on one cell: the pair preserves [f] IF AND ONLY IF [csv_safe f] *)
Lemma length_replace_ge c by_ s : (1 <= length by_)%nat -> (length s <= length (replace_char c by_ s))%nat.
Proof.
  intros Hb. induction s as [|x s IH]; [cbn; lia|].
  change (replace_char c by_ (x :: s)) with ((if x =? c then by_ else [x]) ++ replace_char c by_ s).
  rewrite app_length. destruct (x =? c); cbn [length]; lia.
Qed.

Lemma lines_two h q : contains LF h = false -> contains LF q = false ->
  lines (h ++ [LF] ++ q ++ [LF]) = [strip_cr h; strip_cr q].
Proof.
  intros Hh Hq.
  replace (h ++ [LF] ++ q ++ [LF]) with (flat_map (fun l => l ++ [LF]) [h; q])
    by (cbn [flat_map]; rewrite app_nil_r, <- app_assoc; reflexivity).
  rewrite lines_written by (repeat constructor; assumption). reflexivity.
Qed.

Lemma split_on_length_ge2 sep s : contains sep s = true -> (2 <= length (split_on sep s))%nat.
Proof.
  induction s as [|c r IH]; intros H; [discriminate|].
  cbn in H. cbn [split_on]. rewrite Z.eqb_sym. destruct (sep =? c) eqn:E.
  - pose proof (split_on_nonempty sep r). destruct (split_on sep r); [congruence | cbn; lia].
  - cbn in H. specialize (IH H). destruct (split_on sep r) as [|p ps]; cbn in *; lia.
Qed.

Lemma split_on_app_split sep x y : split_on sep (x ++ sep :: y) = split_on sep x ++ split_on sep y.
Proof.
  induction x as [|c x IH].
  - cbn [app split_on]. rewrite Z.eqb_refl. reflexivity.
  - cbn [app split_on]. destruct (c =? sep); [rewrite IH; reflexivity|].
    rewrite IH. pose proof (split_on_nonempty sep x) as Hne.
    destruct (split_on sep x) as [|p ps]; [congruence | reflexivity].
Qed.

Lemma lines_count_lf a b c : exists l1 l2 l3 rest, lines (a ++ [LF] ++ b ++ [LF] ++ c ++ [LF]) = l1 :: l2 :: l3 :: rest.
Proof.
  unfold lines. cbn [app]. rewrite !split_on_app_split. cbn [split_on]. rewrite !app_assoc.
  rewrite lines_of_pieces_term. rewrite !map_app.
  pose proof (split_on_nonempty LF a). pose proof (split_on_nonempty LF b). pose proof (split_on_nonempty LF c).
  destruct (split_on LF a) as [|a1 ar]; [congruence|].
  destruct (split_on LF b) as [|b1 br]; [congruence|].
  destruct (split_on LF c) as [|c1 cr]; [congruence|].
  cbn [map app]. destruct ar as [|a2 ar]; cbn [map app].
  - destruct br as [|b2 br]; cbn [map app]; repeat eexists.
  - destruct ar as [|a3 ar]; cbn [map app]; repeat eexists.
Qed.

Theorem csv_cell_roundtrip_iff_thm : forall h f : str,
  csv_safe h = true ->
  (csv_records (export_csv [h] [[f]]) = Ok ([h], [[f]]) <-> csv_safe f = true).
Proof.
  intros h f Hh. split.
  2:{ intros Hf. apply csv_code_roundtrip_thm; [discriminate | repeat constructor; exact Hh |].
      repeat constructor. exact Hf. }
  intros E. destruct (csv_safe f) eqn:S; [reflexivity|]. exfalso.
  destruct (csv_safe_inv h Hh) as (Hh1 & Hh2 & Hh3 & Hh4).
  unfold export_csv, write_csv_row in E. cbn [map join flat_map] in E. rewrite app_nil_r in E.
  rewrite (escape_safe h Hh) in E. rewrite <- app_assoc in E.
  unfold escape_csv_value in E.
  destruct (contains LF f) eqn:FL.
  { (* a line feed inside the field: at least three lines *)
    rewrite orb_true_r in E.
    assert (exists a b, f = a ++ [LF] ++ b) as (a & b & ->).
    { clear -FL. induction f as [|x f IH]; [discriminate|]. rewrite contains_cons_c in FL. destruct (LF =? x) eqn:Ex.
      - apply Z.eqb_eq in Ex. subst x. exists [], f. reflexivity.
      - destruct (IH FL) as (a & b & ->). exists (x :: a), b. reflexivity. }
    unfold csv_records in E.
    assert (exists a' b', DQ :: replace_char DQ [DQ; DQ] (a ++ [LF] ++ b) ++ [DQ] = a' ++ [LF] ++ b') as (a' & b' & Eab).
    { exists (DQ :: replace_char DQ [DQ; DQ] a), (replace_char DQ [DQ; DQ] b ++ [DQ]).
      unfold replace_char. rewrite !flat_map_app. cbn [flat_map]. change (LF =? DQ) with false. cbn iota.
      cbn [app]. rewrite <- !app_assoc. reflexivity. }
    rewrite Eab in E.
    destruct (lines_count_lf h a' b') as (l1 & l2 & l3 & rest & El).
    replace (h ++ [LF] ++ (a' ++ [LF] ++ b') ++ [LF]) with (h ++ [LF] ++ a' ++ [LF] ++ b' ++ [LF]) in E
      by (rewrite <- !app_assoc; reflexivity).
    cbn [app] in E, El. rewrite El in E.
    cbn [csv_rows] in E.
    destruct (Nat.eqb (length (split_on COMMA l2)) (length (split_on COMMA l1))); [|discriminate].
    cbn [csv_rows] in E.
    destruct (Nat.eqb (length (split_on COMMA l3)) (length (split_on COMMA l1))); [|discriminate].
    destruct (csv_rows _ _ rest); discriminate. }
  rewrite orb_false_r in E.
  pose (q := DQ :: replace_char DQ [DQ; DQ] f ++ [DQ]).
  assert (Hq_lf : contains LF q = false).
  { unfold q. cbn [contains existsb]. change (LF =? DQ) with false. cbn [orb].
    fold (contains LF (replace_char DQ [DQ; DQ] f ++ [DQ])). rewrite contains_app.
    replace (contains LF [DQ]) with false by reflexivity. rewrite orb_false_r.
    clear -FL. induction f as [|x f IH]; [reflexivity|]. cbn in FL. apply orb_false_iff in FL. destruct FL as [F1 F2].
    change (replace_char DQ [DQ; DQ] (x :: f)) with ((if x =? DQ then [DQ; DQ] else [x]) ++ replace_char DQ [DQ; DQ] f).
    rewrite contains_app, IH by exact F2. destruct (x =? DQ); cbn; [reflexivity | rewrite F1; reflexivity]. }
  assert (Hq_edge : no_edge_ws q = true).
  { unfold q, no_edge_ws. cbn [negb]. change (is_ws DQ) with false. cbn [negb andb].
    change (DQ :: replace_char DQ [DQ; DQ] f ++ [DQ]) with ((DQ :: replace_char DQ [DQ; DQ] f) ++ [DQ]).
    rewrite rev_app_distr. reflexivity. }
  destruct (contains COMMA f || contains DQ f) eqn:Q.
  - (* quoted: either split at a comma, or kept with its quotes *)
    fold q in E. unfold csv_records in E. rewrite lines_two in E by assumption.
    rewrite (strip_cr_id h) in E by (apply no_edge_ws_ends_cr; exact Hh4).
    rewrite (strip_cr_id q) in E by (apply no_edge_ws_ends_cr; exact Hq_edge).
    rewrite (split_on_nosep COMMA h Hh1) in E. cbn [length csv_rows] in E.
    destruct (contains COMMA q) eqn:QC.
    + pose proof (split_on_length_ge2 COMMA q QC) as L.
      destruct (split_on COMMA q) as [|x1 [|x2 r]]; cbn [length] in L; try lia; cbn in E; discriminate.
    + rewrite (split_on_nosep COMMA q QC) in E. cbn [map length Nat.eqb csv_rows] in E.
      rewrite (no_edge_ws_trim q Hq_edge) in E.
      assert (Eq : q = f) by congruence.
      apply (f_equal (@length Z)) in Eq. unfold q in Eq. cbn [length] in Eq. rewrite app_length in Eq.
      pose proof (length_replace_ge DQ [DQ; DQ] f). cbn [length] in *. lia.
  - (* written bare: the reader trims it *)
    apply orb_false_iff in Q. destruct Q as [Q1 Q2].
    unfold csv_records in E. rewrite lines_two in E by assumption.
    rewrite (strip_cr_id h) in E by (apply no_edge_ws_ends_cr; exact Hh4).
    rewrite (split_on_nosep COMMA h Hh1) in E. cbn [length csv_rows] in E.
    assert (QC : contains COMMA (strip_cr f) = false).
    { unfold strip_cr. destruct (rev f) as [|c r] eqn:Er; [exact Q1|]. destruct (c =? CR); [|exact Q1].
      assert (Ef : f = rev r ++ [c]) by (rewrite <- (rev_involutive f), Er; reflexivity).
      rewrite Ef, contains_app in Q1. apply orb_false_iff in Q1. tauto. }
    rewrite (split_on_nosep COMMA _ QC) in E. cbn [map length Nat.eqb csv_rows] in E.
    assert (Et : trim (strip_cr f) = f) by congruence.
    assert (Hclean : no_edge_ws f = true) by (rewrite <- Et; apply trim_clean).
    unfold csv_safe in S. rewrite Q1, Q2, FL, Hclean in S. discriminate.
Qed.

(** ------------------------------------------------------------------------------------------------
    what [\copy t TO file] writes: placeholder header, Debug-formatted cells *)

Lemma select_star_columns rows r0 rest : rows = r0 :: rest ->
  fst (select_star_result rows) = repeat COLUMN_text (length r0).
Proof. intros ->. reflexivity. Qed.

Lemma column_safe : csv_safe COLUMN_text = true.
Proof. reflexivity. Qed.

Lemma repeat_forall {A} (P : A -> Prop) x n : P x -> Forall P (repeat x n).
Proof. intros H. induction n; constructor; auto. Qed.

(** lines of a text whose first line is known *)
Lemma lines_first l rest : contains LF l = false ->
  exists more, lines (l ++ [LF] ++ rest) = strip_cr l :: more.
Proof.
  intros H. unfold lines. cbn [app]. rewrite split_on_app_sep by exact H.
  pose proof (split_on_nonempty LF rest) as Hne.
  destruct (split_on LF rest) as [|p ps]; [congruence|]. eexists. reflexivity.
Qed.

(** The exported file of a non-empty table is REJECTED by the import of the same CLI, whatever the data,
    unless the table happens to have a column called "Column". *)
Theorem export_then_import_rejected_thm : forall (sch : list str) (rows : list (list cell)) (r0 : list cell)
    (rest : list (list cell)) (table : str),
  rows = r0 :: rest -> r0 <> [] ->
  (forall c, In c sch -> eq_ignore_case c COLUMN_text = false) ->
  copy_import_csv (Some sch) (copy_export_csv rows) table = Err (ENoColumn COLUMN_text).
Proof.
  intros sch rows r0 rest table -> Hr0 Hsch.
  unfold copy_import_csv, copy_export_csv, select_star_result, export_csv, write_csv_row.
  set (n := length r0). assert (Hn : exists k, n = S k) by (destruct r0; [congruence | eexists; reflexivity]).
  destruct Hn as (k & Hk).
  assert (Hall : Forall (fun f => csv_safe f = true) (repeat COLUMN_text n)) by (apply repeat_forall, column_safe).
  rewrite map_escape_safe by exact Hall.
  unfold validate_csv_columns. rewrite <- app_assoc.
  destruct (lines_first (join [COMMA] (repeat COLUMN_text n))
              (flat_map (fun vs => join [COMMA] (map escape_csv_value vs) ++ [LF]) (map (map fmt_cell) (r0 :: rest)))
              (line_no_lf _ Hall)) as (more & El).
  rewrite El. rewrite line_strip_cr by exact Hall.
  rewrite split_on_join.
  2:{ rewrite Hk. discriminate. }
  2:{ apply repeat_forall. reflexivity. }
  rewrite Hk. cbn [repeat map validate_columns].
  change (trim COLUMN_text) with COLUMN_text.
  change (existsb forbidden_char COLUMN_text) with false. cbn iota.
  replace (existsb (fun sc => eq_ignore_case sc COLUMN_text) sch) with false; [reflexivity|].
  symmetry. apply not_true_iff_false. intros Hex. apply existsb_exists in Hex.
  destruct Hex as (c & Hin & Hc). rewrite (Hsch c Hin) in Hc. discriminate.
Qed.

Example export_then_import_rejected_example :
  copy_import_csv (Some [s_of "id"; s_of "name"]) (copy_export_csv [[CInt 1; CText (s_of "x")]]) (s_of "t")
  = Err (ENoColumn COLUMN_text).
Proof. vm_compute. reflexivity. Qed.

(** the Debug formatter never writes a text cell as its text *)
Lemma debug_escape_nonempty c : (1 <= length (debug_escape_char c))%nat.
Proof.
  unfold debug_escape_char.
  repeat match goal with |- context [if ?b then _ else _] => destruct b end; try (cbn; lia).
Qed.

Lemma length_flat_map_ge (g : Z -> str) s : (forall c, (1 <= length (g c))%nat) -> (length s <= length (flat_map g s))%nat.
Proof.
  intros Hg. induction s as [|c s IH]; [cbn; lia|]. cbn [flat_map length]. rewrite app_length. specialize (Hg c). lia.
Qed.

Theorem fmt_cell_text_differs_thm : forall s : str, fmt_cell (CText s) <> s.
Proof.
  intros s E. apply (f_equal (@length Z)) in E. unfold fmt_cell, debug_str in E.
  rewrite !app_length in E. cbn [length] in E. rewrite app_length in E.
  pose proof (length_flat_map_ge debug_escape_char s debug_escape_nonempty).
  change (length (s_of "Varchar(")) with 8%nat in E. cbn [length] in E. lia.
Qed.

Theorem fmt_cell_null_is_text_thm : fmt_cell CNull = s_of "Null" /\ csv_safe (fmt_cell CNull) = true.
Proof. split; reflexivity. Qed.

(** JSON export with the placeholder header: every object has the single member "Column", holding the
    LAST cell of the row; all other columns are lost. *)
Lemma map_insert_same {V} k (v v' : V) : map_insert k v' [(k, v)] = [(k, v')].
Proof. cbn. rewrite lex_compare_refl. reflexivity. Qed.

Lemma last_indep {V} (l : list V) d d' : l <> [] -> last l d = last l d'.
Proof.
  induction l as [|x l IH]; intros H; [congruence|]. destruct l as [|y l]; [reflexivity|].
  change (last (x :: y :: l) d) with (last (y :: l) d). change (last (x :: y :: l) d') with (last (y :: l) d').
  apply IH. discriminate.
Qed.

Lemma fold_insert_same {V} k (row : list V) : forall v,
  fold_left (fun m kv => map_insert (fst kv) (snd kv) m) (combine (repeat k (length row)) row) [(k, v)]
  = [(k, last row v)].
Proof.
  induction row as [|x row IH]; intros v; [reflexivity|].
  cbn [length repeat combine fold_left fst snd]. rewrite map_insert_same. rewrite IH.
  destruct row as [|y row]; [reflexivity|].
  change (last (x :: y :: row) v) with (last (y :: row) v). f_equal. f_equal. apply last_indep. discriminate.
Qed.

Theorem export_json_keeps_last_column_thm : forall (k : str) (row : list str) (x : str),
  row_object (repeat k (length (x :: row))) (x :: row) = [(k, last (x :: row) [])].
Proof.
  intros k row x. unfold row_object, to_map. cbn [length repeat combine fold_left fst snd map_insert].
  rewrite fold_insert_same. destruct row as [|y row]; [reflexivity|].
  change (last (x :: y :: row) []) with (last (y :: row) []). f_equal. f_equal. apply last_indep. discriminate.
Qed.

Example export_json_keeps_last_column_example :
  copy_export_json [[CInt 1; CText (s_of "x")]; [CInt 2; CNull]]
  = export_json [COLUMN_text] [[fmt_cell (CText (s_of "x"))]; [fmt_cell CNull]].
Proof. vm_compute. reflexivity. Qed.
