(** Codec/WireBytes.v — arithmetic and list facts shared by the C27/C28 proofs:
    big-endian encodings and their inverses, [blen], [split_nul], [beqb]. *)
From Coq Require Import ZArith List Bool Lia.
From VibeSQL Require Import Generated.Consts Codec.Wire Codec.WireSpec.
Import ListNotations.
Open Scope Z_scope.

(** * [blen] *)
Lemma blen_nil : blen [] = 0.
Proof. reflexivity. Qed.

Lemma blen_cons x (r : bytes) : blen (x :: r) = 1 + blen r.
Proof. unfold blen. cbn [length]. lia. Qed.

Lemma blen_app (a b : bytes) : blen (a ++ b) = blen a + blen b.
Proof. unfold blen. rewrite app_length. lia. Qed.

Lemma blen_nonneg (b : bytes) : 0 <= blen b.
Proof. unfold blen. lia. Qed.

Lemma blen_firstn n (b : bytes) : (n <= length b)%nat -> blen (firstn n b) = Z.of_nat n.
Proof. intros H. unfold blen. rewrite firstn_length. lia. Qed.

Lemma blen_skipn n (b : bytes) : blen (skipn n b) = blen b - Z.of_nat (Nat.min n (length b)).
Proof. unfold blen. rewrite skipn_length. lia. Qed.

Lemma zlen_cons {A} (x : A) (r : list A) : Z.of_nat (length (x :: r)) = 1 + Z.of_nat (length r).
Proof. cbn [length]. lia. Qed.

Lemma zlen_app {A} (a b : list A) : Z.of_nat (length (a ++ b)) = Z.of_nat (length a) + Z.of_nat (length b).
Proof. rewrite app_length. lia. Qed.

(** * [beqb] *)
Lemma beqb_refl a : beqb a a = true.
Proof. induction a as [|x a IH]; cbn; [reflexivity|]. rewrite Z.eqb_refl. exact IH. Qed.

Lemma beqb_eq a b : beqb a b = true <-> a = b.
Proof.
  revert b; induction a as [|x a IH]; intros [|y b]; cbn; try (split; congruence).
  rewrite andb_true_iff, Z.eqb_eq, IH. split.
  - intros [-> ->]. reflexivity.
  - intros E. inversion E. auto.
Qed.

Lemma beqb_neq a b : beqb a b = false <-> a <> b.
Proof.
  split.
  - intros H E. apply beqb_eq in E. congruence.
  - intros H. destruct (beqb a b) eqn:E; [|reflexivity]. apply beqb_eq in E. contradiction.
Qed.

(** * Division by 256 *)
Lemma divmod256 q r : 0 <= r < 256 -> (q * 256 + r) / 256 = q /\ (q * 256 + r) mod 256 = r.
Proof.
  intros Hr. split.
  - rewrite Z.div_add_l by lia. rewrite Z.div_small by lia. lia.
  - rewrite Z.add_comm, Z.mod_add by lia. apply Z.mod_small. lia.
Qed.

Lemma is_byte_range x : is_byte x = true <-> 0 <= x < 256.
Proof. unfold is_byte. rewrite andb_true_iff, Z.leb_le, Z.ltb_lt. tauto. Qed.

(** the four bytes of a 32-bit value *)
Lemma be_split32 u :
  0 <= u < two32 ->
  let a := u / two24 in let b := (u / two16) mod 256 in let c := (u / 256) mod 256 in let d := u mod 256 in
  0 <= a < 256 /\ 0 <= b < 256 /\ 0 <= c < 256 /\ 0 <= d < 256 /\ ((a * 256 + b) * 256 + c) * 256 + d = u.
Proof.
  intros Hu. cbn zeta.
  pose proof (Z.div_mod u 256 ltac:(lia)) as E0.
  pose proof (Z.div_mod (u / 256) 256 ltac:(lia)) as E1.
  pose proof (Z.div_mod (u / 256 / 256) 256 ltac:(lia)) as E2.
  rewrite (Z.div_div u 256 256) in E1, E2 by lia.
  rewrite (Z.div_div u (256 * 256) 256) in E2 by lia.
  change (256 * 256) with two16 in *. change (two16 * 256) with two24 in *.
  pose proof (Z.mod_pos_bound u 256 ltac:(lia)).
  pose proof (Z.mod_pos_bound (u / 256) 256 ltac:(lia)).
  pose proof (Z.mod_pos_bound (u / two16) 256 ltac:(lia)).
  assert (0 <= u / two24 < 256).
  { split; [apply Z.div_pos; lia | apply Z.div_lt_upper_bound; lia]. }
  assert (Hm : (u / two16) mod 256 = u / two16 - 256 * (u / two24)) by lia.
  repeat split; try lia.
Qed.

Lemma be_split16 u :
  0 <= u < two16 ->
  let a := u / 256 in let b := u mod 256 in
  0 <= a < 256 /\ 0 <= b < 256 /\ a * 256 + b = u.
Proof.
  intros Hu. cbn zeta.
  pose proof (Z.div_mod u 256 ltac:(lia)).
  pose proof (Z.mod_pos_bound u 256 ltac:(lia)).
  assert (0 <= u / 256 < 256).
  { split; [apply Z.div_pos; lia | apply Z.div_lt_upper_bound; lia]. }
  lia.
Qed.

(** * Signed/unsigned reinterpretation *)
Lemma as_i32_id z : in_i32 z = true -> as_i32 z = z.
Proof.
  unfold in_i32, as_i32. rewrite andb_true_iff, Z.leb_le, Z.ltb_lt. intros [H1 H2].
  destruct (Z_lt_le_dec z 0) as [Hn|Hp].
  - assert (E : z mod two32 = z + two32).
    { symmetry. apply (Z.mod_unique z two32 (-1)); lia. }
    rewrite E. destruct (Z.ltb_spec (z + two32) two31); lia.
  - rewrite Z.mod_small by lia. destruct (Z.ltb_spec z two31); lia.
Qed.

Lemma as_i16_id z : in_i16 z = true -> as_i16 z = z.
Proof.
  unfold in_i16, as_i16. rewrite andb_true_iff, Z.leb_le, Z.ltb_lt. intros [H1 H2].
  destruct (Z_lt_le_dec z 0) as [Hn|Hp].
  - assert (E : z mod two16 = z + two16).
    { symmetry. apply (Z.mod_unique z two16 (-1)); lia. }
    rewrite E. destruct (Z.ltb_spec (z + two16) two15); lia.
  - rewrite Z.mod_small by lia. destruct (Z.ltb_spec z two15); lia.
Qed.

Lemma as_i32_range z : - two31 <= as_i32 z < two31.
Proof.
  unfold as_i32. pose proof (Z.mod_pos_bound z two32 ltac:(lia)).
  destruct (Z.ltb_spec (z mod two32) two31); lia.
Qed.

Lemma as_i16_range z : - two15 <= as_i16 z < two15.
Proof.
  unfold as_i16. pose proof (Z.mod_pos_bound z two16 ltac:(lia)).
  destruct (Z.ltb_spec (z mod two16) two15); lia.
Qed.

Lemma in_i32_as_i32 z : in_i32 (as_i32 z) = true.
Proof. unfold in_i32. pose proof (as_i32_range z). rewrite andb_true_iff, Z.leb_le, Z.ltb_lt. lia. Qed.

Lemma in_i16_as_i16 z : in_i16 (as_i16 z) = true.
Proof. unfold in_i16. pose proof (as_i16_range z). rewrite andb_true_iff, Z.leb_le, Z.ltb_lt. lia. Qed.

Lemma as_i32_mod z : as_i32 z mod two32 = z mod two32.
Proof.
  unfold as_i32. destruct (Z.ltb_spec (z mod two32) two31).
  - apply Z.mod_mod. lia.
  - replace (z mod two32 - two32) with (z mod two32 + (-1) * two32) by lia.
    rewrite Z.mod_add by lia. apply Z.mod_mod. lia.
Qed.

Lemma as_i16_mod z : as_i16 z mod two16 = z mod two16.
Proof.
  unfold as_i16. destruct (Z.ltb_spec (z mod two16) two15).
  - apply Z.mod_mod. lia.
  - replace (z mod two16 - two16) with (z mod two16 + (-1) * two16) by lia.
    rewrite Z.mod_add by lia. apply Z.mod_mod. lia.
Qed.

(** [put_i32(x as i32)] writes the low 32 bits of x *)
Lemma be32_as_i32 z : be32 (as_i32 z) = be32 z.
Proof. unfold be32. rewrite as_i32_mod. reflexivity. Qed.

Lemma be16_as_i16 z : be16 (as_i16 z) = be16 z.
Proof. unfold be16. rewrite as_i16_mod. reflexivity. Qed.

(** the protocol reader and [i32::from_be_bytes] are the same function *)
Lemma s32_i32_of_be a b c d : s32 a b c d = i32_of_be a b c d.
Proof.
  unfold s32, i32_of_be, as_i32, u32_of_be.
  replace (((a * 256 + b) * 256 + c) * 256 + d) with (a * 16777216 + b * 65536 + c * 256 + d) by ring.
  reflexivity.
Qed.

Lemma s32_range a b c d : - two31 <= s32 a b c d < two31.
Proof. rewrite s32_i32_of_be. apply as_i32_range. Qed.

Lemma s16_range a b : - two15 <= s16 a b < two15.
Proof.
  unfold s16. pose proof (Z.mod_pos_bound (a * 256 + b) two16 ltac:(lia)).
  destruct (Z.ltb_spec ((a * 256 + b) mod two16) two15); lia.
Qed.

(** * [be32] / [be16] and their readers *)
Lemma be32_length z : length (be32 z) = 4%nat.
Proof. reflexivity. Qed.

Lemma be16_length z : length (be16 z) = 2%nat.
Proof. reflexivity. Qed.

Lemma blen_be32 z : blen (be32 z) = 4.
Proof. reflexivity. Qed.

Lemma blen_be16 z : blen (be16 z) = 2.
Proof. reflexivity. Qed.

Lemma be32_shape z :
  exists a b c d, be32 z = [a; b; c; d]
    /\ 0 <= a < 256 /\ 0 <= b < 256 /\ 0 <= c < 256 /\ 0 <= d < 256
    /\ s32 a b c d = as_i32 z.
Proof.
  pose proof (Z.mod_pos_bound z two32 ltac:(lia)) as Hu.
  destruct (be_split32 (z mod two32) Hu) as (Ha & Hb & Hc & Hd & E).
  eexists _, _, _, _. split; [reflexivity|].
  repeat (split; [assumption|]).
  rewrite s32_i32_of_be. unfold i32_of_be, u32_of_be. rewrite E.
  unfold as_i32. rewrite Z.mod_mod by lia. reflexivity.
Qed.

Lemma be16_shape z :
  exists a b, be16 z = [a; b] /\ 0 <= a < 256 /\ 0 <= b < 256 /\ s16 a b = as_i16 z.
Proof.
  pose proof (Z.mod_pos_bound z two16 ltac:(lia)) as Hu.
  destruct (be_split16 (z mod two16) Hu) as (Ha & Hb & E).
  eexists _, _. split; [reflexivity|].
  repeat (split; [assumption|]).
  unfold s16. rewrite E. unfold as_i16. rewrite Z.mod_mod by lia. reflexivity.
Qed.

Lemma be32_bytes_ok z : bytes_ok (be32 z) = true.
Proof.
  destruct (be32_shape z) as (a & b & c & d & E & Ha & Hb & Hc & Hd & _). rewrite E.
  cbn [bytes_ok forallb]. rewrite !(proj2 (is_byte_range _)) by assumption. reflexivity.
Qed.

Lemma be16_bytes_ok z : bytes_ok (be16 z) = true.
Proof.
  destruct (be16_shape z) as (a & b & E & Ha & Hb & _). rewrite E.
  cbn [bytes_ok forallb]. rewrite !(proj2 (is_byte_range _)) by assumption. reflexivity.
Qed.

Lemma p_s32_be32 z r : p_s32 (be32 z ++ r) = Some (as_i32 z, r).
Proof.
  destruct (be32_shape z) as (a & b & c & d & E & _ & _ & _ & _ & V). rewrite E. cbn [app p_s32]. rewrite V. reflexivity.
Qed.

Lemma p_s16_be16 z r : p_s16 (be16 z ++ r) = Some (as_i16 z, r).
Proof.
  destruct (be16_shape z) as (a & b & E & _ & _ & V). rewrite E. cbn [app p_s16]. rewrite V. reflexivity.
Qed.

Lemma get_i32_be32 z r : get_i32 (be32 z ++ r) = Some (as_i32 z, r).
Proof.
  destruct (be32_shape z) as (a & b & c & d & E & _ & _ & _ & _ & V). rewrite E. cbn [app get_i32].
  rewrite <- s32_i32_of_be, V. reflexivity.
Qed.

(** inverse direction: valid bytes are the encoding of the value they denote *)
Lemma be32_s32 a b c d :
  0 <= a < 256 -> 0 <= b < 256 -> 0 <= c < 256 -> 0 <= d < 256 -> be32 (s32 a b c d) = [a; b; c; d].
Proof.
  intros Ha Hb Hc Hd. rewrite s32_i32_of_be. unfold i32_of_be. rewrite be32_as_i32.
  unfold be32, u32_of_be.
  set (u := ((a * 256 + b) * 256 + c) * 256 + d).
  assert (Hu : 0 <= u < two32) by (unfold u; lia).
  rewrite (Z.mod_small u) by lia.
  destruct (divmod256 ((a * 256 + b) * 256 + c) d Hd) as [D0 M0]. fold u in D0, M0.
  destruct (divmod256 (a * 256 + b) c Hc) as [D1 M1].
  destruct (divmod256 a b Hb) as [D2 M2].
  change two16 with (256 * 256). change two24 with (256 * 256 * 256).
  rewrite <- !Z.div_div by lia.
  rewrite D0, M0, D1, M1, D2, M2. reflexivity.
Qed.

Lemma be16_s16 a b : 0 <= a < 256 -> 0 <= b < 256 -> be16 (s16 a b) = [a; b].
Proof.
  intros Ha Hb. unfold s16.
  set (u := a * 256 + b). assert (Hu : 0 <= u < two16) by (unfold u; lia).
  rewrite (Z.mod_small u) by lia.
  assert (E : be16 (if u <? two15 then u else u - two16) = be16 u).
  { destruct (u <? two15); [reflexivity|]. unfold be16.
    replace (u - two16) with (u + (-1) * two16) by lia. rewrite Z.mod_add by lia. reflexivity. }
  rewrite E. unfold be16. rewrite (Z.mod_small u) by lia.
  destruct (divmod256 a b Hb) as [D M]. fold u in D, M. rewrite D, M. reflexivity.
Qed.

(** * [split_nul] *)
Lemma no_nul_app a b : no_nul (a ++ b) = no_nul a && no_nul b.
Proof. unfold no_nul. apply forallb_app. Qed.

Lemma split_nul_app s r : no_nul s = true -> split_nul (s ++ 0 :: r) = Some (s, r).
Proof.
  induction s as [|x s IH]; cbn [app split_nul no_nul forallb]; [reflexivity|].
  rewrite andb_true_iff, negb_true_iff. intros [Hx Hs]. rewrite Hx. fold (no_nul s) in Hs.
  rewrite (IH Hs). reflexivity.
Qed.

Lemma split_nul_no_nul b : no_nul b = true -> forall r, split_nul (b ++ r) = match split_nul r with Some (s, t) => Some (b ++ s, t) | None => None end.
Proof.
  induction b as [|x b IH]; cbn [app split_nul no_nul forallb]; intros H r.
  - destruct (split_nul r) as [[s t]|]; reflexivity.
  - apply andb_true_iff in H. destruct H as [Hx Hb]. apply negb_true_iff in Hx. rewrite Hx.
    fold (no_nul b) in Hb. rewrite (IH Hb r). destruct (split_nul r) as [[s t]|]; reflexivity.
Qed.

Lemma split_nul_inv b s r : split_nul b = Some (s, r) -> b = s ++ 0 :: r /\ no_nul s = true.
Proof.
  revert s r; induction b as [|x b IH]; cbn [split_nul]; intros s r H; [discriminate|].
  destruct (Z.eqb_spec x 0) as [->|Hx].
  - inversion H; subst. split; reflexivity.
  - destruct (split_nul b) as [[s' t]|]; [|discriminate]. inversion H; subst.
    destruct (IH s' r eq_refl) as [-> Hn]. split; [reflexivity|].
    cbn [no_nul forallb]. fold (no_nul s'). rewrite Hn, andb_true_r. apply negb_true_iff, Z.eqb_neq. exact Hx.
Qed.

Lemma split_nul_none b : split_nul b = None <-> no_nul b = true.
Proof.
  induction b as [|x b IH]; cbn [split_nul no_nul forallb]; [tauto|].
  fold (no_nul b). destruct (Z.eqb_spec x 0) as [->|Hx]; cbn [negb andb].
  - split; discriminate.
  - destruct (split_nul b) as [[s t]|]; rewrite <- IH; split; congruence.
Qed.

Lemma split_nul_some_iff b : (exists s r, split_nul b = Some (s, r)) <-> no_nul b = false.
Proof.
  destruct (split_nul b) as [[s r]|] eqn:E.
  - split; [|eauto]. intros _. destruct (no_nul b) eqn:N; [|reflexivity].
    apply split_nul_none in N. congruence.
  - split; [intros (s & r & H); discriminate|]. intros N. apply split_nul_none in E. congruence.
Qed.

(** [utf8_valid] strings contain only bytes *)
Lemma inr_range lo hi x : inr lo hi x = true <-> lo <= x <= hi.
Proof. unfold inr. rewrite andb_true_iff, !Z.leb_le. tauto. Qed.

Lemma firstn_app_exact {A} (a b : list A) : firstn (length a) (a ++ b) = a.
Proof. rewrite firstn_app, Nat.sub_diag, firstn_all. cbn. apply app_nil_r. Qed.

Lemma skipn_app_exact {A} (a b : list A) : skipn (length a) (a ++ b) = b.
Proof. rewrite skipn_app, Nat.sub_diag, skipn_all. reflexivity. Qed.
