(** Codec/WireStartupLaws.v — C27, [FrontendMessage::decode_startup]: the parameter loop, its
    locality with respect to the declared packet, refinement of the reference, exactness of the classes,
    panics, suffix/need-more laws. *)
From Coq Require Import ZArith List Bool Lia.
From VibeSQL Require Import Generated.Consts Codec.Wire Codec.WireSpec Codec.WireBytes Codec.WireDecodeLaws.
Import ListNotations.
Open Scope Z_scope.

(** * decode_startup *)
Fixpoint ploop (fuel : nat) (b : bytes) (acc : list (bytes * bytes)) : res (list (bytes * bytes)) * bytes :=
  match fuel with
  | O => (Fuel, b)
  | S f =>
    match split_nul b with
    | None => (Err InvalidString, b)
    | Some (k, b1) =>
      if utf8_valid k then
        match k with
        | [] => (Ok acc, b1)
        | _ :: _ =>
          match split_nul b1 with
          | None => (Err InvalidString, b1)
          | Some (v, b2) => if utf8_valid v then ploop f b2 (hm_insert k v acc) else (Err InvalidString, b2)
          end
        end
      else (Err InvalidString, b1)
    end
  end.

Lemma params_loop_ploop fuel : forall b acc, params_loop fuel b acc = ploop fuel b acc.
Proof.
  induction fuel as [|f IH]; intros b acc; [reflexivity|].
  cbn [params_loop ploop]. rewrite read_cstring_spec. unfold cstring_result.
  destruct (split_nul b) as [[k b1]|]; [|reflexivity].
  destruct (utf8_valid k); [|reflexivity].
  destruct k as [|k0 k]; [reflexivity|].
  rewrite read_cstring_spec. unfold cstring_result.
  destruct (split_nul b1) as [[v b2]|]; [|reflexivity].
  destruct (utf8_valid v); [apply IH|reflexivity].
Qed.

Lemma split_nul_length b s r : split_nul b = Some (s, r) -> length b = (length s + 1 + length r)%nat.
Proof. intros H. destruct (split_nul_inv _ _ _ H) as [-> _]. rewrite app_length. cbn [length]. lia. Qed.

Lemma split_nul_app_l x y k x' : split_nul x = Some (k, x') -> split_nul (x ++ y) = Some (k, x' ++ y).
Proof.
  intros H. destruct (split_nul_inv _ _ _ H) as [-> Hk]. rewrite <- app_assoc. cbn [app]. apply split_nul_app. exact Hk.
Qed.

(** the loop never panics, never runs out of fuel when given more fuel than bytes, and only consumes *)
Lemma ploop_shrinks fuel : forall b acc r b', ploop fuel b acc = (r, b') -> (length b' <= length b)%nat.
Proof.
  induction fuel as [|f IH]; intros b acc r b' H; cbn [ploop] in H.
  - inversion H; subst. lia.
  - destruct (split_nul b) as [[k b1]|] eqn:E; [|inversion H; subst; lia].
    pose proof (split_nul_length _ _ _ E) as L1.
    destruct (utf8_valid k); [|inversion H; subst; lia].
    destruct k as [|k0 k]; [inversion H; subst; lia|].
    destruct (split_nul b1) as [[v b2]|] eqn:E2; [|inversion H; subst; lia].
    pose proof (split_nul_length _ _ _ E2) as L2.
    destruct (utf8_valid v); [|inversion H; subst; lia].
    apply IH in H. lia.
Qed.

Lemma ploop_ok_after_first_nul fuel b acc ps b' k b1 :
  ploop fuel b acc = (Ok ps, b') -> split_nul b = Some (k, b1) -> (length b' <= length b1)%nat.
Proof.
  destruct fuel as [|f]; cbn [ploop]; [discriminate|]. intros H E. rewrite E in H.
  destruct (utf8_valid k); [|discriminate].
  destruct k as [|k0 k]; [inversion H; subst; lia|].
  destruct (split_nul b1) as [[v b2]|] eqn:E2; [|discriminate].
  pose proof (split_nul_length _ _ _ E2) as L2.
  destruct (utf8_valid v); [|discriminate].
  apply ploop_shrinks in H. lia.
Qed.

Lemma ploop_total fuel : forall b acc, (length b < fuel)%nat ->
  fst (ploop fuel b acc) <> Panic /\ fst (ploop fuel b acc) <> Fuel.
Proof.
  induction fuel as [|f IH]; intros b acc Hf; [lia|]. cbn [ploop].
  destruct (split_nul b) as [[k b1]|] eqn:E; [|split; discriminate].
  pose proof (split_nul_length _ _ _ E) as L1.
  destruct (utf8_valid k); [|split; discriminate].
  destruct k as [|k0 k]; [split; discriminate|].
  destruct (split_nul b1) as [[v b2]|] eqn:E2; [|split; discriminate].
  pose proof (split_nul_length _ _ _ E2) as L2.
  destruct (utf8_valid v); [|split; discriminate].
  apply IH. lia.
Qed.

Lemma spec_params_no_nul f x acc : no_nul x = true -> spec_params f x acc = None.
Proof.
  intros H. apply split_nul_none in H. destruct f as [|f]; [reflexivity|]. cbn [spec_params]. rewrite H. reflexivity.
Qed.

(** locality: the loop over [x ++ y] compared with the reference parse of [x] alone *)
Lemma ploop_local f1 : forall f2 x y acc, (length (x ++ y) < f1)%nat -> (length x < f2)%nat ->
  match ploop f1 (x ++ y) acc with
  | (Ok ps, y') =>
      (length y' = length y -> spec_params f2 x acc = Some ps /\ y' = y)
      /\ (length y' <> length y -> spec_params f2 x acc = None)
  | (Err _, _) => spec_params f2 x acc = None
  | (Panic, _) => False
  | (Fuel, _) => False
  end.
Proof.
  induction f1 as [|f1 IH]; intros f2 x y acc H1 H2; [lia|].
  destruct f2 as [|f2]; [lia|].
  destruct (no_nul x) eqn:Nx.
  { (* no NUL inside x: the reference fails; the loop either fails or ends beyond x *)
    rewrite (spec_params_no_nul (S f2) x acc Nx).
    destruct (ploop (S f1) (x ++ y) acc) as [[ps| e | | ] y'] eqn:P; try reflexivity.
    - split; [|reflexivity]. intros Hl. exfalso.
      pose proof (split_nul_no_nul x Nx y) as Sx.
      destruct (split_nul y) as [[s t]|] eqn:Ey.
      + pose proof (ploop_ok_after_first_nul _ _ _ _ _ _ _ P Sx). pose proof (split_nul_length _ _ _ Ey). lia.
      + cbn [ploop] in P. rewrite Sx in P. discriminate.
    - pose proof (ploop_total (S f1) (x ++ y) acc H1) as [T _]. rewrite P in T. apply T. reflexivity.
    - pose proof (ploop_total (S f1) (x ++ y) acc H1) as [_ T]. rewrite P in T. apply T. reflexivity. }
  (* first NUL inside x *)
  assert (exists k x', split_nul x = Some (k, x')) as (k & x' & Ex).
  { apply split_nul_some_iff. exact Nx. }
  pose proof (split_nul_length _ _ _ Ex) as Lx.
  cbn [ploop spec_params]. rewrite (split_nul_app_l x y k x' Ex), Ex.
  destruct k as [|k0 k].
  { (* terminator *)
    cbn [utf8_valid]. rewrite app_length. destruct x' as [|c x'].
    - cbn [app length]. split; [intros _; split; reflexivity|intros C; exfalso; apply C; reflexivity].
    - cbn [length]. split; [intros C; exfalso; lia|intros _; reflexivity]. }
  destruct (utf8_valid (k0 :: k)); [|reflexivity].
  destruct (no_nul x') eqn:Nx'.
  { (* value runs beyond x *)
    assert (Ex' : split_nul x' = None) by (apply split_nul_none; exact Nx'). rewrite Ex'.
    pose proof (split_nul_no_nul x' Nx' y) as Sx. rewrite Sx.
    destruct (split_nul y) as [[s t]|] eqn:Ey; [|reflexivity].
    pose proof (split_nul_length _ _ _ Ey) as Ly.
    destruct (utf8_valid (x' ++ s)); [|reflexivity].
    destruct (ploop f1 t (hm_insert (k0 :: k) (x' ++ s) acc)) as [[ps| e | | ] y'] eqn:P; try reflexivity.
    - apply ploop_shrinks in P. split; [intros C; exfalso; lia|reflexivity].
    - assert (Ht : (length t < f1)%nat) by (rewrite app_length in H1; lia).
      pose proof (ploop_total f1 t (hm_insert (k0 :: k) (x' ++ s) acc) Ht) as [T _]. rewrite P in T. apply T. reflexivity.
    - assert (Ht : (length t < f1)%nat) by (rewrite app_length in H1; lia).
      pose proof (ploop_total f1 t (hm_insert (k0 :: k) (x' ++ s) acc) Ht) as [_ T]. rewrite P in T. apply T. reflexivity. }
  assert (exists v x'', split_nul x' = Some (v, x'')) as (v & x'' & Ex').
  { apply split_nul_some_iff. exact Nx'. }
  pose proof (split_nul_length _ _ _ Ex') as Lx'.
  rewrite (split_nul_app_l x' y v x'' Ex'), Ex'.
  destruct (utf8_valid v); [|reflexivity].
  apply IH.
  - rewrite app_length in *. lia.
  - lia.
Qed.


Lemma bytes_case4 (b : bytes) :
  (blen b < 4 /\ startup_header b = None) \/ exists l0 l1 l2 l3 r, b = l0 :: l1 :: l2 :: l3 :: r.
Proof.
  destruct b as [|l0 [|l1 [|l2 [|l3 r]]]]; try (left; split; [cbn; lia | reflexivity]).
  right. eauto 6.
Qed.

Definition startup_tail (v : Z) (r2 : bytes) : dres :=
  if v =? 80877103 then (Ok (Some FSSLRequest), r2)
  else match ploop (S (length r2)) r2 [] with
       | (Ok ps, b3) => (Ok (Some (FStartup v ps)), b3)
       | (Err e, b3) => (Err e, b3)
       | (Panic, b3) => (Panic, b3)
       | (Fuel, b3) => (Fuel, b3)
       end.

Lemma decode_startup_short b : blen b < 4 -> decode_startup b = (Ok None, b).
Proof.
  intros H. unfold decode_startup. change wire_startup_header_min with 4.
  destruct (Z.ltb_spec (blen b) 4); [reflexivity|lia].
Qed.

Lemma decode_startup_long l0 l1 l2 l3 r :
  decode_startup (l0 :: l1 :: l2 :: l3 :: r) =
    if 4 + blen r <? i32_as_usize (s32 l0 l1 l2 l3) then (Ok None, l0 :: l1 :: l2 :: l3 :: r)
    else match r with
         | v0 :: v1 :: v2 :: v3 :: r2 => startup_tail (s32 v0 v1 v2 v3) r2
         | _ => (Panic, r)
         end.
Proof.
  unfold decode_startup. change wire_startup_header_min with 4.
  assert (E : blen (l0 :: l1 :: l2 :: l3 :: r) = 4 + blen r) by (rewrite !blen_cons; lia).
  rewrite E. destruct (Z.ltb_spec (4 + blen r) 4) as [H|_]; [pose proof (blen_nonneg r); lia|].
  cbn [index nth_error]. rewrite <- s32_i32_of_be.
  destruct (4 + blen r <? i32_as_usize (s32 l0 l1 l2 l3)); [reflexivity|].
  cbn [advance length Nat.leb skipn].
  destruct r as [|v0 [|v1 [|v2 [|v3 r2]]]]; try reflexivity.
  cbn [get_i32]. rewrite <- s32_i32_of_be. unfold startup_tail.
  change wire_ssl_request_code with 80877103.
  destruct (s32 v0 v1 v2 v3 =? 80877103); [reflexivity|].
  rewrite params_loop_ploop. reflexivity.
Qed.

Lemma startup_tail_total v r2 : fst (startup_tail v r2) <> Panic /\ fst (startup_tail v r2) <> Fuel.
Proof.
  unfold startup_tail. destruct (v =? 80877103); [split; discriminate|].
  pose proof (ploop_total (S (length r2)) r2 [] ltac:(lia)) as [T1 T2].
  destruct (ploop (S (length r2)) r2 []) as [[ps|e| |] b3]; cbn in *; split; congruence.
Qed.

Lemma usize_cases L : - two31 <= L < two31 ->
  (L < 0 /\ i32_as_usize L = L + two64) \/ (0 <= L /\ i32_as_usize L = L).
Proof. intros H. unfold i32_as_usize. destruct (Z.ltb_spec L 0); [left|right]; split; lia. Qed.

Ltac bool_lia :=
  repeat match goal with
  | H : _ && _ = true |- _ => apply andb_true_iff in H; destruct H
  | H : _ || _ = false |- _ => apply orb_false_iff in H; destruct H
  | H : (_ <=? _) = true |- _ => apply Z.leb_le in H
  | H : (_ <? _) = true |- _ => apply Z.ltb_lt in H
  | H : (_ =? _) = true |- _ => apply Z.eqb_eq in H
  | H : (_ <=? _) = false |- _ => apply Z.leb_gt in H
  | H : (_ <? _) = false |- _ => apply Z.ltb_ge in H
  | H : (_ =? _) = false |- _ => apply Z.eqb_neq in H
  | H : negb _ = true |- _ => apply negb_true_iff in H
  | H : negb _ = false |- _ => apply negb_false_iff in H
  end;
  rewrite ?andb_true_iff, ?Z.leb_le, ?Z.ltb_lt, ?Z.eqb_eq; try lia.

(** ** Panics of decode_startup: exactly the short-length class *)
Theorem decode_startup_panic_iff_thm b : fst (decode_startup b) = Panic <-> ks_short_panic b = true.
Proof.
  destruct (bytes_case4 b) as [[Hs Hh]|(l0 & l1 & l2 & l3 & r & ->)].
  { rewrite decode_startup_short by assumption. unfold ks_short_panic. rewrite Hh. cbn. split; discriminate. }
  rewrite decode_startup_long. unfold ks_short_panic. cbn [startup_header].
  set (L := s32 l0 l1 l2 l3). pose proof (s32_range l0 l1 l2 l3) as HL. fold L in HL.
  pose proof (blen_nonneg r) as Hr. rewrite !blen_cons.
  destruct (usize_cases L HL) as [[Hn ->]|[Hp ->]].
  - destruct (Z.ltb_spec (4 + blen r) (L + two64)) as [|C].
    { cbn [fst]. split; [discriminate|]. intros K. exfalso. bool_lia. }
    destruct r as [|v0 [|v1 [|v2 [|v3 r2]]]]; rewrite ?blen_cons, ?blen_nil in C; try lia.
    split; [intros P; exfalso; exact (proj1 (startup_tail_total _ _) P)|]. intros K. exfalso. bool_lia.
  - destruct (Z.ltb_spec (4 + blen r) L) as [Hw|C].
    { cbn [fst]. split; [discriminate|]. intros K. exfalso. bool_lia. }
    destruct r as [|v0 [|v1 [|v2 [|v3 r2]]]]; rewrite ?blen_cons, ?blen_nil in *.
    1-4: cbn [fst]; split; [intros _; bool_lia|reflexivity].
    split; [intros P; exfalso; exact (proj1 (startup_tail_total _ _) P)|].
    intros K. exfalso. pose proof (blen_nonneg r2). bool_lia.
Qed.

Theorem decode_startup_never_fuel_thm b : fst (decode_startup b) <> Fuel.
Proof.
  destruct (bytes_case4 b) as [[Hs Hh]|(l0 & l1 & l2 & l3 & r & ->)].
  { rewrite decode_startup_short by assumption. discriminate. }
  rewrite decode_startup_long.
  destruct (4 + blen r <? i32_as_usize (s32 l0 l1 l2 l3)); [discriminate|].
  destruct r as [|v0 [|v1 [|v2 [|v3 r2]]]]; try discriminate.
  apply startup_tail_total.
Qed.


Lemma spec_decode_startup_short b : blen b < 4 -> spec_decode_startup b = ONeedMore.
Proof.
  destruct (bytes_case4 b) as [[_ H]|(l0 & l1 & l2 & l3 & r & ->)].
  - intros _. destruct b as [|l0 [|l1 [|l2 [|l3 r]]]]; try reflexivity. discriminate.
  - rewrite !blen_cons. pose proof (blen_nonneg r). lia.
Qed.

Definition spec_startup_tail (v : Z) (pbody rest : bytes) : outcome :=
  if v =? 80877103 then OMsg FSSLRequest rest
  else match spec_params (S (length pbody)) pbody [] with
       | Some ps => OMsg (FStartup v ps) rest
       | None => OError
       end.

Lemma spec_decode_startup_long l0 l1 l2 l3 v0 v1 v2 v3 r2 :
  let L := s32 l0 l1 l2 l3 in
  8 <= L -> L - 4 <= 4 + blen r2 ->
  spec_decode_startup (l0 :: l1 :: l2 :: l3 :: v0 :: v1 :: v2 :: v3 :: r2) =
    spec_startup_tail (s32 v0 v1 v2 v3) (firstn (Z.to_nat (L - 8)) r2) (skipn (Z.to_nat (L - 8)) r2).
Proof.
  intros L H8 Hc. cbn [spec_decode_startup]. fold L.
  destruct (Z.ltb_spec L 8); [lia|].
  rewrite !blen_cons. destruct (Z.ltb_spec (1 + (1 + (1 + (1 + blen r2)))) (L - 4)); [lia|].
  replace (Z.to_nat (L - 4)) with (S (S (S (S (Z.to_nat (L - 8)))))) by lia.
  cbn [firstn skipn]. reflexivity.
Qed.

Lemma known_startup_short b : blen b < 4 -> known_startup b = false.
Proof.
  intros H. destruct (bytes_case4 b) as [[_ Hh]|(l0 & l1 & l2 & l3 & r & ->)].
  - unfold known_startup, ks_neg_len, ks_short_wait, ks_short_panic, ks_short_overread, ks_ssl_tail, ks_params_misframed. rewrite Hh. reflexivity.
  - rewrite !blen_cons in H. pose proof (blen_nonneg r). lia.
Qed.

(** the loop on the bytes after the version word against the reference parse of the declared body *)
Lemma startup_tail_vs_spec v r2 (n : nat) : (n <= length r2)%nat ->
  match observe (startup_tail v r2) with
  | VMsg m y' =>
      (blen y' = blen r2 - Z.of_nat n -> v <> 80877103 -> spec_startup_tail v (firstn n r2) (skipn n r2) = OMsg m y')
      /\ (blen y' <> blen r2 - Z.of_nat n -> v <> 80877103 -> spec_startup_tail v (firstn n r2) (skipn n r2) = OError)
      /\ (v = 80877103 -> m = FSSLRequest /\ y' = r2)
  | VErr => spec_startup_tail v (firstn n r2) (skipn n r2) = OError
  | VNeed _ => False
  | VPanic => False
  | VFuel => False
  end.
Proof.
  intros Hn. unfold startup_tail, spec_startup_tail.
  destruct (Z.eqb_spec v 80877103) as [->|Hv].
  { cbn [observe]. split; [|split]; intros; try congruence. split; reflexivity. }
  pose proof (ploop_local (S (length r2)) (S (length (firstn n r2))) (firstn n r2) (skipn n r2) []) as PL.
  rewrite firstn_skipn in PL. specialize (PL ltac:(lia) ltac:(lia)).
  destruct (ploop (S (length r2)) r2 []) as [[ps|e| |] y'] eqn:P; cbn [observe]; try contradiction.
  - destruct PL as [P1 P2].
    assert (Hlen : forall (y : bytes), blen y = blen r2 - Z.of_nat n <-> length y = length (skipn n r2)).
    { intros y. unfold blen. rewrite skipn_length. lia. }
    split; [|split].
    + intros E _. apply Hlen in E. destruct (P1 E) as [-> ->]. reflexivity.
    + intros E _. rewrite P2; [reflexivity|]. intros C. apply E. apply Hlen. exact C.
    + intros C. contradiction.
  - rewrite PL. reflexivity.
Qed.

Theorem startup_refines_spec_thm b :
  known_startup b = false -> agrees (observe (decode_startup b)) b (spec_decode_startup b).
Proof.
  intros K.
  destruct (bytes_case4 b) as [[Hs _]|(l0 & l1 & l2 & l3 & r & ->)].
  { rewrite decode_startup_short, spec_decode_startup_short by assumption. reflexivity. }
  unfold known_startup, ks_neg_len, ks_short_wait, ks_short_panic, ks_short_overread, ks_ssl_tail, ks_params_misframed in K.
  cbn [startup_header] in K.
  pose proof (s32_range l0 l1 l2 l3) as HL.
  pose proof (blen_nonneg r) as Hr.
  assert (Hb : blen (l0 :: l1 :: l2 :: l3 :: r) = 4 + blen r) by (rewrite !blen_cons; lia).
  rewrite Hb in K.
  apply orb_false_iff in K. destruct K as [K Kpm].
  apply orb_false_iff in K. destruct K as [K Kssl].
  apply orb_false_iff in K. destruct K as [K Kov].
  apply orb_false_iff in K. destruct K as [K Kpn].
  apply orb_false_iff in K. destruct K as [Kneg Kwait].
  apply Z.ltb_ge in Kneg.
  destruct (Z.ltb_spec (s32 l0 l1 l2 l3) 8) as [Hsmall|Hbig].
  { (* declared length 0..7: outside the classes only an error is possible *)
    assert (S8 : spec_decode_startup (l0 :: l1 :: l2 :: l3 :: r) = OError).
    { cbn [spec_decode_startup]. destruct (Z.ltb_spec (s32 l0 l1 l2 l3) 8); [reflexivity|lia]. }
    rewrite S8. cbn [agrees].
    destruct (Z.leb_spec 0 (s32 l0 l1 l2 l3)); [|lia]. cbn [andb] in Kwait, Kpn, Kov.
    apply Z.ltb_ge in Kwait.
    destruct (Z.leb_spec (s32 l0 l1 l2 l3) (4 + blen r)); [|lia]. cbn [andb] in Kpn. apply Z.ltb_ge in Kpn.
    destruct (Z.leb_spec 8 (4 + blen r)); [|lia]. cbn [andb] in Kov. apply negb_false_iff in Kov.
    destruct (observe (decode_startup (l0 :: l1 :: l2 :: l3 :: r))); try discriminate Kov. reflexivity. }
  rewrite decode_startup_long in *.
  remember (s32 l0 l1 l2 l3) as L eqn:EL.
  destruct (usize_cases L HL) as [[? _]|[_ EU]]; [lia|]. rewrite EU in *.
  destruct (Z.ltb_spec (4 + blen r) L) as [Hinc|Hcomp].
  { (* incomplete *)
    cbn [spec_decode_startup]. rewrite <- EL. destruct (Z.ltb_spec L 8); [lia|].
    destruct (Z.ltb_spec (blen r) (L - 4)); [reflexivity|lia]. }
  destruct r as [|v0 [|v1 [|v2 [|v3 r2]]]]; rewrite ?blen_cons, ?blen_nil in Hcomp; try lia.
  rewrite spec_decode_startup_long by (rewrite <- EL, ?blen_cons in *; lia). rewrite <- EL.
  remember (s32 v0 v1 v2 v3) as v eqn:Ev0.
  pose proof (blen_nonneg r2) as Hr2.
  assert (Hn : (Z.to_nat (L - 8) <= length r2)%nat) by (unfold blen in *; lia).
  pose proof (startup_tail_vs_spec v r2 (Z.to_nat (L - 8)) Hn) as TV.
  rewrite !blen_cons in Kpm, Kssl.
  destruct (Z.leb_spec 8 L); [|lia]. destruct (Z.leb_spec L (4 + (1 + (1 + (1 + (1 + blen r2)))))); [|lia].
  cbn [andb] in Kpm, Kssl. change P_SSLRequestCode with 80877103 in *.
  destruct (observe (startup_tail v r2)) as [m y'| | | |] eqn:O; try contradiction.
  - destruct TV as (T1 & T2 & T3). cbn [is_vmsg obs_rest_len andb] in Kpm.
    destruct (Z.eqb_spec v 80877103) as [Ev|Nv].
    + destruct (T3 Ev) as [-> ->]. rewrite !andb_true_r in Kssl. apply Z.ltb_ge in Kssl.
      unfold spec_startup_tail. rewrite Ev. cbn [Z.eqb Pos.eqb]. replace (L - 8) with 0 by lia. reflexivity.
    + cbn [negb andb] in Kpm. apply negb_false_iff, Z.eqb_eq in Kpm.
      rewrite T1; [reflexivity| |exact Nv]. lia.
  - rewrite TV. reflexivity.
Qed.


(** ** Exactness of the startup classes *)
Theorem startup_known_exact_thm b :
  blen b < two63 -> known_startup b = true -> ~ agrees (observe (decode_startup b)) b (spec_decode_startup b).
Proof.
  intros Hlen K.
  destruct (bytes_case4 b) as [[Hs _]|(l0 & l1 & l2 & l3 & r & ->)].
  { rewrite known_startup_short in K by assumption. discriminate. }
  unfold known_startup, ks_neg_len, ks_short_wait, ks_short_panic, ks_short_overread, ks_ssl_tail, ks_params_misframed in K.
  cbn [startup_header] in K.
  pose proof (s32_range l0 l1 l2 l3) as HL.
  pose proof (blen_nonneg r) as Hr.
  assert (Hb : blen (l0 :: l1 :: l2 :: l3 :: r) = 4 + blen r) by (rewrite !blen_cons; lia).
  rewrite Hb in K, Hlen.
  destruct (Z.ltb_spec (s32 l0 l1 l2 l3) 8) as [Hsmall|Hbig].
  { assert (S8 : spec_decode_startup (l0 :: l1 :: l2 :: l3 :: r) = OError).
    { cbn [spec_decode_startup]. destruct (Z.ltb_spec (s32 l0 l1 l2 l3) 8); [reflexivity|lia]. }
    rewrite S8. cbn [agrees]. intros A. rewrite A in K. cbn [is_verr negb is_vmsg] in K.
    rewrite decode_startup_long in A.
    remember (s32 l0 l1 l2 l3) as L eqn:EL.
    destruct (usize_cases L HL) as [[Hn EU]|[Hp EU]]; rewrite EU in A.
    - destruct (Z.ltb_spec (4 + blen r) (L + two64)); [discriminate A|lia].
    - destruct (Z.ltb_spec L 0); [lia|]. cbn [orb] in K.
      destruct (Z.leb_spec 0 L); [|lia]. cbn [andb] in K.
      destruct (Z.ltb_spec (4 + blen r) L) as [Hw|Hc]; [discriminate A|].
      cbn [orb] in K. destruct (Z.leb_spec L (4 + blen r)); [|lia]. cbn [andb] in K.
      rewrite !andb_false_r in K. cbn [orb] in K.
      destruct (Z.ltb_spec (4 + blen r) 8) as [H8|H8].
      + destruct r as [|v0 [|v1 [|v2 [|v3 r2]]]]; try discriminate A.
        rewrite !blen_cons in H8. pose proof (blen_nonneg r2). lia.
      + cbn [orb] in K.
        destruct r as [|v0 [|v1 [|v2 [|v3 r2]]]]; try discriminate K.
        destruct (Z.ltb_spec 8 L); [lia|]. destruct (Z.leb_spec 8 L); [lia|]. cbn in K. discriminate K. }
  rewrite decode_startup_long in *.
  remember (s32 l0 l1 l2 l3) as L eqn:EL.
  destruct (usize_cases L HL) as [[? _]|[_ EU]]; [lia|]. rewrite EU in *.
  destruct (Z.ltb_spec L 0); [lia|]. destruct (Z.ltb_spec L 8); [lia|]. rewrite !andb_false_r in K. cbn [orb andb] in K.
  destruct (Z.ltb_spec (4 + blen r) L) as [Hinc|Hcomp].
  { exfalso. destruct r as [|v0 [|v1 [|v2 [|v3 r2]]]]; try discriminate K.
    destruct (Z.leb_spec L (4 + blen (v0 :: v1 :: v2 :: v3 :: r2))); [lia|].
    rewrite !andb_false_r in K. discriminate K. }
  destruct r as [|v0 [|v1 [|v2 [|v3 r2]]]]; try discriminate K.
  rewrite spec_decode_startup_long by (rewrite <- EL, ?blen_cons in *; lia). rewrite <- EL.
  remember (s32 v0 v1 v2 v3) as v eqn:Ev0.
  pose proof (blen_nonneg r2) as Hr2. rewrite !blen_cons in *.
  assert (Hn : (Z.to_nat (L - 8) <= length r2)%nat) by (unfold blen in *; lia).
  pose proof (startup_tail_vs_spec v r2 (Z.to_nat (L - 8)) Hn) as TV.
  destruct (Z.leb_spec 8 L); [|lia]. destruct (Z.leb_spec L (4 + (1 + (1 + (1 + (1 + blen r2)))))); [|lia].
  cbn [andb] in K. change P_SSLRequestCode with 80877103 in *.
  destruct (observe (startup_tail v r2)) as [m y'| | | |] eqn:O; try contradiction.
  - destruct TV as (T1 & T2 & T3). cbn [is_vmsg obs_rest_len andb] in K.
    destruct (Z.eqb_spec v 80877103) as [Ev|Nv].
    + destruct (T3 Ev) as [-> ->]. cbn [negb andb orb] in K. rewrite !andb_true_r, orb_false_r in K. apply Z.ltb_lt in K.
      unfold spec_startup_tail. rewrite Ev. cbn [Z.eqb Pos.eqb agrees]. intros A. inversion A as [A'].
      assert (Hl : length (skipn (Z.to_nat (L - 8)) r2) = length r2) by (rewrite <- A'; reflexivity).
      rewrite skipn_length in Hl. lia.
    + rewrite !andb_false_r in K. cbn [negb andb orb] in K. apply negb_true_iff, Z.eqb_neq in K.
      rewrite T2; [cbn; discriminate| |exact Nv]. lia.
  - exfalso. cbn [is_vmsg] in K. rewrite !andb_false_r in K. rewrite orb_false_r in K.
    unfold startup_tail in O. destruct (v =? 80877103); [discriminate O|]. rewrite !andb_false_r in K. discriminate K.
Qed.

(** ** decode_startup: suffix, need-more untouched, eternal wait *)
Lemma ploop_suffix fuel : forall b acc r b', ploop fuel b acc = (r, b') -> exists pre, b = pre ++ b'.
Proof.
  induction fuel as [|f IH]; intros b acc r b' H; cbn [ploop] in H.
  - inversion H; subst. exists []. reflexivity.
  - destruct (split_nul b) as [[k b1]|] eqn:E; [|inversion H; subst; exists []; reflexivity].
    destruct (split_nul_inv _ _ _ E) as [-> _].
    assert (P1 : forall t, exists pre, k ++ 0 :: t = pre ++ t).
    { intros t. exists (k ++ [0]). rewrite <- app_assoc. reflexivity. }
    destruct (utf8_valid k); [|inversion H; subst; apply P1].
    destruct k as [|k0 k]; [inversion H; subst; apply P1|].
    destruct (split_nul b1) as [[v b2]|] eqn:E2; [|inversion H; subst; apply P1].
    destruct (split_nul_inv _ _ _ E2) as [-> _].
    assert (P2 : forall t, exists pre, (k0 :: k) ++ 0 :: v ++ 0 :: t = pre ++ t).
    { intros t. exists ((k0 :: k) ++ 0 :: v ++ [0]). rewrite <- !app_assoc. cbn [app]. rewrite <- app_assoc. reflexivity. }
    destruct (utf8_valid v); [|inversion H; subst; apply P2].
    apply IH in H. destruct H as [pre ->]. destruct (P2 (pre ++ b')) as [pre2 E3]. rewrite E3.
    exists (pre2 ++ pre). rewrite app_assoc. reflexivity.
Qed.

Theorem decode_startup_suffix_thm b res b' : decode_startup b = (res, b') -> exists pre, b = pre ++ b'.
Proof.
  destruct (bytes_case4 b) as [[Hs Hh]|(l0 & l1 & l2 & l3 & r & ->)].
  { rewrite decode_startup_short by assumption. intros H; inversion H; subst. exists []. reflexivity. }
  rewrite decode_startup_long.
  destruct (4 + blen r <? i32_as_usize (s32 l0 l1 l2 l3)).
  { intros H; inversion H; subst. exists []. reflexivity. }
  destruct r as [|v0 [|v1 [|v2 [|v3 r2]]]];
    try (intros H; inversion H; subst; exists [l0; l1; l2; l3]; reflexivity).
  unfold startup_tail. destruct (s32 v0 v1 v2 v3 =? 80877103).
  { intros H; inversion H; subst. exists [l0; l1; l2; l3; v0; v1; v2; v3]. reflexivity. }
  destruct (ploop (S (length r2)) r2 []) as [rr b3] eqn:P.
  destruct (ploop_suffix _ _ _ _ _ P) as [pre ->].
  intros H. exists (l0 :: l1 :: l2 :: l3 :: v0 :: v1 :: v2 :: v3 :: pre).
  destruct rr; inversion H; subst; reflexivity.
Qed.

Theorem decode_startup_need_more_untouched_thm b b' : decode_startup b = (Ok None, b') -> b' = b.
Proof.
  destruct (bytes_case4 b) as [[Hs Hh]|(l0 & l1 & l2 & l3 & r & ->)].
  { rewrite decode_startup_short by assumption. intros H; inversion H; reflexivity. }
  rewrite decode_startup_long.
  destruct (4 + blen r <? i32_as_usize (s32 l0 l1 l2 l3)); [intros H; inversion H; reflexivity|].
  destruct r as [|v0 [|v1 [|v2 [|v3 r2]]]]; try discriminate.
  unfold startup_tail. destruct (s32 v0 v1 v2 v3 =? 80877103); [discriminate|].
  destruct (ploop (S (length r2)) r2 []) as [[ps|e| |] b3]; discriminate.
Qed.

Theorem decode_startup_eternal_wait_thm b ext :
  ks_neg_len b = true -> blen (b ++ ext) < two63 -> decode_startup (b ++ ext) = (Ok None, b ++ ext).
Proof.
  intros K Hlen.
  destruct (bytes_case4 b) as [[Hs Hh]|(l0 & l1 & l2 & l3 & r & ->)].
  { unfold ks_neg_len in K. rewrite Hh in K. discriminate. }
  cbn [app] in *. rewrite decode_startup_long. unfold ks_neg_len in K. cbn [startup_header] in K.
  pose proof (s32_range l0 l1 l2 l3) as HL. apply Z.ltb_lt in K.
  destruct (usize_cases _ HL) as [[_ ->]|[? _]]; [|lia].
  rewrite !blen_cons in Hlen.
  destruct (Z.ltb_spec (4 + blen (r ++ ext)) (s32 l0 l1 l2 l3 + two64)); [reflexivity|lia].
Qed.
