(** Model of crates/vibesql-storage/src/persistence/binary/io.rs: little-endian primitives over a
    byte stream, as a decoder monad with explicit outcomes and a resource trace.

    A decoder [dec A] maps the remaining input to (trace, outcome).  Outcomes:
    - [Ok a rest]      the Rust function returned [Ok(a)] having consumed a prefix of the input
    - [Err e]          it returned [Err(StorageError)] ([?] propagates it to the caller of [load_binary])
    - [Panic p]        a Rust panic (unwinds out of [load_binary])
    - [Hang]           a loop whose iteration count is not bounded by the input consumed
    - [StackOverflow]  recursion deeper than the platform stack (process abort)
    - [OutOfFuel]      model artefact: the structural fuel of a loop ran out (proved impossible)
    - [Unmodelled]     the outcome depends on library behaviour outside this model (explicit partiality)
    The trace records every byte-buffer the decoder fills ([read_string]'s buffer, the padding
    width of CHAR normalisation) as [Alloc n] (bytes).

    No proofs in this file. *)
From Coq Require Import List ZArith Bool.
From VibeSQL Require Import Value.SqlValue Codec.BinUtf8.
Import ListNotations.
Open Scope Z_scope.

Inductive error : Type :=
| EEof                  (* read_exact: "failed to fill whole buffer" *)
| EUtf8                 (* String::from_utf8 failed *)
| EMagic | EVersion     (* read_header *)
| ETag (t : Z)          (* TypeTag::from_u8 / ExprTag::from_u8 unknown byte *)
| EEnum (what v : Z)    (* unknown direction / timing / event / granularity / action / operator byte *)
| EDataType             (* parse_data_type: "Unsupported data type" *)
| ECatalog (what : Z)   (* create_schema/role/table/index/trigger failed: 0 schema 1 role 2 table 3 index-table 4 index-dup 5 index-column 6 trigger 7 rows claimed for a table without columns 8 duplicate key under a UNIQUE index *)
| ETableNotFound        (* read_data: table named in the data section does not exist *)
| EInsert (what : Z)    (* Table::insert rejected the row: 0 column count, 1 NULL, 2 type mismatch *)
| ETemporal             (* Date/Time/Timestamp FromStr returned Err *)
| ENotImpl              (* "... deserialization not yet implemented" *)
| EDepth.               (* "Expression nesting deeper than MAX_EXPRESSION_DEPTH" *)

Inductive panic : Type :=
| PSlice                (* &s[..n] off a char boundary: no longer produced (VARCHAR/NAME are cut on a boundary, CHAR by characters) *)
| PFmtWidth             (* format!("{:width$}") with width > u16::MAX: "Formatting argument out of range" *)
| PTemporal (k : Z).    (* a temporal FromStr / Interval::new panicked: 0 date 1 time 2 timestamp 3 interval *)

Inductive event : Type := Alloc (n : Z).

Inductive outcome (A : Type) : Type :=
| Ok (a : A) (rest : bytes)
| Err (e : error)
| Panic (p : panic)
| Hang
| StackOverflow
| OutOfFuel
| Unmodelled.
Arguments Ok {A} a rest.
Arguments Err {A} e.
Arguments Panic {A} p.
Arguments Hang {A}.
Arguments StackOverflow {A}.
Arguments OutOfFuel {A}.
Arguments Unmodelled {A}.

Definition trace := list event.
Definition dec (A : Type) : Type := bytes -> trace * outcome A.

Definition ret {A} (a : A) : dec A := fun bs => ([], Ok a bs).
Definition stop {A} (o : outcome A) : dec A := fun _ => ([], o).
Definition fail {A} (e : error) : dec A := fun _ => ([], Err e).
Definition emit (e : event) : dec unit := fun bs => ([e], Ok tt bs).

(** re-type a non-[Ok] outcome *)
Definition cast_out {A B} (o : outcome A) : outcome B :=
  match o with
  | Ok _ _ => Unmodelled      (* never used on Ok *)
  | Err e => Err e
  | Panic p => Panic p
  | Hang => Hang
  | StackOverflow => StackOverflow
  | OutOfFuel => OutOfFuel
  | Unmodelled => Unmodelled
  end.

Definition bind {A B} (m : dec A) (f : A -> dec B) : dec B :=
  fun bs =>
    match m bs with
    | (t1, Ok a rest) => let '(t2, o) := f a rest in (t1 ++ t2, o)
    | (t1, o) => (t1, cast_out o)
    end.

Notation "x <- m ;; k" := (bind m (fun x => k)) (at level 61, m at next level, right associativity).
Notation "m ;;; k" := (bind m (fun _ => k)) (at level 61, right associativity).

(** * little-endian numbers *)
Fixpoint le_val (bs : bytes) : Z :=
  match bs with
  | [] => 0
  | b :: r => b + 256 * le_val r
  end.
(** reinterpret an unsigned [w]-bit number as two's complement *)
Definition to_signed (w v : Z) : Z := if v <? 2 ^ (w - 1) then v else v - 2 ^ w.

(** * writers ([write_all] into a [Vec]/[BufWriter] cannot fail short of an I/O error) *)
Definition w_u8 (z : Z) : bytes := le_bytes 1 z.
Definition w_u32 (z : Z) : bytes := le_bytes 4 z.
Definition w_u64 (z : Z) : bytes := le_bytes 8 z.
Definition w_i16 (z : Z) : bytes := le_bytes 2 z.
Definition w_i64 (z : Z) : bytes := le_bytes 8 z.
Definition w_f32 (bits : Z) : bytes := le_bytes 4 bits.     (* f32::to_le_bytes = to_bits().to_le_bytes() *)
Definition w_f64 (bits : Z) : bytes := le_bytes 8 bits.
Definition w_bool (b : bool) : bytes := [if b then 1 else 0].
(** [write_string]: [bytes.len() as u32] (silently truncated modulo 2^32) then the bytes *)
Definition w_string (s : bytes) : bytes := le_bytes 4 (blen s) ++ s.

(** * readers *)
(** [Read::read_exact] into an [n]-byte buffer ([n] is compared in [Z]: a 32-bit length prefix must
    never be converted to a unary number) *)
Definition read_exact (n : Z) : dec bytes :=
  fun bs => if blen bs <? n then ([], Err EEof)
            else ([], Ok (firstn (Z.to_nat n) bs) (skipn (Z.to_nat n) bs)).

Definition read_u8 : dec Z := b <- read_exact 1 ;; ret (le_val b).
Definition read_u32 : dec Z := b <- read_exact 4 ;; ret (le_val b).
Definition read_u64 : dec Z := b <- read_exact 8 ;; ret (le_val b).
Definition read_i16 : dec Z := b <- read_exact 2 ;; ret (to_signed 16 (le_val b)).
Definition read_i64 : dec Z := b <- read_exact 8 ;; ret (to_signed 64 (le_val b)).
Definition read_f32 : dec Z := b <- read_exact 4 ;; ret (le_val b).       (* from_le_bytes: the bit pattern *)
Definition read_f64 : dec Z := b <- read_exact 8 ;; ret (le_val b).
Definition read_bool : dec bool := b <- read_exact 1 ;; ret (negb (le_val b =? 0)).

(** [read_string]: length prefix, then [reader.take(len).read_to_end(&mut buf)] into a buffer that
    grows with what the input actually holds (the length prefix is never used as an allocation size),
    then the length check ("failed to fill whole buffer") and [String::from_utf8].
    The buffer event records the bytes buffered: [min len (remaining input)]; the [Vec]'s capacity is
    within a small constant factor of it. *)
Definition buffer_upto (len : Z) : dec unit := fun bs => ([Alloc (Z.min len (blen bs))], Ok tt bs).
Definition read_string : dec bytes :=
  len <- read_u32 ;;
  buffer_upto len ;;;
  buf <- read_exact len ;;
  if utf8_valid buf then ret buf else fail EUtf8.

(** * count-driven loops: [for _ in 0..count { item }] collecting the results.
    The recursion is structural on [fuel]; [loop] supplies [S (length input)], which is enough
    whenever every successful [item] consumes at least one byte (BinPrimLaws.loop_no_fuel). *)
Fixpoint loop_fuel {A} (fuel : nat) (count : Z) (item : dec A) : dec (list A) :=
  if count <=? 0 then ret []
  else match fuel with
       | O => stop OutOfFuel
       | S f => x <- item ;; xs <- loop_fuel f (count - 1) item ;; ret (x :: xs)
       end.
Definition loop {A} (count : Z) (item : dec A) : dec (list A) :=
  fun bs => loop_fuel (S (length bs)) count item bs.

(** the same loop threading a state instead of collecting results *)
Fixpoint iter_fuel {St} (fuel : nat) (count : Z) (body : St -> dec St) (s : St) : dec St :=
  if count <=? 0 then ret s
  else match fuel with
       | O => stop OutOfFuel
       | S f => s' <- body s ;; iter_fuel f (count - 1) body s'
       end.
Definition iter {St} (count : Z) (body : St -> dec St) (s : St) : dec St :=
  fun bs => iter_fuel (S (length bs)) count body s bs.

(** maximal single allocation request in a trace *)
Definition max_alloc (t : trace) : Z := fold_right (fun e m => match e with Alloc n => Z.max n m end) 0 t.
