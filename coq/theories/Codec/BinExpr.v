(** Model of persistence/binary/expression/{mod,case,operators,types,window}.rs: [read_expression]
    (used for a trigger's WHEN condition), as a *consumption skeleton*: the model tracks exactly which
    bytes are consumed, every allocation request, every rejection, and the NESTING DEPTH of the
    recursion -- but does not build the AST (nothing later in the loader looks inside it).

    [read_expression] is recursive; a [DepthGuard] rejects nesting beyond MAX_EXPRESSION_DEPTH
    ([bin_max_expr_depth], regenerated from the source).  [depth] is the current nesting of
    [read_expression] frames (the guard runs INSIDE the frame, so the frame must exist: exceeding
    [stack_limit E] first is the outcome [StackOverflow], possible only on a stack that cannot hold
    [bin_max_expr_depth + 1] frames).  Recursion is structural on
    [fuel]; [read_expression] supplies [S (length input)] (enough: every level consumes its tag byte).

    Tag bytes come from Generated/Consts.v.  No proofs in this file. *)
From Coq Require Import String List ZArith Bool.
From VibeSQL Require Import Generated.Consts Codec.BinUtf8 Codec.BinPrim Codec.BinValue Codec.BinType.
Import ListNotations.
Open Scope Z_scope.

(** [impl_simple_enum_serialization!] readers and the hand-written byte matches: a byte that must be
    one of the listed tags *)
Definition read_enum (what : Z) (tags : list Z) : dec unit :=
  b <- read_u8 ;;
  if existsb (Z.eqb b) tags then ret tt else fail (EEnum what b).

Definition skip {A} (m : dec A) : dec unit := m ;;; ret tt.
Definition when_ (c : bool) (m : dec unit) : dec unit := if c then m else ret tt.
(** [if read_bool()? { Some(m) } else { None }] *)
Definition opt (m : dec unit) : dec unit := b <- read_bool ;; when_ b m.

Fixpoint read_expr (E : env) (fuel : nat) (depth : Z) : dec unit :=
  if stack_limit E <? depth then stop StackOverflow else
  if bin_max_expr_depth <? depth then fail EDepth else
  match fuel with
  | O => stop OutOfFuel
  | S f =>
      let sub := read_expr E f (depth + 1) in
      let subs := (n <- read_u32 ;; skip (loop n sub)) in
      tag <- read_u8 ;;
      if tag =? bin_expr_Literal then skip (read_value E)
      else if tag =? bin_expr_ColumnRef then opt (skip read_string) ;;; skip read_string
      else if tag =? bin_expr_BinaryOp then read_enum 10 bin_binop_tags ;;; sub ;;; sub
      else if tag =? bin_expr_UnaryOp then read_enum 11 bin_unop_tags ;;; sub
      else if tag =? bin_expr_Function then
        skip read_string ;;; subs ;;; opt (read_enum 12 bin_charunit_tags)
      else if tag =? bin_expr_AggregateFunction then skip read_string ;;; skip read_bool ;;; subs
      else if tag =? bin_expr_IsNull then sub ;;; skip read_bool
      else if tag =? bin_expr_Wildcard then ret tt
      else if tag =? bin_expr_Case then
        opt sub ;;;
        (n <- read_u32 ;; skip (loop n (subs ;;; sub))) ;;;      (* read_case_when *)
        opt sub
      else if tag =? bin_expr_ScalarSubquery then fail ENotImpl
      else if tag =? bin_expr_In then fail ENotImpl
      else if tag =? bin_expr_InList then sub ;;; subs ;;; skip read_bool
      else if tag =? bin_expr_Between then sub ;;; sub ;;; sub ;;; skip read_bool ;;; skip read_bool
      else if tag =? bin_expr_Cast then
        sub ;;; (s <- read_string ;;
                 match parse_data_type s with
                 | POk _ => ret tt
                 | PErr => fail EDataType
                 | _ => stop Unmodelled
                 end)
      else if tag =? bin_expr_Position then sub ;;; sub ;;; opt (read_enum 12 bin_charunit_tags)
      else if tag =? bin_expr_Trim then
        opt (read_enum 13 bin_trimpos_tags) ;;; opt sub ;;; sub
      else if tag =? bin_expr_Like then sub ;;; sub ;;; skip read_bool
      else if tag =? bin_expr_Exists then fail ENotImpl
      else if tag =? bin_expr_QuantifiedComparison then fail ENotImpl
      else if tag =? bin_expr_CurrentDate then ret tt
      else if tag =? bin_expr_CurrentTime then opt (skip read_u32)
      else if tag =? bin_expr_CurrentTimestamp then opt (skip read_u32)
      else if tag =? bin_expr_Interval then
        sub ;;; read_enum 14 bin_intervalunit_tags ;;; opt (skip read_u32) ;;; opt (skip read_u32)
      else if tag =? bin_expr_Default then ret tt
      else if tag =? bin_expr_DuplicateKeyValue then skip read_string
      else if tag =? bin_expr_WindowFunction then
        (* read_window_function_spec: tag 0/1/2, name, args *)
        read_enum 15 [0; 1; 2] ;;; skip read_string ;;; subs ;;;
        (* read_window_spec: partition_by, order_by (must be absent), frame *)
        opt subs ;;;
        (ob <- read_bool ;; if ob then fail ENotImpl else ret tt) ;;;
        opt ( (* read_window_frame: unit, start bound, optional end bound *)
              let bound := (t <- read_u8 ;;
                            if (t =? 1) || (t =? 3) then sub
                            else if (t =? 0) || (t =? 2) || (t =? 4) then ret tt
                            else fail (EEnum 17 t)) in
              read_enum 16 [0; 1] ;;; bound ;;; opt bound)
      else if tag =? bin_expr_NextValue then skip read_string
      else if tag =? bin_expr_MatchAgainst then
        (n <- read_u32 ;; skip (loop n read_string)) ;;; sub ;;; read_enum 18 bin_fulltext_tags
      else if tag =? bin_expr_PseudoVariable then read_enum 19 bin_pseudotable_tags ;;; skip read_string
      else if tag =? bin_expr_SessionVariable then skip read_string
      else fail (ETag tag)
  end.

(** [read_expression] as called from [read_catalog] (depth 1 = the outermost frame) *)
Definition read_expression (E : env) : dec unit :=
  fun bs => read_expr E (S (length bs)) 1 bs.
