(** Model of the SQL-dump writer: [Database::save_sql_dump], [format_data_type] and
    [sql_value_to_literal] of crates/vibesql-storage/src/persistence/save.rs, for databases
    whose only objects are tables of the default schema (no extra schemas, roles or indexes:
    those sections of the dump then consist of their comment line only).

    Text is a list of Unicode scalar values ([str]); the strings carried by [VVarchar] /
    [VCharacter] are read as code points in the C19 development (the writer copies them
    character by character, so nothing here depends on their byte encoding).

    Rust's float formatting and parsing ([f64::to_string], [f32::to_string],
    [str::parse::<f64>], the [as] casts) are library code: they enter as the fields of a
    [float_ops] record, by IEEE bit pattern.  Definitions only (proofs: Codec/SqlLoadLaws.v). *)
From Coq Require Import Strings.String.
From Coq Require Import List ZArith Bool.
From VibeSQL Require Import Value.SqlValue Value.Dec Value.RStr Value.Temporal.
Import ListNotations.
Open Scope Z_scope.

(** * Library float functions (by bit pattern) *)
Record float_ops : Type := mk_float_ops {
  show_f64 : Z -> str;            (* [f64::to_string] (Display) *)
  show_f32 : Z -> str;            (* [f32::to_string] *)
  parse_f64 : str -> option Z;    (* [s.parse::<f64>().ok()] *)
  f64_of_i64 : Z -> Z;            (* [i as f64] *)
  f32_of_i64 : Z -> Z;            (* [i as f32] *)
  f32_of_f64 : Z -> Z             (* [f as f32] *)
}.

(** * [vibesql_types::DataType] *)
Inductive dtype : Type :=
| TInteger | TSmallint | TBigint | TUnsigned
| TFloat (precision : Z) | TReal | TDouble
| TVarchar (max_length : option Z) | TChar (length : Z)
| TBoolean | TDate | TTime (with_timezone : bool) | TTimestamp (with_timezone : bool)
| TInterval (start_field : Z)       (* 0..5 = Year Month Day Hour Minute Second; end_field is not printed *)
| TNumeric (precision scale : Z) | TDecimal (precision scale : Z)
| TClob | TName | TBlob | TBit (length : option Z)
| TUserDefined (type_name : str) | TNullType.

(** a column ([ColumnSchema]: name, data type, nullable) and a table with its rows in scan order *)
Record column : Type := mk_column { c_name : str; c_type : dtype; c_nullable : bool }.
Record table : Type := mk_table { t_name : str; t_cols : list column; t_rows : list (list sqlvalue) }.

(** [{}] on an [i64] / [i16] *)
Definition show_int (z : Z) : str := if z <? 0 then 45 :: show_nat (- z) else show_nat z.

(** [{:?}] of [IntervalField] *)
Definition interval_field_debug (k : Z) : str :=
  if k =? 0 then lit "Year" else if k =? 1 then lit "Month" else if k =? 2 then lit "Day"
  else if k =? 3 then lit "Hour" else if k =? 4 then lit "Minute" else lit "Second".

(** [format_data_type] *)
Definition format_data_type (t : dtype) : str :=
  match t with
  | TInteger => lit "INTEGER"
  | TSmallint => lit "SMALLINT"
  | TBigint => lit "BIGINT"
  | TUnsigned => lit "BIGINT UNSIGNED"
  | TFloat p => lit "FLOAT(" ++ show_nat p ++ lit ")"
  | TReal => lit "REAL"
  | TDouble => lit "DOUBLE PRECISION"
  | TVarchar (Some n) => lit "VARCHAR(" ++ show_nat n ++ lit ")"
  | TVarchar None => lit "VARCHAR"
  | TChar n => lit "CHAR(" ++ show_nat n ++ lit ")"
  | TBoolean => lit "BOOLEAN"
  | TDate => lit "DATE"
  | TTime _ => lit "TIME"
  | TTimestamp true => lit "TIMESTAMP WITH TIME ZONE"
  | TTimestamp false => lit "TIMESTAMP"
  | TInterval k => lit "INTERVAL " ++ interval_field_debug k
  | TNumeric p s => lit "NUMERIC(" ++ show_nat p ++ lit ", " ++ show_nat s ++ lit ")"
  | TDecimal p s => lit "DECIMAL(" ++ show_nat p ++ lit ", " ++ show_nat s ++ lit ")"
  | TClob => lit "CLOB"
  | TName => lit "VARCHAR(128)"
  | TBlob => lit "BLOB"
  | TBit (Some n) => lit "BIT(" ++ show_nat n ++ lit ")"
  | TBit None => lit "BIT"
  | TUserDefined n => n
  | TNullType => lit "NULL"
  end.

(** [s.replace('\'', "''")] *)
Definition sql_quote (s : str) : str := flat_map (fun c => if c =? 39 then [39; 39] else [c]) s.

(** [format!("'{}'", s.replace('\'', "''"))] *)
Definition str_lit (s : str) : str := 39 :: sql_quote s ++ [39].

(** [is_infinite] / [is_sign_positive] on the bit pattern of width [w] *)
Definition f_is_inf (w b : Z) : bool := f_mag w b =? f_inf w.
Definition f_sign_positive (w b : Z) : bool := f_sign w b =? 0.

(** the float arms of [sql_value_to_literal] *)
Definition float_literal (w : Z) (show : Z -> str) (b : Z) : str :=
  if f_is_nan w b then lit "'NaN'"
  else if f_is_inf w b then (if f_sign_positive w b then lit "'Infinity'" else lit "'-Infinity'")
  else show b.

Section Printer.
Variable fl : float_ops.
(** [<Interval as Display>]: the stored text, which [VInterval] does not carry *)
Variable interval_text : Z -> Z -> Z -> str.

(** [sql_value_to_literal] *)
Definition sql_value_to_literal (v : sqlvalue) : str :=
  match v with
  | VNull => lit "NULL"
  | VInteger n => show_int n
  | VSmallint n => show_int n
  | VBigint n => show_int n
  | VUnsigned n => show_nat n
  | VNumeric b => show_f64 fl b
  | VFloat b => float_literal 32 (show_f32 fl) b
  | VReal b => float_literal 32 (show_f32 fl) b
  | VDouble b => float_literal 64 (show_f64 fl) b
  | VCharacter s => str_lit s
  | VVarchar s => str_lit s
  | VBoolean b => if b then lit "TRUE" else lit "FALSE"
  | VDate y m d => lit "DATE '" ++ show_date y m d ++ lit "'"
  | VTime h mi s ns => lit "TIME '" ++ show_time h mi s ns ++ lit "'"
  | VTimestamp y m d h mi s ns => lit "TIMESTAMP '" ++ show_timestamp y m d h mi s ns ++ lit "'"
  | VInterval mo d us => lit "INTERVAL '" ++ interval_text mo d us ++ lit "'"
  end.

(** [items.join(", ")] as written by the [if i > 0 { write!(", ") }] loops *)
Fixpoint join_comma (items : list str) : str :=
  match items with
  | [] => []
  | [x] => x
  | x :: r => x ++ lit ", " ++ join_comma r
  end.

(** ["{} {}" name type] then [" NOT NULL"] when the column is not nullable *)
Definition column_def (c : column) : str :=
  c_name c ++ [32] ++ format_data_type (c_type c) ++ (if c_nullable c then [] else lit " NOT NULL").

(** the statement texts, without the terminating [";"] *)
Definition create_table_stmt (t : table) : str :=
  lit "CREATE TABLE " ++ t_name t ++ lit " (" ++ join_comma (map column_def (t_cols t)) ++ lit ")".
Definition insert_stmt (name : str) (row : list sqlvalue) : str :=
  lit "INSERT INTO " ++ name ++ lit " VALUES (" ++ join_comma (map sql_value_to_literal row) ++ lit ")".

(** the statements of a database in dump order *)
Definition table_stmts (t : table) : list str :=
  create_table_stmt t :: map (insert_stmt (t_name t)) (t_rows t).
Definition dump_stmts (db : list table) : list str := flat_map table_stmts db.

(** the lines of one table's block: CREATE TABLE line, then (when there are rows) an empty line
    and one INSERT line per row, then an empty line *)
Definition table_lines (t : table) : list str :=
  (create_table_stmt t ++ [59])
  :: (match t_rows t with
      | [] => []
      | _ => [] :: map (fun r => insert_stmt (t_name t) r ++ [59]) (t_rows t)
      end)
  ++ [[]].

(** all lines of the file; [generated] is the text printed for [chrono::Utc::now()] *)
Definition dump_lines (generated : str) (db : list table) : list str :=
  [lit "-- VibeSQL Database Dump"; lit "-- Generated: " ++ generated; lit "--"; [];
   lit "-- Schemas"; [];
   lit "-- Roles"; [];
   lit "-- Tables and Data"]
  ++ flat_map table_lines db
  ++ [lit "-- Indexes"; []; lit "-- End of dump"].

(** every line is written by [writeln!] *)
Definition dump_text (generated : str) (db : list table) : str :=
  flat_map (fun l => l ++ [10]) (dump_lines generated db).

End Printer.
