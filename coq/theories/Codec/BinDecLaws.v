(** Laws of the decimal text helpers (BinDec.v): what [Display] prints is ASCII (hence valid UTF-8),
    short, and is read back by [str::parse]. *)
From Coq Require Import String List ZArith Bool Lia.
From VibeSQL Require Import Codec.BinUtf8 Codec.BinDec.
Import ListNotations.
Open Scope Z_scope.

Lemma is_ascii_app a b : is_ascii (a ++ b) = is_ascii a && is_ascii b.
Proof. unfold is_ascii. apply forallb_app. Qed.

Lemma is_ascii_utf8 s : is_ascii s = true -> utf8_valid s = true.
Proof.
  induction s as [|b r IH]; [reflexivity|]. cbn [is_ascii forallb]. intros H.
  apply andb_true_iff in H. destruct H as [Hb Hr]. cbn [utf8_valid]. rewrite Hb. apply IH. exact Hr.
Qed.

Lemma is_ascii_all_bytes s : is_ascii s = true -> all_bytes s = true.
Proof.
  unfold is_ascii, all_bytes. intros H. apply forallb_forall. intros x Hx.
  rewrite forallb_forall in H. specialize (H x Hx). unfold is_byte, inr in *.
  apply andb_true_iff in H. destruct H as [H1 H2]. apply Z.leb_le in H1, H2.
  apply andb_true_iff. split; apply Z.leb_le; lia.
Qed.

Lemma is_ascii_repeat c n : inr 0 127 c = true -> is_ascii (repeat c n) = true.
Proof. intros H. induction n; cbn; [reflexivity|]. now rewrite H. Qed.

Lemma is_digit_ascii c : is_digit c = true -> inr 0 127 c = true.
Proof.
  unfold is_digit, inr. intros H. apply andb_true_iff in H. destruct H as [H1 H2].
  apply Z.leb_le in H1, H2. apply andb_true_iff. split; apply Z.leb_le; lia.
Qed.

Lemma all_digits_ascii s : forallb is_digit s = true -> is_ascii s = true.
Proof.
  unfold is_ascii. intros H. apply forallb_forall. intros x Hx.
  rewrite forallb_forall in H. apply is_digit_ascii. auto.
Qed.

Lemma is_digit_small n : 0 <= n < 10 -> is_digit (48 + n) = true.
Proof. intros H. unfold is_digit, inr. apply andb_true_iff. split; apply Z.leb_le; lia. Qed.

Lemma digits_rev_digits f n : 0 <= n -> forallb is_digit (digits_rev f n) = true.
Proof.
  revert n. induction f as [|f IH]; intros n Hn; cbn [digits_rev]; [reflexivity|].
  destruct (Z.ltb_spec n 10).
  - cbn [forallb]. rewrite is_digit_small by lia. reflexivity.
  - cbn [forallb]. rewrite is_digit_small by (apply Z.mod_pos_bound; lia).
    apply IH. apply Z.div_pos; lia.
Qed.

Lemma digits_rev_length f n : (length (digits_rev f n) <= f)%nat.
Proof.
  revert n. induction f as [|f IH]; intros n; cbn [digits_rev]; [cbn; lia|].
  destruct (n <? 10); cbn [length]; [lia|]. specialize (IH (n / 10)). lia.
Qed.

Lemma digits_rev_nonempty f n : digits_rev (S f) n <> [].
Proof. cbn [digits_rev]. destruct (n <? 10); discriminate. Qed.

Lemma show_uint_digits n : 0 <= n -> forallb is_digit (show_uint n) = true.
Proof.
  intros H. unfold show_uint. rewrite forallb_forall. intros x Hx. apply in_rev in Hx.
  pose proof (digits_rev_digits 40 n H) as D. rewrite forallb_forall in D. auto.
Qed.

Lemma show_uint_length n : (length (show_uint n) <= 40)%nat.
Proof. unfold show_uint. rewrite rev_length. apply digits_rev_length. Qed.

Lemma show_uint_ascii n : 0 <= n -> is_ascii (show_uint n) = true.
Proof. intros H. apply all_digits_ascii, show_uint_digits, H. Qed.

Lemma pad0_ascii w z : is_ascii (pad0 w z) = true.
Proof.
  unfold pad0. destruct (Z.ltb_spec z 0).
  - cbn [is_ascii forallb]. fold (is_ascii (repeat 48 (w - 1 - length (show_uint (- z))) ++ show_uint (- z))).
    rewrite is_ascii_app, is_ascii_repeat by reflexivity. rewrite show_uint_ascii by lia. reflexivity.
  - rewrite is_ascii_app, is_ascii_repeat by reflexivity. rewrite show_uint_ascii by lia. reflexivity.
Qed.

Lemma pad0_length w z : (length (pad0 w z) <= w + 41)%nat.
Proof.
  unfold pad0. destruct (z <? 0); cbn [length]; rewrite app_length, repeat_length.
  - pose proof (show_uint_length (- z)). lia.
  - pose proof (show_uint_length z). lia.
Qed.

Lemma show_date_ascii y m d : is_ascii (show_date y m d) = true.
Proof. unfold show_date. rewrite !is_ascii_app, !pad0_ascii. reflexivity. Qed.

Lemma show_date_length y m d : (length (show_date y m d) <= 140)%nat.
Proof.
  unfold show_date. rewrite !app_length. cbn [length].
  pose proof (pad0_length 4 y). pose proof (pad0_length 2 m). pose proof (pad0_length 2 d). lia.
Qed.

Lemma filter_ascii (f : Z -> bool) s : is_ascii s = true -> is_ascii (filter f s) = true.
Proof.
  unfold is_ascii. intros H. apply forallb_forall. intros x Hx. apply filter_In in Hx.
  rewrite forallb_forall in H. apply H. tauto.
Qed.

Lemma strip_trailing_zeros_rev_incl r x : In x (strip_trailing_zeros_rev r) -> In x r.
Proof.
  induction r as [|c r IH]; cbn [strip_trailing_zeros_rev]; [auto|].
  destruct (c =? 48); [intros H; right; auto | auto].
Qed.

Lemma strip_trailing_zeros_rev_length r : (length (strip_trailing_zeros_rev r) <= length r)%nat.
Proof.
  induction r as [|c r IH]; [cbn; lia|].
  cbn [strip_trailing_zeros_rev]. destruct (c =? 48); cbn [length]; lia.
Qed.

Lemma trim_end_zeros_ascii s : is_ascii s = true -> is_ascii (trim_end_zeros s) = true.
Proof.
  unfold trim_end_zeros, is_ascii. intros H. apply forallb_forall. intros x Hx.
  apply in_rev in Hx. apply strip_trailing_zeros_rev_incl in Hx. apply in_rev in Hx.
  rewrite forallb_forall in H. auto.
Qed.

Lemma trim_end_zeros_length s : (length (trim_end_zeros s) <= length s)%nat.
Proof.
  unfold trim_end_zeros. rewrite rev_length.
  pose proof (strip_trailing_zeros_rev_length (rev s)). rewrite rev_length in *. lia.
Qed.

Lemma show_time_ascii h mi s ns : is_ascii (show_time h mi s ns) = true.
Proof.
  unfold show_time. rewrite !is_ascii_app, !pad0_ascii. cbn [is_ascii forallb inr Z.leb Z.compare andb].
  destruct (ns =? 0); [reflexivity|].
  cbn [is_ascii forallb]. fold (is_ascii (trim_end_zeros (pad0 9 ns))).
  rewrite trim_end_zeros_ascii by apply pad0_ascii. reflexivity.
Qed.

Lemma show_time_length h mi s ns : (length (show_time h mi s ns) <= 200)%nat.
Proof.
  unfold show_time. rewrite !app_length. cbn [length].
  pose proof (pad0_length 2 h). pose proof (pad0_length 2 mi). pose proof (pad0_length 2 s).
  destruct (ns =? 0); cbn [length]; [lia|].
  pose proof (trim_end_zeros_length (pad0 9 ns)). pose proof (pad0_length 9 ns). lia.
Qed.

Lemma show_timestamp_ascii y m d h mi s ns : is_ascii (show_timestamp y m d h mi s ns) = true.
Proof. unfold show_timestamp. rewrite !is_ascii_app, show_date_ascii, show_time_ascii. reflexivity. Qed.

Lemma show_timestamp_length y m d h mi s ns : (length (show_timestamp y m d h mi s ns) <= 341)%nat.
Proof.
  unfold show_timestamp. rewrite !app_length. cbn [length].
  pose proof (show_date_length y m d). pose proof (show_time_length h mi s ns). lia.
Qed.

(** * [parse] takes back what [Display] printed *)
Lemma digits_val_app acc l d :
  digits_val acc (l ++ [d]) =
  match digits_val acc l with
  | Some v => if is_digit d then Some (v * 10 + (d - 48)) else None
  | None => None
  end.
Proof.
  revert acc. induction l as [|c l IH]; intros acc; cbn [app digits_val].
  - destruct (is_digit d); reflexivity.
  - destruct (is_digit c); [apply IH | reflexivity].
Qed.

Lemma digits_val_show f n :
  0 <= n < 10 ^ Z.of_nat f -> digits_val 0 (rev (digits_rev f n)) = Some n.
Proof.
  revert n. induction f as [|f IH]; intros n Hn.
  - change (10 ^ Z.of_nat 0) with 1 in Hn. assert (n = 0) by lia. subst. reflexivity.
  - cbn [digits_rev]. destruct (Z.ltb_spec n 10) as [Hs|Hb].
    + cbn [rev app digits_val]. rewrite is_digit_small by lia. f_equal. lia.
    + cbn [rev]. rewrite digits_val_app.
      assert (Hq : 0 <= n / 10 < 10 ^ Z.of_nat f).
      { split; [apply Z.div_pos; lia|]. apply Z.div_lt_upper_bound; [lia|].
        replace (Z.of_nat (S f)) with (1 + Z.of_nat f) in Hn by lia.
        rewrite Z.pow_add_r in Hn by lia. lia. }
      rewrite (IH _ Hq). rewrite is_digit_small by (apply Z.mod_pos_bound; lia).
      f_equal. pose proof (Z.div_mod n 10 ltac:(lia)). lia.
Qed.

Lemma parse_show_uint max n : 0 <= n <= max -> n < 10 ^ 40 -> parse_uint max (show_uint n) = Some n.
Proof.
  intros Hn Hb. unfold parse_uint, show_uint.
  pose proof (digits_val_show 40 n ltac:(change (Z.of_nat 40) with 40; lia)) as Hv.
  pose proof (show_uint_digits n ltac:(lia)) as Hd. unfold show_uint in Hd.
  destruct (rev (digits_rev 40 n)) as [|c r] eqn:Er.
  - exfalso. apply (f_equal (@rev Z)) in Er. rewrite rev_involutive in Er. cbn in Er.
    exact (digits_rev_nonempty 39 n Er).
  - assert (Hc : c <> 43).
    { cbn [forallb] in Hd. apply andb_true_iff in Hd. destruct Hd as [Hd _].
      unfold is_digit, inr in Hd. apply andb_true_iff in Hd. destruct Hd as [H1 _]. apply Z.leb_le in H1. lia. }
    assert (E : strip_plus (c :: r) = c :: r).
    { cbn [strip_plus]. destruct (Z.eqb_spec c 43); [contradiction | reflexivity]. }
    cbv zeta. rewrite E, Hv. destruct (Z.leb_spec n max); [reflexivity | lia].
Qed.

Example parse_show_uint_nontrivial : parse_uint usize_max (show_uint 18446744073709551615) = Some 18446744073709551615.
Proof. apply parse_show_uint; [unfold usize_max; lia | lia]. Qed.
