(** Codec/Wire.v — executable model of the PostgreSQL wire codec of the server,
    /repo/crates/vibesql-server/src/protocol/messages.rs  (C27 decoder, C28 encoder).

    Bytes are [Z] in [0,256).  A [BytesMut] is the list of its unread bytes.  Every Rust panic is
    an explicit result ([Panic]): [advance n] with n > len, [split_to n] with n > len, [get_i32]
    with < 4 bytes, indexing out of bounds, and the checked usize additions of a build with
    overflow checks (debug profile; [oc = true]).  With [oc = false] the additions wrap (release).
    Message-type bytes, fixed lengths, header sizes, the SSL request code and the constants of the
    length formulas are NOT written here: they come from Generated/Consts.v, re-extracted from the
    Rust source on every run (bin/consts_wire.py).

    Definitions only; all proofs are in Codec/WireBytes.v, WireDecodeLaws.v, WireEncodeLaws.v. *)
From Coq Require Import ZArith List Bool.
From VibeSQL Require Import Generated.Consts.
Import ListNotations.
Open Scope Z_scope.

Definition bytes := list Z.
Definition blen (b : bytes) : Z := Z.of_nat (length b).
Definition is_byte (x : Z) : bool := (0 <=? x) && (x <? 256).
Definition bytes_ok (b : bytes) : bool := forallb is_byte b.

Fixpoint beqb (a b : bytes) : bool :=
  match a, b with
  | [], [] => true
  | x :: a', y :: b' => (x =? y) && beqb a' b'
  | _, _ => false
  end.

(** * Machine integers *)
Notation two8 := 256 (only parsing).
Notation two15 := 32768 (only parsing).
Notation two16 := 65536 (only parsing).
Notation two24 := 16777216 (only parsing).
Notation two31 := 2147483648 (only parsing).
Notation two32 := 4294967296 (only parsing).
Notation two63 := 9223372036854775808 (only parsing).
Notation two64 := 18446744073709551616 (only parsing).

(** [x as i32] / [x as i16] for an integer x of a wider type: keep the low bits, reinterpret as signed *)
Definition as_i32 (z : Z) : Z := let r := z mod two32 in if r <? two31 then r else r - two32.
Definition as_i16 (z : Z) : Z := let r := z mod two16 in if r <? two15 then r else r - two16.
Definition in_i32 (z : Z) : bool := (- two31 <=? z) && (z <? two31).
Definition in_i16 (z : Z) : bool := (- two15 <=? z) && (z <? two15).
(** [x as usize] for x : i32 on a 64-bit target: sign extension, then reinterpretation *)
Definition i32_as_usize (z : Z) : Z := if z <? 0 then z + two64 else z.
(** usize [a + b]: [None] = panic "attempt to add with overflow" (overflow checks on), wraps otherwise *)
Definition usize_add (oc : bool) (a b : Z) : option Z :=
  let s := a + b in
  if s <? two64 then Some s else if oc then None else Some (s - two64).

(** big-endian two's complement, [BufMut::put_i32] / [put_i16] *)
Definition be32 (z : Z) : bytes :=
  let u := z mod two32 in [u / two24; (u / two16) mod 256; (u / 256) mod 256; u mod 256].
Definition be16 (z : Z) : bytes :=
  let u := z mod two16 in [u / 256; u mod 256].
(** [i32::from_be_bytes] *)
Definition u32_of_be (b0 b1 b2 b3 : Z) : Z := ((b0 * 256 + b1) * 256 + b2) * 256 + b3.
Definition i32_of_be (b0 b1 b2 b3 : Z) : Z := as_i32 (u32_of_be b0 b1 b2 b3).

(** * [String::from_utf8]: well-formed UTF-8 (Unicode Table 3-7), as [core::str::from_utf8] accepts *)
Definition inr (lo hi x : Z) : bool := (lo <=? x) && (x <=? hi).
Fixpoint utf8_valid (l : bytes) : bool :=
  match l with
  | [] => true
  | b0 :: r =>
    if inr 0 127 b0 then utf8_valid r
    else if inr 194 223 b0 then
      match r with
      | b1 :: r1 => inr 128 191 b1 && utf8_valid r1
      | _ => false
      end
    else if inr 224 239 b0 then
      match r with
      | b1 :: b2 :: r2 =>
          (if b0 =? 224 then inr 160 191 b1 else if b0 =? 237 then inr 128 159 b1 else inr 128 191 b1)
          && inr 128 191 b2 && utf8_valid r2
      | _ => false
      end
    else if inr 240 244 b0 then
      match r with
      | b1 :: b2 :: b3 :: r3 =>
          (if b0 =? 240 then inr 144 191 b1 else if b0 =? 244 then inr 128 143 b1 else inr 128 191 b1)
          && inr 128 191 b2 && inr 128 191 b3 && utf8_valid r3
      | _ => false
      end
    else false
  end.

(** * BytesMut primitives ([None] = the documented panic) *)
Definition advance (n : nat) (b : bytes) : option bytes :=
  if (n <=? length b)%nat then Some (skipn n b) else None.
Definition split_to (n : nat) (b : bytes) : option (bytes * bytes) :=
  if (n <=? length b)%nat then Some (firstn n b, skipn n b) else None.
Definition get_i32 (b : bytes) : option (Z * bytes) :=
  match b with
  | b0 :: b1 :: b2 :: b3 :: r => Some (i32_of_be b0 b1 b2 b3, r)
  | _ => None
  end.
(** [buf[i]] *)
Definition index (b : bytes) (i : nat) : option Z := nth_error b i.
(** [buf.iter().position(|&b| b == 0)] *)
Fixpoint position0 (b : bytes) : option nat :=
  match b with
  | [] => None
  | x :: r => if x =? wire_cstring_terminator then Some O else option_map S (position0 r)
  end.

(** * Results *)
Inductive perr := InvalidMessageType (t : Z) | InvalidString.
(** [Fuel]: the model's loop bound was exhausted (proved unreachable: WireDecodeLaws.decode_startup_fuel) *)
Inductive res (A : Type) := Ok (a : A) | Err (e : perr) | Panic | Fuel.
Arguments Ok {A} a.
Arguments Err {A} e.
Arguments Panic {A}.
Arguments Fuel {A}.

(** * Frontend messages.  A Rust [String] is its UTF-8 bytes; [params] stands for the HashMap in
    insertion order with replace-on-duplicate (only its content as a finite map is observable). *)
Inductive fmsg :=
| FStartup (protocol_version : Z) (params : list (bytes * bytes))
| FPassword (password : bytes)
| FQuery (query : bytes)
| FTerminate
| FSSLRequest.

Fixpoint hm_insert (k v : bytes) (m : list (bytes * bytes)) : list (bytes * bytes) :=
  match m with
  | [] => [(k, v)]
  | (k', v') :: r => if beqb k k' then (k, v) :: r else (k', v') :: hm_insert k v r
  end.

(** messages.rs [read_cstring]: position of the first NUL in the WHOLE buffer, [split_to], [advance(1)],
    then UTF-8 validation (the bytes are consumed even when validation fails). *)
Definition read_cstring (b : bytes) : res bytes * bytes :=
  match position0 b with
  | None => (Err InvalidString, b)
  | Some p =>
    match split_to p b with
    | None => (Panic, b)
    | Some (s, b1) =>
      match advance 1 b1 with
      | None => (Panic, b1)
      | Some b2 => if utf8_valid s then (Ok s, b2) else (Err InvalidString, b2)
      end
    end
  end.

Definition dres := (res (option fmsg) * bytes)%type.

(** the Q / p arms: [buf.advance(4); let s = read_cstring(buf)?; Ok(Some(mk s))] *)
Definition decode_string_msg (mk : bytes -> fmsg) (b1 : bytes) : dres :=
  match advance 4 b1 with
  | None => (Panic, b1)
  | Some b2 =>
    match read_cstring b2 with
    | (Ok s, b3) => (Ok (Some (mk s)), b3)
    | (Err e, b3) => (Err e, b3)
    | (Panic, b3) => (Panic, b3)
    | (Fuel, b3) => (Fuel, b3)
    end
  end.

(** messages.rs [FrontendMessage::decode] *)
Definition decode (oc : bool) (buf : bytes) : dres :=
  if blen buf <? wire_header_min then (Ok None, buf) else
  match index buf 0, index buf 1, index buf 2, index buf 3, index buf 4 with
  | Some msg_type, Some l0, Some l1, Some l2, Some l3 =>
    let len := i32_as_usize (i32_of_be l0 l1 l2 l3) in
    match usize_add oc 1 len with
    | None => (Panic, buf)
    | Some need =>
      if blen buf <? need then (Ok None, buf) else
      match advance 1 buf with
      | None => (Panic, buf)
      | Some b1 =>
        if msg_type =? wire_ftag_Query then decode_string_msg FQuery b1
        else if msg_type =? wire_ftag_Password then decode_string_msg FPassword b1
        else if msg_type =? wire_ftag_Terminate then
          match advance 4 b1 with
          | None => (Panic, b1)
          | Some b2 => (Ok (Some FTerminate), b2)
          end
        else (Err (InvalidMessageType msg_type), b1)
      end
    end
  | _, _, _, _, _ => (Panic, buf)
  end.

(** the parameter loop of [decode_startup]; every iteration consumes at least one byte, so
    [S (length buf)] iterations always suffice *)
Fixpoint params_loop (fuel : nat) (b : bytes) (acc : list (bytes * bytes))
  : res (list (bytes * bytes)) * bytes :=
  match fuel with
  | O => (Fuel, b)
  | S f =>
    match read_cstring b with
    | (Ok key, b1) =>
      match key with
      | [] => (Ok acc, b1)
      | _ :: _ =>
        match read_cstring b1 with
        | (Ok value, b2) => params_loop f b2 (hm_insert key value acc)
        | (Err e, b2) => (Err e, b2)
        | (Panic, b2) => (Panic, b2)
        | (Fuel, b2) => (Fuel, b2)
        end
      end
    | (Err e, b1) => (Err e, b1)
    | (Panic, b1) => (Panic, b1)
    | (Fuel, b1) => (Fuel, b1)
    end
  end.

(** messages.rs [FrontendMessage::decode_startup] *)
Definition decode_startup (buf : bytes) : dres :=
  if blen buf <? wire_startup_header_min then (Ok None, buf) else
  match index buf 0, index buf 1, index buf 2, index buf 3 with
  | Some l0, Some l1, Some l2, Some l3 =>
    let len := i32_as_usize (i32_of_be l0 l1 l2 l3) in
    if blen buf <? len then (Ok None, buf) else
    match advance 4 buf with
    | None => (Panic, buf)
    | Some b1 =>
      match get_i32 b1 with
      | None => (Panic, b1)
      | Some (protocol_version, b2) =>
        if protocol_version =? wire_ssl_request_code then (Ok (Some FSSLRequest), b2)
        else
          match params_loop (S (length b2)) b2 [] with
          | (Ok params, b3) => (Ok (Some (FStartup protocol_version params)), b3)
          | (Err e, b3) => (Err e, b3)
          | (Panic, b3) => (Panic, b3)
          | (Fuel, b3) => (Fuel, b3)
          end
      end
    end
  | _, _, _, _ => (Panic, buf)
  end.

(** * Backend messages *)
Inductive txstatus := Idle | InTransaction | FailedTransaction.
Definition status_byte (s : txstatus) : Z :=
  match s with
  | Idle => wire_status_Idle
  | InTransaction => wire_status_InTransaction
  | FailedTransaction => wire_status_FailedTransaction
  end.

Record field_desc := mk_field {
  fd_name : bytes; fd_table_oid : Z; fd_attr : Z; fd_type_oid : Z;
  fd_type_size : Z; fd_type_mod : Z; fd_format : Z }.

(** [fields] of Error/NoticeResponse: the HashMap<u8,String> in ITS iteration order (any order is possible;
    every theorem quantifies over the list, i.e. over all orders) *)
Inductive bmsg :=
| BAuthOk
| BAuthCleartext
| BAuthMD5 (salt : bytes)
| BParameterStatus (name value : bytes)
| BBackendKeyData (process_id secret_key : Z)
| BReadyForQuery (status : txstatus)
| BRowDescription (fields : list field_desc)
| BDataRow (values : list (option bytes))
| BCommandComplete (tag : bytes)
| BErrorResponse (fields : list (Z * bytes))
| BNoticeResponse (fields : list (Z * bytes))
| BEmptyQuery.

(** messages.rs [put_cstring] *)
Definition put_cstring (s : bytes) : bytes := s ++ [wire_cstring_terminator].

Definition zsum (l : list Z) : Z := fold_right Z.add 0 l.

Definition enc_field (f : field_desc) : bytes :=
  put_cstring (fd_name f) ++ be32 (fd_table_oid f) ++ be16 (fd_attr f) ++ be32 (fd_type_oid f)
  ++ be16 (fd_type_size f) ++ be32 (fd_type_mod f) ++ be16 (fd_format f).

Definition enc_value (v : option bytes) : bytes :=
  match v with
  | Some x => be32 (as_i32 (blen x)) ++ x
  | None => be32 wire_null_marker
  end.

Definition enc_err_field (f : Z * bytes) : bytes := fst f :: put_cstring (snd f).

(** the running usize sums of the length computations; all addends are non-negative, so a checked
    addition overflows at some step iff the total does not fit *)
Definition len_ParameterStatus (name value : bytes) : Z := wire_len_base_ParameterStatus + blen name + blen value.
Definition len_RowDescription (fields : list field_desc) : Z :=
  wire_len_base_RowDescription + zsum (map (fun f => blen (fd_name f) + wire_len_per_field_RowDescription) fields).
Definition len_DataRow (values : list (option bytes)) : Z :=
  wire_len_base_DataRow
  + zsum (map (fun v => wire_len_per_value_DataRow + match v with Some x => blen x | None => 0 end) values).
Definition len_CommandComplete (tag : bytes) : Z := wire_len_base_CommandComplete + blen tag.
Definition len_NoticeOrError (fields : list (Z * bytes)) : Z :=
  wire_len_base_NoticeOrError + zsum (map (fun f => wire_len_per_field_NoticeOrError + blen (snd f)) fields).

Definition with_len (oc : bool) (len : Z) (k : bytes) : res bytes :=
  if oc && negb (len <? two64) then Panic else Ok k.

(** messages.rs [encode_notice_or_error] (after the tag byte) *)
Definition encode_notice_or_error (oc : bool) (tag : Z) (fields : list (Z * bytes)) : res bytes :=
  let len := len_NoticeOrError fields in
  with_len oc len
    (tag :: be32 (as_i32 len) ++ flat_map enc_err_field fields ++ [wire_error_terminator]).

(** messages.rs [BackendMessage::encode] (appends to the buffer; the model returns the appended bytes) *)
Definition encode (oc : bool) (m : bmsg) : res bytes :=
  match m with
  | BAuthOk =>
      Ok (wire_tag_AuthenticationOk :: be32 wire_fixed_len_AuthenticationOk ++ be32 wire_auth_code_AuthenticationOk)
  | BAuthCleartext =>
      Ok (wire_tag_AuthenticationCleartextPassword :: be32 wire_fixed_len_AuthenticationCleartextPassword
          ++ be32 wire_auth_code_AuthenticationCleartextPassword)
  | BAuthMD5 salt =>
      Ok (wire_tag_AuthenticationMD5Password :: be32 wire_fixed_len_AuthenticationMD5Password
          ++ be32 wire_auth_code_AuthenticationMD5Password ++ salt)
  | BParameterStatus name value =>
      let len := len_ParameterStatus name value in
      with_len oc len (wire_tag_ParameterStatus :: be32 (as_i32 len) ++ put_cstring name ++ put_cstring value)
  | BBackendKeyData pid key =>
      Ok (wire_tag_BackendKeyData :: be32 wire_fixed_len_BackendKeyData ++ be32 pid ++ be32 key)
  | BReadyForQuery st =>
      Ok (wire_tag_ReadyForQuery :: be32 wire_fixed_len_ReadyForQuery ++ [status_byte st])
  | BRowDescription fields =>
      let len := len_RowDescription fields in
      with_len oc len
        (wire_tag_RowDescription :: be32 (as_i32 len) ++ be16 (as_i16 (Z.of_nat (length fields)))
         ++ flat_map enc_field fields)
  | BDataRow values =>
      let len := len_DataRow values in
      with_len oc len
        (wire_tag_DataRow :: be32 (as_i32 len) ++ be16 (as_i16 (Z.of_nat (length values)))
         ++ flat_map enc_value values)
  | BCommandComplete tag =>
      let len := len_CommandComplete tag in
      with_len oc len (wire_tag_CommandComplete :: be32 (as_i32 len) ++ put_cstring tag)
  | BErrorResponse fields => encode_notice_or_error oc wire_tag_ErrorResponse fields
  | BNoticeResponse fields => encode_notice_or_error oc wire_tag_NoticeResponse fields
  | BEmptyQuery => Ok (wire_tag_EmptyQueryResponse :: be32 wire_fixed_len_EmptyQueryResponse)
  end.
