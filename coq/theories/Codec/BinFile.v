(** Model of the binary database file: persistence/binary/{format.rs (header), catalog.rs, data.rs,
    mod.rs (save_binary / load_binary)}, together with the parts of the storage layer the loader
    drives: [Catalog::create_schema/create_role/create_table/create_trigger], [Database::create_table],
    [Database::get_table] (the four-step name lookup), [Database::create_index] (table + column
    resolution, index entries built from the rows present AT THAT MOMENT), and [Table::insert]
    = [RowNormalizer::normalize_and_validate] + push (table/normalization.rs) -- which does NOT
    maintain the database-level user indexes; [read_data] therefore rebuilds them at its end.

    The database state is a plain record of lists in insertion order ([HashMap] iteration order is not
    modelled; the correspondence run feeds the model the order the implementation used).

    No proofs in this file. *)
From Coq Require Import String List ZArith Bool.
From VibeSQL Require Import Generated.Consts Value.SqlValue Codec.BinUtf8 Codec.BinDec Codec.BinPrim
  Codec.BinValue Codec.BinType Codec.BinExpr.
Import ListNotations.
Open Scope Z_scope.

Record column : Type := mkCol { c_name : bytes; c_type : dtype; c_nullable : bool }.
(** [t_extra]: rows of a table WITHOUT columns are all the empty row; only their number matters and it
    can be as large as a u64 read from a file, so it is kept as a number, never as a list *)
Record table : Type := mkTable { t_name : bytes; t_cols : list column; t_rows : list (list bvalue); t_extra : Z }.
(** [i_name] is the key under which [IndexManager] files the index ([normalize_index_name] = upper
    case), which is also what [list_indexes] returns and what the writer stores.
    [i_entries]: (key values, row index) in row order *)
Record index : Type := mkIndex {
  i_name : bytes; i_table : bytes; i_unique : bool; i_cols : list (bytes * Z);
  i_entries : list (list bvalue * Z) }.
Record db : Type := mkDb {
  d_schemas : list bytes;      (* besides "public" *)
  d_roles : list bytes;
  d_tables : list table;       (* tables of the current schema "public" *)
  d_indexes : list index;
  d_triggers : list bytes }.   (* trigger names (definitions are not needed by anything modelled) *)
Definition empty_db : db := mkDb [] [] [] [] [].

Definition set_tables (d : db) (ts : list table) : db :=
  mkDb (d_schemas d) (d_roles d) ts (d_indexes d) (d_triggers d).

(** * header (format.rs) *)
Definition write_header : bytes := bin_magic ++ [bin_version] ++ bin_header_tail.

Definition version_rejected (v : Z) : bool :=
  if bin_version_reject_op =? 0 then bin_version <? v
  else if bin_version_reject_op =? 1 then bin_version <=? v
  else negb (v =? bin_version).

Definition read_header : dec unit :=
  magic <- read_exact (nth 0 bin_header_read_sizes 0) ;;
  if negb (bytes_eqb magic bin_magic) then fail EMagic else
  v <- read_exact (nth 1 bin_header_read_sizes 0) ;;
  if version_rejected (le_val v) then fail EVersion else
  skip (read_exact (nth 2 bin_header_read_sizes 0)) ;;;
  skip (read_exact (nth 3 bin_header_read_sizes 0)).

(** * Table::insert (table/mod.rs + table/normalization.rs) *)
Inductive nres : Type :=
| NOk (v : bvalue)
| NErr
| NPanic (p : panic)
| NUnknown.

Definition of_parse {A} (k : Z) (r : presult A) (f : A -> bvalue) : nres :=
  match r with
  | POk a => NOk (f a)
  | PErr => NErr
  | PPanic => NPanic (PTemporal k)
  | PUnknown => NUnknown
  end.

Definition u16_max : Z := 65535.

(** [normalize_char_value]: CHAR(n) counts CHARACTERS: pad with spaces through
    [format!("{:width$}")] when the value has fewer than [n] characters (the format machinery panics
    for a width above u16::MAX), keep the first [n] characters when it has more.  The event records the
    requested width. *)
Definition normalize_char (s : bytes) (n : Z) : trace * nres :=
  let c := char_count s in
  if c <? n then
    if u16_max <? n then ([], NPanic PFmtWidth)
    else ([Alloc n], NOk (BV (VCharacter (s ++ repeat 32 (Z.to_nat (n - c))))))
  else if n <? c then ([], NOk (BV (VCharacter (take_chars (Z.to_nat n) s))))
  else ([], NOk (BV (VCharacter s))).

(** VARCHAR(n) / NAME: cut at the last character boundary at or below byte [n] *)
Definition truncate_varchar (s : bytes) (n : Z) : nres :=
  if n <? blen s then NOk (BV (VVarchar (truncate_at_char_boundary s n)))
  else NOk (BV (VVarchar s)).

Definition keep_if (c : bool) (v : bvalue) : trace * nres := ([], if c then NOk v else NErr).

(** [validate_and_normalize_value] for a non-NULL value *)
Definition normalize_value (E : env) (ty : dtype) (v : bvalue) : trace * nres :=
  match ty with
  | TInteger => keep_if (match v with BV (VInteger _) => true | _ => false end) v
  | TSmallint => keep_if (match v with BV (VSmallint _) => true | _ => false end) v
  | TBigint => keep_if (match v with BV (VBigint _) => true | _ => false end) v
  | TUnsigned => keep_if (match v with BV (VUnsigned _) => true | _ => false end) v
  | TNumeric _ _ | TDecimal _ _ => keep_if (match v with BV (VNumeric _) => true | _ => false end) v
  | TFloat _ => keep_if (match v with BV (VFloat _) => true | _ => false end) v
  | TReal => keep_if (match v with BV (VReal _) => true | _ => false end) v
  | TDouble => keep_if (match v with BV (VDouble _) => true | _ => false end) v
  | TChar n => match v with BV (VCharacter s) => normalize_char s n | _ => ([], NErr) end
  | TVarchar (Some n) => match v with BV (VVarchar s) => ([], truncate_varchar s n) | _ => ([], NErr) end
  | TVarchar None => keep_if (match v with BV (VVarchar _) => true | _ => false end) v
  | TName => match v with BV (VVarchar s) => ([], truncate_varchar s 128) | _ => ([], NErr) end
  | TClob | TBlob => keep_if (match v with BV (VVarchar _) => true | _ => false end) v
  | TBoolean => keep_if (match v with BV (VBoolean _) => true | _ => false end) v
  | TDate =>
      match v with
      | BV (VDate _ _ _) => ([], NOk v)
      | BV (VVarchar s) | BV (VCharacter s) =>
          ([], of_parse 0 (parse_date E s) (fun '(y, m, d) => BV (VDate y m d)))
      | _ => ([], NErr)
      end
  | TTime _ =>
      match v with
      | BV (VTime _ _ _ _) => ([], NOk v)
      | BV (VVarchar s) | BV (VCharacter s) =>
          ([], of_parse 1 (parse_time E s) (fun '(h, mi, se, ns) => BV (VTime h mi se ns)))
      | _ => ([], NErr)
      end
  | TTimestamp _ =>
      match v with
      | BV (VTimestamp _ _ _ _ _ _ _) => ([], NOk v)
      | BV (VVarchar s) | BV (VCharacter s) =>
          ([], of_parse 2 (parse_timestamp E s)
                 (fun '(y, m, d, h, mi, se, ns) => BV (VTimestamp y m d h mi se ns)))
      | _ => ([], NErr)
      end
  | TInterval _ => keep_if (match v with BInterval _ => true | _ => false end) v
  | TBit _ =>
      keep_if (match v with
               | BV (VVarchar _) | BV (VInteger _) | BV (VBigint _) | BV (VUnsigned _) => true
               | _ => false end) v
  | TUserDefined _ | TNull => ([], NOk v)
  end.

Definition is_null (v : bvalue) : bool := match v with BV VNull => true | _ => false end.

(** the single pass over the columns, left to right; the first failing column decides *)
Fixpoint normalize_cols (E : env) (cols : list column) (vals : list bvalue)
  : trace * outcome (list bvalue) :=
  match cols, vals with
  | c :: cs, v :: vs =>
      if is_null v then
        if negb (c_nullable c) then ([], Err (EInsert 1))
        else match normalize_cols E cs vs with
             | (t, Ok r _) => (t, Ok (v :: r) [])
             | (t, o) => (t, o)
             end
      else
        match normalize_value E (c_type c) v with
        | (t1, NOk v') =>
            match normalize_cols E cs vs with
            | (t2, Ok r _) => (t1 ++ t2, Ok (v' :: r) [])
            | (t2, o) => (t1 ++ t2, o)
            end
        | (t1, NErr) => (t1, Err (EInsert 2))
        | (t1, NPanic p) => (t1, Panic p)
        | (t1, NUnknown) => (t1, Unmodelled)
        end
  | _, _ => ([], Ok [] [])
  end.

(** [RowNormalizer::normalize_and_validate] ([rest] of the [Ok] is unused) *)
Definition normalize_row (E : env) (cols : list column) (vals : list bvalue)
  : trace * outcome (list bvalue) :=
  if negb (length vals =? length cols)%nat then ([], Err (EInsert 0))
  else normalize_cols E cols vals.

(** [Table::insert]: normalise, then push (the table built by [TableSchema::new] has no primary key
    or unique constraint, so the table-level hash indexes are empty) *)
Definition table_insert (E : env) (t : table) (vals : list bvalue) : dec table :=
  fun bs =>
    match normalize_row E (t_cols t) vals with
    | (tr, Ok r _) => (tr, Ok (mkTable (t_name t) (t_cols t) (t_rows t ++ [r]) (t_extra t)) bs)
    | (tr, o) => (tr, cast_out o)
    end.

(** * name resolution *)
Definition public_dot : bytes := lit "public.".
Definition has_dot (s : bytes) : bool := existsb (Z.eqb 46) s.
(** key of a table in [Database::tables] *)
Definition tkey (t : table) : bytes := public_dot ++ t_name t.

Fixpoint find_idx {A} (p : A -> bool) (l : list A) : option nat :=
  match l with
  | [] => None
  | x :: r => if p x then Some O else option_map S (find_idx p r)
  end.
Definition find_key (ts : list table) (k : bytes) : option nat := find_idx (fun t => bytes_eqb (tkey t) k) ts.

Definition or_else {A} (a : option A) (b : presult A) : presult A :=
  match a with Some x => POk x | None => b end.

(** [Database::get_table]/[get_table_mut]: (1) the name as is, (2) upper-cased, (3) "public."+name,
    (4) "public."+UPPER -- steps 3/4 only for names without a dot.  [PErr] = not found. *)
Definition get_table_idx (ts : list table) (name : bytes) : presult nat :=
  or_else (find_key ts name)
    (if is_ascii name then
       let up := ascii_upper name in
       or_else (if bytes_eqb up name then None else find_key ts up)
         (if has_dot name then PErr
          else or_else (find_key ts (public_dot ++ name))
                 (or_else (if bytes_eqb up name then None else find_key ts (public_dot ++ up)) PErr))
     else
       (* to_uppercase of a non-ASCII name is not modelled; a key never equals an upper-cased string
          (every key starts with the lower-case "public."), so step 2 cannot hit and step 3 is exact *)
       if has_dot name then PUnknown
       else or_else (find_key ts (public_dot ++ name)) PUnknown).

(** split at the first '.' *)
Fixpoint split_once_dot (s : bytes) : option (bytes * bytes) :=
  match s with
  | [] => None
  | c :: r => if c =? 46 then Some ([], r)
              else match split_once_dot r with Some (a, b) => Some (c :: a, b) | None => None end
  end.

(** table resolution of [DatabaseOperations::create_index]: storage lookup (name, or "public."+name
    when it has no dot), then [Catalog::get_table] (case-sensitive identifiers: exact names) *)
Definition index_table_idx (d : db) (name : bytes) : option nat :=
  let storage := match find_key (d_tables d) name with
                 | Some i => Some i
                 | None => if has_dot name then None else find_key (d_tables d) (public_dot ++ name)
                 end in
  match storage with
  | None => None
  | Some _ =>
      match split_once_dot name with
      | Some (sch, tn) =>
          if bytes_eqb sch (lit "public") then find_idx (fun t => bytes_eqb (t_name t) tn) (d_tables d)
          else None      (* other schemas exist but hold no tables *)
      | None => find_idx (fun t => bytes_eqb (t_name t) name) (d_tables d)
      end
  end.

(** [TableSchema::get_column_index]: exact name through the cache (for duplicate names the LAST
    column wins), then case-insensitively (first match) *)
Fixpoint last_idx {A} (p : A -> bool) (l : list A) (i : nat) (acc : option nat) : option nat :=
  match l with
  | [] => acc
  | x :: r => last_idx p r (S i) (if p x then Some i else acc)
  end.
Definition column_idx (cols : list column) (name : bytes) : presult nat :=
  or_else (last_idx (fun c => bytes_eqb (c_name c) name) cols O None)
    (if is_ascii name && forallb (fun c => is_ascii (c_name c)) cols then
       or_else (find_idx (fun c => bytes_eqb (ascii_lower (c_name c)) (ascii_lower name)) cols) PErr
     else PUnknown).

(** all columns of an index resolved, left to right *)
Fixpoint columns_idx (cols : list column) (names : list (bytes * Z)) : presult (list nat) :=
  match names with
  | [] => POk []
  | (n, _) :: r =>
      match column_idx cols n with
      | POk i => match columns_idx cols r with POk l => POk (i :: l) | o => o end
      | PErr => PErr
      | PPanic => PPanic
      | PUnknown => PUnknown
      end
  end.

Definition index_key (row : list bvalue) (idxs : list nat) : list bvalue :=
  map (fun i => nth i row (BV VNull)) idxs.
Fixpoint entries_from (rows : list (list bvalue)) (idxs : list nat) (i : Z) : list (list bvalue * Z) :=
  match rows with
  | [] => []
  | r :: rs => (index_key r idxs, i) :: entries_from rs idxs (i + 1)
  end.

(** ** the uniqueness check of [IndexManager::create_index] (UNIQUE indexes only): keys are compared
    after [normalize_for_comparison] (every numeric variant becomes an f64) with [SqlValue]'s [Eq];
    keys containing NULL are skipped.  Integers beyond 2^53 (inexact as f64), INTERVAL keys and keys
    mixing integer and float variants are not pinned down by this model ([PUnknown]). *)
Inductive nkey : Type := NInt (z : Z) | NF64 (b : Z) | NF32 (b : Z) | NOther (v : sqlvalue) | NUnk.

Definition nkey_of (b : bvalue) : nkey :=
  match b with
  | BInterval _ => NUnk
  | BV v =>
      match v with
      | VInteger z | VSmallint z | VBigint z | VUnsigned z =>
          if Z.abs z <=? 2 ^ 53 then NInt z else NUnk
      | VDouble x | VNumeric x => NF64 x
      | VFloat x | VReal x => NF32 x
      | VInterval _ _ _ => NUnk
      | other => NOther other
      end
  end.

Definition nkey_eq (a b : nkey) : option bool :=
  match a, b with
  | NUnk, _ | _, NUnk => None
  | NInt p, NInt q => Some (p =? q)
  | NF64 p, NF64 q => Some (f_eqb 64 p q)
  | NF32 p, NF32 q => Some (f_eqb 32 p q)
  | NOther x, NOther y => Some (eqb x y)
  | NOther _, _ | _, NOther _ => Some false
  | _, _ => None
  end.

(** are two keys equal?  [Some false] as soon as one component definitely differs *)
Fixpoint key_eq (a b : list nkey) : option bool :=
  match a, b with
  | [], [] => Some true
  | x :: a', y :: b' =>
      match nkey_eq x y with
      | Some false => Some false
      | Some true => key_eq a' b'
      | None => match key_eq a' b' with Some false => Some false | _ => None end
      end
  | _, _ => Some false
  end.

(** [POk]: no duplicate NULL-free key; [PErr]: a definite duplicate; [PUnknown]: undecided *)
Fixpoint unique_check (seen : list (list nkey)) (keys : list (list bvalue)) : presult unit :=
  match keys with
  | [] => POk tt
  | k :: r =>
      if existsb is_null k then unique_check seen r
      else
        let nk := map nkey_of k in
        let cmp := map (key_eq nk) seen in
        if existsb (fun c => match c with Some true => true | _ => false end) cmp then PErr
        else if existsb (fun c => match c with None => true | _ => false end) cmp then PUnknown
        else unique_check (nk :: seen) r
  end.

Definition index_unique_ok (unique : bool) (rows : list (list bvalue)) (idxs : list nat) : presult unit :=
  if unique then unique_check [] (map (fun r => index_key r idxs) rows) else POk tt.

(** [Database::create_index] *)
Definition create_index (d : db) (name tname : bytes) (unique : bool) (cols : list (bytes * Z))
  : outcome db :=
  match index_table_idx d tname with
  | None => Err (ECatalog 3)
  | Some ti =>
      if negb (is_ascii name) then Unmodelled else
      let key := ascii_upper name in
      if existsb (fun i => bytes_eqb (i_name i) key) (d_indexes d) then Err (ECatalog 4) else
      match nth_error (d_tables d) ti with
      | None => Err (ECatalog 3)
      | Some t =>
          match columns_idx (t_cols t) cols with
          | POk idxs =>
              match index_unique_ok unique (t_rows t) idxs with
              | POk _ =>
                  Ok (mkDb (d_schemas d) (d_roles d) (d_tables d)
                        (d_indexes d ++ [mkIndex key tname unique cols (entries_from (t_rows t) idxs 0)])
                        (d_triggers d)) []
              | PErr => Err (ECatalog 8)
              | _ => Unmodelled
              end
          | PErr => Err (ECatalog 5)
          | _ => Unmodelled
          end
      end
  end.

Definition lift {A} (o : outcome A) : dec A :=
  fun bs => ([], match o with Ok a _ => Ok a bs | o' => o' end).

(** * catalog section (catalog.rs) *)
Definition w_list {A} (f : A -> bytes) (l : list A) : bytes := w_u32 (Z.of_nat (length l)) ++ flat_map f l.

Definition write_column (c : column) : bytes :=
  w_string (c_name c) ++ w_string (format_data_type (c_type c)) ++ w_bool (c_nullable c).
Definition write_table_schema (t : table) : bytes := w_string (t_name t) ++ w_list write_column (t_cols t).
Definition write_index (i : index) : bytes :=
  w_string (i_name i) ++ w_string (i_table i) ++ w_bool (i_unique i)
  ++ w_list (fun '(c, dir) => w_string c ++ w_u8 dir) (i_cols i).

(** [write_catalog] for a database without triggers *)
Definition write_catalog (d : db) : bytes :=
  w_list w_string (d_schemas d) ++ w_list w_string (d_roles d)
  ++ w_list write_table_schema (d_tables d) ++ w_list write_index (d_indexes d) ++ w_u32 0.

Definition read_column : dec column :=
  n <- read_string ;;
  ts <- read_string ;;
  nl <- read_bool ;;
  match parse_data_type ts with
  | POk ty => ret (mkCol n ty nl)
  | PErr => fail EDataType
  | _ => stop Unmodelled
  end.

Definition read_table_schema : dec table :=
  n <- read_string ;;
  cc <- read_u32 ;;
  cols <- loop cc read_column ;;
  ret (mkTable n cols [] 0).

Definition read_index_spec : dec (bytes * bytes * bool * list (bytes * Z)) :=
  n <- read_string ;;
  tn <- read_string ;;
  u <- read_bool ;;
  cc <- read_u32 ;;
  cols <- loop cc (c <- read_string ;;
                   dirb <- read_u8 ;;
                   if existsb (Z.eqb dirb) bin_direction_tags then ret (c, dirb) else fail (EEnum 0 dirb)) ;;
  ret (n, tn, u, cols).

(** one trigger definition; returns its name *)
Definition read_trigger (E : env) : dec bytes :=
  n <- read_string ;;
  skip read_string ;;;
  read_enum 1 bin_timing_tags ;;;
  (ev <- read_u8 ;;
   if ev =? 3 then (cn <- read_u32 ;; skip (loop cn read_string))
   else if existsb (Z.eqb ev) bin_event_tags then ret tt
   else fail (EEnum 2 ev)) ;;;
  read_enum 3 bin_granularity_tags ;;;
  opt (read_expression E) ;;;
  read_enum 4 bin_action_tags ;;;
  skip read_string ;;;
  ret n.

Fixpoint fold_out {A St} (f : St -> A -> outcome St) (l : list A) (s : St) : outcome St :=
  match l with
  | [] => Ok s []
  | x :: r => match f s x with Ok s' _ => fold_out f r s' | o => o end
  end.

Definition add_unique (what : Z) (l : list bytes) (n : bytes) : outcome (list bytes) :=
  if existsb (bytes_eqb n) l then Err (ECatalog what) else Ok (l ++ [n]) [].

(** [read_catalog].  Objects are created in the order of the Rust code: each schema and role as it is
    read; all table schemas are read first and then created; likewise the indexes; each trigger as read. *)
Definition create_table (d : db) (t : table) : outcome db :=
  (* Catalog::create_table: exact-name duplicate check (case-sensitive identifiers) *)
  if existsb (fun t' => bytes_eqb (t_name t') (t_name t)) (d_tables d) then Err (ECatalog 2)
  else Ok (set_tables d (d_tables d ++ [t])) [].

Definition read_catalog (E : env) : dec db :=
  sc <- read_u32 ;;
  schemas <- iter sc (fun l => n <- read_string ;;
                               lift (if bytes_eqb n (lit "public") then Err (ECatalog 0) else add_unique 0 l n)) [] ;;
  rc <- read_u32 ;;
  roles <- iter rc (fun l => n <- read_string ;; lift (add_unique 1 l n)) [] ;;
  tc <- read_u32 ;;
  tschemas <- loop tc read_table_schema ;;
  d1 <- lift (fold_out create_table tschemas (mkDb schemas roles [] [] [])) ;;
  ic <- read_u32 ;;
  specs <- loop ic read_index_spec ;;
  d2 <- lift (fold_out (fun d '(n, tn, u, cols) => create_index d n tn u cols) specs d1) ;;
  trc <- read_u32 ;;
  trigs <- iter trc (fun l => n <- read_trigger E ;; lift (add_unique 6 l n)) [] ;;
  ret (mkDb (d_schemas d2) (d_roles d2) (d_tables d2) (d_indexes d2) trigs).

(** * data section (data.rs) *)
Definition write_table_data (t : table) : bytes :=
  w_string (t_name t) ++ w_u64 (Z.of_nat (length (t_rows t)) + t_extra t)
  ++ flat_map (fun r => flat_map write_value r) (t_rows t).
Definition write_data (d : db) : bytes := flat_map write_table_data (d_tables d).

Fixpoint replace_nth {A} (n : nat) (x : A) (l : list A) : list A :=
  match l, n with
  | [], _ => []
  | _ :: r, O => x :: r
  | y :: r, S n' => y :: replace_nth n' x r
  end.

(** the rows of one table: [row_count] times ([column_count] values, then [Table::insert]).
    A table without columns must not claim rows (the loop would consume no input): rejected. *)
Definition read_rows (E : env) (t : table) (row_count : Z) : dec table :=
  let ncols := Z.of_nat (length (t_cols t)) in
  if ncols =? 0 then
    if row_count <=? 0 then ret t else fail (ECatalog 7)
  else
    iter row_count (fun t' => vals <- loop ncols (read_value E) ;; table_insert E t' vals) t.

Definition read_table_data (E : env) (d : db) : dec db :=
  name <- read_string ;;
  row_count <- read_u64 ;;
  match get_table_idx (d_tables d) name with
  | POk i =>
      match nth_error (d_tables d) i with
      | Some t => t' <- read_rows E t row_count ;; ret (set_tables d (replace_nth i t' (d_tables d)))
      | None => fail ETableNotFound
      end
  | PErr => fail ETableNotFound
  | _ => stop Unmodelled
  end.

(** rebuilding one user index from the rows now present: [drop_index] then [create_index] with the
    recorded definition (same table and column resolution as when the catalog was read) *)
Definition rebuild_index (d : db) (i : index) : outcome index :=
  match index_table_idx d (i_table i) with
  | None => Err (ECatalog 3)
  | Some ti =>
      match nth_error (d_tables d) ti with
      | None => Err (ECatalog 3)
      | Some t =>
          match columns_idx (t_cols t) (i_cols i) with
          | POk idxs =>
              match index_unique_ok (i_unique i) (t_rows t) idxs with
              | POk _ => Ok (mkIndex (i_name i) (i_table i) (i_unique i) (i_cols i) (entries_from (t_rows t) idxs 0)) []
              | PErr => Err (ECatalog 8)
              | _ => Unmodelled
              end
          | PErr => Err (ECatalog 5)
          | _ => Unmodelled
          end
      end
  end.

Fixpoint rebuild_all (d : db) (l : list index) : outcome (list index) :=
  match l with
  | [] => Ok [] []
  | i :: r =>
      match rebuild_index d i with
      | Ok i' _ => match rebuild_all d r with Ok r' _ => Ok (i' :: r') [] | o => o end
      | o => cast_out o
      end
  end.

Definition rebuild_indexes (d : db) : outcome db :=
  match rebuild_all d (d_indexes d) with
  | Ok l _ => Ok (mkDb (d_schemas d) (d_roles d) (d_tables d) l (d_triggers d)) []
  | o => cast_out o
  end.

(** [read_data]: as many table blocks as the catalog has tables, then every user index is rebuilt
    from the loaded rows; trailing bytes are ignored *)
Definition read_data (E : env) (d : db) : dec db :=
  d' <- iter (Z.of_nat (length (d_tables d))) (read_table_data E) d ;;
  lift (rebuild_indexes d').

(** * whole file (mod.rs) *)
Definition save_binary (d : db) : bytes := write_header ++ write_catalog d ++ write_data d.
Definition load_binary (E : env) : dec db := read_header ;;; d <- read_catalog E ;; read_data E d.

(** what the caller of [Database::load_binary] observes *)
Definition load_result (E : env) (bs : bytes) : outcome db := snd (load_binary E bs).
Definition load_trace (E : env) (bs : bytes) : trace := fst (load_binary E bs).
