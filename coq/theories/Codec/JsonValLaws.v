(** Laws of the JSON value mapping (JsonVal.v). *)
From Coq Require Import String List ZArith Bool Lia.
From VibeSQL Require Import Value.SqlValue Codec.BinUtf8 Codec.BinDec Codec.BinValue Codec.BinType Codec.BinCanon
  Codec.BinValueLaws Codec.JsonVal.
Import ListNotations.
Open Scope Z_scope.

Lemma in_range_i64 z : in_range (- 2 ^ 63) (2 ^ 63) z = true -> in_i64 z = true.
Proof. unfold in_range, in_i64. auto. Qed.

(** every finite, well-typed, well-formed value survives [sql_value_to_json] then [json_value_to_sql];
    needs from the float conversions only that narrowing undoes widening on finite f32 values *)
Theorem json_value_roundtrip E F ty v :
  (forall b, 0 <= b < 2 ^ 32 -> finite 32 b = true -> narrow F (widen F b) = b) ->
  typed ty v = true -> wf_bvalue v = true -> finite_value v = true -> temporal_roundtrips E v ->
  json_value_to_sql E F (sql_value_to_json F v) ty = POk v.
Proof.
  intros HF Hty Hwf Hfin Htr.
  destruct v as [v|t].
  - destruct v; cbn [wf_bvalue wf] in Hwf; cbn [finite_value] in Hfin; cbn [temporal_roundtrips] in Htr;
      destruct ty; cbn [typed] in Hty; try discriminate; cbn [sql_value_to_json json_value_to_sql as_f64];
      try reflexivity;
      try (rewrite (in_range_i64 _ Hwf); reflexivity);
      try (rewrite Hfin; cbn [json_value_to_sql as_f64]; reflexivity);
      try (rewrite Htr; reflexivity).
    + (* Smallint *) apply in_range_spec in Hwf. unfold in_i64, in_i16.
      destruct (Z.leb_spec (- 2 ^ 63) z); destruct (Z.ltb_spec z (2 ^ 63));
        destruct (Z.leb_spec (- 2 ^ 15) z); destruct (Z.ltb_spec z (2 ^ 15)); try reflexivity; lia.
    + (* Unsigned *) unfold in_u64. unfold in_range in Hwf. rewrite Hwf. reflexivity.
    + (* Float *) rewrite Hfin. cbn [json_value_to_sql as_f64]. rewrite HF; [reflexivity | apply in_range_spec, Hwf | exact Hfin].
    + (* Real *) rewrite Hfin. cbn [json_value_to_sql as_f64]. rewrite HF; [reflexivity | apply in_range_spec, Hwf | exact Hfin].
  - destruct ty; cbn [typed] in Hty; try discriminate. cbn [sql_value_to_json json_value_to_sql].
    cbn [temporal_roundtrips] in Htr. rewrite Htr. reflexivity.
Qed.

(** NaN and the infinities do NOT survive: they are written as [null] and come back as NULL *)
Theorem json_value_roundtrip_refuted E F :
  let nan := BV (VDouble 9221120237041090560) in
  let inf := BV (VDouble 9218868437227405312) in
  let ninf32 := BV (VReal 4286578688) in
  json_value_to_sql E F (sql_value_to_json F nan) TDouble = POk (BV VNull)
  /\ json_value_to_sql E F (sql_value_to_json F inf) TDouble = POk (BV VNull)
  /\ json_value_to_sql E F (sql_value_to_json F ninf32) TReal = POk (BV VNull).
Proof. repeat split; reflexivity. Qed.

Example json_value_roundtrip_nontrivial :
  json_value_to_sql (canon_env 10 10) (mkFenv (fun b => b) (fun b => b) (fun z => z))
    (sql_value_to_json (mkFenv (fun b => b) (fun b => b) (fun z => z)) (BV (VUnsigned 18446744073709551615))) TUnsigned
  = POk (BV (VUnsigned 18446744073709551615)).
Proof. reflexivity. Qed.
