(** Codec/WireSpec.v — the PROTOCOL side of C27/C28, written from the PostgreSQL frontend/backend
    protocol description (chapter "Message Formats": Int32 length counts itself but not the type
    byte; String = bytes terminated by NUL; StartupMessage / SSLRequest have no type byte), NOT from
    the Rust encoder/decoder.  All tag bytes and sizes in this file are literals taken from that
    description; the theorems tie them to the constants extracted from the Rust source.

    Contents: frontend encoder + well-formedness, reference (framing-respecting) decoders,
    observation/agreement, the known-defect classifiers of C27, an independent backend frame parser,
    well-formedness of backend messages for C28.   Definitions only. *)
From Coq Require Import ZArith List Bool.
From VibeSQL Require Import Codec.Wire.
Import ListNotations.
Open Scope Z_scope.

(** * Protocol literals *)
Definition P_Query : Z := 81.           (* 'Q' *)
Definition P_Password : Z := 112.       (* 'p' *)
Definition P_Terminate : Z := 88.       (* 'X' *)
Definition P_SSLRequestCode : Z := 80877103.  (* 1234 * 65536 + 5679 *)
Definition P_Authentication : Z := 82.  (* 'R' *)
Definition P_ParameterStatus : Z := 83. (* 'S' *)
Definition P_BackendKeyData : Z := 75.  (* 'K' *)
Definition P_ReadyForQuery : Z := 90.   (* 'Z' *)
Definition P_RowDescription : Z := 84.  (* 'T' *)
Definition P_DataRow : Z := 68.         (* 'D' *)
Definition P_CommandComplete : Z := 67. (* 'C' *)
Definition P_ErrorResponse : Z := 69.   (* 'E' *)
Definition P_NoticeResponse : Z := 78.  (* 'N' *)
Definition P_EmptyQueryResponse : Z := 73. (* 'I' *)

(** signed big-endian readers of the protocol's IntN (total on [Z]: the value is reduced to N bits) *)
Definition s32 (b0 b1 b2 b3 : Z) : Z :=
  let u := (b0 * 16777216 + b1 * 65536 + b2 * 256 + b3) mod 4294967296 in
  if u <? 2147483648 then u else u - 4294967296.
Definition s16 (b0 b1 : Z) : Z :=
  let u := (b0 * 256 + b1) mod 65536 in if u <? 32768 then u else u - 65536.

(** String: the bytes before the first NUL, and what follows that NUL *)
Fixpoint split_nul (b : bytes) : option (bytes * bytes) :=
  match b with
  | [] => None
  | x :: r =>
    if x =? 0 then Some ([], r)
    else match split_nul r with
         | Some (s, t) => Some (x :: s, t)
         | None => None
         end
  end.

Definition no_nul (s : bytes) : bool := forallb (fun x => negb (x =? 0)) s.
Definition cstr (s : bytes) : bytes := s ++ [0].

(** * Frontend: wire format of the messages the server decodes *)
Definition enc_params (ps : list (bytes * bytes)) : bytes :=
  flat_map (fun kv => cstr (fst kv) ++ cstr (snd kv)) ps.

Definition enc_frontend (m : fmsg) : bytes :=
  match m with
  | FQuery q => P_Query :: be32 (4 + blen q + 1) ++ cstr q
  | FPassword p => P_Password :: be32 (4 + blen p + 1) ++ cstr p
  | FTerminate => P_Terminate :: be32 4
  | FStartup v ps => be32 (4 + (4 + blen (enc_params ps) + 1)) ++ be32 v ++ enc_params ps ++ [0]
  | FSSLRequest => be32 8 ++ be32 P_SSLRequestCode
  end.

(** a protocol String that is also a Rust String: no NUL, well-formed UTF-8 *)
Definition wf_str (s : bytes) : bool := no_nul s && utf8_valid s.

Fixpoint nodup_keys (ps : list (bytes * bytes)) : bool :=
  match ps with
  | [] => true
  | kv :: r => negb (existsb (fun kv' => beqb (fst kv) (fst kv')) r) && nodup_keys r
  end.

Definition is_nil (s : bytes) : bool := match s with [] => true | _ => false end.

Definition wf_frontend (m : fmsg) : bool :=
  match m with
  | FQuery q => wf_str q && (blen q + 5 <? two31)
  | FPassword p => wf_str p && (blen p + 5 <? two31)
  | FTerminate => true
  | FSSLRequest => true
  | FStartup v ps =>
      in_i32 v && negb (v =? P_SSLRequestCode)
      && forallb (fun kv => wf_str (fst kv) && negb (is_nil (fst kv)) && wf_str (snd kv)) ps
      && nodup_keys ps
      && (blen (enc_params ps) + 9 <? two31)
  end.

Definition is_startup_kind (m : fmsg) : bool :=
  match m with FStartup _ _ | FSSLRequest => true | _ => false end.

(** * Reference decoders: what a framing-respecting decoder returns.  The frame is cut off first
    (declared length), the payload is parsed INSIDE it, the rest of the buffer is never looked at. *)
Inductive outcome := OMsg (m : fmsg) (rest : bytes) | ONeedMore | OError.

Definition spec_string_msg (mk : bytes -> fmsg) (body rest : bytes) : outcome :=
  match split_nul body with
  | Some (s, []) => if utf8_valid s then OMsg (mk s) rest else OError
  | _ => OError
  end.

Definition spec_decode (b : bytes) : outcome :=
  match b with
  | t :: b0 :: b1 :: b2 :: b3 :: r =>
    let L := s32 b0 b1 b2 b3 in
    if L <? 4 then OError else
    if blen r <? L - 4 then ONeedMore else
    let n := Z.to_nat (L - 4) in
    let body := firstn n r in
    let rest := skipn n r in
    if t =? P_Query then spec_string_msg FQuery body rest
    else if t =? P_Password then spec_string_msg FPassword body rest
    else if t =? P_Terminate then OMsg FTerminate rest
    else OError
  | _ => ONeedMore
  end.

(** name/value pairs, then a terminator that must be the last byte of the packet *)
Fixpoint spec_params (fuel : nat) (body : bytes) (acc : list (bytes * bytes)) : option (list (bytes * bytes)) :=
  match fuel with
  | O => None
  | S f =>
    match split_nul body with
    | None => None
    | Some ([], r) => match r with [] => Some acc | _ :: _ => None end
    | Some (k, r) =>
      if utf8_valid k then
        match split_nul r with
        | None => None
        | Some (v, r') => if utf8_valid v then spec_params f r' (hm_insert k v acc) else None
        end
      else None
    end
  end.

Definition spec_decode_startup (b : bytes) : outcome :=
  match b with
  | b0 :: b1 :: b2 :: b3 :: r =>
    let L := s32 b0 b1 b2 b3 in
    if L <? 8 then OError else
    if blen r <? L - 4 then ONeedMore else
    let n := Z.to_nat (L - 4) in
    let body := firstn n r in
    let rest := skipn n r in
    match body with
    | v0 :: v1 :: v2 :: v3 :: pbody =>
      let v := s32 v0 v1 v2 v3 in
      if v =? P_SSLRequestCode then OMsg FSSLRequest rest
      else match spec_params (S (length pbody)) pbody [] with
           | Some ps => OMsg (FStartup v ps) rest
           | None => OError
           end
    | _ => OError
    end
  | _ => ONeedMore
  end.

(** * Observations of the implementation model and agreement with the reference *)
Inductive obs := VMsg (m : fmsg) (rest : bytes) | VNeed (rest : bytes) | VErr | VPanic | VFuel.

Definition observe (r : dres) : obs :=
  match r with
  | (Ok (Some m), b') => VMsg m b'
  | (Ok None, b') => VNeed b'
  | (Err _, _) => VErr
  | (Panic, _) => VPanic
  | (Fuel, _) => VFuel
  end.

(** need-more must leave the buffer untouched; after an error the buffer is irrelevant (the
    connection is dropped: connection.rs propagates the error with [?]) *)
Definition agrees (o : obs) (b : bytes) (s : outcome) : Prop :=
  match s with
  | OMsg m rest => o = VMsg m rest
  | ONeedMore => o = VNeed b
  | OError => o = VErr
  end.

(** * Declared length and the known-defect classes of C27 (classifiers on the input bytes) *)
Definition header (b : bytes) : option (Z * Z * bytes) :=
  match b with
  | t :: b0 :: b1 :: b2 :: b3 :: r => Some (t, s32 b0 b1 b2 b3, r)
  | _ => None
  end.
Definition declared_len (b : bytes) : Z :=
  match header b with Some (_, L, _) => L | None => 0 end.
Definition startup_header (b : bytes) : option (Z * bytes) :=
  match b with
  | b0 :: b1 :: b2 :: b3 :: r => Some (s32 b0 b1 b2 b3, r)
  | _ => None
  end.
Definition startup_declared_len (b : bytes) : Z :=
  match startup_header b with Some (L, _) => L | None => 0 end.

Definition is_string_tag (t : Z) : bool := (t =? P_Query) || (t =? P_Password).

(** [decode]: declared length -1 (0xFFFFFFFF): `1 + len` overflows usize (panic with overflow checks) *)
Definition k_len_minus1 (b : bytes) : bool :=
  match header b with Some (_, L, _) => L =? -1 | None => false end.
(** [decode]: any negative declared length (panic, or a wait that no further byte can end) *)
Definition k_neg_len (b : bytes) : bool :=
  match header b with Some (_, L, _) => L <? 0 | None => false end.
(** [decode]: declared length 0..3 accepted: 5 header bytes (and a string) are consumed although the
    frame claims to be shorter than its own length field *)
Definition k_small_len (b : bytes) : bool :=
  match header b with
  | Some (t, L, r) =>
      (0 <=? L) && (L <? 4)
      && ((t =? P_Terminate)
          || (is_string_tag t && match split_nul r with Some (s, _) => utf8_valid s | None => false end))
  | None => false
  end.
Definition frame_complete (L : Z) (r : bytes) : bool := (4 <=? L) && (L - 4 <=? blen r).
(** [decode] Q/p: no NUL inside the frame, [read_cstring] runs on into the following bytes *)
Definition k_cross_frame (b : bytes) : bool :=
  match header b with
  | Some (t, L, r) =>
      frame_complete L r && is_string_tag t
      && match split_nul r with Some (s, _) => (L - 5 <? blen s) && utf8_valid s | None => false end
  | None => false
  end.
(** [decode] Q/p: a NUL before the last payload byte, the tail of the frame stays in the buffer *)
Definition k_early_nul (b : bytes) : bool :=
  match header b with
  | Some (t, L, r) =>
      frame_complete L r && is_string_tag t
      && match split_nul r with Some (s, _) => (blen s <? L - 5) && utf8_valid s | None => false end
  | None => false
  end.
(** [decode] X with a payload: only the 5 header bytes are consumed *)
Definition k_terminate_tail (b : bytes) : bool :=
  match header b with
  | Some (t, L, r) => frame_complete L r && (t =? P_Terminate) && (4 <? L)
  | None => false
  end.

Definition known_decode (b : bytes) : bool :=
  k_neg_len b || k_small_len b || k_cross_frame b || k_early_nul b || k_terminate_tail b.
(** the classes in which a message is returned whose consumption differs from the declared frame *)
Definition misframed (b : bytes) : bool :=
  k_len_minus1 b || k_small_len b || k_cross_frame b || k_early_nul b || k_terminate_tail b.

Definition is_vmsg (o : obs) : bool := match o with VMsg _ _ => true | _ => false end.
Definition is_verr (o : obs) : bool := match o with VErr => true | _ => false end.
Definition obs_rest_len (o : obs) : Z :=
  match o with VMsg _ r => blen r | VNeed r => blen r | _ => 0 end.

(** [decode_startup]: negative declared length: "need more" for ever *)
Definition ks_neg_len (b : bytes) : bool :=
  match startup_header b with Some (L, _) => L <? 0 | None => false end.
(** [decode_startup]: declared length 0..7 not rejected: while fewer bytes than that are buffered the
    decoder waits for the rest of a packet that can never be valid *)
Definition ks_short_wait (b : bytes) : bool :=
  match startup_header b with
  | Some (L, r) => (0 <=? L) && (L <? 8) && (blen b <? L)
  | None => false
  end.
(** [decode_startup]: declared length 0..7 and fewer than 8 bytes buffered: [get_i32] panics *)
Definition ks_short_panic (b : bytes) : bool :=
  match startup_header b with
  | Some (L, r) => (0 <=? L) && (L <? 8) && (L <=? blen b) && (blen b <? 8)
  | None => false
  end.
(** [decode_startup]: declared length 0..7, 8 or more bytes buffered: the version (and parameters) are read
    from beyond the declared packet *)
Definition ks_short_overread (b : bytes) : bool :=
  match startup_header b with
  | Some (L, r) => (0 <=? L) && (L <? 8) && (8 <=? blen b) && negb (is_verr (observe (decode_startup b)))
  | None => false
  end.
(** [decode_startup]: SSLRequest code in a packet longer than 8: the tail stays in the buffer *)
Definition ks_ssl_tail (b : bytes) : bool :=
  match startup_header b with
  | Some (L, v0 :: v1 :: v2 :: v3 :: _) =>
      (8 <? L) && (L <=? blen b) && (s32 v0 v1 v2 v3 =? P_SSLRequestCode)
  | _ => false
  end.
(** [decode_startup]: the parameter list does not end exactly at the declared packet end (terminator early:
    tail left in the buffer; no terminator inside: following bytes swallowed) *)
Definition ks_params_misframed (b : bytes) : bool :=
  match startup_header b with
  | Some (L, v0 :: v1 :: v2 :: v3 :: _) =>
      (8 <=? L) && (L <=? blen b) && negb (s32 v0 v1 v2 v3 =? P_SSLRequestCode)
      && is_vmsg (observe (decode_startup b))
      && negb (obs_rest_len (observe (decode_startup b)) =? blen b - L)
  | _ => false
  end.
Definition known_startup (b : bytes) : bool :=
  ks_neg_len b || ks_short_wait b || ks_short_panic b || ks_short_overread b || ks_ssl_tail b || ks_params_misframed b.

(** * Streams: the server's read loop in the abstract — bytes arrive in chunks, after every chunk the
    decoder is run until it stops returning messages *)
Inductive stream_end := SNeed (remaining : bytes) | SErr | SPanic | SFuel.

Fixpoint drain (oc : bool) (fuel : nat) (buf : bytes) : list fmsg * stream_end :=
  match fuel with
  | O => ([], SFuel)
  | S f =>
    match decode oc buf with
    | (Ok (Some m), b') => let (ms, e) := drain oc f b' in (m :: ms, e)
    | (Ok None, b') => ([], SNeed b')
    | (Err _, _) => ([], SErr)
    | (Panic, _) => ([], SPanic)
    | (Fuel, _) => ([], SFuel)
    end
  end.

(** feed the chunks one after the other; [drain] after each arrival *)
Fixpoint feed (oc : bool) (buf : bytes) (chunks : list bytes) : list fmsg * stream_end :=
  match chunks with
  | [] => ([], SNeed buf)
  | c :: cs =>
    let buf' := buf ++ c in
    match drain oc (S (length buf')) buf' with
    | (ms, SNeed lft) => let (ms', e) := feed oc lft cs in (ms ++ ms', e)
    | (ms, e) => (ms, e)
    end
  end.

(** * Backend: an independent frame parser (PostgreSQL "Message Formats", backend messages).
    (Lengths are compared in [Z] before any conversion to [nat], so that evaluation never builds a
    unary number from an attacker-sized length field.) *)
Definition parser (A : Type) := bytes -> option (A * bytes).

Definition p_byte : parser Z := fun b => match b with x :: r => Some (x, r) | [] => None end.
Definition p_s16 : parser Z := fun b => match b with b0 :: b1 :: r => Some (s16 b0 b1, r) | _ => None end.
Definition p_s32 : parser Z :=
  fun b => match b with b0 :: b1 :: b2 :: b3 :: r => Some (s32 b0 b1 b2 b3, r) | _ => None end.
Fixpoint p_rep {A : Type} (n : nat) (p : parser A) : parser (list A) :=
  fun b =>
    match n with
    | O => Some ([], b)
    | S k =>
      match p b with
      | None => None
      | Some (x, r) =>
        match p_rep k p r with
        | None => None
        | Some (xs, r') => Some (x :: xs, r')
        end
      end
    end.

(** RowDescription field: String name, Int32 table oid, Int16 attribute number, Int32 type oid,
    Int16 type size, Int32 type modifier, Int16 format code *)
Definition p_field : parser field_desc :=
  fun b =>
    match split_nul b with None => None | Some (name, r0) =>
    match p_s32 r0 with None => None | Some (oid, r1) =>
    match p_s16 r1 with None => None | Some (attr, r2) =>
    match p_s32 r2 with None => None | Some (ty, r3) =>
    match p_s16 r3 with None => None | Some (sz, r4) =>
    match p_s32 r4 with None => None | Some (md, r5) =>
    match p_s16 r5 with None => None | Some (fmt, r6) =>
      Some (mk_field name oid attr ty sz md fmt, r6)
    end end end end end end end.

(** [n <= length b], walking at most [n] cells (no conversion of an untrusted length to unary) *)
Fixpoint has_bytes (b : bytes) (n : Z) : bool :=
  if n <=? 0 then true
  else match b with
       | [] => false
       | _ :: r => has_bytes r (n - 1)
       end.

(** DataRow column: Int32 length (-1 = NULL, no bytes follow), then that many bytes *)
Definition p_value : parser (option bytes) :=
  fun b =>
    match p_s32 b with
    | None => None
    | Some (n, r) =>
      if n =? -1 then Some (None, r)
      else if n <? 0 then None
      else if has_bytes r n then let k := Z.to_nat n in Some (Some (firstn k r), skipn k r)
      else None
    end.

(** Error/NoticeResponse body: (Byte1 type <> 0, String value)*, then a zero byte *)
Fixpoint p_errfields (fuel : nat) (b : bytes) : option (list (Z * bytes) * bytes) :=
  match fuel with
  | O => None
  | S f =>
    match b with
    | [] => None
    | t :: r =>
      if t =? 0 then Some ([], r)
      else match split_nul r with
           | None => None
           | Some (s, r') =>
             match p_errfields f r' with
             | None => None
             | Some (fs, r'') => Some ((t, s) :: fs, r'')
             end
           end
    end
  end.

(** the body must be consumed completely *)
Definition whole {A : Type} (x : option (A * bytes)) : option A :=
  match x with Some (a, []) => Some a | _ => None end.

Definition parse_status (x : Z) : option txstatus :=
  if x =? 73 then Some Idle else if x =? 84 then Some InTransaction else if x =? 69 then Some FailedTransaction
  else None.

Definition parse_body (t : Z) (body : bytes) : option bmsg :=
  if t =? P_Authentication then
    match p_s32 body with
    | Some (code, r) =>
      if code =? 0 then match r with [] => Some BAuthOk | _ => None end
      else if code =? 3 then match r with [] => Some BAuthCleartext | _ => None end
      else if code =? 5 then (if (length r =? 4)%nat then Some (BAuthMD5 r) else None)
      else None
    | None => None
    end
  else if t =? P_ParameterStatus then
    match split_nul body with
    | Some (name, r) => match split_nul r with Some (value, []) => Some (BParameterStatus name value) | _ => None end
    | None => None
    end
  else if t =? P_BackendKeyData then
    match p_s32 body with
    | Some (pid, r) => match p_s32 r with Some (key, []) => Some (BBackendKeyData pid key) | _ => None end
    | None => None
    end
  else if t =? P_ReadyForQuery then
    match body with
    | [x] => match parse_status x with Some st => Some (BReadyForQuery st) | None => None end
    | _ => None
    end
  else if t =? P_RowDescription then
    match p_s16 body with
    | Some (n, r) =>
      if n <? 0 then None
      else match whole (p_rep (Z.to_nat n) p_field r) with Some fs => Some (BRowDescription fs) | None => None end
    | None => None
    end
  else if t =? P_DataRow then
    match p_s16 body with
    | Some (n, r) =>
      if n <? 0 then None
      else match whole (p_rep (Z.to_nat n) p_value r) with Some vs => Some (BDataRow vs) | None => None end
    | None => None
    end
  else if t =? P_CommandComplete then
    match split_nul body with Some (tag, []) => Some (BCommandComplete tag) | _ => None end
  else if t =? P_ErrorResponse then
    match whole (p_errfields (S (length body)) body) with Some fs => Some (BErrorResponse fs) | None => None end
  else if t =? P_NoticeResponse then
    match whole (p_errfields (S (length body)) body) with Some fs => Some (BNoticeResponse fs) | None => None end
  else if t =? P_EmptyQueryResponse then
    match body with [] => Some BEmptyQuery | _ => None end
  else None.

(** one frame: Byte1 type, Int32 length L >= 4 (counts itself, not the type byte), L-4 body bytes *)
Definition parse_backend (b : bytes) : option (bmsg * bytes) :=
  match b with
  | t :: b0 :: b1 :: b2 :: b3 :: r =>
    let L := s32 b0 b1 b2 b3 in
    if L <? 4 then None else
    if blen r <? L - 4 then None else
    let n := Z.to_nat (L - 4) in
    match parse_body t (firstn n r) with
    | Some m => Some (m, skipn n r)
    | None => None
    end
  | _ => None
  end.

(** protocol-level tag and body size of a backend message (independent of the Rust length formulas) *)
Definition tag_of (m : bmsg) : Z :=
  match m with
  | BAuthOk | BAuthCleartext | BAuthMD5 _ => P_Authentication
  | BParameterStatus _ _ => P_ParameterStatus
  | BBackendKeyData _ _ => P_BackendKeyData
  | BReadyForQuery _ => P_ReadyForQuery
  | BRowDescription _ => P_RowDescription
  | BDataRow _ => P_DataRow
  | BCommandComplete _ => P_CommandComplete
  | BErrorResponse _ => P_ErrorResponse
  | BNoticeResponse _ => P_NoticeResponse
  | BEmptyQuery => P_EmptyQueryResponse
  end.

Definition body_size (m : bmsg) : Z :=
  match m with
  | BAuthOk | BAuthCleartext => 4
  | BAuthMD5 salt => 4 + blen salt
  | BParameterStatus n v => blen n + 1 + blen v + 1
  | BBackendKeyData _ _ => 8
  | BReadyForQuery _ => 1
  | BRowDescription fs => 2 + zsum (map (fun f => blen (fd_name f) + 1 + 18) fs)
  | BDataRow vs => 2 + zsum (map (fun v => 4 + match v with Some x => blen x | None => 0 end) vs)
  | BCommandComplete t => blen t + 1
  | BErrorResponse fs | BNoticeResponse fs => zsum (map (fun f => 1 + blen (snd f) + 1) fs) + 1
  | BEmptyQuery => 0
  end.

(** Rust type invariants of a [BackendMessage] value (ranges of i32 / i16 / u8 fields, [u8; 4] salt) *)
Definition typed_field (f : field_desc) : bool :=
  in_i32 (fd_table_oid f) && in_i16 (fd_attr f) && in_i32 (fd_type_oid f)
  && in_i16 (fd_type_size f) && in_i32 (fd_type_mod f) && in_i16 (fd_format f).
Definition typed_backend (m : bmsg) : bool :=
  match m with
  | BAuthMD5 salt => (length salt =? 4)%nat
  | BBackendKeyData p k => in_i32 p && in_i32 k
  | BRowDescription fs => forallb typed_field fs
  | _ => true
  end.

(** the weakest condition under which a message survives encode-then-parse (C28): Strings without NUL,
    field type bytes non-zero, at most 32767 fields/columns (Int16), frame length below 2^31 (Int32) *)
Definition wf_backend (m : bmsg) : bool :=
  (4 + body_size m <? two31)
  && match m with
     | BParameterStatus n v => no_nul n && no_nul v
     | BRowDescription fs => forallb (fun f => no_nul (fd_name f)) fs && (Z.of_nat (length fs) <? two15)
     | BDataRow vs => (Z.of_nat (length vs) <? two15)
     | BCommandComplete t => no_nul t
     | BErrorResponse fs | BNoticeResponse fs => forallb (fun f => negb (fst f =? 0) && no_nul (snd f)) fs
     | _ => true
     end.

(** all bytes of a message are bytes (needed only for the parse-then-encode direction) *)
Definition bytes_backend (m : bmsg) : bool :=
  match m with
  | BAuthMD5 salt => bytes_ok salt
  | BParameterStatus n v => bytes_ok n && bytes_ok v
  | BRowDescription fs => forallb (fun f => bytes_ok (fd_name f)) fs
  | BDataRow vs => forallb (fun v => match v with Some x => bytes_ok x | None => true end) vs
  | BCommandComplete t => bytes_ok t
  | BErrorResponse fs | BNoticeResponse fs => forallb (fun f => is_byte (fst f) && bytes_ok (snd f)) fs
  | _ => true
  end.
