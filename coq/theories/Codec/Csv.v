(** C31 — model of the CLI's import/export code, as written in /repo NOW.

    Sources (all in /repo/crates/vibesql-cli/src):
      data_io.rs            DataIO::{export_csv, export_json, import_csv, import_json}, write_csv_row,
                            escape_csv_value
      executor/validation.rs  validate_table_name, validate_csv_columns, validate_json_columns
      executor/copy_handler.rs  SqlExecutor::handle_copy (validate, generate statements, execute each)
      executor/mod.rs       SqlExecutor::execute: the SELECT branch turns every cell into
                            [format!("{:?}", value)] and names every column "Column"
      commands.rs           MetaCommand::parse, the [\copy] branch

    Text is [list Z] of Unicode scalar values (the Rust code works on [&str]/[char]).
    Library code that is NOT modelled but taken as given: [serde_json::from_str] (a JSON file enters the
    model as its parsed value, [None] = "Invalid JSON format"), [Number::to_string] and the compact
    rendering of nested arrays/objects (they enter as their text), file I/O, UTF-8 decoding.
    Executable definitions only; proofs are in CsvLaws.v, the specification side (RFC 4180 reader/writer,
    statement scanner) is in CsvSpec.v. *)
From Coq Require Import Ascii String.
From Coq Require Import List ZArith Bool.
From VibeSQL Require Import Base.LexOrd.
Import ListNotations.
Open Scope Z_scope.

Definition str := list Z.

(** string constants *)
Definition s_of (s : string) : str := map (fun a => Z.of_N (N_of_ascii a)) (list_ascii_of_string s).

Definition COMMA : Z := 44.
Definition DQ : Z := 34.
Definition SQ : Z := 39.
Definition LF : Z := 10.
Definition CR : Z := 13.
Definition SP : Z := 32.

Fixpoint str_eqb (a b : str) : bool :=
  match a, b with
  | [], [] => true
  | x :: a', y :: b' => (x =? y) && str_eqb a' b'
  | _, _ => false
  end.

(** [str::contains(char)] *)
Definition contains (c : Z) (s : str) : bool := existsb (Z.eqb c) s.

(** [str::replace(c, by)] for a one-character pattern *)
Definition replace_char (c : Z) (by_ : str) (s : str) : str :=
  flat_map (fun x => if x =? c then by_ else [x]) s.

(** [str::split(char)]: always at least one piece *)
Fixpoint split_on (sep : Z) (s : str) : list str :=
  match s with
  | [] => [[]]
  | c :: r =>
      if c =? sep then [] :: split_on sep r
      else match split_on sep r with
           | p :: ps => (c :: p) :: ps
           | [] => [[c]]
           end
  end.

(** [[String]::join(sep)] *)
Fixpoint join (sep : str) (l : list str) : str :=
  match l with
  | [] => []
  | [x] => x
  | x :: r => x ++ sep ++ join sep r
  end.

(** [char::is_whitespace] = Unicode White_Space *)
Definition is_ws (c : Z) : bool :=
  ((9 <=? c) && (c <=? 13)) || (c =? 32) || (c =? 133) || (c =? 160) || (c =? 5760)
  || ((8192 <=? c) && (c <=? 8202)) || (c =? 8232) || (c =? 8233) || (c =? 8239) || (c =? 8287)
  || (c =? 12288).

Fixpoint trim_start (s : str) : str :=
  match s with
  | c :: r => if is_ws c then trim_start r else s
  | [] => []
  end.
Definition trim_end (s : str) : str := rev (trim_start (rev s)).
(** [str::trim] *)
Definition trim (s : str) : str := trim_end (trim_start s).

(** [BufRead::lines]: pieces between LFs; a piece terminated by LF loses ONE trailing CR; the text after
    the last LF is a line only when non-empty (and keeps a trailing CR). *)
Definition strip_cr (l : str) : str :=
  match rev l with
  | c :: r => if c =? CR then rev r else l
  | [] => l
  end.
Fixpoint lines_of_pieces (ps : list str) : list str :=
  match ps with
  | [] => []
  | [p] => match p with [] => [] | _ => [p] end
  | p :: r => strip_cr p :: lines_of_pieces r
  end.
Definition lines (s : str) : list str := lines_of_pieces (split_on LF s).

(** results; the error constructors name the [anyhow!] sites *)
Inductive err :=
| ENoTable        (* validate_table_name / get_table: "Table '{}' does not exist" *)
| EEmptyFile      (* "CSV file is empty" *)
| ERowLen (row : Z) (got expected : Z)   (* "Row {} has {} columns, expected {}" *)
| EForbidden (col : str)                 (* "Invalid column name '{}': contains forbidden characters" *)
| ENoColumn (col : str)                  (* "Column '{}' does not exist in table '{}'" *)
| EJsonFormat     (* "Invalid JSON format: {}" (serde_json) *)
| ENoData         (* "JSON file contains no data" *)
| ENoCols (row : Z) (* "Row {} has no columns" *).
Inductive res (A : Type) := Ok (a : A) | Err (e : err).
Arguments Ok {A} a.
Arguments Err {A} e.

(** ------------------------------------------------------------------------------------------------
    data_io.rs: CSV writer *)

(** [escape_csv_value] *)
Definition escape_csv_value (v : str) : str :=
  if contains COMMA v || contains DQ v || contains LF v
  then DQ :: replace_char DQ [DQ; DQ] v ++ [DQ]
  else v.

(** [write_csv_row]: [writeln!] appends LF *)
Definition write_csv_row (vs : list str) : str :=
  join [COMMA] (map escape_csv_value vs) ++ [LF].

(** [DataIO::export_csv]: header row, then the rows of the QueryResult *)
Definition export_csv (columns : list str) (rows : list (list str)) : str :=
  write_csv_row columns ++ flat_map write_csv_row rows.

(** ------------------------------------------------------------------------------------------------
    data_io.rs: CSV reader = statement generator *)

(** [format!("'{}'", v.replace("'", "''"))] *)
Definition sql_quote (v : str) : str := SQ :: replace_char SQ [SQ; SQ] v ++ [SQ].

(** [format!("INSERT INTO {} ({}) VALUES ({});", table, cols, vals)] *)
Definition insert_stmt (table cols vals : str) : str :=
  s_of "INSERT INTO " ++ table ++ s_of " (" ++ cols ++ s_of ") VALUES (" ++ vals ++ s_of ");".

(** the per-line part of [import_csv]: [split(',')], length check against the header, [trim] *)
Fixpoint csv_rows (ncols : nat) (idx : Z) (data : list str) : res (list (list str)) :=
  match data with
  | [] => Ok []
  | line :: rest =>
      let values := split_on COMMA line in
      if Nat.eqb (length values) ncols then
        match csv_rows ncols (idx + 1) rest with
        | Ok rows => Ok (map trim values :: rows)
        | Err e => Err e
        end
      else Err (ERowLen (idx + 2) (Z.of_nat (length values)) (Z.of_nat ncols))
  end.

(** what [import_csv] reads out of the file: the raw header fields and the trimmed data fields *)
Definition csv_records (file : str) : res (list str * list (list str)) :=
  match lines file with
  | [] => Err EEmptyFile
  | header :: data =>
      let columns := split_on COMMA header in
      match csv_rows (length columns) 0 data with
      | Ok rows => Ok (columns, rows)
      | Err e => Err e
      end
  end.

Definition csv_stmt (table : str) (columns : list str) (row : list str) : str :=
  insert_stmt table (join (s_of ", ") columns) (join (s_of ", ") (map sql_quote row)).

(** [DataIO::import_csv]: one INSERT per data line (all generated before any is executed; a bad line
    aborts the whole import) *)
Definition import_csv (file table : str) : res (list str) :=
  match csv_records file with
  | Ok (columns, rows) => Ok (map (csv_stmt table columns) rows)
  | Err e => Err e
  end.

(** ------------------------------------------------------------------------------------------------
    validation.rs *)

Definition forbidden_char (c : Z) : bool :=
  (c =? 59) || (c =? SQ) || (c =? DQ) || (c =? 40) || (c =? 41).   (* semicolon, single quote, double quote, parentheses *)

Definition ascii_lower (c : Z) : Z := if (65 <=? c) && (c <=? 90) then c + 32 else c.
(** [str::eq_ignore_ascii_case] *)
Definition eq_ignore_case (a b : str) : bool := str_eqb (map ascii_lower a) (map ascii_lower b).

(** the column loop shared by [validate_csv_columns] and [validate_json_columns] *)
Fixpoint validate_columns (schema : list str) (cols : list str) : res unit :=
  match cols with
  | [] => Ok tt
  | c :: r =>
      if existsb forbidden_char c then Err (EForbidden c)
      else if existsb (fun sc => eq_ignore_case sc c) schema then validate_columns schema r
      else Err (ENoColumn c)
  end.

(** [validate_csv_columns]: header = first line, [split(',').map(trim)] *)
Definition validate_csv_columns (schema : list str) (file : str) : res unit :=
  match lines file with
  | [] => Err EEmptyFile
  | header :: _ => validate_columns schema (map trim (split_on COMMA header))
  end.

(** ------------------------------------------------------------------------------------------------
    JSON: parsed values (serde_json::Value as the code inspects it) *)

Inductive jval :=
| JStr (s : str)
| JNum (text : str)       (* Number::to_string() *)
| JBool (b : bool)
| JNull
| JOther (text : str).    (* array / object: Value::to_string(), compact *)

(** members in FILE order; [serde_json::Map] is a BTreeMap (feature preserve_order is off): sorted by
    key, a repeated key keeps the LAST value *)
Definition jobj := list (str * jval).

Fixpoint map_insert {V : Type} (k : str) (v : V) (m : list (str * V)) : list (str * V) :=
  match m with
  | [] => [(k, v)]
  | (k', v') :: r =>
      match lex_compare k k' with
      | Lt => (k, v) :: m
      | Eq => (k, v) :: r
      | Gt => (k', v') :: map_insert k v r
      end
  end.
Definition to_map {V : Type} (o : list (str * V)) : list (str * V) :=
  fold_left (fun m kv => map_insert (fst kv) (snd kv) m) o [].

Definition NULL_text : str := s_of "NULL".

(** the [match value] of import_json *)
Definition value_text (v : jval) : str :=
  match v with
  | JStr s => s
  | JNum t => t
  | JBool true => s_of "true"
  | JBool false => s_of "false"
  | JNull => NULL_text
  | JOther t => t
  end.
(** [if value_str == "NULL" { value_str } else { format!("'{}'", escaped) }] *)
Definition value_sql (v : jval) : str :=
  let t := value_text v in if str_eqb t NULL_text then t else sql_quote t.

Definition json_stmt (table : str) (m : list (str * jval)) : str :=
  insert_stmt table (join (s_of ", ") (map fst m)) (join (s_of ", ") (map (fun kv => value_sql (snd kv)) m)).

Fixpoint json_stmts (table : str) (idx : Z) (objs : list jobj) : res (list str) :=
  match objs with
  | [] => Ok []
  | o :: rest =>
      let m := to_map o in
      match m with
      | [] => Err (ENoCols (idx + 1))
      | _ =>
          match json_stmts table (idx + 1) rest with
          | Ok ss => Ok (json_stmt table m :: ss)
          | Err e => Err e
          end
      end
  end.

(** [DataIO::import_json]; [None] = the file is not a JSON array of objects *)
Definition import_json (file : option (list jobj)) (table : str) : res (list str) :=
  match file with
  | None => Err EJsonFormat
  | Some [] => Err ENoData
  | Some objs => json_stmts table 0 objs
  end.

(** [validate_json_columns]: ONLY the first object's keys are looked at *)
Definition validate_json_columns (schema : list str) (file : option (list jobj)) : res unit :=
  match file with
  | None => Err EJsonFormat
  | Some [] => Err ENoData
  | Some (first :: _) => validate_columns schema (map fst (to_map first))
  end.

(** ------------------------------------------------------------------------------------------------
    copy_handler.rs, import direction: validate, then generate.  [schema] is [db.get_table(table)]
    reduced to the column names ([None]: no such table).  The statements are then run one by one through
    [SqlExecutor::execute]; a failing statement is skipped with a warning. *)
Definition copy_import_csv (schema : option (list str)) (file table : str) : res (list str) :=
  match schema with
  | None => Err ENoTable
  | Some sch =>
      match validate_csv_columns sch file with
      | Err e => Err e
      | Ok _ => import_csv file table
      end
  end.

Definition copy_import_json (schema : option (list str)) (file : option (list jobj)) (table : str)
  : res (list str) :=
  match schema with
  | None => Err ENoTable
  | Some sch =>
      match validate_json_columns sch file with
      | Err e => Err e
      | Ok _ => import_json file table
      end
  end.

(** ------------------------------------------------------------------------------------------------
    export direction: [SELECT * FROM table] through SqlExecutor::execute *)

(** cells of the table (the variants the harness stores) *)
Inductive cell := CInt (z : Z) | CText (s : str) | CNull | CBool (b : bool).

Definition hex_digit (d : Z) : Z := if d <? 10 then 48 + d else 87 + d.   (* lower case *)
(** minimal-length lower-case hex, as [\u{..}] prints it; fuel 6 digits suffices below 0x110000 *)
Fixpoint hex_min (fuel : nat) (n : Z) (acc : str) : str :=
  match fuel with
  | O => acc
  | S f => let acc' := hex_digit (n mod 16) :: acc in
           if n / 16 =? 0 then acc' else hex_min f (n / 16) acc'
  end.

(** [char::escape_debug_ext] as used by [<str as Debug>::fmt] (double quote escaped, single quote not).
    Exact for code points below 0x80.  Above, Rust consults its Grapheme_Extend and is_printable tables;
    the model prints the character itself, which is what Rust does on [debug_domain] only. *)
Definition debug_escape_char (c : Z) : str :=
  if c =? 0 then s_of "\0"
  else if c =? 9 then s_of "\t"
  else if c =? 13 then s_of "\r"
  else if c =? 10 then s_of "\n"
  else if c =? 92 then [92; 92]
  else if c =? DQ then [92; DQ]
  else if (c <? 32) || (c =? 127) then s_of "\u{" ++ hex_min 6 c [] ++ s_of "}"
  else [c].
Definition debug_domain (c : Z) : bool :=
  ((0 <=? c) && (c <? 128)) || ((161 <=? c) && (c <=? 172)) || ((174 <=? c) && (c <=? 255))
  || ((19968 <=? c) && (c <=? 40959)) || ((128512 <=? c) && (c <=? 128591)).
Definition debug_str (s : str) : str := DQ :: flat_map debug_escape_char s ++ [DQ].

(** decimal rendering of an i64 *)
Fixpoint dec_digits (fuel : nat) (n : Z) (acc : str) : str :=
  match fuel with
  | O => acc
  | S f => let acc' := (48 + n mod 10) :: acc in
           if n / 10 =? 0 then acc' else dec_digits f (n / 10) acc'
  end.
Definition dec_of_Z (z : Z) : str :=
  if z <? 0 then 45 :: dec_digits 20 (- z) [] else dec_digits 20 z [].

(** [format!("{:?}", v)] with the derived Debug of SqlValue *)
Definition fmt_cell (v : cell) : str :=
  match v with
  | CInt z => s_of "Integer(" ++ dec_of_Z z ++ s_of ")"
  | CText s => s_of "Varchar(" ++ debug_str s ++ s_of ")"
  | CNull => s_of "Null"
  | CBool true => s_of "Boolean(true)"
  | CBool false => s_of "Boolean(false)"
  end.

Definition COLUMN_text : str := s_of "Column".

(** the QueryResult of [SELECT * FROM t]: no column names at all for an empty result, otherwise the
    placeholder "Column" once per column of the first row *)
Definition select_star_result (rows : list (list cell)) : list str * list (list str) :=
  match rows with
  | [] => ([], [])
  | r0 :: _ => (repeat COLUMN_text (length r0), map (map fmt_cell) rows)
  end.

(** copy_handler.rs, export direction, CSV *)
Definition copy_export_csv (rows : list (list cell)) : str :=
  let '(cols, srows) := select_star_result rows in export_csv cols srows.

(** ------------------------------------------------------------------------------------------------
    [DataIO::export_json]: every cell a JSON string, one object per row built by [Map::insert] in column
    order, [serde_json::to_string_pretty] (two-space indent, no trailing newline) *)
Definition hex2 (c : Z) : str := [hex_digit (c / 16); hex_digit (c mod 16)].
Definition json_escape_char (c : Z) : str :=
  if c =? DQ then [92; DQ]
  else if c =? 92 then [92; 92]
  else if c =? 8 then s_of "\b"
  else if c =? 12 then s_of "\f"
  else if c =? 10 then s_of "\n"
  else if c =? 13 then s_of "\r"
  else if c =? 9 then s_of "\t"
  else if (0 <=? c) && (c <? 32) then s_of "\u00" ++ hex2 c
  else [c].
Definition json_string (s : str) : str := DQ :: flat_map json_escape_char s ++ [DQ].

Definition json_member (kv : str * str) : str :=
  s_of "    " ++ json_string (fst kv) ++ s_of ": " ++ json_string (snd kv).
Definition json_object (m : list (str * str)) : str :=
  match m with
  | [] => s_of "{}"
  | _ => s_of "{" ++ [LF] ++ join (COMMA :: [LF]) (map json_member m) ++ [LF] ++ s_of "  }"
  end.
(** the object of one row: [for (i, col) in columns.enumerate() { if i < row.len() { insert } }] *)
Definition row_object (columns : list str) (row : list str) : list (str * str) :=
  to_map (combine columns row).
Definition export_json (columns : list str) (rows : list (list str)) : str :=
  match rows with
  | [] => s_of "[]"
  | _ => s_of "[" ++ [LF]
         ++ join (COMMA :: [LF]) (map (fun r => s_of "  " ++ json_object (row_object columns r)) rows)
         ++ [LF] ++ s_of "]"
  end.

Definition copy_export_json (rows : list (list cell)) : str :=
  let '(cols, srows) := select_star_result rows in export_json cols srows.

(** ------------------------------------------------------------------------------------------------
    commands.rs, [MetaCommand::parse], the [\copy] branch *)

(** [str::split_whitespace] *)
Fixpoint split_ws_aux (s : str) (cur : str) : list str :=
  match s with
  | [] => match cur with [] => [] | _ => [rev cur] end
  | c :: r =>
      if is_ws c then match cur with [] => split_ws_aux r [] | _ => rev cur :: split_ws_aux r [] end
      else split_ws_aux r (c :: cur)
  end.
Definition split_whitespace (s : str) : list str := split_ws_aux s [].

(** [str::trim_matches(c)] *)
Fixpoint trim_start_char (c : Z) (s : str) : str :=
  match s with
  | x :: r => if x =? c then trim_start_char c r else s
  | [] => []
  end.
Definition trim_matches (c : Z) (s : str) : str := rev (trim_start_char c (rev (trim_start_char c s))).

Definition ascii_upper (c : Z) : Z := if (97 <=? c) && (c <=? 122) then c - 32 else c.
(** [str::to_uppercase] restricted to ASCII input (the model answers [None] = "outside the model" on a
    non-ASCII direction word; no such word equals TO or FROM after upper-casing except through ASCII) *)
Definition ends_with (suffix s : str) : bool :=
  let n := length s in let k := length suffix in
  if Nat.ltb n k then false else str_eqb (skipn (n - k) s) suffix.

Inductive direction := Import | Export.
Inductive format := FCsv | FJson.

(** [Some (table, path, direction, format)] or [None] (not a valid [\copy] line).  Precondition of the
    model: the line's first word is [\copy]. *)
Definition parse_copy (line : str) : option (str * str * direction * format) :=
  match split_whitespace (trim line) with
  | cmd :: table :: dir :: p3 :: rest =>
      if str_eqb cmd (92 :: s_of "copy") then
        let path := trim_matches DQ (trim_matches SQ (join [SP] (p3 :: rest))) in
        let d := map ascii_upper dir in
        let fmt := if ends_with (s_of ".json") path then FJson else FCsv in
        if str_eqb d (s_of "TO") then Some (table, path, Export, fmt)
        else if str_eqb d (s_of "FROM") then Some (table, path, Import, fmt)
        else None
      else None
  | _ => None
  end.
