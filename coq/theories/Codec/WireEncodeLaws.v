(** Codec/WireEncodeLaws.v — C28, [BackendMessage::encode]: the encoder writes exactly one frame
    (type byte, big-endian length = bytes after the type byte, body); the independent parser
    [parse_backend] recovers the message under [wf_backend] (and only then); conversely every frame the
    parser accepts is the encoder's output for the parsed message; necessity witnesses. *)
From Coq Require Import ZArith List Bool Lia.
From VibeSQL Require Import Generated.Consts Codec.Wire Codec.WireSpec Codec.WireBytes.
Import ListNotations.
Open Scope Z_scope.

(** * The frame body the encoder writes after the length field *)
Definition enc_body (m : bmsg) : bytes :=
  match m with
  | BAuthOk => be32 0
  | BAuthCleartext => be32 3
  | BAuthMD5 salt => be32 5 ++ salt
  | BParameterStatus n v => cstr n ++ cstr v
  | BBackendKeyData p k => be32 p ++ be32 k
  | BReadyForQuery st => [status_byte st]
  | BRowDescription fs => be16 (Z.of_nat (length fs)) ++ flat_map enc_field fs
  | BDataRow vs => be16 (Z.of_nat (length vs)) ++ flat_map enc_value vs
  | BCommandComplete t => cstr t
  | BErrorResponse fs | BNoticeResponse fs => flat_map enc_err_field fs ++ [0]
  | BEmptyQuery => []
  end.

Lemma zsum_app a b : zsum (a ++ b) = zsum a + zsum b.
Proof. unfold zsum. induction a as [|x a IH]; cbn [app fold_right]; lia. Qed.

Lemma blen_flat_map {A} (f : A -> bytes) (l : list A) : blen (flat_map f l) = zsum (map (fun x => blen (f x)) l).
Proof.
  induction l as [|x l IH]; cbn [flat_map map zsum fold_right]; [reflexivity|].
  rewrite blen_app, IH. reflexivity.
Qed.

Lemma zsum_map_ext {A} (f g : A -> Z) (l : list A) : (forall x, f x = g x) -> zsum (map f l) = zsum (map g l).
Proof. intros H. induction l as [|x l IH]; cbn [map zsum fold_right]; [reflexivity|]. rewrite H. unfold zsum in IH. rewrite IH. reflexivity. Qed.

Lemma zsum_nonneg {A} (f : A -> Z) (l : list A) : (forall x, 0 <= f x) -> 0 <= zsum (map f l).
Proof. intros H. induction l as [|x l IH]; cbn [map zsum fold_right]; [lia|]. specialize (H x). unfold zsum in IH. lia. Qed.

Lemma zsum_in {A} (f : A -> Z) (l : list A) x : (forall y, 0 <= f y) -> In x l -> f x <= zsum (map f l).
Proof.
  intros H. induction l as [|y l IH]; cbn [In map zsum fold_right]; [tauto|].
  pose proof (zsum_nonneg f l H) as N. unfold zsum in *. intros [->|Hin]; [lia|]. specialize (IH Hin). specialize (H y). lia.
Qed.

Lemma blen_enc_field f : blen (enc_field f) = blen (fd_name f) + 1 + 18.
Proof. unfold enc_field, put_cstring. rewrite !blen_app, !blen_be32, !blen_be16, blen_cons, blen_nil. lia. Qed.

Lemma blen_enc_value v : blen (enc_value v) = 4 + match v with Some x => blen x | None => 0 end.
Proof. destruct v as [x|]; cbn [enc_value]; [rewrite blen_app, blen_be32; lia|reflexivity]. Qed.

Lemma blen_enc_err_field f : blen (enc_err_field f) = 1 + blen (snd f) + 1.
Proof. unfold enc_err_field, put_cstring. rewrite blen_cons, blen_app, blen_cons, blen_nil. lia. Qed.

Lemma blen_enc_body m : typed_backend m = true -> blen (enc_body m) = body_size m.
Proof.
  destruct m as [| |salt|n v|p k|st|fs|vs|t|fs|fs|]; cbn [enc_body body_size typed_backend]; intros T;
    unfold cstr; rewrite ?blen_app, ?blen_be32, ?blen_be16, ?blen_cons, ?blen_nil; try lia.
  - rewrite blen_flat_map. rewrite (zsum_map_ext _ _ fs blen_enc_field). lia.
  - rewrite blen_flat_map. rewrite (zsum_map_ext _ _ vs blen_enc_value). lia.
  - rewrite blen_flat_map. rewrite (zsum_map_ext _ _ fs blen_enc_err_field). lia.
  - rewrite blen_flat_map. rewrite (zsum_map_ext _ _ fs blen_enc_err_field). lia.
Qed.

Lemma body_size_nonneg m : 0 <= body_size m.
Proof.
  destruct m as [| |salt|n v|p k|st|fs|vs|t|fs|fs|]; cbn [body_size]; try lia;
    try (pose proof (blen_nonneg salt)); try (pose proof (blen_nonneg n)); try (pose proof (blen_nonneg v)); try (pose proof (blen_nonneg t)); try lia.
  - pose proof (zsum_nonneg (fun f => blen (fd_name f) + 1 + 18) fs ltac:(intros x; pose proof (blen_nonneg (fd_name x)); lia)). lia.
  - pose proof (zsum_nonneg (fun v => 4 + match v with Some x => blen x | None => 0 end) vs
                  ltac:(intros [x|]; [pose proof (blen_nonneg x)|]; lia)). lia.
  - pose proof (zsum_nonneg (fun f : Z * bytes => 1 + blen (snd f) + 1) fs ltac:(intros x; pose proof (blen_nonneg (snd x)); lia)). lia.
  - pose proof (zsum_nonneg (fun f : Z * bytes => 1 + blen (snd f) + 1) fs ltac:(intros x; pose proof (blen_nonneg (snd x)); lia)). lia.
Qed.

(** the Rust length formulas compute 4 + the body size *)
Lemma len_formulas :
  (forall n v, len_ParameterStatus n v = 4 + body_size (BParameterStatus n v))
  /\ (forall fs, len_RowDescription fs = 4 + body_size (BRowDescription fs))
  /\ (forall vs, len_DataRow vs = 4 + body_size (BDataRow vs))
  /\ (forall t, len_CommandComplete t = 4 + body_size (BCommandComplete t))
  /\ (forall fs, len_NoticeOrError fs = 4 + body_size (BErrorResponse fs)).
Proof.
  repeat split; intros.
  - unfold len_ParameterStatus. cbn [body_size]. change wire_len_base_ParameterStatus with 6. lia.
  - unfold len_RowDescription. cbn [body_size]. change wire_len_base_RowDescription with 6.
    change wire_len_per_field_RowDescription with 19.
    rewrite (zsum_map_ext (fun f => blen (fd_name f) + 19) (fun f => blen (fd_name f) + 1 + 18)) by (intros; lia). lia.
  - unfold len_DataRow. cbn [body_size]. change wire_len_base_DataRow with 6. change wire_len_per_value_DataRow with 4. lia.
  - unfold len_CommandComplete. cbn [body_size]. change wire_len_base_CommandComplete with 5. lia.
  - unfold len_NoticeOrError. cbn [body_size]. change wire_len_base_NoticeOrError with 5.
    change wire_len_per_field_NoticeOrError with 2.
    rewrite (zsum_map_ext (fun f : Z * bytes => 2 + blen (snd f)) (fun f => 1 + blen (snd f) + 1)) by (intros; lia). lia.
Qed.

Lemma with_len_ok oc len k : len < two64 -> with_len oc len k = Ok k.
Proof. intros H. unfold with_len. destruct (Z.ltb_spec len two64); [|lia]. rewrite andb_false_r. reflexivity. Qed.

(** ** [encode] writes: type byte, length = 4 + body, body *)
Theorem encode_shape_thm oc m :
  typed_backend m = true -> 4 + body_size m < two64 ->
  encode oc m = Ok (tag_of m :: be32 (4 + body_size m) ++ enc_body m).
Proof.
  destruct len_formulas as (L1 & L2 & L3 & L4 & L5).
  destruct m as [| |salt|n v|p k|st|fs|vs|t|fs|fs|]; cbn [encode typed_backend tag_of enc_body]; intros T S;
    try reflexivity.
  - (* MD5: the literal 12 is right because the salt has 4 bytes *)
    cbn [body_size]. apply Nat.eqb_eq in T. unfold blen. rewrite T. reflexivity.
  - rewrite with_len_ok by (rewrite L1; exact S). rewrite be32_as_i32, L1. unfold put_cstring, cstr.
    change wire_cstring_terminator with 0. rewrite <- !app_assoc. reflexivity.
  - rewrite with_len_ok by (rewrite L2; exact S). rewrite be32_as_i32, be16_as_i16, L2. reflexivity.
  - rewrite with_len_ok by (rewrite L3; exact S). rewrite be32_as_i32, be16_as_i16, L3. reflexivity.
  - rewrite with_len_ok by (rewrite L4; exact S). rewrite be32_as_i32, L4. reflexivity.
  - unfold encode_notice_or_error. rewrite with_len_ok by (rewrite L5; exact S). rewrite be32_as_i32, L5. reflexivity.
  - unfold encode_notice_or_error. rewrite with_len_ok by (rewrite L5; exact S). rewrite be32_as_i32, L5. reflexivity.
Qed.

(** C28, first half: exactly one frame, length field = number of bytes after the type byte *)
Theorem encode_one_frame_thm oc m :
  typed_backend m = true -> 4 + body_size m < two31 ->
  exists body, encode oc m = Ok (tag_of m :: be32 (4 + blen body) ++ body)
               /\ 4 + blen body < two31
               /\ p_s32 (be32 (4 + blen body) ++ body) = Some (blen (be32 (4 + blen body) ++ body), body).
Proof.
  intros T S. exists (enc_body m). rewrite (blen_enc_body m T).
  split; [apply encode_shape_thm; [exact T|lia]|]. split; [exact S|].
  rewrite p_s32_be32. rewrite as_i32_id.
  - rewrite blen_app, blen_be32, (blen_enc_body m T). reflexivity.
  - pose proof (body_size_nonneg m). unfold in_i32. apply andb_true_iff. rewrite Z.leb_le, Z.ltb_lt. lia.
Qed.


Lemma in_i32_bounds z : in_i32 z = true <-> - two31 <= z < two31.
Proof. unfold in_i32. rewrite andb_true_iff, Z.leb_le, Z.ltb_lt. tauto. Qed.
Lemma in_i16_bounds z : in_i16 z = true <-> - two15 <= z < two15.
Proof. unfold in_i16. rewrite andb_true_iff, Z.leb_le, Z.ltb_lt. tauto. Qed.

Lemma has_bytes_spec (b : bytes) : forall n, has_bytes b n = (n <=? blen b).
Proof.
  induction b as [|x b IH]; intros n.
  - cbn [has_bytes]. rewrite blen_nil. destruct (Z.leb_spec n 0); reflexivity.
  - cbn [has_bytes]. rewrite blen_cons. pose proof (blen_nonneg b).
    destruct (Z.leb_spec n 0).
    + symmetry. apply Z.leb_le. lia.
    + rewrite IH. destruct (Z.leb_spec (n - 1) (blen b)); symmetry; [apply Z.leb_le|apply Z.leb_gt]; lia.
Qed.

(** ** the readers invert the writers *)
Lemma p_field_enc f r :
  typed_field f = true -> no_nul (fd_name f) = true -> p_field (enc_field f ++ r) = Some (f, r).
Proof.
  destruct f as [name oid attr ty sz md fmt]. unfold typed_field, enc_field, put_cstring. cbn [fd_name fd_table_oid fd_attr fd_type_oid fd_type_size fd_type_mod fd_format].
  intros T N. do 5 (apply andb_true_iff in T; destruct T as [T ?]).
  unfold p_field. change wire_cstring_terminator with 0.
  rewrite <- !app_assoc. cbn [app]. rewrite (split_nul_app name _ N).
  rewrite p_s32_be32, as_i32_id by assumption.
  rewrite p_s16_be16, as_i16_id by assumption.
  rewrite p_s32_be32, as_i32_id by assumption.
  rewrite p_s16_be16, as_i16_id by assumption.
  rewrite p_s32_be32, as_i32_id by assumption.
  rewrite p_s16_be16, as_i16_id by assumption.
  reflexivity.
Qed.

Lemma p_value_enc v r :
  match v with Some x => blen x < two31 | None => True end -> p_value (enc_value v ++ r) = Some (v, r).
Proof.
  destruct v as [x|]; cbn [enc_value]; intros H; unfold p_value.
  - rewrite <- app_assoc, p_s32_be32. pose proof (blen_nonneg x).
    rewrite !as_i32_id by (apply in_i32_bounds; rewrite ?as_i32_id by (apply in_i32_bounds; lia); lia).
    destruct (Z.eqb_spec (blen x) (-1)); [lia|]. destruct (Z.ltb_spec (blen x) 0); [lia|].
    rewrite has_bytes_spec, blen_app. pose proof (blen_nonneg r).
    destruct (Z.leb_spec (blen x) (blen x + blen r)); [|lia].
    unfold blen. rewrite Nat2Z.id, firstn_app_exact, skipn_app_exact. reflexivity.
  - change wire_null_marker with (-1). rewrite p_s32_be32. reflexivity.
Qed.

Lemma p_rep_enc {A} (p : parser A) (enc : A -> bytes) (ok : A -> Prop) :
  (forall x r, ok x -> p (enc x ++ r) = Some (x, r)) ->
  forall l r, Forall ok l -> p_rep (length l) p (flat_map enc l ++ r) = Some (l, r).
Proof.
  intros H l. induction l as [|x l IH]; intros r F; cbn [length p_rep flat_map app]; [reflexivity|].
  inversion F; subst. rewrite <- app_assoc, H by assumption. rewrite IH by assumption. reflexivity.
Qed.

Lemma p_errfields_enc fs : forall fuel r,
  (length (flat_map enc_err_field fs) < fuel)%nat ->
  forallb (fun f : Z * bytes => negb (fst f =? 0) && no_nul (snd f)) fs = true ->
  p_errfields fuel (flat_map enc_err_field fs ++ 0 :: r) = Some (fs, r).
Proof.
  induction fs as [|[t s] fs IH]; intros fuel r Hf W.
  - destruct fuel as [|fuel]; [cbn in Hf; lia|]. reflexivity.
  - cbn [forallb fst snd] in W. apply andb_true_iff in W. destruct W as [W1 W]. apply andb_true_iff in W1. destruct W1 as [Ht Hs].
    apply negb_true_iff in Ht.
    destruct fuel as [|fuel]; [lia|].
    cbn [flat_map] in *.
    assert (E : enc_err_field (t, s) = t :: s ++ [0]) by reflexivity. rewrite E in *. clear E.
    rewrite <- !app_assoc. cbn [app].
    cbn [p_errfields]. rewrite Ht. rewrite <- app_assoc. cbn [app]. rewrite (split_nul_app s _ Hs).
    rewrite IH; [reflexivity| |exact W].
    cbn [app length] in Hf. rewrite !app_length in Hf. cbn [length] in Hf. lia.
Qed.

Lemma parse_status_byte st : parse_status (status_byte st) = Some st.
Proof. destruct st; reflexivity. Qed.

Lemma forallb_Forall {A} (f : A -> bool) l : forallb f l = true -> Forall (fun x => f x = true) l.
Proof. intros H. apply Forall_forall. apply forallb_forall. exact H. Qed.

(** ** C28, second half: the independent parser recovers the message *)
Theorem parse_body_enc_thm m :
  typed_backend m = true -> wf_backend m = true -> parse_body (tag_of m) (enc_body m) = Some m.
Proof.
  unfold wf_backend. intros T W. apply andb_true_iff in W. destruct W as [S W]. apply Z.ltb_lt in S.
  destruct m as [| |salt|n v|p k|st|fs|vs|t|fs|fs|]; cbn [tag_of enc_body typed_backend] in *; try reflexivity.
  - (* MD5 *)
    unfold parse_body. cbn [P_Authentication Z.eqb Pos.eqb]. change (82 =? 82) with true. cbn iota.
    rewrite p_s32_be32. change (as_i32 5) with 5. cbn [Z.eqb Pos.eqb]. rewrite T. reflexivity.
  - apply andb_true_iff in W. destruct W as [Wn Wv]. unfold parse_body, cstr.
    change (P_ParameterStatus =? P_Authentication) with false. change (P_ParameterStatus =? P_ParameterStatus) with true. cbn iota.
    rewrite <- app_assoc. cbn [app]. rewrite (split_nul_app n _ Wn), (split_nul_app v [] Wv). reflexivity.
  - apply andb_true_iff in T. destruct T as [Tp Tk]. unfold parse_body.
    change (P_BackendKeyData =? P_Authentication) with false. change (P_BackendKeyData =? P_ParameterStatus) with false.
    change (P_BackendKeyData =? P_BackendKeyData) with true. cbn iota.
    rewrite p_s32_be32, (as_i32_id p Tp). rewrite <- (app_nil_r (be32 k)), p_s32_be32, (as_i32_id k Tk). reflexivity.
  - unfold parse_body.
    change (P_ReadyForQuery =? P_Authentication) with false. change (P_ReadyForQuery =? P_ParameterStatus) with false.
    change (P_ReadyForQuery =? P_BackendKeyData) with false. change (P_ReadyForQuery =? P_ReadyForQuery) with true. cbn iota.
    rewrite parse_status_byte. reflexivity.
  - (* RowDescription *)
    apply andb_true_iff in W. destruct W as [Wn Wc]. apply Z.ltb_lt in Wc.
    unfold parse_body.
    change (P_RowDescription =? P_Authentication) with false. change (P_RowDescription =? P_ParameterStatus) with false.
    change (P_RowDescription =? P_BackendKeyData) with false. change (P_RowDescription =? P_ReadyForQuery) with false.
    change (P_RowDescription =? P_RowDescription) with true. cbn iota.
    rewrite p_s16_be16, as_i16_id by (apply in_i16_bounds; lia).
    destruct (Z.ltb_spec (Z.of_nat (length fs)) 0); [lia|]. rewrite Nat2Z.id.
    rewrite <- (app_nil_r (flat_map enc_field fs)).
    rewrite (p_rep_enc p_field enc_field (fun f => typed_field f = true /\ no_nul (fd_name f) = true)).
    + reflexivity.
    + intros x r [H1 H2]. apply p_field_enc; assumption.
    + apply Forall_forall. intros x Hx. split.
      * exact (proj1 (forallb_forall _ _) T x Hx).
      * exact (proj1 (forallb_forall _ _) Wn x Hx).
  - (* DataRow *)
    apply Z.ltb_lt in W. unfold parse_body.
    change (P_DataRow =? P_Authentication) with false. change (P_DataRow =? P_ParameterStatus) with false.
    change (P_DataRow =? P_BackendKeyData) with false. change (P_DataRow =? P_ReadyForQuery) with false.
    change (P_DataRow =? P_RowDescription) with false. change (P_DataRow =? P_DataRow) with true. cbn iota.
    rewrite p_s16_be16, as_i16_id by (apply in_i16_bounds; lia).
    destruct (Z.ltb_spec (Z.of_nat (length vs)) 0); [lia|]. rewrite Nat2Z.id.
    rewrite <- (app_nil_r (flat_map enc_value vs)).
    rewrite (p_rep_enc p_value enc_value (fun v => match v with Some x => blen x < two31 | None => True end)).
    + reflexivity.
    + intros x r H1. apply p_value_enc; assumption.
    + apply Forall_forall. intros [x|] Hx; [|exact I].
      cbn [body_size] in S.
      pose proof (zsum_in (fun v => 4 + match v with Some x => blen x | None => 0 end) vs (Some x)
                    ltac:(intros [y|]; [pose proof (blen_nonneg y)|]; lia) Hx) as B. cbn beta iota in B. lia.
  - unfold parse_body, cstr.
    change (P_CommandComplete =? P_Authentication) with false. change (P_CommandComplete =? P_ParameterStatus) with false.
    change (P_CommandComplete =? P_BackendKeyData) with false. change (P_CommandComplete =? P_ReadyForQuery) with false.
    change (P_CommandComplete =? P_RowDescription) with false. change (P_CommandComplete =? P_DataRow) with false.
    change (P_CommandComplete =? P_CommandComplete) with true. cbn iota.
    rewrite (split_nul_app t [] W). reflexivity.
  - unfold parse_body.
    change (P_ErrorResponse =? P_Authentication) with false. change (P_ErrorResponse =? P_ParameterStatus) with false.
    change (P_ErrorResponse =? P_BackendKeyData) with false. change (P_ErrorResponse =? P_ReadyForQuery) with false.
    change (P_ErrorResponse =? P_RowDescription) with false. change (P_ErrorResponse =? P_DataRow) with false.
    change (P_ErrorResponse =? P_CommandComplete) with false. change (P_ErrorResponse =? P_ErrorResponse) with true. cbn iota.
    rewrite p_errfields_enc; [reflexivity| |exact W]. rewrite app_length. cbn [length]. lia.
  - unfold parse_body.
    change (P_NoticeResponse =? P_Authentication) with false. change (P_NoticeResponse =? P_ParameterStatus) with false.
    change (P_NoticeResponse =? P_BackendKeyData) with false. change (P_NoticeResponse =? P_ReadyForQuery) with false.
    change (P_NoticeResponse =? P_RowDescription) with false. change (P_NoticeResponse =? P_DataRow) with false.
    change (P_NoticeResponse =? P_CommandComplete) with false. change (P_NoticeResponse =? P_ErrorResponse) with false.
    change (P_NoticeResponse =? P_NoticeResponse) with true. cbn iota.
    rewrite p_errfields_enc; [reflexivity| |exact W]. rewrite app_length. cbn [length]. lia.
Qed.

Theorem parse_encode_thm oc m rest b :
  typed_backend m = true -> wf_backend m = true -> encode oc m = Ok b ->
  parse_backend (b ++ rest) = Some (m, rest).
Proof.
  intros T W E. pose proof W as W'. unfold wf_backend in W'. apply andb_true_iff in W'. destruct W' as [S _]. apply Z.ltb_lt in S.
  assert (Eb : b = tag_of m :: be32 (4 + body_size m) ++ enc_body m).
  { rewrite encode_shape_thm in E by (assumption || lia). congruence. }
  subst b. clear E.
  pose proof (body_size_nonneg m) as Hb.
  destruct (be32_shape (4 + body_size m)) as (a0 & a1 & a2 & a3 & E & _ & _ & _ & _ & V). rewrite E.
  rewrite as_i32_id in V by (apply in_i32_bounds; lia).
  cbn [app parse_backend]. rewrite V.
  destruct (Z.ltb_spec (4 + body_size m) 4); [lia|].
  rewrite blen_app, (blen_enc_body m T). pose proof (blen_nonneg rest).
  destruct (Z.ltb_spec (body_size m + blen rest) (4 + body_size m - 4)); [lia|].
  replace (Z.to_nat (4 + body_size m - 4)) with (length (enc_body m)).
  2:{ rewrite <- (blen_enc_body m T). unfold blen. lia. }
  rewrite firstn_app_exact, skipn_app_exact, (parse_body_enc_thm m T W). reflexivity.
Qed.


(** * The converse: the parser accepts only what the encoder writes *)
Lemma bytes_ok_app a b : bytes_ok (a ++ b) = bytes_ok a && bytes_ok b.
Proof. unfold bytes_ok. apply forallb_app. Qed.

Lemma bytes_ok_cons x b : bytes_ok (x :: b) = true <-> 0 <= x < 256 /\ bytes_ok b = true.
Proof. cbn [bytes_ok forallb]. rewrite andb_true_iff, is_byte_range. reflexivity. Qed.

Lemma bytes_ok_firstn n b : bytes_ok b = true -> bytes_ok (firstn n b) = true.
Proof. intros H. rewrite <- (firstn_skipn n b), bytes_ok_app in H. apply andb_true_iff in H. tauto. Qed.

Lemma bytes_ok_skipn n b : bytes_ok b = true -> bytes_ok (skipn n b) = true.
Proof. intros H. rewrite <- (firstn_skipn n b), bytes_ok_app in H. apply andb_true_iff in H. tauto. Qed.

Lemma p_s32_inv b z r :
  bytes_ok b = true -> p_s32 b = Some (z, r) -> b = be32 z ++ r /\ in_i32 z = true /\ bytes_ok r = true.
Proof.
  destruct b as [|b0 [|b1 [|b2 [|b3 r']]]]; cbn [p_s32]; try discriminate.
  intros B H. inversion H; subst. clear H.
  apply bytes_ok_cons in B. destruct B as [H0 B]. apply bytes_ok_cons in B. destruct B as [H1 B].
  apply bytes_ok_cons in B. destruct B as [H2 B]. apply bytes_ok_cons in B. destruct B as [H3 B].
  rewrite be32_s32 by assumption. split; [reflexivity|]. split; [|exact B].
  apply in_i32_bounds. apply s32_range.
Qed.

Lemma p_s16_inv b z r :
  bytes_ok b = true -> p_s16 b = Some (z, r) -> b = be16 z ++ r /\ in_i16 z = true /\ bytes_ok r = true.
Proof.
  destruct b as [|b0 [|b1 r']]; cbn [p_s16]; try discriminate.
  intros B H. inversion H; subst. clear H.
  apply bytes_ok_cons in B. destruct B as [H0 B]. apply bytes_ok_cons in B. destruct B as [H1 B].
  rewrite be16_s16 by assumption. split; [reflexivity|]. split; [|exact B].
  apply in_i16_bounds. apply s16_range.
Qed.

Lemma split_nul_inv_bytes b s r :
  bytes_ok b = true -> split_nul b = Some (s, r) -> b = s ++ 0 :: r /\ no_nul s = true /\ bytes_ok s = true /\ bytes_ok r = true.
Proof.
  intros B H. destruct (split_nul_inv _ _ _ H) as [-> N]. split; [reflexivity|]. split; [exact N|].
  rewrite bytes_ok_app in B. apply andb_true_iff in B. destruct B as [B1 B2].
  apply bytes_ok_cons in B2. tauto.
Qed.

Lemma p_field_inv b f r :
  bytes_ok b = true -> p_field b = Some (f, r) ->
  b = enc_field f ++ r /\ (typed_field f = true /\ no_nul (fd_name f) = true /\ bytes_ok (fd_name f) = true) /\ bytes_ok r = true.
Proof.
  intros B H. unfold p_field in H.
  destruct (split_nul b) as [[name r0]|] eqn:E0; [|discriminate].
  destruct (split_nul_inv_bytes _ _ _ B E0) as (-> & N & Bn & B0).
  destruct (p_s32 r0) as [[oid r1]|] eqn:E1; [|discriminate]. destruct (p_s32_inv _ _ _ B0 E1) as (-> & T1 & B1).
  destruct (p_s16 r1) as [[attr r2]|] eqn:E2; [|discriminate]. destruct (p_s16_inv _ _ _ B1 E2) as (-> & T2 & B2).
  destruct (p_s32 r2) as [[ty r3]|] eqn:E3; [|discriminate]. destruct (p_s32_inv _ _ _ B2 E3) as (-> & T3 & B3).
  destruct (p_s16 r3) as [[sz r4]|] eqn:E4; [|discriminate]. destruct (p_s16_inv _ _ _ B3 E4) as (-> & T4 & B4).
  destruct (p_s32 r4) as [[md r5]|] eqn:E5; [|discriminate]. destruct (p_s32_inv _ _ _ B4 E5) as (-> & T5 & B5).
  destruct (p_s16 r5) as [[fmt r6]|] eqn:E6; [|discriminate]. destruct (p_s16_inv _ _ _ B5 E6) as (-> & T6 & B6).
  inversion H; subst. clear H.
  unfold enc_field, put_cstring, typed_field. cbn [fd_name fd_table_oid fd_attr fd_type_oid fd_type_size fd_type_mod fd_format].
  change wire_cstring_terminator with 0. rewrite T1, T2, T3, T4, T5, T6.
  split; [|split; [split; [reflexivity|split; assumption]|assumption]].
  rewrite <- !app_assoc. reflexivity.
Qed.

Lemma p_value_inv b v r :
  bytes_ok b = true -> p_value b = Some (v, r) ->
  b = enc_value v ++ r /\ (match v with Some x => bytes_ok x = true | None => True end) /\ bytes_ok r = true.
Proof.
  intros B H. unfold p_value in H.
  destruct (p_s32 b) as [[n r0]|] eqn:E0; [|discriminate]. destruct (p_s32_inv _ _ _ B E0) as (-> & T & B0).
  destruct (Z.eqb_spec n (-1)) as [->|Hn].
  { inversion H; subst. cbn [enc_value]. change wire_null_marker with (-1). auto. }
  destruct (Z.ltb_spec n 0); [discriminate|].
  rewrite has_bytes_spec in H. destruct (Z.leb_spec n (blen r0)); [|discriminate].
  inversion H; subst. clear H. cbn [enc_value].
  assert (Hl : blen (firstn (Z.to_nat n) r0) = n) by (rewrite blen_firstn; unfold blen in *; lia).
  rewrite Hl, (as_i32_id n T). rewrite <- app_assoc, firstn_skipn.
  split; [reflexivity|]. split; [apply bytes_ok_firstn|apply bytes_ok_skipn]; exact B0.
Qed.

Lemma p_rep_inv {A} (p : parser A) (enc : A -> bytes) (good : A -> Prop) :
  (forall b x r, bytes_ok b = true -> p b = Some (x, r) -> b = enc x ++ r /\ good x /\ bytes_ok r = true) ->
  forall n b xs r, bytes_ok b = true -> p_rep n p b = Some (xs, r) ->
  b = flat_map enc xs ++ r /\ length xs = n /\ Forall good xs /\ bytes_ok r = true.
Proof.
  intros Hp n. induction n as [|n IH]; intros b xs r B H; cbn [p_rep] in H.
  - inversion H; subst. auto.
  - destruct (p b) as [[x r0]|] eqn:E0; [|discriminate]. destruct (Hp _ _ _ B E0) as (-> & G & B0).
    destruct (p_rep n p r0) as [[xs' r']|] eqn:E1; [|discriminate]. destruct (IH _ _ _ B0 E1) as (-> & L & F & B1).
    inversion H; subst. cbn [flat_map length]. rewrite <- app_assoc. auto.
Qed.

Lemma p_errfields_inv fuel : forall b fs r,
  bytes_ok b = true -> p_errfields fuel b = Some (fs, r) ->
  b = flat_map enc_err_field fs ++ 0 :: r
  /\ forallb (fun f : Z * bytes => negb (fst f =? 0) && no_nul (snd f)) fs = true
  /\ forallb (fun f : Z * bytes => is_byte (fst f) && bytes_ok (snd f)) fs = true
  /\ bytes_ok r = true.
Proof.
  induction fuel as [|fuel IH]; intros b fs r B H; cbn [p_errfields] in H; [discriminate|].
  destruct b as [|t b]; [discriminate|].
  apply bytes_ok_cons in B. destruct B as [Ht B].
  destruct (Z.eqb_spec t 0) as [->|Hne].
  { inversion H; subst. auto. }
  destruct (split_nul b) as [[s r0]|] eqn:E0; [|discriminate].
  destruct (split_nul_inv_bytes _ _ _ B E0) as (-> & N & Bs & B0).
  destruct (p_errfields fuel r0) as [[fs' r']|] eqn:E1; [|discriminate].
  destruct (IH _ _ _ B0 E1) as (-> & W & Bf & B1).
  inversion H; subst. cbn [flat_map forallb fst snd].
  assert (E : enc_err_field (t, s) = t :: s ++ [0]) by reflexivity. rewrite E.
  rewrite W, Bf, N, Bs. rewrite (proj2 (is_byte_range t) Ht). rewrite (proj2 (Z.eqb_neq t 0) Hne).
  cbn [negb andb]. split; [|auto]. cbn [app]. rewrite <- !app_assoc. reflexivity.
Qed.

Lemma parse_status_inv x st : parse_status x = Some st -> x = status_byte st.
Proof.
  unfold parse_status.
  destruct (Z.eqb_spec x 73) as [->|]; [intros H; inversion H; reflexivity|].
  destruct (Z.eqb_spec x 84) as [->|]; [intros H; inversion H; reflexivity|].
  destruct (Z.eqb_spec x 69) as [->|]; [intros H; inversion H; reflexivity|discriminate].
Qed.

Lemma whole_inv {A} (x : option (A * bytes)) a : whole x = Some a -> x = Some (a, []).
Proof. destruct x as [[a' [|y r]]|]; cbn [whole]; try discriminate. intros H; inversion H; reflexivity. Qed.

(** well-formedness without the size clause *)
Definition wf_fields (m : bmsg) : bool :=
  match m with
  | BParameterStatus n v => no_nul n && no_nul v
  | BRowDescription fs => forallb (fun f => no_nul (fd_name f)) fs && (Z.of_nat (length fs) <? two15)
  | BDataRow vs => (Z.of_nat (length vs) <? two15)
  | BCommandComplete t => no_nul t
  | BErrorResponse fs | BNoticeResponse fs => forallb (fun f => negb (fst f =? 0) && no_nul (snd f)) fs
  | _ => true
  end.

Lemma wf_backend_split m : wf_backend m = (4 + body_size m <? two31) && wf_fields m.
Proof. unfold wf_backend, wf_fields. destruct m; reflexivity. Qed.

Theorem parse_body_inv_thm t body m :
  bytes_ok body = true -> parse_body t body = Some m ->
  t = tag_of m /\ body = enc_body m /\ typed_backend m = true /\ wf_fields m = true /\ bytes_backend m = true.
Proof.
  intros B H. unfold parse_body in H.
  destruct (Z.eqb_spec t P_Authentication) as [->|N1].
  { destruct (p_s32 body) as [[code r]|] eqn:E0; [|discriminate]. destruct (p_s32_inv _ _ _ B E0) as (-> & _ & B0).
    destruct (Z.eqb_spec code 0) as [->|]; [destruct r; [|discriminate]; inversion H; subst; rewrite app_nil_r; auto|].
    destruct (Z.eqb_spec code 3) as [->|]; [destruct r; [|discriminate]; inversion H; subst; rewrite app_nil_r; auto|].
    destruct (Z.eqb_spec code 5) as [->|]; [|discriminate].
    destruct (Nat.eqb_spec (length r) 4) as [E4|]; [|discriminate]. inversion H; subst.
    cbn [tag_of enc_body typed_backend wf_fields bytes_backend]. rewrite E4. auto. }
  destruct (Z.eqb_spec t P_ParameterStatus) as [->|N2].
  { destruct (split_nul body) as [[name r]|] eqn:E0; [|discriminate].
    destruct (split_nul_inv_bytes _ _ _ B E0) as (-> & Nn & Bn & B0).
    destruct (split_nul r) as [[value [|y r']]|] eqn:E1; try discriminate.
    destruct (split_nul_inv_bytes _ _ _ B0 E1) as (-> & Nv & Bv & _). inversion H; subst.
    cbn [tag_of enc_body typed_backend wf_fields bytes_backend]. rewrite Nn, Nv, Bn, Bv. unfold cstr. rewrite <- app_assoc. auto. }
  destruct (Z.eqb_spec t P_BackendKeyData) as [->|N3].
  { destruct (p_s32 body) as [[pid r]|] eqn:E0; [|discriminate]. destruct (p_s32_inv _ _ _ B E0) as (-> & T0 & B0).
    destruct (p_s32 r) as [[key [|y r']]|] eqn:E1; try discriminate. destruct (p_s32_inv _ _ _ B0 E1) as (-> & T1 & _).
    inversion H; subst. cbn [tag_of enc_body typed_backend wf_fields bytes_backend]. rewrite T0, T1, app_nil_r. auto. }
  destruct (Z.eqb_spec t P_ReadyForQuery) as [->|N4].
  { destruct body as [|x [|y body]]; try discriminate.
    destruct (parse_status x) as [st|] eqn:E0; [|discriminate]. inversion H; subst.
    rewrite (parse_status_inv _ _ E0). auto. }
  destruct (Z.eqb_spec t P_RowDescription) as [->|N5].
  { destruct (p_s16 body) as [[n r]|] eqn:E0; [|discriminate]. destruct (p_s16_inv _ _ _ B E0) as (-> & T0 & B0).
    destruct (Z.ltb_spec n 0); [discriminate|].
    destruct (whole (p_rep (Z.to_nat n) p_field r)) as [fs|] eqn:E1; [|discriminate]. apply whole_inv in E1.
    destruct (p_rep_inv p_field enc_field _ p_field_inv _ _ _ _ B0 E1) as (-> & Ln & F & _).
    inversion H; subst. cbn [tag_of enc_body typed_backend wf_fields bytes_backend].
    apply in_i16_bounds in T0. rewrite Ln, Z2Nat.id, app_nil_r by lia.
    split; [reflexivity|]. split; [reflexivity|].
    rewrite Forall_forall in F.
    split; [apply forallb_forall; intros x Hx; apply (F x Hx)|].
    split; [apply andb_true_iff; split; [apply forallb_forall; intros x Hx; apply (F x Hx)|apply Z.ltb_lt; lia]|].
    apply forallb_forall; intros x Hx; apply (F x Hx). }
  destruct (Z.eqb_spec t P_DataRow) as [->|N6].
  { destruct (p_s16 body) as [[n r]|] eqn:E0; [|discriminate]. destruct (p_s16_inv _ _ _ B E0) as (-> & T0 & B0).
    destruct (Z.ltb_spec n 0); [discriminate|].
    destruct (whole (p_rep (Z.to_nat n) p_value r)) as [vs|] eqn:E1; [|discriminate]. apply whole_inv in E1.
    destruct (p_rep_inv p_value enc_value _ p_value_inv _ _ _ _ B0 E1) as (-> & Ln & F & _).
    inversion H; subst. cbn [tag_of enc_body typed_backend wf_fields bytes_backend].
    apply in_i16_bounds in T0. rewrite Ln, Z2Nat.id, app_nil_r by lia.
    split; [reflexivity|]. split; [reflexivity|]. split; [reflexivity|].
    split; [apply Z.ltb_lt; lia|].
    rewrite Forall_forall in F. apply forallb_forall. intros [x|] Hx; [exact (F _ Hx)|reflexivity]. }
  destruct (Z.eqb_spec t P_CommandComplete) as [->|N7].
  { destruct (split_nul body) as [[tag [|y r]]|] eqn:E0; try discriminate.
    destruct (split_nul_inv_bytes _ _ _ B E0) as (-> & Nn & Bn & _). inversion H; subst.
    cbn [tag_of enc_body typed_backend wf_fields bytes_backend]. rewrite Nn, Bn. auto. }
  destruct (Z.eqb_spec t P_ErrorResponse) as [->|N8].
  { destruct (whole (p_errfields (S (length body)) body)) as [fs|] eqn:E1; [|discriminate]. apply whole_inv in E1.
    destruct (p_errfields_inv _ _ _ _ B E1) as (-> & W & Bf & _). inversion H; subst.
    cbn [tag_of enc_body typed_backend wf_fields bytes_backend]. rewrite W, Bf. auto. }
  destruct (Z.eqb_spec t P_NoticeResponse) as [->|N9].
  { destruct (whole (p_errfields (S (length body)) body)) as [fs|] eqn:E1; [|discriminate]. apply whole_inv in E1.
    destruct (p_errfields_inv _ _ _ _ B E1) as (-> & W & Bf & _). inversion H; subst.
    cbn [tag_of enc_body typed_backend wf_fields bytes_backend]. rewrite W, Bf. auto. }
  destruct (Z.eqb_spec t P_EmptyQueryResponse) as [->|N10]; [|discriminate].
  destruct body; [|discriminate]. inversion H; subst. auto.
Qed.

(** ** parse then encode: the parser's domain is exactly the encoder's image *)
Theorem encode_parse_thm oc b m rest :
  bytes_ok b = true -> parse_backend b = Some (m, rest) ->
  exists frame, b = frame ++ rest /\ encode oc m = Ok frame
                /\ wf_backend m = true /\ typed_backend m = true /\ bytes_backend m = true.
Proof.
  intros B H.
  destruct b as [|t [|b0 [|b1 [|b2 [|b3 r]]]]]; try discriminate. cbn [parse_backend] in H.
  pose proof (s32_range b0 b1 b2 b3) as HL.
  destruct (Z.ltb_spec (s32 b0 b1 b2 b3) 4) as [|HL4]; [discriminate|].
  destruct (Z.ltb_spec (blen r) (s32 b0 b1 b2 b3 - 4)) as [|HLc]; [discriminate|].
  apply bytes_ok_cons in B. destruct B as [_ B]. apply bytes_ok_cons in B. destruct B as [Hb0 B].
  apply bytes_ok_cons in B. destruct B as [Hb1 B]. apply bytes_ok_cons in B. destruct B as [Hb2 B].
  apply bytes_ok_cons in B. destruct B as [Hb3 B].
  remember (Z.to_nat (s32 b0 b1 b2 b3 - 4)) as n eqn:En.
  destruct (parse_body t (firstn n r)) as [m'|] eqn:P; [|discriminate]. inversion H; subst m' rest. clear H.
  destruct (parse_body_inv_thm _ _ _ (bytes_ok_firstn n r B) P) as (-> & Eb & T & Wf & Bm).
  assert (Hn : (n <= length r)%nat) by (unfold blen in *; lia).
  assert (Hsz : 4 + body_size m = s32 b0 b1 b2 b3).
  { rewrite <- (blen_enc_body m T), <- Eb, blen_firstn by exact Hn. lia. }
  exists (tag_of m :: be32 (4 + body_size m) ++ enc_body m). split; [|split; [|split; [|split]]].
  - rewrite Hsz, be32_s32 by assumption. cbn [app]. rewrite <- Eb, firstn_skipn. reflexivity.
  - apply encode_shape_thm; [exact T|lia].
  - rewrite wf_backend_split, Wf, andb_true_r. apply Z.ltb_lt. lia.
  - exact T.
  - exact Bm.
Qed.

(** ** the well-formedness condition is exactly the condition for a faithful round trip *)
Lemma bytes_ok_flat_map {A} (f : A -> bytes) (l : list A) :
  (forall x, In x l -> bytes_ok (f x) = true) -> bytes_ok (flat_map f l) = true.
Proof.
  induction l as [|x l IH]; intros H; cbn [flat_map]; [reflexivity|].
  rewrite bytes_ok_app, (H x (or_introl eq_refl)), IH; [reflexivity|]. intros y Hy. apply H. right. exact Hy.
Qed.

Lemma bytes_ok_enc_body m : bytes_backend m = true -> bytes_ok (enc_body m) = true.
Proof.
  destruct m as [| |salt|n v|p k|st|fs|vs|t|fs|fs|]; cbn [enc_body bytes_backend]; intros Bm;
    unfold cstr; rewrite ?bytes_ok_app, ?be32_bytes_ok, ?be16_bytes_ok; cbn [andb]; try reflexivity.
  - exact Bm.
  - apply andb_true_iff in Bm. destruct Bm as [-> ->]. reflexivity.
  - destruct st; reflexivity.
  - apply bytes_ok_flat_map. intros f Hf. pose proof (proj1 (forallb_forall _ _) Bm f Hf) as Bn.
    unfold enc_field, put_cstring. rewrite !bytes_ok_app, !be32_bytes_ok, !be16_bytes_ok, Bn. reflexivity.
  - apply bytes_ok_flat_map. intros [x|] Hv; cbn [enc_value]; [|apply be32_bytes_ok].
    pose proof (proj1 (forallb_forall _ _) Bm _ Hv) as Bx. cbn beta iota in Bx. rewrite bytes_ok_app, be32_bytes_ok, Bx. reflexivity.
  - rewrite Bm. reflexivity.
  - rewrite andb_true_r. apply bytes_ok_flat_map. intros f Hf. pose proof (proj1 (forallb_forall _ _) Bm f Hf) as Bf.
    apply andb_true_iff in Bf. destruct Bf as [B1 B2]. unfold enc_err_field, put_cstring. cbn [bytes_ok forallb].
    fold (bytes_ok (snd f ++ [wire_cstring_terminator])). rewrite B1, bytes_ok_app, B2. reflexivity.
  - rewrite andb_true_r. apply bytes_ok_flat_map. intros f Hf. pose proof (proj1 (forallb_forall _ _) Bm f Hf) as Bf.
    apply andb_true_iff in Bf. destruct Bf as [B1 B2]. unfold enc_err_field, put_cstring. cbn [bytes_ok forallb].
    fold (bytes_ok (snd f ++ [wire_cstring_terminator])). rewrite B1, bytes_ok_app, B2. reflexivity.
Qed.

Theorem parse_encode_iff_thm oc m b rest :
  typed_backend m = true -> bytes_backend m = true -> bytes_ok rest = true -> 4 + body_size m < two64 ->
  encode oc m = Ok b ->
  (parse_backend (b ++ rest) = Some (m, rest) <-> wf_backend m = true).
Proof.
  intros T Bm Br S E. split.
  - intros P.
    assert (Bb : bytes_ok (b ++ rest) = true).
    { rewrite bytes_ok_app, Br, andb_true_r.
      assert (Eb : b = tag_of m :: be32 (4 + body_size m) ++ enc_body m).
      { rewrite encode_shape_thm in E by assumption. congruence. }
      subst b. cbn [bytes_ok forallb]. fold (bytes_ok (be32 (4 + body_size m) ++ enc_body m)).
      rewrite bytes_ok_app, be32_bytes_ok, (bytes_ok_enc_body m Bm).
      assert (Ht : is_byte (tag_of m) = true) by (destruct m; reflexivity). rewrite Ht. reflexivity. }
    destruct (encode_parse_thm oc _ _ _ Bb P) as (_ & _ & _ & W & _). exact W.
  - intros W. apply (parse_encode_thm oc); assumption.
Qed.

(** a frame whose body would not fit the Int32 length field: the field no longer says how many bytes follow *)
Theorem encode_len_wraps_thm oc m b :
  typed_backend m = true -> two31 <= 4 + body_size m < two64 -> encode oc m = Ok b ->
  exists t l0 l1 l2 l3 body, b = t :: l0 :: l1 :: l2 :: l3 :: body /\ s32 l0 l1 l2 l3 <> blen (l0 :: l1 :: l2 :: l3 :: body).
Proof.
  intros T S E.
  assert (Eb : b = tag_of m :: be32 (4 + body_size m) ++ enc_body m).
  { rewrite encode_shape_thm in E by (assumption || lia). congruence. }
  destruct (be32_shape (4 + body_size m)) as (a0 & a1 & a2 & a3 & E32 & _ & _ & _ & _ & V).
  rewrite E32 in Eb. cbn [app] in Eb. exists (tag_of m), a0, a1, a2, a3, (enc_body m). split; [exact Eb|].
  rewrite V, !blen_cons, (blen_enc_body m T). pose proof (as_i32_range (4 + body_size m)). lia.
Qed.

(** ** Necessity witnesses (each confirmed on the real encoder by the harness) *)
Definition parses_back (m : bmsg) : Prop :=
  match encode true m with
  | Ok b => parse_backend b = Some (m, [])
  | _ => False
  end.

(** an embedded NUL in a String field: ParameterStatus("a\\0b", "c") does not come back *)
Theorem encode_refuted_nul_thm :
  exists n v, no_nul n = false /\ bytes_backend (BParameterStatus n v) = true
              /\ typed_backend (BParameterStatus n v) = true /\ ~ parses_back (BParameterStatus n v).
Proof.
  exists [97; 0; 98], [99]. split; [reflexivity|]. split; [reflexivity|]. split; [reflexivity|].
  unfold parses_back. vm_compute. discriminate.
Qed.

(** more than 32767 columns: the Int16 count is written as a negative number, the frame is unparseable *)
Theorem encode_refuted_field_count_thm :
  exists m, typed_backend m = true /\ bytes_backend m = true
            /\ (exists vs, m = BDataRow vs /\ Z.of_nat (length vs) = 32768)
            /\ match encode true m with Ok b => parse_backend b = None | _ => False end.
Proof.
  exists (BDataRow (repeat None (Z.to_nat 32768))). split; [reflexivity|]. split; [vm_compute; reflexivity|].
  split; [eexists; split; [reflexivity|rewrite repeat_length; lia]|].
  vm_compute. reflexivity.
Qed.

(** field type 0 in an Error/NoticeResponse is the terminator *)
Theorem encode_refuted_field_type_zero_thm :
  exists s, no_nul s = true /\ bytes_ok s = true /\ typed_backend (BErrorResponse [(0, s)]) = true
            /\ ~ parses_back (BErrorResponse [(0, s)]).
Proof.
  exists [122]. split; [reflexivity|]. split; [reflexivity|]. split; [reflexivity|].
  unfold parses_back. vm_compute. discriminate.
Qed.

(** ** the hypotheses are satisfiable *)
Example ex_wf_row :
  let m := BRowDescription [mk_field [105; 100] 0 0 25 (-1) (-1) 0; mk_field [110; 195; 164] 16384 1 25 (-1) (-1) 0] in
  typed_backend m = true /\ wf_backend m = true /\ bytes_backend m = true.
Proof. vm_compute. repeat split; reflexivity. Qed.

Example ex_wf_error :
  let m := BErrorResponse [(83, [69; 82; 82; 79; 82]); (67, [88; 88; 48; 48; 48]); (77, [111; 111; 112; 115])] in
  typed_backend m = true /\ wf_backend m = true
  /\ match encode true m with Ok b => parse_backend (b ++ [90; 0; 0; 0; 5; 73]) = Some (m, [90; 0; 0; 0; 5; 73]) | _ => False end.
Proof. vm_compute. repeat split; reflexivity. Qed.

Example ex_wf_datarow :
  let m := BDataRow [Some [49]; None; Some []; Some [0; 255]] in typed_backend m = true /\ wf_backend m = true.
Proof. vm_compute. split; reflexivity. Qed.

Example ex_parse_hyp :
  bytes_ok [90; 0; 0; 0; 5; 73; 1; 2] = true
  /\ parse_backend [90; 0; 0; 0; 5; 73; 1; 2] = Some (BReadyForQuery Idle, [1; 2]).
Proof. vm_compute. split; reflexivity. Qed.

(** the hypothesis of [encode_len_wraps_thm] is satisfiable: a 2 GiB command tag (nothing is computed) *)
Example ex_len_wraps_hyp : exists m, typed_backend m = true /\ two31 <= 4 + body_size m < two64.
Proof.
  exists (BCommandComplete (repeat 97 (Z.to_nat two31))). split; [reflexivity|].
  cbn [body_size]. unfold blen. rewrite repeat_length, Z2Nat.id by lia. lia.
Qed.

Lemma with_len_panic_iff oc len k : with_len oc len k = Panic <-> (oc = true /\ two64 <= len).
Proof.
  unfold with_len. destruct oc; cbn [andb].
  - destruct (Z.ltb_spec len two64) as [Hlt|Hge]; cbn [negb].
    + split; [discriminate|intros [_ C]; lia].
    + split; [intros _; split; [reflexivity|exact Hge]|reflexivity].
  - split; [discriminate|intros [C _]; discriminate C].
Qed.

(** the model's [encode] panics only through the checked usize additions of the length computation:
    never in a wrapping build, and with overflow checks exactly when the frame would reach 2^64 bytes *)
Theorem encode_panic_iff_thm oc m :
  typed_backend m = true -> (encode oc m = Panic <-> (oc = true /\ two64 <= 4 + body_size m)).
Proof.
  destruct len_formulas as (L1 & L2 & L3 & L4 & L5).
  destruct m as [| |salt|n v|p k|st|fs|vs|t|fs|fs|]; cbn [encode typed_backend]; intros T;
    try (cbn [body_size]; split; [discriminate|intros [_ C]; lia]).
  - cbn [body_size]. apply Nat.eqb_eq in T. unfold blen. rewrite T. split; [discriminate|intros [_ C]; cbn in C; lia].
  - rewrite with_len_panic_iff, L1. reflexivity.
  - rewrite with_len_panic_iff, L2. reflexivity.
  - rewrite with_len_panic_iff, L3. reflexivity.
  - rewrite with_len_panic_iff, L4. reflexivity.
  - unfold encode_notice_or_error. rewrite with_len_panic_iff, L5. reflexivity.
  - unfold encode_notice_or_error. rewrite with_len_panic_iff, L5. reflexivity.
Qed.
