(** Codec/WireFrontendLaws.v — C27: round trips, properties of the reference decoder, corollaries for
    the real decoder, refutation witnesses and examples. *)
From Coq Require Import ZArith List Bool Lia.
From VibeSQL Require Import Generated.Consts Codec.Wire Codec.WireSpec Codec.WireBytes Codec.WireDecodeLaws Codec.WireStartupLaws.
Import ListNotations.
Open Scope Z_scope.

(** ** Round trip: decoding the wire form of a well-formed message *)
Lemma wf_str_split s : wf_str s = true -> no_nul s = true /\ utf8_valid s = true.
Proof. unfold wf_str. apply andb_true_iff. Qed.

Lemma in_i32_of_bounds z : - two31 <= z < two31 -> in_i32 z = true.
Proof. intros H. unfold in_i32. apply andb_true_iff. rewrite Z.leb_le, Z.ltb_lt. lia. Qed.

Lemma decode_string_frame oc t mk (q rest : bytes) :
  (t = 81 /\ mk = FQuery) \/ (t = 112 /\ mk = FPassword) ->
  wf_str q = true -> blen q + 5 < two31 ->
  decode oc (t :: be32 (4 + blen q + 1) ++ cstr q ++ rest) = (Ok (Some (mk q)), rest).
Proof.
  intros Ht Hq Hlen. destruct (wf_str_split _ Hq) as [Hn Hu].
  pose proof (blen_nonneg q) as Hq0. pose proof (blen_nonneg rest) as Hr0.
  destruct (be32_shape (4 + blen q + 1)) as (a & b & c & d & E & _ & _ & _ & _ & V). rewrite E.
  rewrite as_i32_id in V by (apply in_i32_of_bounds; lia).
  cbn [app]. rewrite decode_long. rewrite V.
  destruct (need_of_cases oc (4 + blen q + 1) ltac:(lia)) as [[? _]|[[? _]|[_ ->]]]; [lia|lia|].
  unfold cstr. rewrite <- app_assoc. cbn [app].
  rewrite blen_app, blen_cons.
  destruct (Z.ltb_spec (5 + (blen q + (1 + blen rest))) (1 + (4 + blen q + 1))); [lia|].
  unfold string_result. rewrite (split_nul_app q rest Hn), Hu.
  destruct Ht as [[-> ->]|[-> ->]]; reflexivity.
Qed.

Theorem decode_encode_regular_thm oc m rest :
  wf_frontend m = true -> is_startup_kind m = false ->
  decode oc (enc_frontend m ++ rest) = (Ok (Some m), rest).
Proof.
  destruct m as [v ps|p|q| |]; cbn [is_startup_kind wf_frontend enc_frontend]; intros W K; try discriminate K.
  - apply andb_true_iff in W. destruct W as [W1 W2]. apply Z.ltb_lt in W2.
    cbn [app]. rewrite <- app_assoc. apply (decode_string_frame oc 112 FPassword); auto.
  - apply andb_true_iff in W. destruct W as [W1 W2]. apply Z.ltb_lt in W2.
    cbn [app]. rewrite <- app_assoc. apply (decode_string_frame oc 81 FQuery); auto.
  - change (be32 4) with [0; 0; 0; 4]. cbn [app]. rewrite decode_long.
    change (s32 0 0 0 4) with 4.
    destruct (need_of_cases oc 4 ltac:(lia)) as [[? _]|[[? _]|[_ ->]]]; [lia|lia|].
    pose proof (blen_nonneg rest). destruct (Z.ltb_spec (5 + blen rest) (1 + 4)); [lia|]. reflexivity.
Qed.

(** the parameter loop on the wire form of a parameter list *)
Definition keys (ps : list (bytes * bytes)) : list bytes := map fst ps.

Lemma hm_insert_fresh k v acc : (forall kv, In kv acc -> beqb k (fst kv) = false) -> hm_insert k v acc = acc ++ [(k, v)].
Proof.
  induction acc as [|[k' v'] acc IH]; intros H; cbn [hm_insert app]; [reflexivity|].
  pose proof (H (k', v') (or_introl eq_refl)) as Hk. cbn [fst] in Hk. rewrite Hk. rewrite IH; [reflexivity|].
  intros kv Hin. apply H. right. exact Hin.
Qed.

Lemma ploop_enc_params f : forall ps acc rest,
  (length (enc_params ps ++ 0%Z :: rest) < f)%nat ->
  forallb (fun kv => wf_str (fst kv) && negb (is_nil (fst kv)) && wf_str (snd kv)) ps = true ->
  nodup_keys ps = true ->
  (forall kv kv', In kv acc -> In kv' ps -> beqb (fst kv') (fst kv) = false) ->
  ploop f (enc_params ps ++ 0 :: rest) acc = (Ok (acc ++ ps), rest).
Proof.
  induction f as [|f IH]; intros ps acc rest Hf Hwf Hnd Hdis; [lia|].
  destruct ps as [|[k v] ps].
  - cbn [enc_params flat_map app ploop split_nul Z.eqb utf8_valid]. rewrite app_nil_r. reflexivity.
  - cbn [forallb fst snd] in Hwf. apply andb_true_iff in Hwf. destruct Hwf as [Hkv Hwf].
    apply andb_true_iff in Hkv. destruct Hkv as [Hkv Hv]. apply andb_true_iff in Hkv. destruct Hkv as [Hk Hne].
    destruct (wf_str_split _ Hk) as [Hkn Hku]. destruct (wf_str_split _ Hv) as [Hvn Hvu].
    cbn [nodup_keys fst] in Hnd. apply andb_true_iff in Hnd. destruct Hnd as [Hfresh Hnd].
    apply negb_true_iff in Hfresh.
    unfold enc_params in *. cbn [flat_map fst snd] in *. unfold cstr in *.
    rewrite <- !app_assoc in *. cbn [app] in *.
    cbn [ploop]. rewrite (split_nul_app k _ Hkn), Hku.
    destruct k as [|k0 k]; [discriminate Hne|].
    rewrite (split_nul_app v _ Hvn), Hvu.
    rewrite hm_insert_fresh.
    2:{ intros kv Hin. apply (Hdis kv (k0 :: k, v) Hin). left. reflexivity. }
    rewrite IH.
    + rewrite <- app_assoc. reflexivity.
    + remember (flat_map (fun kv : bytes * bytes => (fst kv ++ [0]) ++ snd kv ++ [0]) ps ++ 0 :: rest) as X.
      rewrite !app_length in Hf. cbn [length] in Hf. rewrite !app_length in Hf. cbn [length] in Hf. lia.
    + exact Hwf.
    + exact Hnd.
    + intros kv kv' Hin Hin'. apply in_app_or in Hin. destruct Hin as [Hin|[<-|[]]].
      * apply (Hdis kv kv' Hin). right. exact Hin'.
      * cbn [fst]. destruct (beqb (fst kv') (k0 :: k)) eqn:B; [|reflexivity].
        apply beqb_eq in B. exfalso.
        assert (X : existsb (fun kv'0 : bytes * bytes => beqb (k0 :: k) (fst kv'0)) ps = true).
        { apply existsb_exists. exists kv'. split; [exact Hin'|]. rewrite B. apply beqb_refl. }
        congruence.
Qed.

Theorem decode_startup_encode_thm m rest :
  wf_frontend m = true -> is_startup_kind m = true ->
  decode_startup (enc_frontend m ++ rest) = (Ok (Some m), rest).
Proof.
  destruct m as [v ps|p|q| |]; cbn [is_startup_kind wf_frontend enc_frontend]; intros W K; try discriminate K.
  - apply andb_true_iff in W. destruct W as [W Wlen]. apply Z.ltb_lt in Wlen.
    apply andb_true_iff in W. destruct W as [W Wnd].
    apply andb_true_iff in W. destruct W as [W Wps].
    apply andb_true_iff in W. destruct W as [Wv Wssl]. apply negb_true_iff, Z.eqb_neq in Wssl.
    pose proof (blen_nonneg (enc_params ps)) as Hp0. pose proof (blen_nonneg rest) as Hr0.
    destruct (be32_shape (4 + (4 + blen (enc_params ps) + 1))) as (a & b & c & d & E & _ & _ & _ & _ & V). rewrite E.
    rewrite as_i32_id in V by (apply in_i32_of_bounds; lia).
    destruct (be32_shape v) as (a' & b' & c' & d' & E' & _ & _ & _ & _ & V'). rewrite E'.
    rewrite (as_i32_id v Wv) in V'.
    cbn [app]. rewrite decode_startup_long. rewrite V.
    destruct (usize_cases (4 + (4 + blen (enc_params ps) + 1)) ltac:(lia)) as [[? _]|[_ ->]]; [lia|].
    rewrite !blen_cons, !blen_app, !blen_cons, blen_nil.
    match goal with |- context [?x <? ?y] => destruct (Z.ltb_spec x y) as [Hlt|Hge] end; [lia|].
    unfold startup_tail. rewrite V'. change P_SSLRequestCode with 80877103 in Wssl.
    destruct (Z.eqb_spec v 80877103); [contradiction|].
    replace ((enc_params ps ++ [0]) ++ rest) with (enc_params ps ++ 0 :: rest) by (rewrite <- app_assoc; reflexivity).
    rewrite ploop_enc_params; [reflexivity|lia|exact Wps|exact Wnd|intros kv kv' []].
  - change (be32 8) with [0; 0; 0; 8]. change (be32 P_SSLRequestCode) with [4; 210; 22; 47].
    cbn [app]. rewrite decode_startup_long. change (s32 0 0 0 8) with 8. change (i32_as_usize 8) with 8.
    rewrite !blen_cons. pose proof (blen_nonneg rest).
    destruct (Z.ltb_spec (4 + (1 + (1 + (1 + (1 + blen rest))))) 8); [lia|]. reflexivity.
Qed.


(** * Properties of the reference decoder (what C27 asks for, stated for [spec_decode]) *)
Lemma spec_string_msg_rest mk body rest m rest' : spec_string_msg mk body rest = OMsg m rest' -> rest' = rest.
Proof.
  unfold spec_string_msg. destruct (split_nul body) as [[s [|x t]]|]; try discriminate.
  destruct (utf8_valid s); [|discriminate]. intros H; inversion H; reflexivity.
Qed.

Theorem spec_decode_framing_thm b m rest :
  spec_decode b = OMsg m rest ->
  exists frame, b = frame ++ rest /\ blen frame = 1 + declared_len b /\ 4 <= declared_len b.
Proof.
  destruct (bytes_case5 b) as [[Hs _]|(t & l0 & l1 & l2 & l3 & r & ->)].
  { rewrite spec_decode_short by assumption. discriminate. }
  rewrite spec_decode_long. cbn zeta. unfold declared_len. cbn [header].
  set (L := s32 l0 l1 l2 l3).
  destruct (Z.ltb_spec L 4) as [|HL4]; [discriminate|]. destruct (Z.ltb_spec (blen r) (L - 4)) as [|HLc]; [discriminate|].
  intros H.
  assert (Hr : rest = skipn (Z.to_nat (L - 4)) r).
  { destruct (t =? 81); [exact (spec_string_msg_rest _ _ _ _ _ H)|].
    destruct (t =? 112); [exact (spec_string_msg_rest _ _ _ _ _ H)|].
    destruct (t =? 88); [inversion H; reflexivity|discriminate]. }
  exists (t :: l0 :: l1 :: l2 :: l3 :: firstn (Z.to_nat (L - 4)) r). rewrite Hr. split; [|split].
  - cbn [app]. rewrite firstn_skipn. reflexivity.
  - rewrite !blen_cons. rewrite blen_firstn by (unfold blen in *; lia). lia.
  - lia.
Qed.

Theorem spec_decode_progress_thm b :
  spec_decode b = ONeedMore <-> (blen b < 5 \/ (4 <= declared_len b /\ blen b < 1 + declared_len b)).
Proof.
  destruct (bytes_case5 b) as [[Hs _]|(t & l0 & l1 & l2 & l3 & r & ->)].
  { rewrite spec_decode_short by assumption. tauto. }
  rewrite spec_decode_long. cbn zeta. unfold declared_len. cbn [header]. rewrite !blen_cons.
  set (L := s32 l0 l1 l2 l3). pose proof (blen_nonneg r).
  destruct (Z.ltb_spec L 4); [split; [discriminate|lia]|].
  destruct (Z.ltb_spec (blen r) (L - 4)); [split; [intros _; right; lia|reflexivity]|].
  split; [|lia]. intros C. exfalso.
  destruct (t =? 81).
  { unfold spec_string_msg in C. destruct (split_nul _) as [[s [|x tl]]|]; try discriminate. destruct (utf8_valid s); discriminate. }
  destruct (t =? 112).
  { unfold spec_string_msg in C. destruct (split_nul _) as [[s [|x tl]]|]; try discriminate. destruct (utf8_valid s); discriminate. }
  destruct (t =? 88); discriminate.
Qed.

(** the reference never looks beyond the frame: a decision is not changed by bytes that arrive later *)
Theorem spec_decode_stable_thm b ext :
  match spec_decode b with
  | OMsg m rest => spec_decode (b ++ ext) = OMsg m (rest ++ ext)
  | OError => spec_decode (b ++ ext) = OError
  | ONeedMore => True
  end.
Proof.
  destruct (bytes_case5 b) as [[Hs _]|(t & l0 & l1 & l2 & l3 & r & ->)].
  { rewrite spec_decode_short by assumption. exact I. }
  cbn [app]. rewrite !spec_decode_long. cbn zeta.
  set (L := s32 l0 l1 l2 l3). pose proof (blen_nonneg r). pose proof (blen_nonneg ext).
  destruct (Z.ltb_spec L 4); [reflexivity|].
  destruct (Z.ltb_spec (blen r) (L - 4)); [exact I|].
  rewrite blen_app. destruct (Z.ltb_spec (blen r + blen ext) (L - 4)); [lia|].
  assert (Hn : (Z.to_nat (L - 4) <= length r)%nat) by (unfold blen in *; lia).
  rewrite firstn_app, skipn_app.
  replace (Z.to_nat (L - 4) - length r)%nat with 0%nat by lia. cbn [firstn skipn]. rewrite app_nil_r.
  assert (Hs : forall mk, match spec_string_msg mk (firstn (Z.to_nat (L - 4)) r) (skipn (Z.to_nat (L - 4)) r) with
                          | OMsg m rest => spec_string_msg mk (firstn (Z.to_nat (L - 4)) r) (skipn (Z.to_nat (L - 4)) r ++ ext) = OMsg m (rest ++ ext)
                          | ONeedMore => True
                          | OError => spec_string_msg mk (firstn (Z.to_nat (L - 4)) r) (skipn (Z.to_nat (L - 4)) r ++ ext) = OError
                          end).
  { intros mk. unfold spec_string_msg. destruct (split_nul _) as [[s [|x tl]]|]; try reflexivity. destruct (utf8_valid s); reflexivity. }
  destruct (t =? 81); [apply Hs|]. destruct (t =? 112); [apply Hs|]. destruct (t =? 88); reflexivity.
Qed.

Theorem spec_decode_encode_thm m rest :
  wf_frontend m = true -> is_startup_kind m = false -> spec_decode (enc_frontend m ++ rest) = OMsg m rest.
Proof.
  intros W K.
  assert (Hq : forall t mk q, ((t = 81 /\ mk = FQuery) \/ (t = 112 /\ mk = FPassword)) -> wf_str q = true -> blen q + 5 < two31 ->
               spec_decode (t :: be32 (4 + blen q + 1) ++ cstr q ++ rest) = OMsg (mk q) rest).
  { intros t mk q Ht Hw Hlen. destruct (wf_str_split _ Hw) as [Hn Hu].
    pose proof (blen_nonneg q) as Hq0.
    destruct (be32_shape (4 + blen q + 1)) as (a & b & c & d & E & _ & _ & _ & _ & V). rewrite E.
    rewrite as_i32_id in V by (apply in_i32_of_bounds; lia).
    cbn [app]. rewrite spec_decode_long. cbn zeta. rewrite V.
    destruct (Z.ltb_spec (4 + blen q + 1) 4); [lia|].
    rewrite blen_app. unfold cstr at 1. rewrite blen_app, blen_cons, blen_nil.
    pose proof (blen_nonneg rest). destruct (Z.ltb_spec (blen q + (1 + 0) + blen rest) (4 + blen q + 1 - 4)); [lia|].
    replace (Z.to_nat (4 + blen q + 1 - 4)) with (length (cstr q)) by (unfold cstr, blen; rewrite app_length; cbn [length]; lia).
    rewrite firstn_app_exact, skipn_app_exact. unfold cstr. rewrite !spec_string_msg_exact by exact Hn. rewrite Hu.
    destruct Ht as [[-> ->]|[-> ->]]; reflexivity. }
  destruct m as [v ps|p|q| |]; cbn [is_startup_kind wf_frontend enc_frontend] in *; try discriminate K.
  - apply andb_true_iff in W. destruct W as [W1 W2]. apply Z.ltb_lt in W2.
    cbn [app]. rewrite <- app_assoc. apply (Hq 112 FPassword); auto.
  - apply andb_true_iff in W. destruct W as [W1 W2]. apply Z.ltb_lt in W2.
    cbn [app]. rewrite <- app_assoc. apply (Hq 81 FQuery); auto.
  - change (be32 4) with [0; 0; 0; 4]. cbn [app]. rewrite spec_decode_long. cbn zeta.
    change (s32 0 0 0 4) with 4. pose proof (blen_nonneg rest).
    destruct (Z.ltb_spec 4 4); [lia|]. destruct (Z.ltb_spec (blen rest) (4 - 4)); [lia|]. reflexivity.
Qed.

(** * C27 for the real decoder, outside the known classes (corollaries of the refinement) *)
Theorem decode_framing_thm oc b m rest :
  known_decode b = false -> decode oc b = (Ok (Some m), rest) ->
  exists frame, b = frame ++ rest /\ blen frame = 1 + declared_len b /\ 4 <= declared_len b.
Proof.
  intros K D. pose proof (decode_refines_spec_thm oc b K) as A. rewrite D in A. cbn [observe] in A.
  destruct (spec_decode b) as [m' rest'| |] eqn:S; cbn [agrees] in A; try discriminate A.
  inversion A; subst. exact (spec_decode_framing_thm b m' rest' S).
Qed.

Theorem decode_invalid_length_is_error_thm oc b :
  known_decode b = false -> 5 <= blen b -> declared_len b < 4 -> observe (decode oc b) = VErr.
Proof.
  intros K H5 HL. pose proof (decode_refines_spec_thm oc b K) as A.
  destruct (bytes_case5 b) as [[Hs _]|(t & l0 & l1 & l2 & l3 & r & ->)]; [lia|].
  rewrite spec_decode_long in A. cbn zeta in A. unfold declared_len in HL. cbn [header] in HL.
  destruct (Z.ltb_spec (s32 l0 l1 l2 l3) 4); [|lia]. exact A.
Qed.

(** chunk independence of the real decoder on a frame outside the known classes: once it has returned
    a message or an error, later bytes do not change that answer *)
Theorem decode_stable_thm oc b ext :
  known_decode b = false -> known_decode (b ++ ext) = false ->
  match observe (decode oc b) with
  | VMsg m rest => observe (decode oc (b ++ ext)) = VMsg m (rest ++ ext)
  | VErr => observe (decode oc (b ++ ext)) = VErr
  | _ => True
  end.
Proof.
  intros K1 K2. pose proof (decode_refines_spec_thm oc b K1) as A1.
  pose proof (decode_refines_spec_thm oc (b ++ ext) K2) as A2.
  pose proof (spec_decode_stable_thm b ext) as S.
  destruct (spec_decode b) as [m rest| |]; cbn [agrees] in A1; rewrite A1; try exact I.
  - rewrite S in A2. exact A2.
  - rewrite S in A2. exact A2.
Qed.


(** * Refutations of the unconditional statements (witnesses confirmed on the real code by the harness) *)

(** [Q ff ff ff ff]: `1 + len` overflows *)
Theorem decode_no_panic_refuted_thm : exists b, fst (decode true b) = Panic.
Proof. exists [81; 255; 255; 255; 255]. vm_compute. reflexivity. Qed.

(** [00 00 00 04]: declared startup length 4, [get_i32] on an empty buffer *)
Theorem startup_no_panic_refuted_thm : exists b, fst (decode_startup b) = Panic.
Proof. exists [0; 0; 0; 4]. vm_compute. reflexivity. Qed.

(** [Q 00 00 00 06 'a' 'X' 00 00 00 04 00]: the frame (7 bytes) holds no NUL; the string runs on into the
    next frame, 8 bytes are consumed *)
Theorem decode_framing_refuted_over_thm :
  exists b m rest, decode true b = (Ok (Some m), rest) /\ 4 <= declared_len b
                   /\ blen b - blen rest > 1 + declared_len b.
Proof.
  exists [81; 0; 0; 0; 6; 97; 88; 0; 0; 0; 4; 0], (FQuery [97; 88]), [0; 0; 4; 0].
  vm_compute. repeat split; congruence.
Qed.

(** [Q 00 00 00 08 'a' 00 'b' 00]: the string stops at the first NUL, 2 bytes of the frame stay in the buffer
    and will be parsed as the next message *)
Theorem decode_framing_refuted_under_thm :
  exists b m rest, decode true b = (Ok (Some m), rest) /\ 4 <= declared_len b
                   /\ blen b - blen rest < 1 + declared_len b.
Proof.
  exists [81; 0; 0; 0; 8; 97; 0; 98; 0], (FQuery [97]), [98; 0].
  vm_compute. repeat split; congruence.
Qed.

(** [Q 00 00 00 00 'a' 00]: a declared length smaller than the length field itself is accepted *)
Theorem decode_small_length_refuted_thm :
  exists b m rest, decode true b = (Ok (Some m), rest) /\ 0 <= declared_len b < 4.
Proof.
  exists [81; 0; 0; 0; 0; 97; 0], (FQuery [97]), [].
  vm_compute. repeat split; congruence.
Qed.

(** [Q ff ff ff fe ...]: a complete header with an impossible length: need-more (for ever, by
    [decode_eternal_wait_thm]) instead of an error *)
Theorem decode_progress_refuted_thm :
  exists b, fst (decode true b) = Ok None /\ 5 <= blen b /\ declared_len b < 4.
Proof. exists [81; 255; 255; 255; 254; 97; 0]. vm_compute. repeat split; congruence. Qed.

(** the answer depends on how the bytes were segmented: the complete frame [Q 00 00 00 06 'a' 'b'] alone is
    rejected, the same frame followed by a NUL byte of the next message yields a message *)
Theorem decode_chunking_refuted_thm :
  exists b ext, observe (decode true b) = VErr /\ is_vmsg (observe (decode true (b ++ ext))) = true
                /\ blen b = 1 + declared_len b.
Proof. exists [81; 0; 0; 0; 6; 97; 98], [0]. vm_compute. repeat split; congruence. Qed.

(** [00 00 00 04 | 00 03 00 00 | 00]: a startup packet of declared length 4 followed by other bytes *)
Theorem startup_framing_refuted_thm :
  exists b m rest, decode_startup b = (Ok (Some m), rest) /\ blen b - blen rest > startup_declared_len b.
Proof.
  exists [0; 0; 0; 4; 0; 3; 0; 0; 0], (FStartup 196608 []), [].
  vm_compute. repeat split; congruence.
Qed.

Theorem startup_progress_refuted_thm :
  exists b, fst (decode_startup b) = Ok None /\ 4 <= blen b /\ startup_declared_len b < 8.
Proof. exists [255; 255; 255; 255; 0; 3; 0; 0; 0]. vm_compute. repeat split; congruence. Qed.

(** a Rust [String] may hold a NUL; such a "message" has no wire form that decodes back (not a defect of
    the decoder: protocol Strings cannot contain NUL) *)
Theorem roundtrip_needs_no_nul_thm :
  exists m, wf_frontend m = false /\ fst (decode true (enc_frontend m)) <> Ok (Some m).
Proof. exists (FQuery [97; 0; 98]). vm_compute. split; [reflexivity|congruence]. Qed.

(** * The hypotheses of the conditional theorems are satisfiable by ordinary inputs *)
Example ex_wf_query : wf_frontend (FQuery [83; 69; 76; 69; 67; 84; 32; 195; 169]) = true.
Proof. vm_compute. reflexivity. Qed.

Example ex_wf_startup :
  wf_frontend (FStartup 196608 [([117; 115; 101; 114], [97; 108]); ([100; 98], [])]) = true
  /\ is_startup_kind (FStartup 196608 [([117; 115; 101; 114], [97; 108]); ([100; 98], [])]) = true.
Proof. vm_compute. split; reflexivity. Qed.

Example ex_not_known :
  known_decode (enc_frontend (FQuery [83; 69]) ++ [88; 0; 0]) = false
  /\ observe (decode true (enc_frontend (FQuery [83; 69]) ++ [88; 0; 0])) = VMsg (FQuery [83; 69]) [88; 0; 0].
Proof. vm_compute. split; reflexivity. Qed.

Example ex_not_known_startup :
  known_startup (enc_frontend (FStartup 196608 [([117], [97])]) ++ [81]) = false.
Proof. vm_compute. reflexivity. Qed.

Example ex_known_classes :
  k_neg_len [81; 255; 255; 255; 254; 0] = true /\ k_small_len [88; 0; 0; 0; 3] = true
  /\ k_cross_frame [81; 0; 0; 0; 5; 97; 0] = true /\ k_early_nul [112; 0; 0; 0; 7; 0; 98; 0] = true
  /\ k_terminate_tail [88; 0; 0; 0; 5; 1] = true /\ ks_short_wait [0; 0; 0; 7] = true
  /\ ks_ssl_tail [0; 0; 0; 9; 4; 210; 22; 47; 0] = true
  /\ ks_params_misframed [0; 0; 0; 9; 0; 3; 0; 0; 0; 0] = false
  /\ ks_params_misframed [0; 0; 0; 10; 0; 3; 0; 0; 0; 0] = true.
Proof. vm_compute. repeat split; reflexivity. Qed.

Example ex_eternal_wait_hyp :
  k_neg_len [81; 128; 0; 0; 0] = true /\ k_len_minus1 [81; 128; 0; 0; 0] = false.
Proof. vm_compute. split; reflexivity. Qed.

Example ex_progress_hyp :
  k_neg_len [81; 0; 0; 0; 9; 1] = false /\ fst (decode true [81; 0; 0; 0; 9; 1]) = Ok None.
Proof. vm_compute. split; reflexivity. Qed.

Example ex_invalid_length_hyp :
  known_decode [90; 0; 0; 0; 2; 7] = false /\ 5 <= blen [90; 0; 0; 0; 2; 7] /\ declared_len [90; 0; 0; 0; 2; 7] < 4
  /\ observe (decode true [90; 0; 0; 0; 2; 7]) = VErr.
Proof. vm_compute. repeat split; congruence. Qed.

Example ex_stable_hyp :
  known_decode [112; 0; 0; 0; 6; 120; 0] = false /\ known_decode ([112; 0; 0; 0; 6; 120; 0] ++ [0; 0]) = false
  /\ observe (decode true ([112; 0; 0; 0; 6; 120; 0] ++ [0; 0])) = VMsg (FPassword [120]) [0; 0].
Proof. vm_compute. repeat split; reflexivity. Qed.

Example ex_startup_refines_hyp :
  known_startup [0; 0; 0; 9; 0; 3; 0; 0; 0; 81] = false
  /\ observe (decode_startup [0; 0; 0; 9; 0; 3; 0; 0; 0; 81]) = VMsg (FStartup 196608 []) [81].
Proof. vm_compute. split; reflexivity. Qed.
