(** A concrete instance of the temporal oracles of [env], exact on the CANONICAL texts (the ones
    [Display] produces) and [PUnknown] elsewhere.  The real parsers
    (vibesql-types/src/temporal/{date,time,timestamp,interval}.rs, property C22) accept more than the
    canonical forms; on the canonical forms they compute exactly what is written here:

    - date       [digits{4..10}-dd-dd]: split('-') gives three parts, i32/u8/u8 parse, [Date::new]
                 range check (month 1..12, day 1..31)
    - time       [dd:dd:dd] or [dd:dd:dd.d{1..9}]: fraction right-padded with '0' to nine digits,
                 [Time::new] range check
    - timestamp  [date ' ' time] with both parts canonical (no 'T', no zone suffix is recognised in
                 such a text: the last '-' sits at byte offset <= 10)
    - interval   [Interval::new] never fails and never panics (any text is accepted).

    This instance is what the correspondence runs use; the theorems quantify over every [env].
    No proofs in this file. *)
From Coq Require Import String List ZArith Bool.
From VibeSQL Require Import Codec.BinUtf8 Codec.BinDec Codec.BinValue Codec.BinType.
Import ListNotations.
Open Scope Z_scope.

Definition all_digits (s : bytes) : bool := forallb is_digit s.
Definition num (s : bytes) : Z := match digits_val 0 s with Some v => v | None => 0 end.
Definition len_in (lo hi : nat) (s : bytes) : bool := (lo <=? length s)%nat && (length s <=? hi)%nat.

Definition canon_date (s : bytes) : presult (Z * Z * Z) :=
  match split_on 45 s with
  | [y; m; d] =>
      if all_digits y && len_in 4 10 y && all_digits m && len_in 2 2 m && all_digits d && len_in 2 2 d then
        if (num y <=? 2147483647) && inr 1 12 (num m) && inr 1 31 (num d)
        then POk (num y, num m, num d) else PErr
      else PUnknown
  | _ => PUnknown
  end.

Definition canon_time (s : bytes) : presult (Z * Z * Z * Z) :=
  let '(hms, frac) := match split_on 46 s with
                      | [a] => (a, Some [])
                      | [a; f] => (a, if all_digits f && len_in 1 9 f then Some f else None)
                      | _ => (s, None)
                      end in
  match frac, split_on 58 hms with
  | Some f, [h; mi; se] =>
      if all_digits h && len_in 2 2 h && all_digits mi && len_in 2 2 mi && all_digits se && len_in 2 2 se then
        let ns := num (f ++ repeat 48 (9 - length f)) in
        if (num h <=? 23) && (num mi <=? 59) && (num se <=? 59) then POk (num h, num mi, num se, ns) else PErr
      else PUnknown
  | _, _ => PUnknown
  end.

Definition canon_timestamp (s : bytes) : presult (Z * Z * Z * Z * Z * Z * Z) :=
  match split_on 32 s with
  | [d; t] =>
      match canon_date d, canon_time t with
      | POk (y, m, dd), POk (h, mi, se, ns) => POk (y, m, dd, h, mi, se, ns)
      | POk _, PErr => PErr
      | PErr, (POk _ | PErr) => PErr
      | _, _ => PUnknown
      end
  | _ => PUnknown
  end.

(** [Interval::new] never fails and (since the repair of vibesql-types' interval parser) never panics:
    [parse::<Interval>()] is [Ok] for every text *)
Definition canon_interval (s : bytes) : presult unit := POk tt.

Definition canon_env (stack spin : Z) : env :=
  mkEnv canon_date canon_time canon_timestamp canon_interval stack spin.
