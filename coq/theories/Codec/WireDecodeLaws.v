(** Codec/WireDecodeLaws.v — C27, [FrontendMessage::decode]: explicit form of the model, refinement
    of the framing-respecting reference outside the known classes, exactness of the classes, panics,
    suffix/need-more/progress laws. *)
From Coq Require Import ZArith List Bool Lia.
From VibeSQL Require Import Generated.Consts Codec.Wire Codec.WireSpec Codec.WireBytes.
Import ListNotations.
Open Scope Z_scope.

Lemma skipn_S_skipn {A} p (b : list A) : skipn 1 (skipn p b) = skipn (S p) b.
Proof.
  revert b; induction p as [|p IH]; intros b.
  - reflexivity.
  - destruct b as [|x b]; [reflexivity|]. cbn [skipn] in *. apply IH.
Qed.

Lemma position0_split b :
  match position0 b with
  | None => split_nul b = None
  | Some p => (p < length b)%nat /\ split_nul b = Some (firstn p b, skipn (S p) b)
  end.
Proof.
  induction b as [|x b IH]; cbn [position0 split_nul]; [reflexivity|].
  change wire_cstring_terminator with 0.
  destruct (x =? 0).
  - cbn. split; [lia|reflexivity].
  - destruct (position0 b) as [p|]; cbn [option_map].
    + destruct IH as [Hp E]. rewrite E. split; [cbn; lia | reflexivity].
    + rewrite IH. reflexivity.
Qed.

Definition cstring_result (b : bytes) : res bytes * bytes :=
  match split_nul b with
  | None => (Err InvalidString, b)
  | Some (s, r) => if utf8_valid s then (Ok s, r) else (Err InvalidString, r)
  end.

Lemma read_cstring_spec b : read_cstring b = cstring_result b.
Proof.
  unfold read_cstring, cstring_result. pose proof (position0_split b) as H.
  destruct (position0 b) as [p|].
  - destruct H as [Hp E]. rewrite E. unfold split_to.
    destruct (Nat.leb_spec p (length b)); [|lia].
    unfold advance. rewrite skipn_length.
    destruct (Nat.leb_spec 1 (length b - p)); [|lia].
    rewrite skipn_S_skipn. reflexivity.
  - rewrite H. reflexivity.
Qed.

Definition string_result (mk : bytes -> fmsg) (r : bytes) : dres :=
  match split_nul r with
  | None => (Err InvalidString, r)
  | Some (s, r') => if utf8_valid s then (Ok (Some (mk s)), r') else (Err InvalidString, r')
  end.

Lemma decode_string_msg_spec mk l0 l1 l2 l3 r :
  decode_string_msg mk (l0 :: l1 :: l2 :: l3 :: r) = string_result mk r.
Proof.
  unfold decode_string_msg, string_result. cbn [advance length Nat.leb skipn].
  rewrite read_cstring_spec. unfold cstring_result.
  destruct (split_nul r) as [[s r']|]; [|reflexivity].
  destruct (utf8_valid s); reflexivity.
Qed.

Definition need_of (oc : bool) (L : Z) : option Z := usize_add oc 1 (i32_as_usize L).

Lemma decode_short oc b : blen b < 5 -> decode oc b = (Ok None, b).
Proof.
  intros H. unfold decode. change wire_header_min with 5.
  destruct (Z.ltb_spec (blen b) 5); [reflexivity|lia].
Qed.

Lemma decode_long oc t l0 l1 l2 l3 r :
  decode oc (t :: l0 :: l1 :: l2 :: l3 :: r) =
    match need_of oc (s32 l0 l1 l2 l3) with
    | None => (Panic, t :: l0 :: l1 :: l2 :: l3 :: r)
    | Some need =>
      if 5 + blen r <? need then (Ok None, t :: l0 :: l1 :: l2 :: l3 :: r)
      else if t =? 81 then string_result FQuery r
      else if t =? 112 then string_result FPassword r
      else if t =? 88 then (Ok (Some FTerminate), r)
      else (Err (InvalidMessageType t), l0 :: l1 :: l2 :: l3 :: r)
    end.
Proof.
  unfold decode. change wire_header_min with 5.
  assert (E : blen (t :: l0 :: l1 :: l2 :: l3 :: r) = 5 + blen r) by (rewrite !blen_cons; lia).
  rewrite E. destruct (Z.ltb_spec (5 + blen r) 5) as [H|_]; [pose proof (blen_nonneg r); lia|].
  cbn [index nth_error]. rewrite <- s32_i32_of_be. fold (need_of oc (s32 l0 l1 l2 l3)).
  destruct (need_of oc (s32 l0 l1 l2 l3)) as [need|]; [|reflexivity].
  destruct (5 + blen r <? need); [reflexivity|].
  cbn [advance length Nat.leb skipn].
  change wire_ftag_Query with 81. change wire_ftag_Password with 112. change wire_ftag_Terminate with 88.
  rewrite !decode_string_msg_spec.
  destruct (t =? 81); [reflexivity|]. destruct (t =? 112); [reflexivity|]. destruct (t =? 88); reflexivity.
Qed.

Lemma need_of_cases oc L : - two31 <= L < two31 ->
     (L = -1 /\ need_of oc L = if oc then None else Some 0)
  \/ (L <= -2 /\ need_of oc L = Some (L + 1 + two64))
  \/ (0 <= L /\ need_of oc L = Some (1 + L)).
Proof.
  intros HL. unfold need_of, usize_add, i32_as_usize.
  destruct (Z.ltb_spec L 0).
  - destruct (Z.eq_dec L (-1)) as [->|Hne].
    + left. split; [reflexivity|]. cbn. destruct oc; reflexivity.
    + right; left. split; [lia|].
      destruct (Z.ltb_spec (1 + (L + two64)) two64); [|lia]. f_equal. lia.
  - right; right. split; [lia|].
    destruct (Z.ltb_spec (1 + L) two64); [reflexivity|lia].
Qed.


Lemma bytes_case5 (b : bytes) :
  (blen b < 5 /\ header b = None) \/ exists t l0 l1 l2 l3 r, b = t :: l0 :: l1 :: l2 :: l3 :: r.
Proof.
  destruct b as [|t [|l0 [|l1 [|l2 [|l3 r]]]]]; try (left; split; [cbn; lia | reflexivity]).
  right. eauto 7.
Qed.

Lemma string_result_cases mk r :
  (split_nul r = None /\ string_result mk r = (Err InvalidString, r))
  \/ exists s r', split_nul r = Some (s, r') /\ r = s ++ 0 :: r' /\ no_nul s = true
       /\ string_result mk r = if utf8_valid s then (Ok (Some (mk s)), r') else (Err InvalidString, r').
Proof.
  unfold string_result. destruct (split_nul r) as [[s r']|] eqn:E.
  - right. exists s, r'. destruct (split_nul_inv _ _ _ E) as [-> Hn]. auto.
  - left. auto.
Qed.

Lemma no_nul_firstn n s : no_nul s = true -> no_nul (firstn n s) = true.
Proof.
  revert n; induction s as [|x s IH]; intros [|n] H; try reflexivity.
  cbn [firstn no_nul forallb] in *. apply andb_true_iff in H. destruct H as [Hx Hs].
  rewrite Hx. cbn [andb]. apply IH. exact Hs.
Qed.

(** the frame body cut out of [s ++ 0 :: r'] *)
Lemma cut_exact (s r' : bytes) (n : nat) : n = S (length s) -> firstn n (s ++ 0 :: r') = s ++ [0] /\ skipn n (s ++ 0 :: r') = r'.
Proof.
  intros ->. replace (s ++ 0 :: r') with ((s ++ [0]) ++ r') by (rewrite <- app_assoc; reflexivity).
  replace (S (length s)) with (length (s ++ [0])) by (rewrite app_length; cbn; lia).
  split; [apply firstn_app_exact | apply skipn_app_exact].
Qed.

Lemma cut_short (s r' : bytes) (n : nat) : (n <= length s)%nat -> firstn n (s ++ 0 :: r') = firstn n s.
Proof.
  intros H. rewrite firstn_app. replace (n - length s)%nat with 0%nat by lia. cbn [firstn]. apply app_nil_r.
Qed.

Lemma cut_long (s r' : bytes) (n : nat) : (S (length s) < n)%nat -> (n <= length (s ++ 0%Z :: r'))%nat ->
  exists x tl, firstn n (s ++ 0 :: r') = s ++ 0 :: x :: tl.
Proof.
  intros H1 H2. rewrite firstn_app. rewrite firstn_all2 by lia.
  rewrite app_length in H2. cbn [length] in H2.
  destruct (n - length s)%nat as [|k] eqn:E; [lia|]. cbn [firstn].
  destruct k as [|k]; [lia|]. destruct r' as [|x r']; [cbn [length] in H2; lia|].
  cbn [firstn]. eauto.
Qed.

Lemma spec_string_msg_no_nul mk body rest : no_nul body = true -> spec_string_msg mk body rest = OError.
Proof. intros H. unfold spec_string_msg. apply split_nul_none in H. rewrite H. reflexivity. Qed.

Lemma spec_string_msg_exact mk s rest :
  no_nul s = true -> spec_string_msg mk (s ++ [0]) rest = if utf8_valid s then OMsg (mk s) rest else OError.
Proof. intros H. unfold spec_string_msg. rewrite (split_nul_app s [] H). reflexivity. Qed.

Lemma spec_string_msg_long mk s x tl rest : no_nul s = true -> spec_string_msg mk (s ++ 0 :: x :: tl) rest = OError.
Proof. intros H. unfold spec_string_msg. rewrite (split_nul_app s (x :: tl) H). reflexivity. Qed.

(** the reference on a complete frame whose payload is a string *)
Lemma spec_body_string mk (L : Z) (r s r' : bytes) :
  4 <= L -> L - 4 <= blen r -> r = s ++ 0 :: r' -> no_nul s = true ->
  let n := Z.to_nat (L - 4) in
  spec_string_msg mk (firstn n r) (skipn n r) =
    if blen s =? L - 5 then (if utf8_valid s then OMsg (mk s) r' else OError) else OError.
Proof.
  intros H4 Hc -> Hs n.
  assert (Hn : Z.of_nat n = L - 4) by (unfold n; lia).
  unfold blen in *.
  destruct (Z.eqb_spec (Z.of_nat (length s)) (L - 5)) as [E|E].
  - destruct (cut_exact s r' n ltac:(lia)) as [-> ->]. apply spec_string_msg_exact. exact Hs.
  - destruct (Z_lt_le_dec (Z.of_nat (length s)) (L - 5)) as [Hlt|Hge].
    + destruct (cut_long s r' n ltac:(lia) ltac:(lia)) as (x & tl & ->). apply spec_string_msg_long. exact Hs.
    + rewrite cut_short by lia. apply spec_string_msg_no_nul. apply no_nul_firstn. exact Hs.
Qed.

Lemma spec_decode_long t l0 l1 l2 l3 r :
  spec_decode (t :: l0 :: l1 :: l2 :: l3 :: r) =
    let L := s32 l0 l1 l2 l3 in
    if L <? 4 then OError else
    if blen r <? L - 4 then ONeedMore else
    let n := Z.to_nat (L - 4) in
    if t =? 81 then spec_string_msg FQuery (firstn n r) (skipn n r)
    else if t =? 112 then spec_string_msg FPassword (firstn n r) (skipn n r)
    else if t =? 88 then OMsg FTerminate (skipn n r)
    else OError.
Proof. reflexivity. Qed.

Lemma spec_decode_short b : blen b < 5 -> spec_decode b = ONeedMore.
Proof.
  destruct (bytes_case5 b) as [[_ H]|(t & l0 & l1 & l2 & l3 & r & ->)].
  - intros _. destruct b as [|t [|l0 [|l1 [|l2 [|l3 r]]]]]; try reflexivity. discriminate.
  - rewrite !blen_cons. pose proof (blen_nonneg r). lia.
Qed.

Lemma known_short b : blen b < 5 -> known_decode b = false.
Proof.
  intros H. destruct (bytes_case5 b) as [[_ Hh]|(t & l0 & l1 & l2 & l3 & r & ->)].
  - unfold known_decode, k_neg_len, k_small_len, k_cross_frame, k_early_nul, k_terminate_tail. rewrite Hh. reflexivity.
  - rewrite !blen_cons in H. pose proof (blen_nonneg r). lia.
Qed.

(** ** Refinement: outside the known classes the real decoder does what the reference does *)
Theorem decode_refines_spec_thm oc b :
  known_decode b = false -> agrees (observe (decode oc b)) b (spec_decode b).
Proof.
  intros K.
  destruct (bytes_case5 b) as [[Hs _]|(t & l0 & l1 & l2 & l3 & r & ->)].
  { rewrite decode_short, spec_decode_short by assumption. reflexivity. }
  rewrite decode_long, spec_decode_long. cbn zeta.
  unfold known_decode, k_neg_len, k_small_len, k_cross_frame, k_early_nul, k_terminate_tail, frame_complete, is_string_tag in K.
  cbn [header] in K. change P_Query with 81 in K. change P_Password with 112 in K. change P_Terminate with 88 in K.
  set (L := s32 l0 l1 l2 l3) in *.
  pose proof (s32_range l0 l1 l2 l3) as HL. fold L in HL.
  pose proof (blen_nonneg r) as Hr.
  apply orb_false_iff in K. destruct K as [K Ktt].
  apply orb_false_iff in K. destruct K as [K Ken].
  apply orb_false_iff in K. destruct K as [K Kcf].
  apply orb_false_iff in K. destruct K as [Kneg Ksm].
  apply Z.ltb_ge in Kneg.
  destruct (need_of_cases oc L HL) as [[? _]|[[? _]|[_ ->]]]; [lia|lia|].
  destruct (Z.ltb_spec (5 + blen r) (1 + L)) as [Hinc|Hcomp].
  { (* incomplete frame *)
    destruct (Z.ltb_spec L 4); [lia|]. destruct (Z.ltb_spec (blen r) (L - 4)); [|lia]. reflexivity. }
  destruct (Z.ltb_spec L 4) as [Hsmall|Hbig].
  { (* declared length 0..3 *)
    destruct (Z.leb_spec 0 L); [|lia]. destruct (Z.ltb_spec L 4); [|lia]. cbn [andb] in Ksm.
    destruct (Z.eqb_spec t 88) as [->|Hx]; [discriminate Ksm|]. cbn [orb] in Ksm.
    destruct (Z.eqb_spec t 81) as [->|Hq]; [|destruct (Z.eqb_spec t 112) as [->|Hp]]; cbn [orb andb] in Ksm; cbn [Z.eqb Pos.eqb];
      try reflexivity.
    - destruct (string_result_cases FQuery r) as [[_ ->]|(s & r' & E & _ & _ & ->)]; [reflexivity|].
      rewrite E in Ksm. rewrite Ksm. reflexivity.
    - destruct (string_result_cases FPassword r) as [[_ ->]|(s & r' & E & _ & _ & ->)]; [reflexivity|].
      rewrite E in Ksm. rewrite Ksm. reflexivity. }
  (* a complete frame with a plausible length *)
  destruct (Z.ltb_spec (blen r) (L - 4)); [lia|].
  destruct (Z.leb_spec 4 L); [|lia]. destruct (Z.leb_spec (L - 4) (blen r)); [|lia]. cbn [andb] in Kcf, Ken, Ktt.
  assert (Hstr : forall mk, (match split_nul r with Some (s, _) => (L - 5 <? blen s) && utf8_valid s | None => false end) = false ->
                            (match split_nul r with Some (s, _) => (blen s <? L - 5) && utf8_valid s | None => false end) = false ->
                 agrees (observe (string_result mk r)) (t :: l0 :: l1 :: l2 :: l3 :: r)
                        (spec_string_msg mk (firstn (Z.to_nat (L - 4)) r) (skipn (Z.to_nat (L - 4)) r))).
  { intros mk C1 C2.
    destruct (string_result_cases mk r) as [[E ->]|(s & r' & E & Er & Hs & ->)].
    - rewrite spec_string_msg_no_nul; [reflexivity|]. apply no_nul_firstn. apply split_nul_none. exact E.
    - rewrite E in C1, C2.
      rewrite (spec_body_string mk L r s r') by (assumption || lia).
      destruct (Z.eqb_spec (blen s) (L - 5)) as [Eq|Ne].
      + destruct (utf8_valid s); reflexivity.
      + destruct (utf8_valid s); [|reflexivity]. rewrite andb_true_r in C1, C2.
        apply Z.ltb_ge in C1. apply Z.ltb_ge in C2. lia. }
  destruct (Z.eqb_spec t 81) as [->|Hq].
  { cbn [orb andb] in Kcf, Ken. apply Hstr; assumption. }
  destruct (Z.eqb_spec t 112) as [->|Hp].
  { cbn [orb andb] in Kcf, Ken. apply Hstr; assumption. }
  destruct (Z.eqb_spec t 88) as [->|Hx]; [|reflexivity].
  cbn [andb] in Ktt. apply Z.ltb_ge in Ktt.
  replace (L - 4) with 0 by lia. reflexivity.
Qed.


Lemma string_result_not_panic mk r : fst (string_result mk r) <> Panic /\ fst (string_result mk r) <> Fuel.
Proof.
  destruct (string_result_cases mk r) as [[_ ->]|(s & r' & _ & _ & _ & ->)]; [split; discriminate|].
  destruct (utf8_valid s); split; discriminate.
Qed.

(** ** Panics: exactly the declared length -1 in a build with overflow checks *)
Theorem decode_panic_iff_thm oc b : fst (decode oc b) = Panic <-> (oc = true /\ k_len_minus1 b = true).
Proof.
  destruct (bytes_case5 b) as [[Hs Hh]|(t & l0 & l1 & l2 & l3 & r & ->)].
  { rewrite decode_short by assumption. unfold k_len_minus1. rewrite Hh. cbn. split; [discriminate|intros [_ H]; discriminate]. }
  rewrite decode_long. unfold k_len_minus1. cbn [header].
  set (L := s32 l0 l1 l2 l3). pose proof (s32_range l0 l1 l2 l3) as HL. fold L in HL.
  pose proof (blen_nonneg r) as Hr.
  assert (NP : forall need, fst (if 5 + blen r <? need then (Ok None, t :: l0 :: l1 :: l2 :: l3 :: r)
      else if t =? 81 then string_result FQuery r
      else if t =? 112 then string_result FPassword r
      else if t =? 88 then (Ok (Some FTerminate), r)
      else (Err (InvalidMessageType t), l0 :: l1 :: l2 :: l3 :: r)) <> Panic).
  { intros need. destruct (5 + blen r <? need); [discriminate|].
    destruct (t =? 81); [apply string_result_not_panic|].
    destruct (t =? 112); [apply string_result_not_panic|].
    destruct (t =? 88); discriminate. }
  destruct (need_of_cases oc L HL) as [[E ->]|[[HLn ->]|[HLp ->]]].
  - rewrite E. cbn [Z.eqb Pos.eqb]. destruct oc.
    + cbn. tauto.
    + split; [intros H; exfalso; exact (NP _ H)|intros [H _]; discriminate].
  - destruct (Z.eqb_spec L (-1)); [lia|]. split; [intros H; exfalso; exact (NP _ H)|intros [_ H]; discriminate].
  - destruct (Z.eqb_spec L (-1)); [lia|]. split; [intros H; exfalso; exact (NP _ H)|intros [_ H]; discriminate].
Qed.

Theorem decode_never_fuel_thm oc b : fst (decode oc b) <> Fuel.
Proof.
  destruct (bytes_case5 b) as [[Hs Hh]|(t & l0 & l1 & l2 & l3 & r & ->)].
  { rewrite decode_short by assumption. discriminate. }
  rewrite decode_long. destruct (need_of oc (s32 l0 l1 l2 l3)); [|discriminate].
  destruct (5 + blen r <? z); [discriminate|].
  destruct (t =? 81); [apply string_result_not_panic|].
  destruct (t =? 112); [apply string_result_not_panic|].
  destruct (t =? 88); discriminate.
Qed.

(** ** The buffer after a call is always a suffix of the buffer before; need-more leaves it untouched *)
Lemma string_result_suffix mk r res r' : string_result mk r = (res, r') -> exists pre, r = pre ++ r'.
Proof.
  destruct (string_result_cases mk r) as [[_ ->]|(s & r2 & _ & -> & _ & ->)].
  - intros H; inversion H; subst. exists []. reflexivity.
  - intros H. exists (s ++ [0]). rewrite <- app_assoc. cbn [app].
    destruct (utf8_valid s); inversion H; subst; reflexivity.
Qed.

Theorem decode_suffix_thm oc b res b' : decode oc b = (res, b') -> exists pre, b = pre ++ b'.
Proof.
  destruct (bytes_case5 b) as [[Hs Hh]|(t & l0 & l1 & l2 & l3 & r & ->)].
  { rewrite decode_short by assumption. intros H; inversion H; subst. exists []. reflexivity. }
  rewrite decode_long. destruct (need_of oc (s32 l0 l1 l2 l3)) as [need|].
  2:{ intros H; inversion H; subst. exists []. reflexivity. }
  destruct (5 + blen r <? need).
  { intros H; inversion H; subst. exists []. reflexivity. }
  destruct (t =? 81).
  { intros H. destruct (string_result_suffix _ _ _ _ H) as [pre ->]. exists (t :: l0 :: l1 :: l2 :: l3 :: pre). reflexivity. }
  destruct (t =? 112).
  { intros H. destruct (string_result_suffix _ _ _ _ H) as [pre ->]. exists (t :: l0 :: l1 :: l2 :: l3 :: pre). reflexivity. }
  destruct (t =? 88).
  { intros H; inversion H; subst. exists [t; l0; l1; l2; l3]. reflexivity. }
  intros H; inversion H; subst. exists [t]. reflexivity.
Qed.

Lemma string_result_not_none mk r b' : string_result mk r <> (Ok None, b').
Proof.
  destruct (string_result_cases mk r) as [[_ ->]|(s & r2 & _ & _ & _ & ->)]; [discriminate|].
  destruct (utf8_valid s); discriminate.
Qed.

Theorem decode_need_more_untouched_thm oc b b' : decode oc b = (Ok None, b') -> b' = b.
Proof.
  destruct (bytes_case5 b) as [[Hs Hh]|(t & l0 & l1 & l2 & l3 & r & ->)].
  { rewrite decode_short by assumption. intros H; inversion H; reflexivity. }
  rewrite decode_long. destruct (need_of oc (s32 l0 l1 l2 l3)) as [need|]; [|discriminate].
  destruct (5 + blen r <? need); [intros H; inversion H; reflexivity|].
  destruct (t =? 81); [intros H; exfalso; exact (string_result_not_none _ _ _ H)|].
  destruct (t =? 112); [intros H; exfalso; exact (string_result_not_none _ _ _ H)|].
  destruct (t =? 88); discriminate.
Qed.

(** ** Progress *)
Lemma string_result_fst_not_none mk r : fst (string_result mk r) <> Ok None.
Proof.
  destruct (string_result_cases mk r) as [[_ ->]|(s & r2 & _ & _ & _ & ->)]; [discriminate|].
  destruct (utf8_valid s); discriminate.
Qed.

(** need-more is returned only when the header or the declared frame is incomplete — unless the
    declared length is negative *)
Theorem decode_progress_thm oc b :
  k_neg_len b = false -> fst (decode oc b) = Ok None -> blen b < 5 \/ blen b < 1 + declared_len b.
Proof.
  intros K.
  destruct (bytes_case5 b) as [[Hs Hh]|(t & l0 & l1 & l2 & l3 & r & ->)]; [left; exact Hs|].
  rewrite decode_long. unfold k_neg_len, declared_len in *. cbn [header] in *.
  set (L := s32 l0 l1 l2 l3) in *. pose proof (s32_range l0 l1 l2 l3) as HL. fold L in HL.
  apply Z.ltb_ge in K.
  destruct (need_of_cases oc L HL) as [[? _]|[[? _]|[_ ->]]]; [lia|lia|].
  rewrite !blen_cons.
  destruct (Z.ltb_spec (5 + blen r) (1 + L)) as [Hi|Hc]; [intros _; right; lia|].
  destruct (t =? 81); [intros HH; exfalso; exact (string_result_fst_not_none _ _ HH)|].
  destruct (t =? 112); [intros HH; exfalso; exact (string_result_fst_not_none _ _ HH)|].
  destruct (t =? 88); discriminate.
Qed.

(** a declared length <= -2: need-more now and after ANY further bytes (as long as the buffer stays
    below isize::MAX, which Rust guarantees for every allocation) *)
Theorem decode_eternal_wait_thm oc b ext :
  k_neg_len b = true -> k_len_minus1 b = false -> blen (b ++ ext) < two63 ->
  decode oc (b ++ ext) = (Ok None, b ++ ext).
Proof.
  intros K K1 Hlen.
  destruct (bytes_case5 b) as [[Hs Hh]|(t & l0 & l1 & l2 & l3 & r & ->)].
  { unfold k_neg_len in K. rewrite Hh in K. discriminate. }
  cbn [app] in *. rewrite decode_long. unfold k_neg_len, k_len_minus1 in *. cbn [header] in *.
  set (L := s32 l0 l1 l2 l3) in *. pose proof (s32_range l0 l1 l2 l3) as HL. fold L in HL.
  apply Z.ltb_lt in K. apply Z.eqb_neq in K1.
  destruct (need_of_cases oc L HL) as [[? _]|[[_ ->]|[? _]]]; [lia| |lia].
  rewrite !blen_cons in Hlen.
  destruct (Z.ltb_spec (5 + blen (r ++ ext)) (L + 1 + two64)); [reflexivity|lia].
Qed.

(** ** Exactness of the known classes (build with overflow checks): inside a class the decoder
    really departs from the reference *)
Theorem decode_known_exact_thm b :
  blen b < two63 -> known_decode b = true -> ~ agrees (observe (decode true b)) b (spec_decode b).
Proof.
  intros Hlen K.
  destruct (bytes_case5 b) as [[Hs _]|(t & l0 & l1 & l2 & l3 & r & ->)].
  { rewrite known_short in K by assumption. discriminate. }
  rewrite decode_long, spec_decode_long. cbn zeta.
  unfold known_decode, k_neg_len, k_small_len, k_cross_frame, k_early_nul, k_terminate_tail, frame_complete, is_string_tag in K.
  cbn [header] in K. change P_Query with 81 in K. change P_Password with 112 in K. change P_Terminate with 88 in K.
  set (L := s32 l0 l1 l2 l3) in *.
  pose proof (s32_range l0 l1 l2 l3) as HL. fold L in HL.
  pose proof (blen_nonneg r) as Hr. rewrite !blen_cons in Hlen.
  destruct (need_of_cases true L HL) as [[E ->]|[[HLn ->]|[HLp ->]]].
  - (* -1: panic, the reference reports an error *)
    destruct (Z.ltb_spec L 4); [|lia]. cbn. discriminate.
  - destruct (Z.ltb_spec L 4); [|lia].
    destruct (Z.ltb_spec (5 + blen r) (L + 1 + two64)); [|lia]. cbn. discriminate.
  - destruct (Z.ltb_spec L 0) as [|_]; [lia|]. cbn [orb] in K.
    destruct (Z.ltb_spec (5 + blen r) (1 + L)) as [Hinc|Hcomp].
    { (* incomplete: no class applies *)
      exfalso.
      destruct (Z.leb_spec 0 L); [|lia]. destruct (Z.ltb_spec L 4); [lia|].
      destruct (Z.leb_spec (L - 4) (blen r)); [lia|]. rewrite !andb_false_r in K. cbn in K. discriminate. }
    destruct (Z.ltb_spec L 4) as [Hsmall|Hbig].
    { (* 0..3: the reference reports an error, the decoder returns a message *)
      destruct (Z.leb_spec 4 L); [lia|]. cbn [andb orb] in K.
      destruct (Z.leb_spec 0 L); [|lia]. cbn [andb] in K. rewrite orb_false_r in K.
      destruct (Z.eqb_spec t 81) as [->|Hq]; [|destruct (Z.eqb_spec t 112) as [->|Hp]]; cbn [orb andb Z.eqb Pos.eqb] in *.
      - destruct (string_result_cases FQuery r) as [[E _]|(s & r' & E & _ & _ & ->)]; rewrite E in K; [discriminate|].
        rewrite ?orb_false_r in K. rewrite K. cbn. discriminate.
      - destruct (string_result_cases FPassword r) as [[E _]|(s & r' & E & _ & _ & ->)]; rewrite E in K; [discriminate|].
        rewrite ?orb_false_r in K. rewrite K. cbn. discriminate.
      - rewrite ?orb_false_r in K. rewrite K. cbn. discriminate. }
    destruct (Z.ltb_spec (blen r) (L - 4)); [lia|].
    destruct (Z.leb_spec 4 L); [|lia]. destruct (Z.leb_spec (L - 4) (blen r)); [|lia].
    destruct (Z.leb_spec 0 L); [|lia]. destruct (Z.ltb_spec L 4); [lia|]. cbn [andb orb] in K.
    assert (Hstr : forall mk,
       ((match split_nul r with Some (s, _) => (L - 5 <? blen s) && utf8_valid s | None => false end)
        || (match split_nul r with Some (s, _) => (blen s <? L - 5) && utf8_valid s | None => false end)) = true ->
       ~ agrees (observe (string_result mk r)) (t :: l0 :: l1 :: l2 :: l3 :: r)
                (spec_string_msg mk (firstn (Z.to_nat (L - 4)) r) (skipn (Z.to_nat (L - 4)) r))).
    { intros mk C.
      destruct (string_result_cases mk r) as [[E _]|(s & r' & E & Er & Hs & ->)]; rewrite E in C; [discriminate|].
      rewrite (spec_body_string mk L r s r') by (assumption || lia).
      destruct (utf8_valid s); [|rewrite !andb_false_r in C; discriminate]. rewrite !andb_true_r in C.
      destruct (Z.eqb_spec (blen s) (L - 5)) as [Eq|Ne].
      - exfalso. apply orb_true_iff in C. destruct C as [C|C]; apply Z.ltb_lt in C; lia.
      - cbn. discriminate. }
    destruct (Z.eqb_spec t 81) as [->|Hq].
    { cbn [orb andb] in K. rewrite orb_false_r in K. apply Hstr. exact K. }
    destruct (Z.eqb_spec t 112) as [->|Hp].
    { cbn [orb andb] in K. rewrite orb_false_r in K. apply Hstr. exact K. }
    cbn [orb andb] in K.
    destruct (Z.eqb_spec t 88) as [->|Hx]; [|discriminate K].
    cbn [andb] in K. apply Z.ltb_lt in K. cbn [observe agrees].
    intros A. inversion A as [A'].
    assert (Hl : length (skipn (Z.to_nat (L - 4)) r) = length r) by (rewrite <- A'; reflexivity).
    rewrite skipn_length in Hl. unfold blen in *. lia.
Qed.
