(** The save/load round trip of the whole binary file (BinFile.save_binary / load_binary). *)
From Coq Require Import String List ZArith Bool Lia.
From VibeSQL Require Import Generated.Consts Value.SqlValue Codec.BinUtf8 Codec.BinDec Codec.BinPrim
  Codec.BinValue Codec.BinType Codec.BinExpr Codec.BinFile Codec.BinCanon
  Codec.BinPrimLaws Codec.BinDecLaws Codec.BinValueLaws Codec.BinTypeLaws Codec.BinFileLaws.
Import ListNotations.
Open Scope Z_scope.

(** * generic: a counted list written element by element is read back by the counted loop *)
Definition reads {A B} (item : dec B) (enc : A -> bytes) (g : A -> B) (P : A -> Prop) : Prop :=
  forall x rest, P x -> exists t, item (enc x ++ rest) = (t, Ok (g x) rest).

Lemma loop_fuel_roundtrip {A B} (item : dec B) (enc : A -> bytes) (g : A -> B) (P : A -> Prop) :
  reads item enc g P ->
  forall l fuel rest, Forall P l -> (length l <= fuel)%nat ->
  exists t, loop_fuel fuel (Z.of_nat (length l)) item (flat_map enc l ++ rest) = (t, Ok (map g l) rest).
Proof.
  intros Hr. induction l as [|x l IH]; intros fuel rest HP Hf.
  - exists []. destruct fuel; reflexivity.
  - inversion HP as [|? ? Hx Hl]; subst. destruct fuel as [|f]; [cbn in Hf; lia|].
    cbn [loop_fuel length flat_map]. 
    destruct (Z.leb_spec (Z.of_nat (S (length l))) 0) as [Hc|Hc]; [lia|].
    rewrite <- app_assoc. destruct (Hr x (flat_map enc l ++ rest) Hx) as [t1 E1].
    rewrite (bind_ok _ _ _ _ _ _ E1).
    replace (Z.of_nat (S (length l)) - 1) with (Z.of_nat (length l)) by lia.
    destruct (IH f rest Hl ltac:(cbn in Hf; lia)) as [t2 E2].
    rewrite (bind_ok _ _ _ _ _ _ E2). unfold ret. eexists. reflexivity.
Qed.

Lemma flat_map_length_ge {A} (enc : A -> bytes) (P : A -> Prop) l :
  (forall x, P x -> enc x <> []) -> Forall P l -> (length l <= length (flat_map enc l))%nat.
Proof.
  intros Hn HP. induction HP as [|x l Hx _ IH]; cbn [flat_map length]; [lia|].
  rewrite app_length. specialize (Hn x Hx). destruct (enc x); [congruence|]. cbn [length]. lia.
Qed.

Lemma loop_roundtrip {A B} (item : dec B) (enc : A -> bytes) (g : A -> B) (P : A -> Prop) :
  reads item enc g P -> (forall x, P x -> enc x <> []) ->
  forall l rest, Forall P l ->
  exists t, loop (Z.of_nat (length l)) item (flat_map enc l ++ rest) = (t, Ok (map g l) rest).
Proof.
  intros Hr Hn l rest HP. unfold loop. apply (loop_fuel_roundtrip item enc g P Hr); [exact HP|].
  rewrite app_length. pose proof (flat_map_length_ge enc P l Hn HP). lia.
Qed.

(** the state-threading loop: each element is read and folded into the state *)
Fixpoint chain {A St} (P : St -> A -> Prop) (step : St -> A -> St) (s : St) (l : list A) : Prop :=
  match l with
  | [] => True
  | x :: r => P s x /\ chain P step (step s x) r
  end.

Lemma iter_fuel_roundtrip {A St} (body : St -> dec St) (enc : A -> bytes) (step : St -> A -> St)
      (P : St -> A -> Prop) :
  (forall s x rest, P s x -> exists t, body s (enc x ++ rest) = (t, Ok (step s x) rest)) ->
  forall l fuel s rest, chain P step s l -> (length l <= fuel)%nat ->
  exists t, iter_fuel fuel (Z.of_nat (length l)) body s (flat_map enc l ++ rest) = (t, Ok (fold_left step l s) rest).
Proof.
  intros Hb. induction l as [|x l IH]; intros fuel s rest HP Hf.
  - exists []. destruct fuel; reflexivity.
  - destruct HP as [Hx Hl]. destruct fuel as [|f]; [cbn in Hf; lia|].
    cbn [iter_fuel length flat_map fold_left].
    destruct (Z.leb_spec (Z.of_nat (S (length l))) 0) as [Hc|Hc]; [lia|].
    rewrite <- app_assoc. destruct (Hb s x (flat_map enc l ++ rest) Hx) as [t1 E1].
    rewrite (bind_ok _ _ _ _ _ _ E1).
    replace (Z.of_nat (S (length l)) - 1) with (Z.of_nat (length l)) by lia.
    destruct (IH f (step s x) rest Hl ltac:(cbn in Hf; lia)) as [t2 E2].
    rewrite E2. eexists. reflexivity.
Qed.

Lemma chain_nonempty_length {A St} (P : St -> A -> Prop) (step : St -> A -> St) (enc : A -> bytes) :
  (forall s x, P s x -> enc x <> []) ->
  forall l s, chain P step s l -> (length l <= length (flat_map enc l))%nat.
Proof.
  intros Hn. induction l as [|x l IH]; intros s HP; cbn [flat_map length]; [lia|].
  destruct HP as [Hx Hl]. rewrite app_length. specialize (IH _ Hl). specialize (Hn s x Hx).
  destruct (enc x); [congruence|]. cbn [length]. lia.
Qed.

Lemma iter_roundtrip {A St} (body : St -> dec St) (enc : A -> bytes) (step : St -> A -> St)
      (P : St -> A -> Prop) :
  (forall s x rest, P s x -> exists t, body s (enc x ++ rest) = (t, Ok (step s x) rest)) ->
  (forall s x, P s x -> enc x <> []) ->
  forall l s rest, chain P step s l ->
  exists t, iter (Z.of_nat (length l)) body s (flat_map enc l ++ rest) = (t, Ok (fold_left step l s) rest).
Proof.
  intros Hb Hn l s rest HP. unfold iter. apply (iter_fuel_roundtrip body enc step P Hb); [exact HP|].
  rewrite app_length. pose proof (chain_nonempty_length P step enc Hn l s HP). lia.
Qed.

(** * rows *)
Definition value_ok (E : env) (v : bvalue) : Prop := wf_bvalue v = true /\ temporal_roundtrips E v.

Lemma read_value_roundtrip E : reads (read_value E) write_value (fun v => v) (value_ok E).
Proof.
  intros v rest [Hw Ht]. pose proof (value_roundtrip E v rest Hw Ht) as H.
  destruct (read_value E (write_value v ++ rest)) as [t o]. cbn [snd] in H. subst o. exists t. reflexivity.
Qed.

Lemma write_value_nonempty v : write_value v <> [].
Proof. unfold write_value. discriminate. Qed.

(** the values of one row *)
Lemma row_roundtrip E row rest :
  Forall (value_ok E) row ->
  exists t, loop (Z.of_nat (length row)) (read_value E) (flat_map write_value row ++ rest) = (t, Ok row rest).
Proof.
  intros H. destruct (loop_roundtrip (read_value E) write_value (fun v => v) (value_ok E)
                        (read_value_roundtrip E) (fun v _ => write_value_nonempty v) row rest H) as [t Et].
  rewrite map_id in Et. exists t. exact Et.
Qed.

(** * one table's data block *)
Definition row_ok (E : env) (cols : list column) (r : list bvalue) : Prop :=
  Forall (value_ok E) r /\ length r = length cols /\ normalize_row E cols r = ([], Ok r []).

Definition strip (t : table) : table := mkTable (t_name t) (t_cols t) [] 0.

Lemma fold_left_push name cols extra rows0 (rows : list (list bvalue)) :
  fold_left (fun t r => mkTable (t_name t) (t_cols t) (t_rows t ++ [r]) (t_extra t)) rows
            (mkTable name cols rows0 extra)
  = mkTable name cols (rows0 ++ rows) extra.
Proof.
  revert rows0. induction rows as [|r rows IH]; intros rows0; cbn [fold_left].
  - now rewrite app_nil_r.
  - cbn [t_name t_cols t_rows t_extra]. rewrite IH, <- app_assoc. reflexivity.
Qed.

Lemma flat_map_nonempty {A} (f : A -> bytes) (l : list A) x :
  In x l -> f x <> [] -> flat_map f l <> [].
Proof.
  induction l as [|y l IH]; intros Hi Hf; [destruct Hi|]. cbn [flat_map].
  destruct Hi as [->|Hi].
  - destruct (f x); [congruence | discriminate].
  - destruct (f y); [cbn; auto | discriminate].
Qed.

Lemma read_rows_roundtrip E t rows rest :
  (0 < length (t_cols t))%nat -> Forall (row_ok E (t_cols t)) rows ->
  exists tr, read_rows E t (Z.of_nat (length rows)) (flat_map (flat_map write_value) rows ++ rest)
             = (tr, Ok (mkTable (t_name t) (t_cols t) (t_rows t ++ rows) (t_extra t)) rest).
Proof.
  intros Hc Hrows. unfold read_rows.
  destruct (Z.eqb_spec (Z.of_nat (length (t_cols t))) 0) as [Hz|Hz]; [lia|].
  set (cols := t_cols t) in *.
  set (step := fun (t' : table) (r : list bvalue) => mkTable (t_name t') (t_cols t') (t_rows t' ++ [r]) (t_extra t')).
  set (P := fun (t' : table) (r : list bvalue) => t_cols t' = cols /\ row_ok E cols r).
  assert (Hbody : forall t' r rest', P t' r ->
            exists tr, (vals <- loop (Z.of_nat (length cols)) (read_value E) ;; table_insert E t' vals)
                         (flat_map write_value r ++ rest') = (tr, Ok (step t' r) rest')).
  { intros t' r rest' [Hcols (Hv & Hl & Hn)].
    rewrite <- Hl. destruct (row_roundtrip E r rest' Hv) as [t1 E1].
    rewrite (bind_ok _ _ _ _ _ _ E1). unfold table_insert. rewrite <- Hcols in Hn. rewrite Hn.
    eexists. reflexivity. }
  assert (Hne : forall t' r, P t' r -> flat_map write_value r <> []).
  { intros t' r [_ (_ & Hl & _)]. destruct r as [|v r]; [cbn in Hl; unfold cols in *; lia|].
    apply (flat_map_nonempty write_value (v :: r) v); [left; reflexivity | apply write_value_nonempty]. }
  assert (Hchain : forall rows' t', t_cols t' = cols -> Forall (row_ok E cols) rows' -> chain P step t' rows').
  { induction rows' as [|r rows' IH]; intros t' Ht' HF; cbn [chain]; [exact I|].
    inversion HF; subst. split; [split; assumption|]. apply IH; [exact Ht' | assumption]. }
  destruct (iter_roundtrip
              (fun t' => vals <- loop (Z.of_nat (length cols)) (read_value E) ;; table_insert E t' vals)
              (flat_map write_value) step P Hbody Hne rows t rest (Hchain rows t eq_refl Hrows)) as [tr Etr].
  exists tr. rewrite Etr. f_equal. f_equal.
  destruct t as [name tc trows textra]. unfold step. apply fold_left_push.
Qed.

(** * name lookup *)
Lemma find_idx_map {A B} (p : B -> bool) (f : A -> B) l : find_idx p (map f l) = find_idx (fun x => p (f x)) l.
Proof. induction l as [|x l IH]; cbn [map find_idx]; [reflexivity|]. now rewrite IH. Qed.

Lemma find_idx_ext {A} (p q : A -> bool) l : (forall x, In x l -> p x = q x) -> find_idx p l = find_idx q l.
Proof.
  induction l as [|x l IH]; intros H; cbn [find_idx]; [reflexivity|].
  rewrite (H x (or_introl eq_refl)), IH; [reflexivity|]. intros y Hy. apply H. right. exact Hy.
Qed.

Lemma find_idx_none {A} (p : A -> bool) l : (forall x, In x l -> p x = false) -> find_idx p l = None.
Proof.
  induction l as [|x l IH]; intros H; cbn [find_idx]; [reflexivity|].
  rewrite (H x (or_introl eq_refl)), IH; [reflexivity|]. intros y Hy. apply H. right. exact Hy.
Qed.

Lemma bytes_eqb_neq a b : a <> b -> bytes_eqb a b = false.
Proof. intros H. destruct (bytes_eqb a b) eqn:E; [apply bytes_eqb_eq in E; congruence | reflexivity]. Qed.

(** position of an element whose name is unique in the list *)
Lemma find_idx_unique {A} (key : A -> bytes) l k x :
  NoDup (map key l) -> nth_error l k = Some x ->
  find_idx (fun y => bytes_eqb (key y) (key x)) l = Some k.
Proof.
  revert k. induction l as [|y l IH]; intros k Hnd Hn; [destruct k; discriminate|].
  cbn [map] in Hnd. inversion Hnd as [|? ? Hni Hnd']; subst. cbn [find_idx].
  destruct k as [|k]; cbn [nth_error] in Hn.
  - inversion Hn; subst. rewrite bytes_eqb_refl. reflexivity.
  - assert (Hne : key y <> key x).
    { intros He. apply Hni. rewrite He. apply in_map. eapply nth_error_In; eauto. }
    rewrite (bytes_eqb_neq _ _ Hne). rewrite (IH k Hnd' Hn). reflexivity.
Qed.

Lemma has_dot_in s : has_dot s = true <-> In 46 s.
Proof.
  unfold has_dot. rewrite existsb_exists. split.
  - intros (x & Hx & He). apply Z.eqb_eq in He. subst. exact Hx.
  - intros H. exists 46. split; [exact H | reflexivity].
Qed.

Lemma tkey_has_dot t : has_dot (tkey t) = true.
Proof. unfold tkey. apply has_dot_in. apply in_or_app. left. vm_compute. tauto. Qed.

Lemma find_key_nodot ts name : has_dot name = false -> find_key ts name = None.
Proof.
  intros Hd. unfold find_key. apply find_idx_none. intros t _. apply bytes_eqb_neq. intros He.
  pose proof (tkey_has_dot t) as H. rewrite He, Hd in H. discriminate.
Qed.

Lemma ascii_upper_nodot s : has_dot s = false -> has_dot (ascii_upper s) = false.
Proof.
  intros H. destruct (has_dot (ascii_upper s)) eqn:E; [|reflexivity].
  apply has_dot_in in E. unfold ascii_upper in E. apply in_map_iff in E. destruct E as (b & Hb & Hi).
  unfold ascii_upper_b, inr in Hb.
  destruct ((97 <=? b) && (b <=? 122)) eqn:Er.
  - apply andb_true_iff in Er. destruct Er as [E1 E2]. apply Z.leb_le in E1, E2. lia.
  - subst b. assert (has_dot s = true) by (apply has_dot_in; exact Hi). congruence.
Qed.

Lemma find_key_public ts k t :
  NoDup (map t_name ts) -> nth_error ts k = Some t -> find_key ts (public_dot ++ t_name t) = Some k.
Proof.
  intros Hnd Hn. unfold find_key.
  rewrite (find_idx_ext _ (fun y => bytes_eqb (t_name y) (t_name t))).
  - apply (find_idx_unique t_name ts k t Hnd Hn).
  - intros y _. unfold tkey. destruct (bytes_eqb (t_name y) (t_name t)) eqn:E.
    + apply bytes_eqb_eq in E. rewrite E. apply bytes_eqb_refl.
    + apply bytes_eqb_neq. intros He. apply app_inv_head in He. rewrite He, bytes_eqb_refl in E. discriminate.
Qed.

(** [Database::get_table] finds the table by its plain (dot-free, unique) name *)
Lemma get_table_idx_found ts k t :
  NoDup (map t_name ts) -> nth_error ts k = Some t -> has_dot (t_name t) = false ->
  get_table_idx ts (t_name t) = POk k.
Proof.
  intros Hnd Hn Hd. unfold get_table_idx.
  rewrite (find_key_nodot ts _ Hd). cbn [or_else].
  destruct (is_ascii (t_name t)).
  - assert (Hu : (if bytes_eqb (ascii_upper (t_name t)) (t_name t) then None
                  else find_key ts (ascii_upper (t_name t))) = None).
    { destruct (bytes_eqb _ _); [reflexivity|]. apply find_key_nodot, ascii_upper_nodot, Hd. }
    rewrite Hu. cbn [or_else]. rewrite Hd. rewrite (find_key_public ts k t Hnd Hn). reflexivity.
  - rewrite Hd. rewrite (find_key_public ts k t Hnd Hn). reflexivity.
Qed.

(** * the data section *)
Definition table_ok (E : env) (t : table) : Prop :=
  wf_str (t_name t) = true /\ has_dot (t_name t) = false /\ (0 < length (t_cols t))%nat /\ t_extra t = 0
  /\ Z.of_nat (length (t_rows t)) < 2 ^ 64 /\ Forall (row_ok E (t_cols t)) (t_rows t).

Lemma read_table_data_roundtrip E d k t rest :
  table_ok E t -> NoDup (map t_name (d_tables d)) -> nth_error (d_tables d) k = Some (strip t) ->
  exists tr, read_table_data E d (write_table_data t ++ rest)
             = (tr, Ok (set_tables d (replace_nth k t (d_tables d))) rest).
Proof.
  intros (Hn & Hd & Hc & Hx & Hl & Hr) Hnd Hk.
  unfold read_table_data, write_table_data. rewrite <- !app_assoc.
  apply wf_str_utf8 in Hn. destruct Hn as [Hu Hlen].
  rewrite (bind_ok _ _ _ _ _ _ (string_roundtrip (t_name t) _ Hu Hlen)).
  rewrite Hx, Z.add_0_r.
  rewrite (bind_ok _ _ _ _ _ _ (u64_roundtrip _ _ (conj (Nat2Z.is_nonneg _) Hl))).
  pose proof (get_table_idx_found (d_tables d) k (strip t) Hnd Hk Hd) as Hg. cbn [strip t_name] in Hg.
  rewrite Hg, Hk.
  destruct (read_rows_roundtrip E (strip t) (t_rows t) rest Hc Hr) as [tr Etr].
  cbn [strip t_name t_cols t_rows t_extra app] in Etr.
  rewrite (bind_ok _ _ _ _ _ _ Etr). unfold ret.
  destruct t as [tn tc trs te]. cbn [t_name t_cols t_rows t_extra] in *. subst te.
  eexists. reflexivity.
Qed.

Lemma replace_nth_app {A} (a : list A) x y r : replace_nth (length a) x (a ++ y :: r) = a ++ x :: r.
Proof. induction a as [|z a IH]; cbn [length app replace_nth]; [reflexivity|]. now rewrite IH. Qed.

Lemma map_strip_names ts : map t_name (map strip ts) = map t_name ts.
Proof. rewrite map_map. reflexivity. Qed.

Lemma write_table_data_nonempty t : write_table_data t <> [].
Proof. unfold write_table_data, w_string. cbn [le_bytes app]. discriminate. Qed.

Lemma data_fuel_roundtrip E schemas roles idx trg :
  forall todo done fuel rest,
  NoDup (map t_name (done ++ todo)) -> Forall (table_ok E) todo -> (length todo <= fuel)%nat ->
  exists tr, iter_fuel fuel (Z.of_nat (length todo)) (read_table_data E)
               (mkDb schemas roles (done ++ map strip todo) idx trg) (flat_map write_table_data todo ++ rest)
             = (tr, Ok (mkDb schemas roles (done ++ todo) idx trg) rest).
Proof.
  induction todo as [|x todo IH]; intros done fuel rest Hnd Hok Hf.
  - exists []. destruct fuel; reflexivity.
  - inversion Hok as [|? ? Hx Hrest]; subst. destruct fuel as [|f]; [cbn in Hf; lia|].
    cbn [iter_fuel length flat_map map].
    destruct (Z.leb_spec (Z.of_nat (S (length todo))) 0) as [Hc|Hc]; [lia|].
    rewrite <- app_assoc.
    set (d0 := mkDb schemas roles (done ++ strip x :: map strip todo) idx trg).
    assert (Hnd0 : NoDup (map t_name (d_tables d0))).
    { cbn [d0 d_tables]. rewrite map_app. cbn [map]. rewrite map_strip_names.
      change (t_name (strip x)) with (t_name x). rewrite map_app in Hnd. exact Hnd. }
    assert (Hk : nth_error (d_tables d0) (length done) = Some (strip x)).
    { cbn [d0 d_tables]. rewrite nth_error_app2 by lia. rewrite Nat.sub_diag. reflexivity. }
    destruct (read_table_data_roundtrip E d0 (length done) x (flat_map write_table_data todo ++ rest) Hx Hnd0 Hk)
      as [t1 E1].
    rewrite (bind_ok _ _ _ _ _ _ E1).
    replace (Z.of_nat (S (length todo)) - 1) with (Z.of_nat (length todo)) by lia.
    cbn [d0 set_tables d_schemas d_roles d_tables d_indexes d_triggers].
    rewrite replace_nth_app.
    replace (done ++ x :: map strip todo) with ((done ++ [x]) ++ map strip todo) by (rewrite <- app_assoc; reflexivity).
    destruct (IH (done ++ [x]) f rest) as [t2 E2].
    + rewrite <- app_assoc. exact Hnd.
    + exact Hrest.
    + cbn in Hf. lia.
    + change (set_tables d0 ((done ++ [x]) ++ map strip todo))
        with (mkDb schemas roles ((done ++ [x]) ++ map strip todo) idx trg).
      rewrite E2. rewrite <- app_assoc. eexists. reflexivity.
Qed.

Lemma tables_roundtrip E schemas roles idx trg tables rest :
  NoDup (map t_name tables) -> Forall (table_ok E) tables ->
  exists tr, iter (Z.of_nat (length (map strip tables))) (read_table_data E)
               (mkDb schemas roles (map strip tables) idx trg) (flat_map write_table_data tables ++ rest)
             = (tr, Ok (mkDb schemas roles tables idx trg) rest).
Proof.
  intros Hnd Hok. unfold iter. rewrite map_length.
  apply (data_fuel_roundtrip E schemas roles idx trg tables [] _ rest Hnd Hok).
  rewrite app_length.
  pose proof (flat_map_length_ge write_table_data (fun _ => True) tables
                (fun t _ => write_table_data_nonempty t) ltac:(apply Forall_forall; auto)). lia.
Qed.

(** * catalog section *)
(** ** name lists (schemas, roles) *)
Lemma existsb_bytes_false n l : ~ In n l -> existsb (bytes_eqb n) l = false.
Proof.
  intros H. destruct (existsb (bytes_eqb n) l) eqn:E; [|reflexivity].
  apply existsb_exists in E. destruct E as (x & Hx & He). apply bytes_eqb_eq in He. subst. contradiction.
Qed.

Lemma fold_left_snoc {A} (l acc : list A) : fold_left (fun a x => a ++ [x]) l acc = acc ++ l.
Proof.
  revert acc. induction l as [|x l IH]; intros acc; cbn [fold_left]; [now rewrite app_nil_r|].
  rewrite IH, <- app_assoc. reflexivity.
Qed.

Lemma w_string_nonempty s : w_string s <> [].
Proof. unfold w_string. cbn [le_bytes app]. discriminate. Qed.

Lemma names_roundtrip what (guard : bytes -> bool) names rest :
  Forall (fun n => wf_str n = true) names -> NoDup names -> (forall n, In n names -> guard n = false) ->
  exists t, iter (Z.of_nat (length names))
              (fun l => n <- read_string ;;
                        lift (if guard n then Err (ECatalog what) else add_unique what l n)) []
              (flat_map w_string names ++ rest) = (t, Ok names rest).
Proof.
  intros Hwf Hnd Hg.
  set (P := fun (l : list bytes) (n : bytes) => wf_str n = true /\ ~ In n l /\ guard n = false).
  set (step := fun (l : list bytes) (n : bytes) => l ++ [n]).
  assert (Hbody : forall l n rest', P l n ->
            exists t, (n0 <- read_string ;; lift (if guard n0 then Err (ECatalog what) else add_unique what l n0))
                        (w_string n ++ rest') = (t, Ok (step l n) rest')).
  { intros l n rest' (Hw & Hni & Hgn). apply wf_str_utf8 in Hw. destruct Hw as [Hu Hl].
    rewrite (bind_ok _ _ _ _ _ _ (string_roundtrip n rest' Hu Hl)). rewrite Hgn.
    unfold add_unique. rewrite (existsb_bytes_false n l Hni). eexists. reflexivity. }
  assert (Hchain : forall ns acc, Forall (fun n => wf_str n = true) ns -> NoDup (acc ++ ns) ->
                     (forall n, In n ns -> guard n = false) -> chain P step acc ns).
  { induction ns as [|n ns IH]; intros acc Hw Hn Hgg; cbn [chain]; [exact I|].
    inversion Hw; subst. split.
    - split; [assumption|]. split; [|apply Hgg; left; reflexivity].
      apply NoDup_remove_2 in Hn. intros Hi. apply Hn. apply in_or_app. left. exact Hi.
    - apply IH; [assumption | unfold step; rewrite <- app_assoc; exact Hn | intros m Hm; apply Hgg; right; exact Hm]. }
  destruct (iter_roundtrip
              (fun l => n0 <- read_string ;; lift (if guard n0 then Err (ECatalog what) else add_unique what l n0))
              w_string step P Hbody (fun l n _ => w_string_nonempty n) names [] rest
              (Hchain names [] Hwf Hnd Hg)) as [t Et].
  exists t. rewrite Et. unfold step. rewrite fold_left_snoc. reflexivity.
Qed.

(** ** columns and table schemas *)
Definition col_ok (c : column) : Prop := wf_str (c_name c) = true /\ supported (c_type c) = true.

Lemma format_data_type_wf ty :
  supported ty = true -> utf8_valid (format_data_type ty) = true /\ blen (format_data_type ty) < 2 ^ 32.
Proof.
  intros Hs.
  assert (H : is_ascii (format_data_type ty) = true /\ (length (format_data_type ty) <= 200)%nat).
  { destruct ty as [| | | |pr| | |[n|]|n| | |[|]|[|]|dbg|p1 s1|p1 s1| | | |bl|ud|]; cbn [supported] in Hs;
      try discriminate; try (split; [reflexivity | cbn; lia]).
    - apply inr_spec in Hs. cbn [format_data_type]. rewrite !is_ascii_app, show_uint_ascii by lia.
      split; [reflexivity|]. rewrite !app_length. pose proof (show_uint_length pr). lits. cbn [length]. lia.
    - apply inr_spec in Hs. cbn [format_data_type]. rewrite !is_ascii_app, show_uint_ascii by lia.
      split; [reflexivity|]. rewrite !app_length. pose proof (show_uint_length n). lits. cbn [length]. lia.
    - apply inr_spec in Hs. cbn [format_data_type]. rewrite !is_ascii_app, show_uint_ascii by lia.
      split; [reflexivity|]. rewrite !app_length. pose proof (show_uint_length n). lits. cbn [length]. lia.
    - apply andb_true_iff in Hs. destruct Hs as [H1 H2]. apply inr_spec in H1, H2.
      cbn [format_data_type]. rewrite !is_ascii_app, !show_uint_ascii by lia.
      split; [reflexivity|]. rewrite !app_length. pose proof (show_uint_length p1). pose proof (show_uint_length s1). lits. change (lit ", ") with [44; 32]. cbn [length]. lia.
    - apply andb_true_iff in Hs. destruct Hs as [H1 H2]. apply inr_spec in H1, H2.
      cbn [format_data_type]. rewrite !is_ascii_app, !show_uint_ascii by lia.
      split; [reflexivity|]. rewrite !app_length. pose proof (show_uint_length p1). pose proof (show_uint_length s1). lits. change (lit ", ") with [44; 32]. cbn [length]. lia. }
  destruct H as [Ha Hl]. split; [apply is_ascii_utf8; exact Ha|]. unfold blen.
  assert (Z.of_nat (length (format_data_type ty)) <= 200) by lia. lia.
Qed.

Lemma read_column_roundtrip : reads read_column write_column (fun c => c) col_ok.
Proof.
  intros c rest [Hn Hs]. unfold read_column, write_column. rewrite <- !app_assoc.
  apply wf_str_utf8 in Hn. destruct Hn as [Hu Hl].
  rewrite (bind_ok _ _ _ _ _ _ (string_roundtrip (c_name c) _ Hu Hl)).
  destruct (format_data_type_wf _ Hs) as [Hu2 Hl2].
  rewrite (bind_ok _ _ _ _ _ _ (string_roundtrip (format_data_type (c_type c)) _ Hu2 Hl2)).
  rewrite (bind_ok _ _ _ _ _ _ (bool_roundtrip (c_nullable c) rest)).
  rewrite (type_roundtrip _ Hs). destruct c. eexists. reflexivity.
Qed.

Lemma write_column_nonempty c : write_column c <> [].
Proof. unfold write_column, w_string. cbn [le_bytes app]. discriminate. Qed.

Definition schema_ok (t : table) : Prop :=
  wf_str (t_name t) = true /\ Z.of_nat (length (t_cols t)) < 2 ^ 32 /\ Forall col_ok (t_cols t).

Lemma read_table_schema_roundtrip : reads read_table_schema write_table_schema strip schema_ok.
Proof.
  intros t rest (Hn & Hc & Hcols). unfold read_table_schema, write_table_schema, w_list. rewrite <- !app_assoc.
  apply wf_str_utf8 in Hn. destruct Hn as [Hu Hl].
  rewrite (bind_ok _ _ _ _ _ _ (string_roundtrip (t_name t) _ Hu Hl)).
  rewrite (bind_ok _ _ _ _ _ _ (u32_roundtrip _ _ (conj (Nat2Z.is_nonneg _) Hc))).
  destruct (loop_roundtrip read_column write_column (fun c => c) col_ok read_column_roundtrip
              (fun c _ => write_column_nonempty c) (t_cols t) rest Hcols) as [t1 E1].
  rewrite map_id in E1. rewrite (bind_ok _ _ _ _ _ _ E1). eexists. reflexivity.
Qed.

Lemma write_table_schema_nonempty t : write_table_schema t <> [].
Proof. unfold write_table_schema, w_string. cbn [le_bytes app]. discriminate. Qed.

Lemma fold_create_tables s r : forall ts acc,
  NoDup (map t_name (acc ++ ts)) ->
  fold_out create_table ts (mkDb s r acc [] []) = Ok (mkDb s r (acc ++ ts) [] []) [].
Proof.
  induction ts as [|t ts IH]; intros acc Hnd; cbn [fold_out]; [now rewrite app_nil_r|].
  unfold create_table at 1. cbn [d_tables].
  assert (Hex : existsb (fun t' => bytes_eqb (t_name t') (t_name t)) acc = false).
  { destruct (existsb _ acc) eqn:E; [|reflexivity]. apply existsb_exists in E. destruct E as (x & Hx & He).
    apply bytes_eqb_eq in He. rewrite map_app in Hnd. cbn [map] in Hnd. apply NoDup_remove_2 in Hnd.
    exfalso. apply Hnd. apply in_or_app. left. rewrite <- He. apply in_map. exact Hx. }
  rewrite Hex. cbv iota. cbv beta.
  change (set_tables (mkDb s r acc [] []) (acc ++ [t])) with (mkDb s r (acc ++ [t]) [] []).
  rewrite (IH (acc ++ [t])); [rewrite <- app_assoc; reflexivity|]. rewrite <- app_assoc. exact Hnd.
Qed.

(** ** index definitions *)
Definition icol_ok (c : bytes * Z) : Prop :=
  wf_str (fst c) = true /\ existsb (Z.eqb (snd c)) bin_direction_tags = true /\ 0 <= snd c < 256.
Definition ispec (i : index) : bytes * bytes * bool * list (bytes * Z) := (i_name i, i_table i, i_unique i, i_cols i).
Definition index_wire_ok (i : index) : Prop :=
  wf_str (i_name i) = true /\ wf_str (i_table i) = true
  /\ Z.of_nat (length (i_cols i)) < 2 ^ 32 /\ Forall icol_ok (i_cols i).

Lemma read_icol_roundtrip :
  reads (c <- read_string ;; dirb <- read_u8 ;;
         if existsb (Z.eqb dirb) bin_direction_tags then ret (c, dirb) else fail (EEnum 0 dirb))
        (fun '(c, dir) => w_string c ++ w_u8 dir) (fun c => c) icol_ok.
Proof.
  intros [c dir] rest (Hn & Hd & Hr). cbn [fst snd] in *. rewrite <- app_assoc.
  apply wf_str_utf8 in Hn. destruct Hn as [Hu Hl].
  rewrite (bind_ok _ _ _ _ _ _ (string_roundtrip c _ Hu Hl)).
  rewrite (bind_ok _ _ _ _ _ _ (u8_roundtrip dir rest Hr)). rewrite Hd. eexists. reflexivity.
Qed.

Lemma read_index_spec_roundtrip : reads read_index_spec write_index ispec index_wire_ok.
Proof.
  intros i rest (Hn & Ht & Hc & Hcols). unfold read_index_spec, write_index, w_list. rewrite <- !app_assoc.
  apply wf_str_utf8 in Hn. destruct Hn as [Hu Hl]. apply wf_str_utf8 in Ht. destruct Ht as [Hu2 Hl2].
  rewrite (bind_ok _ _ _ _ _ _ (string_roundtrip (i_name i) _ Hu Hl)).
  rewrite (bind_ok _ _ _ _ _ _ (string_roundtrip (i_table i) _ Hu2 Hl2)).
  rewrite (bind_ok _ _ _ _ _ _ (bool_roundtrip (i_unique i) _)).
  rewrite (bind_ok _ _ _ _ _ _ (u32_roundtrip _ _ (conj (Nat2Z.is_nonneg _) Hc))).
  destruct (loop_roundtrip _ (fun '(c, dir) => w_string c ++ w_u8 dir) (fun c => c) icol_ok read_icol_roundtrip
              (fun c _ => ltac:(destruct c as [c0 d0]; unfold w_string; cbn [le_bytes app]; discriminate))
              (i_cols i) rest Hcols) as [t1 E1].
  rewrite map_id in E1. rewrite (bind_ok _ _ _ _ _ _ E1). eexists. reflexivity.
Qed.

Lemma write_index_nonempty i : write_index i <> [].
Proof. unfold write_index, w_string. cbn [le_bytes app]. discriminate. Qed.

Definition clear (i : index) : index := mkIndex (i_name i) (i_table i) (i_unique i) (i_cols i) [].

Definition index_sem_ok (ts : list table) (i : index) : Prop :=
  is_ascii (i_name i) = true /\ ascii_upper (i_name i) = i_name i /\
  exists ti t idxs, index_table_idx (mkDb [] [] ts [] []) (i_table i) = Some ti
                    /\ nth_error ts ti = Some t /\ columns_idx (t_cols t) (i_cols i) = POk idxs
                    /\ index_unique_ok (i_unique i) (t_rows t) idxs = POk tt.

Lemma find_key_strip ts k : find_key (map strip ts) k = find_key ts k.
Proof. unfold find_key. rewrite find_idx_map. reflexivity. Qed.

Lemma index_table_idx_strip s r ts a g n :
  index_table_idx (mkDb s r (map strip ts) a g) n = index_table_idx (mkDb [] [] ts [] []) n.
Proof.
  unfold index_table_idx. cbn [d_tables]. rewrite !find_key_strip.
  destruct (match find_key ts n with
            | Some i => Some i
            | None => if has_dot n then None else find_key ts (public_dot ++ n)
            end); [|reflexivity].
  destruct (split_once_dot n) as [[sch tn]|]; [destruct (bytes_eqb sch (lit "public"))|];
    try reflexivity; rewrite find_idx_map; reflexivity.
Qed.

Lemma fold_create_indexes s r ts : forall is acc,
  NoDup (map i_name (acc ++ is)) -> Forall (index_sem_ok ts) is ->
  fold_out (fun d '(n, tn, u, cols) => create_index d n tn u cols) (map ispec is)
           (mkDb s r (map strip ts) acc [])
  = Ok (mkDb s r (map strip ts) (acc ++ map clear is) []) [].
Proof.
  induction is as [|i is IH]; intros acc Hnd Hok; cbn [map fold_out]; [now rewrite app_nil_r|].
  inversion Hok as [|? ? Hi His]; subst. destruct Hi as (Ha & Hup & ti & t & idxs & Hti & Hnth & Hcols & _).
  unfold ispec at 1. unfold create_index at 1.
  rewrite index_table_idx_strip, Hti, Ha. cbn [negb]. rewrite Hup. cbn [d_indexes d_tables].
  assert (Hex : existsb (fun i0 => bytes_eqb (i_name i0) (i_name i)) acc = false).
  { destruct (existsb _ acc) eqn:E; [|reflexivity]. apply existsb_exists in E. destruct E as (x & Hx & He).
    apply bytes_eqb_eq in He. rewrite map_app in Hnd. cbn [map] in Hnd. apply NoDup_remove_2 in Hnd.
    exfalso. apply Hnd. apply in_or_app. left. rewrite <- He. apply in_map. exact Hx. }
  rewrite Hex. rewrite (map_nth_error strip ti ts Hnth). cbn [strip t_cols t_rows]. rewrite Hcols.
  assert (Hu : index_unique_ok (i_unique i) [] idxs = POk tt) by (unfold index_unique_ok; destruct (i_unique i); reflexivity).
  rewrite Hu.
  cbn [entries_from d_schemas d_roles d_triggers].
  change (mkIndex (i_name i) (i_table i) (i_unique i) (i_cols i) []) with (clear i).
  rewrite (IH (acc ++ [clear i])).
  - rewrite <- app_assoc. reflexivity.
  - rewrite <- app_assoc. rewrite !map_app in *. cbn [map app] in *. exact Hnd.
  - exact His.
Qed.

(** * the whole file *)
Record wf_db (E : env) (d : db) : Prop := mkWf {
  w_trig : d_triggers d = [];
  w_sch_wf : Forall (fun n => wf_str n = true) (d_schemas d);
  w_sch_nd : NoDup (d_schemas d);
  w_sch_pub : ~ In (lit "public") (d_schemas d);
  w_sch_len : Z.of_nat (length (d_schemas d)) < 2 ^ 32;
  w_role_wf : Forall (fun n => wf_str n = true) (d_roles d);
  w_role_nd : NoDup (d_roles d);
  w_role_len : Z.of_nat (length (d_roles d)) < 2 ^ 32;
  w_tab_len : Z.of_nat (length (d_tables d)) < 2 ^ 32;
  w_tab_nd : NoDup (map t_name (d_tables d));
  w_tab_ok : Forall (table_ok E) (d_tables d);
  w_tab_schema : Forall schema_ok (d_tables d);
  w_idx_len : Z.of_nat (length (d_indexes d)) < 2 ^ 32;
  w_idx_nd : NoDup (map i_name (d_indexes d));
  w_idx_wire : Forall index_wire_ok (d_indexes d);
  w_idx_sem : Forall (index_sem_ok (d_tables d)) (d_indexes d);
}.

Lemma catalog_roundtrip E d rest :
  wf_db E d ->
  exists t, read_catalog E (write_catalog d ++ rest)
            = (t, Ok (mkDb (d_schemas d) (d_roles d) (map strip (d_tables d)) (map clear (d_indexes d)) []) rest).
Proof.
  intros W. unfold read_catalog, write_catalog, w_list. rewrite <- !app_assoc.
  (* schemas *)
  rewrite (bind_ok _ _ _ _ _ _ (u32_roundtrip _ _ (conj (Nat2Z.is_nonneg _) (w_sch_len _ _ W)))).
  destruct (names_roundtrip 0 (fun n => bytes_eqb n (lit "public")) (d_schemas d)
              (w_u32 (Z.of_nat (length (d_roles d))) ++ flat_map w_string (d_roles d) ++
               w_u32 (Z.of_nat (length (d_tables d))) ++ flat_map write_table_schema (d_tables d) ++
               w_u32 (Z.of_nat (length (d_indexes d))) ++ flat_map write_index (d_indexes d) ++ w_u32 0 ++ rest)
              (w_sch_wf _ _ W) (w_sch_nd _ _ W)) as [t1 E1].
  { intros n Hn. apply bytes_eqb_neq. intros ->. exact (w_sch_pub _ _ W Hn). }
  rewrite (bind_ok _ _ _ _ _ _ E1).
  (* roles *)
  rewrite (bind_ok _ _ _ _ _ _ (u32_roundtrip _ _ (conj (Nat2Z.is_nonneg _) (w_role_len _ _ W)))).
  destruct (names_roundtrip 1 (fun _ => false) (d_roles d)
              (w_u32 (Z.of_nat (length (d_tables d))) ++ flat_map write_table_schema (d_tables d) ++
               w_u32 (Z.of_nat (length (d_indexes d))) ++ flat_map write_index (d_indexes d) ++ w_u32 0 ++ rest)
              (w_role_wf _ _ W) (w_role_nd _ _ W) (fun _ _ => eq_refl)) as [t2 E2].
  cbv beta iota in E2. rewrite (bind_ok _ _ _ _ _ _ E2).
  (* table schemas *)
  rewrite (bind_ok _ _ _ _ _ _ (u32_roundtrip _ _ (conj (Nat2Z.is_nonneg _) (w_tab_len _ _ W)))).
  destruct (loop_roundtrip read_table_schema write_table_schema strip schema_ok read_table_schema_roundtrip
              (fun t _ => write_table_schema_nonempty t) (d_tables d)
              (w_u32 (Z.of_nat (length (d_indexes d))) ++ flat_map write_index (d_indexes d) ++ w_u32 0 ++ rest)
              (w_tab_schema _ _ W)) as [t3 E3].
  rewrite (bind_ok _ _ _ _ _ _ E3).
  assert (Hnd' : NoDup (map t_name ([] ++ map strip (d_tables d)))).
  { cbn [app]. rewrite map_strip_names. exact (w_tab_nd _ _ W). }
  rewrite (fold_create_tables (d_schemas d) (d_roles d) (map strip (d_tables d)) [] Hnd'). cbn [app].
  rewrite (bind_ok _ _ _ _ _ _ (lift_ok _ _ _)).
  (* indexes *)
  rewrite (bind_ok _ _ _ _ _ _ (u32_roundtrip _ _ (conj (Nat2Z.is_nonneg _) (w_idx_len _ _ W)))).
  destruct (loop_roundtrip read_index_spec write_index ispec index_wire_ok read_index_spec_roundtrip
              (fun i _ => write_index_nonempty i) (d_indexes d) (w_u32 0 ++ rest) (w_idx_wire _ _ W)) as [t4 E4].
  rewrite (bind_ok _ _ _ _ _ _ E4).
  rewrite (fold_create_indexes (d_schemas d) (d_roles d) (d_tables d) (d_indexes d) []
             (w_idx_nd _ _ W) (w_idx_sem _ _ W)). cbn [app].
  rewrite (bind_ok _ _ _ _ _ _ (lift_ok _ _ _)).
  (* triggers: none *)
  rewrite (bind_ok _ _ _ _ _ _ (u32_roundtrip 0 rest u32_range_0)).
  rewrite (bind_ok _ _ _ _ _ _ (iter_zero _ _ _)). unfold ret.
  cbn [d_schemas d_roles d_tables d_indexes]. eexists. reflexivity.
Qed.

(** ** the final index rebuild *)
Lemma rebuild_index_tables s r ts a g s' r' a' g' i :
  rebuild_index (mkDb s r ts a g) i = rebuild_index (mkDb s' r' ts a' g') i.
Proof. reflexivity. Qed.

Lemma rebuild_all_tables s r ts a g s' r' a' g' l :
  rebuild_all (mkDb s r ts a g) l = rebuild_all (mkDb s' r' ts a' g') l.
Proof.
  induction l as [|i l IH]; cbn [rebuild_all]; [reflexivity|].
  rewrite (rebuild_index_tables s r ts a g s' r' a' g' i), IH. reflexivity.
Qed.

Lemma rebuild_all_clear d l : rebuild_all d (map clear l) = rebuild_all d l.
Proof. induction l as [|i l IH]; cbn [map rebuild_all]; [reflexivity|]. rewrite IH. reflexivity. Qed.

(** resolvable index definitions are rebuilt successfully *)
Lemma rebuild_all_ok d l :
  Forall (index_sem_ok (d_tables d)) l -> exists l', rebuild_all d l = Ok l' [].
Proof.
  induction l as [|i l IH]; intros H; cbn [rebuild_all]; [eexists; reflexivity|].
  inversion H as [|? ? Hi Hl]; subst. destruct Hi as (_ & _ & ti & t & idxs & Hti & Hnth & Hc & Hu).
  destruct (IH Hl) as [l' El].
  unfold rebuild_index.
  assert (Hti' : index_table_idx d (i_table i) = Some ti).
  { destruct d. exact Hti. }
  rewrite Hti', Hnth, Hc, Hu, El. eexists. reflexivity.
Qed.

(** the loaded database: everything back -- schemas, roles, tables, columns, types, nullability, rows
    bit for bit and in order, index definitions, and the index contents rebuilt from the rows *)
Theorem file_roundtrip E d extra :
  wf_db E d -> load_result E (save_binary d ++ extra) = Ok (with_indexes_built d) extra.
Proof.
  intros W. unfold load_result, load_binary, save_binary. rewrite <- !app_assoc.
  rewrite (snd_bind_ok _ _ _ _ _ _ (read_header_ok _)).
  destruct (catalog_roundtrip E d (write_data d ++ extra) W) as [t1 E1].
  rewrite (snd_bind_ok _ _ _ _ _ _ E1).
  destruct (tables_roundtrip E (d_schemas d) (d_roles d) (map clear (d_indexes d)) [] (d_tables d) extra
              (w_tab_nd _ _ W) (w_tab_ok _ _ W)) as [t2 E2].
  unfold write_data, read_data. cbn [d_tables].
  rewrite (snd_bind_ok _ _ _ _ _ _ E2).
  destruct (rebuild_all_ok d (d_indexes d) (w_idx_sem _ _ W)) as [l' El].
  unfold with_indexes_built, rebuild_indexes. cbn [d_indexes d_schemas d_roles d_tables d_triggers].
  rewrite rebuild_all_clear.
  rewrite (rebuild_all_tables (d_schemas d) (d_roles d) (d_tables d) (map clear (d_indexes d)) []
             (d_schemas d) (d_roles d) (d_indexes d) (d_triggers d)).
  assert (Ed : mkDb (d_schemas d) (d_roles d) (d_tables d) (d_indexes d) (d_triggers d) = d) by (destruct d; reflexivity).
  rewrite Ed, El, (w_trig _ _ W). reflexivity.
Qed.

(** ... hence exactly the saved database when its index contents are the ones built from its rows
    (which is what the storage layer maintains) *)
Corollary file_roundtrip_exact E d extra :
  wf_db E d -> with_indexes_built d = d -> load_result E (save_binary d ++ extra) = Ok d extra.
Proof. intros W Hd. rewrite (file_roundtrip E d extra W), Hd. reflexivity. Qed.

(** * the hypotheses are satisfiable: a database with an index, a VARCHAR(10) and a DATE column *)
Definition db_example : db :=
  mkDb [lit "s2"] [lit "r1"]
       [mkTable (lit "T") [mkCol (lit "A") TInteger false; mkCol (lit "B") (TVarchar (Some 10)) true; mkCol (lit "C") TDate true]
          [[BV (VInteger 1); BV (VVarchar [195; 169; 39]); BV (VDate 2024 2 29)];
           [BV (VInteger (-9007199254740992)); BV VNull; BV VNull]] 0;
        mkTable (lit "U") [mkCol (lit "X") TDouble true] [[BV (VDouble 9221120237041090560)]; [BV (VDouble 9223372036854775808)]] 0]
       [mkIndex (lit "IA") (lit "T") true [(lit "A", 1)]
          [([BV (VInteger 1)], 0); ([BV (VInteger (-9007199254740992))], 1)]] [].

Example db_example_wf : wf_db E0 db_example.
Proof.
  assert (Hv : forall v, wf_bvalue v = true -> temporal_roundtrips E0 v -> value_ok E0 v) by (intros; split; assumption).
  constructor.
  - reflexivity.
  - repeat constructor.
  - repeat constructor; cbn; intuition discriminate.
  - cbn. intuition discriminate.
  - cbn. lia.
  - repeat constructor.
  - repeat constructor; cbn; intuition discriminate.
  - cbn. lia.
  - cbn. lia.
  - cbn. repeat constructor; cbn; intuition discriminate.
  - repeat constructor; try (cbn; lia); try reflexivity;
      try (apply Hv; [reflexivity | cbn; try exact I; try (vm_compute; reflexivity)]).
  - repeat constructor; try (cbn; lia); try reflexivity.
  - cbn. lia.
  - repeat constructor; cbn; intuition discriminate.
  - repeat constructor; try (cbn; lia); try reflexivity.
  - repeat constructor; try reflexivity. exists 0%nat. eexists. eexists. repeat split; reflexivity.
Qed.

Example db_example_roundtrip :
  load_result E0 (save_binary db_example ++ [1; 2; 3]) = Ok db_example [1; 2; 3].
Proof. exact (file_roundtrip_exact E0 db_example [1; 2; 3] db_example_wf eq_refl). Qed.
