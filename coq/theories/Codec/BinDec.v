(** Decimal text of integers as the persistence code produces and consumes it:
    - [show_uint]/[show_int]  = [Display] of an unsigned / signed integer
    - [pad0 w z]              = [format!("{:0w$}", z)] (sign-aware zero padding)
    - [parse_uint max s]      = [s.parse::<uN>()] with [uN::MAX = max]  (optional leading '+', at least
                                one ASCII digit, nothing else, value <= max; [None] = [Err])
    - Display of Date / Time / Timestamp (vibesql-types/src/temporal/{date,time,timestamp}.rs)
    No proofs in this file. *)
From Coq Require Import List ZArith Bool.
From VibeSQL Require Import Codec.BinUtf8.
Import ListNotations.
Open Scope Z_scope.

Definition is_digit (c : Z) : bool := inr 48 57 c.

Fixpoint digits_rev (fuel : nat) (n : Z) : bytes :=
  match fuel with
  | O => []
  | S f => if n <? 10 then [48 + n] else (48 + n mod 10) :: digits_rev f (n / 10)
  end.
(** exact for [0 <= n < 10^40] (u64/usize/i64 magnitudes have at most 20 digits) *)
Definition show_uint (n : Z) : bytes := rev (digits_rev 40 n).
Definition show_int (z : Z) : bytes := if z <? 0 then 45 :: show_uint (- z) else show_uint z.

Definition pad0 (w : nat) (z : Z) : bytes :=
  if z <? 0 then let d := show_uint (- z) in 45 :: repeat 48 (w - 1 - length d) ++ d
  else let d := show_uint z in repeat 48 (w - length d) ++ d.

Fixpoint digits_val (acc : Z) (s : bytes) : option Z :=
  match s with
  | [] => Some acc
  | c :: r => if is_digit c then digits_val (acc * 10 + (c - 48)) r else None
  end.

Definition strip_plus (s : bytes) : bytes :=
  match s with
  | c :: r => if c =? 43 then r else s
  | [] => s
  end.

Definition parse_uint (max : Z) (s : bytes) : option Z :=
  let s' := strip_plus s in
  match s' with
  | [] => None
  | _ => match digits_val 0 s' with
         | Some v => if v <=? max then Some v else None
         | None => None
         end
  end.

Definition u8_max : Z := 255.
Definition usize_max : Z := 18446744073709551615.

(** * temporal Display *)
(** [write!(f, "{:04}-{:02}-{:02}", year, month, day)] *)
Definition show_date (y m d : Z) : bytes := pad0 4 y ++ [45] ++ pad0 2 m ++ [45] ++ pad0 2 d.

Fixpoint strip_trailing_zeros_rev (r : bytes) : bytes :=
  match r with
  | c :: r' => if c =? 48 then strip_trailing_zeros_rev r' else r
  | [] => r
  end.
Definition trim_end_zeros (s : bytes) : bytes := rev (strip_trailing_zeros_rev (rev s)).

(** [{:02}:{:02}:{:02}] and, when [nanosecond != 0], ['.'] + [{:09}] with trailing zeros trimmed *)
Definition show_time (h mi s ns : Z) : bytes :=
  pad0 2 h ++ [58] ++ pad0 2 mi ++ [58] ++ pad0 2 s ++
  (if ns =? 0 then [] else 46 :: trim_end_zeros (pad0 9 ns)).

(** ["{} {}"] of date and time *)
Definition show_timestamp (y m d h mi s ns : Z) : bytes := show_date y m d ++ [32] ++ show_time h mi s ns.
